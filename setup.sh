#!/bin/sh
# Build everything from files on disk, offline: harness tools, regenerated Lean
# modules (from /repo's working tree) and the whole Lean project.
set -e
cd "$(dirname "$0")"
export GOFLAGS=-mod=mod GOPROXY=off GOSUMDB=off GOTOOLCHAIN=local
mkdir -p .build/bin evidence replays lean/GoaVerif/Generated
cp /repo/go.sum harness/go.sum 2>/dev/null || true
(cd harness && for c in cmd/*; do go build -tags verif -o ../.build/bin/$(basename $c) ./$c; done)
python3 - <<'PY'
import sys
sys.path.insert(0, '.')
from vlib.regen import regen_all
sys.exit(regen_all())
PY
(cd lean && lake build)
