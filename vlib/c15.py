"""C15 — content negotiation. Theorems: lean/GoaVerif/Props/C15.lean over Model/Encoding.lean
(hand-written; mime.ParseMediaType is an oracle parameter). Tie T3: rtenc (real goa http
package, real codecs, httptest recorder) vs drv_enc."""
import os
from .core import BIN, LEAN, sh

CONSTS = ["application/json", "application/xml", "application/gob", "text/html", "text/plain"]


def dec(tok):
    return "" if tok == "-" else bytes.fromhex(tok).decode("utf-8", "replace")


def table(toks):
    i = toks.index("T")
    n = int(toks[i + 1])
    rows = toks[i + 2:]
    return {dec(rows[3 * k]): (dec(rows[3 * k + 1]), rows[3 * k + 2] == "1") for k in range(n)}


def fields(obs):
    return dict(p.split("=", 1) for p in obs.split(" ") if "=" in p)


def oracle(op, obs):
    toks = op.split()
    if obs.startswith("panic"):
        return ("panic/" + toks[0], "implementation panicked", "no panic")
    f = fields(obs)
    if toks[0] == "respenc":
        accept, ct, preset = dec(toks[1]), dec(toks[2]), dec(toks[3])
        if f.get("enc") == "nil":
            return ("respenc/nil-encoder", "ResponseEncoder returned a nil encoder", "a non-nil encoder")
        if f.get("rt") not in ("ok", "na"):
            if "+" in preset:
                sig = "respenc/preset-has-suffix"
            elif ";" in preset:
                sig = "respenc/preset-has-params"
            elif preset:
                sig = "respenc/preset-other"
            else:
                sig = "respenc/no-preset"
            return (sig, "body written as %s but Content-Type %r makes ResponseDecoder choose %s (accept=%r designed=%r preset=%r)"
                    % (f.get("enc"), dec(f.get("hdr", "-")), f.get("dec"), accept, ct, preset), "rt=ok")
        if not ct and not preset:
            t = table(toks)
            neg = {"": "json", "application/json": "json", "application/xml": "xml", "application/gob": "gob",
                   "text/html": "text", "text/plain": "text"}
            want = neg.get(accept)
            if want is None:
                mt, ok = t.get(accept, ("", False))
                want = neg.get(mt, "json") if ok else "json"
            if f.get("enc") != want:
                return ("respenc/negotiation", "Accept %r negotiated %s, expected %s" % (accept, f.get("enc"), want), want)
    elif toks[0] == "reqdec":
        h = dec(toks[1])
        t = table(toks)
        ct = "application/json"
        if h:
            mt, ok = t.get(h, ("", False))
            ct = mt if ok else h
        want = {"application/json": "json", "application/gob": "gob", "application/xml": "xml",
                "text/html": "text", "text/plain": "text"}.get(ct)
        if want is None:
            if not f.get("dec", "").startswith("unsupported:") or f.get("status") != "415":
                return ("reqdec/unsupported", "media type %r is not answered with 415/unsupported_media_type" % ct, "unsupported 415")
        elif f.get("dec") != want:
            return ("reqdec/table", "request media type %r decoded as %s" % (ct, f.get("dec")), want)
    elif toks[0] == "notfound":
        if obs != "nf=ok":
            return ("notfound/" + obs.split("=", 1)[1].split(":")[0], "the muxer's reply to an unrouted request with Accept %r: %s" % (dec(toks[1]), obs), "nf=ok")
    elif toks[0] == "keep":
        if obs != "keep=ok":
            return ("decode/value-changed-by-later-decode", "a value decoded from a %s body (%s side) %s after another body was decoded" %
                    (dec(toks[2]), toks[1], obs.replace("keep=", "")), "keep=ok")
    elif toks[0] == "reqenc":
        h = dec(toks[1])
        want = "enc=json hdr=" + (toks[1] if h else "application/json".encode().hex())
        if obs != want:
            return ("reqenc", "RequestEncoder: %s" % obs, want)
    return None


def pm_hypotheses(c, ops):
    """H1/H2 of the theorems, checked on the real mime.ParseMediaType results carried by the ops."""
    bad = 0
    n = 0
    for op in ops:
        toks = op.split()
        if "T" not in toks:
            continue
        t = table(toks)
        for s, (mt, ok) in t.items():
            n += 1
            if ok and mt and mt in t and t[mt] != (mt, True):
                bad += 1
                c.broken.append({"kind": "tie", "name": "hypothesis PMIdem fails on the real mime package",
                                 "detail": "ParseMediaType(%r)=%r but ParseMediaType(%r)=%r" % (s, mt, mt, t[mt])})
        for k in CONSTS:
            if k in t and t[k] != (k, True):
                bad += 1
                c.broken.append({"kind": "tie", "name": "hypothesis PMConst fails on the real mime package", "detail": k})
        if bad:
            break
    c.cov["ties"]["pm_hypotheses_checked"] = n


def run(c):
    c.cov["rule"] = ("full product of %s Accept values x designed content types x pre-set headers (value kind rotating; all "
                     "three kinds in thorough) + random media-type strings from a grammar (case, suffixes, parameters, lists, "
                     "garbage); each case: real ResponseEncoder on a recorder, real Encode of a struct/string/[]byte, real "
                     "ResponseDecoder chosen from the recorded header, decoded value compared. distinct = distinct "
                     "(accept,ct,preset,kind); non-trivial = Accept or designed content type non-empty.") % "23x22x9"
    c.cov["trusted_base"] += [
        "Model/Encoding.lean hand-written from http/encoding.go, tied by correspondence rtenc <-> drv_enc (selection logic only)",
        "mime.ParseMediaType is an oracle; hypotheses PMIdem/PMConst are checked on the real package for every string of the run",
        "encoding/json|xml|gob and the text codec are library code: their round trip is exercised by the run, not proved",
        "gotolean (T1) for ErrorResponse.StatusCode used by unsupported_415",
    ]
    c.assumptions += ["request-side pre-set Content-Type other than JSON is outside the property's quantifier (characterised in DESIGN.md)"]
    have = c.go_build("gotolean", "rtenc")
    ok_model = False
    if have and c.gotolean("status", "TrStatus"):
        if c.lake_build("GoaVerif.Props.C15"):
            c.audit("C15")
            if c.tier == "thorough":
                c.leanchecker("C15")
        ok_model = c.lake_build("drv_enc", what="tie")
    if not os.path.exists(os.path.join(BIN, "rtenc")):
        return
    rc, so, se = sh([os.path.join(BIN, "rtenc"), "gen", "-seed", str(c.seed), "-tier", c.tier])
    ops = c.corpus() + so.splitlines()
    impl_cmd = [os.path.join(BIN, "rtenc"), "run"]
    if ok_model:
        impl, model, dis = c.correspondence("content negotiation", ops, impl_cmd, [os.path.join(LEAN, ".lake/build/bin/drv_enc")])
        if any(m == "oracle-miss" for m in model):
            c.broken.append({"kind": "tie", "name": "model asked the ParseMediaType oracle for a string outside the op's table",
                             "detail": next(o for o, m in zip(ops, model) if m == "oracle-miss")[:300]})
    else:
        rc, impl, se = c.run_lines(impl_cmd, "\n".join(ops) + "\n")
        dis = []
        c.evaluations += len(ops)
    pm_hypotheses(c, ops)
    failed = set()
    for i, op in enumerate(ops):
        if i >= len(impl):
            break
        toks = op.split()
        c.hist("op", toks[0])
        if toks[0] == "respenc":
            f = fields(impl[i])
            c.hist("encoder", f.get("enc"))
            c.hist("roundtrip", f.get("rt"))
            c.hist("preset", "none" if toks[3] == "-" else "set")
            if toks[1] != "-" or toks[2] != "-":
                c.count(" ".join(toks[:5]))
        else:
            c.count(" ".join(toks[:3]))
        r = oracle(op, impl[i])
        if r:
            failed.add(i)
            c.fail(r[0], r[1], input=op, expected=r[2], actual=impl[i])
    unexplained = [d for d in dis if d[0] not in failed]
    if unexplained:
        i, op, a, b = unexplained[0]
        c.broken.append({"kind": "correspondence", "name": "rtenc vs drv_enc",
                         "first_disagreement": {"input": op, "implementation": a, "model": b}, "count": len(unexplained)})
    for i in (3, len(ops) // 3, len(ops) - 2):
        if 0 <= i < len(impl):
            c.sample({"op": " ".join(ops[i].split()[:5]), "implementation": impl[i]})


def corpus():
    p = os.path.join(os.path.dirname(os.path.dirname(os.path.abspath(__file__))), "corpus", "C15")
    out = []
    if os.path.isdir(p):
        for f in sorted(os.listdir(p)):
            out += [l.strip() for l in open(os.path.join(p, f)) if l.strip() and not l.startswith("#")]
    return out


def replay(c, obj):
    op = obj["failure"]["input"]
    c.go_build("rtenc")
    rc, impl, se = c.run_lines([os.path.join(BIN, "rtenc"), "run"], op + "\n")
    print("op:  ", op)
    print("impl:", impl[0] if impl else se)
    r = oracle(op, impl[0]) if impl else ("x",)
    if r:
        print("violates:", r[1] if len(r) > 1 else "")
    return 1 if r else 0
