"""Shared machinery of ./check: building the harness and the Lean project against
/repo's current working tree, the axiom audit, the correspondence runner, known
findings, evidence and the VIOLATION protocol (DESIGN.md §2.6)."""
import fcntl
import hashlib
import json
import os
import re
import shutil
import subprocess
import sys
import tempfile
import time

ROOT = os.path.dirname(os.path.dirname(os.path.abspath(__file__)))
BUILD = os.path.join(ROOT, ".build")
BIN = os.path.join(BUILD, "bin")
LEAN = os.path.join(ROOT, "lean")
HARNESS = os.path.join(ROOT, "harness")
REPO = "/repo"
GUARD_TAG = "verif"

ALLOWED_AXIOMS = {"propext", "Classical.choice", "Quot.sound"}
FORBIDDEN = re.compile(
    r"\bsorry\b|\badmit\b|^\s*axiom\s|native_decide|bv_decide|implemented_by|\bunsafe\s|maxHeartbeats\s+0", re.M)

BASE_TRUST = [
    "Lean 4.33.0 kernel (lake build; leanchecker re-check in the thorough tier)",
    "axioms limited to propext / Classical.choice / Quot.sound (audited per theorem with #print axioms)",
    "no sorry/admit/axiom/native_decide/bv_decide/implemented_by/unsafe (grep over comment-stripped sources)",
]


def goenv():
    e = dict(os.environ)
    e.update(GOFLAGS="-mod=mod", GOPROXY="off", GOSUMDB="off", GOTOOLCHAIN="local", CGO_ENABLED=e.get("CGO_ENABLED", "1"))
    return e


def sh(cmd, cwd=None, env=None, inp=None, timeout=None):
    """Run a command, return (rc, stdout, stderr) as text."""
    try:
        p = subprocess.run(cmd, cwd=cwd, env=env or goenv(), input=inp, capture_output=True, text=True, timeout=timeout)
        return p.returncode, p.stdout, p.stderr
    except subprocess.TimeoutExpired as ex:
        out = ex.stdout.decode() if isinstance(ex.stdout, bytes) else (ex.stdout or "")
        err = ex.stderr.decode() if isinstance(ex.stderr, bytes) else (ex.stderr or "")
        return 124, out, err + "\n[timeout after %ss]" % timeout


class Lock:
    """Serialises go build / lake build between concurrently running checks."""

    def __init__(self, name="build"):
        os.makedirs(BUILD, exist_ok=True)
        self.path = os.path.join(BUILD, name + ".lock")

    def __enter__(self):
        self.f = open(self.path, "w")
        fcntl.flock(self.f, fcntl.LOCK_EX)
        return self

    def __exit__(self, *a):
        fcntl.flock(self.f, fcntl.LOCK_UN)
        self.f.close()


def strip_lean_comments(src):
    out = []
    i, n, depth = 0, len(src), 0
    while i < n:
        if src.startswith("/-", i):
            depth += 1
            i += 2
            continue
        if depth and src.startswith("-/", i):
            depth -= 1
            i += 2
            continue
        if depth:
            if src[i] == "\n":
                out.append("\n")
            i += 1
            continue
        if src.startswith("--", i):
            while i < n and src[i] != "\n":
                i += 1
            continue
        if src[i] == '"':
            j = i + 1
            while j < n and src[j] != '"':
                j += 2 if src[j] == "\\" else 1
            out.append('""')
            i = j + 1
            continue
        out.append(src[i])
        i += 1
    return "".join(out)


class Check:
    def __init__(self, prop, tier, seed, level="proof"):
        self.prop, self.tier, self.seed, self.level = prop, tier, seed, level
        self.t0 = time.time()
        self.broken = []     # obligations / ties that no longer check
        self.failures = []   # concrete failing inputs on the implementation
        self.known_hit = []
        self.cov = {"trusted_base": list(BASE_TRUST), "samples": [], "ties": {}, "distribution": {}}
        self.assumptions = []
        self.obligations = 0
        self.discharged = 0
        self.checker_cmds = []
        self.evaluations = 0
        self.distinct = set()
        self.tmp = tempfile.mkdtemp(prefix="goaverif-%s-" % prop)
        os.makedirs(BIN, exist_ok=True)
        os.makedirs(os.path.join(ROOT, "evidence"), exist_ok=True)
        os.makedirs(os.path.join(ROOT, "replays"), exist_ok=True)

    # ------------------------------------------------------------------ building
    def log(self, *a):
        print("[%s %6.1fs]" % (self.prop, time.time() - self.t0), *a, flush=True)

    def go_build(self, *cmds, race=False):
        """Build harness commands against /repo's working tree (tag verif). Returns True on success."""
        ok = True
        with Lock():
            for c in cmds:
                out = os.path.join(BIN, c + ("-race" if race else ""))
                args = ["go", "build", "-tags", GUARD_TAG]
                if race:
                    args.append("-race")
                rc, so, se = sh(args + ["-o", out, "./cmd/" + c], cwd=HARNESS)
                if rc != 0:
                    ok = False
                    self.broken.append({"kind": "tie", "name": "harness build " + c,
                                        "detail": (so + se)[-3000:]})
                    self.log("harness build failed:", c)
        return ok

    def gotolean(self, setname, module):
        """T1: regenerate GoaVerif/Generated/<module>.lean from /repo."""
        dst = os.path.join(LEAN, "GoaVerif", "Generated", module + ".lean")
        tmp = dst + ".new"
        rc, so, se = sh([os.path.join(BIN, "gotolean"), "-set", setname, "-ns", module, "-o", tmp, "-dir", HARNESS], cwd=HARNESS)
        if rc != 0:
            if os.path.exists(tmp):
                os.remove(tmp)
            self.broken.append({"kind": "tie", "name": "T1 translation of set '%s'" % setname, "detail": (so + se)[-3000:]})
            self.log("gotolean failed:", se.strip()[-300:])
            return False
        self._install(tmp, dst)
        self.cov["ties"].setdefault("T1", []).append({"set": setname, "module": module, "sha256": sha256_file(dst)})
        return True

    def gofacts(self, setname, module, extra=()):
        """T2: regenerate GoaVerif/Generated/<module>.lean with facts extracted from /repo."""
        dst = os.path.join(LEAN, "GoaVerif", "Generated", module + ".lean")
        tmp = dst + ".new"
        rc, so, se = sh([os.path.join(BIN, "gofacts"), "-set", setname, "-ns", module, "-o", tmp, "-dir", HARNESS] + list(extra), cwd=HARNESS)
        if rc != 0:
            if os.path.exists(tmp):
                os.remove(tmp)
            self.broken.append({"kind": "tie", "name": "T2 fact extraction '%s'" % setname, "detail": (so + se)[-3000:]})
            self.log("gofacts failed:", se.strip()[-300:])
            return False
        self._install(tmp, dst)
        self.cov["ties"].setdefault("T2", []).append({"set": setname, "module": module, "sha256": sha256_file(dst)})
        return True

    @staticmethod
    def _install(tmp, dst):
        if os.path.exists(dst) and open(dst, "rb").read() == open(tmp, "rb").read():
            os.remove(tmp)
        else:
            os.replace(tmp, dst)

    def lake_build(self, *targets, what="proof"):
        cmd = ["lake", "build"] + list(targets)
        with Lock():
            rc, so, se = sh(cmd, cwd=LEAN, timeout=3000)
        self.checker_cmds.append("cd lean && " + " ".join(cmd))
        if rc != 0:
            text = so + se
            errs = re.findall(r"error: (GoaVerif/[\w/]+\.lean):(\d+):\d+: (.*)", text)
            names = []
            for f, line, msg in errs:
                th = theorem_at(os.path.join(LEAN, f), int(line))
                names.append("%s:%s %s" % (f, line, th or ""))
            self.broken.append({"kind": what, "name": "lake build " + " ".join(targets),
                                "theorems": sorted(set(names)), "detail": text[-4000:]})
            self.log("lake build FAILED for", targets, names[:5])
            return False
        return True

    # ------------------------------------------------------------------ audit
    def audit(self, module):
        """Count the theorems of Props/<module>.lean and check their axioms."""
        path = os.path.join(LEAN, "GoaVerif", "Props", module + ".lean")
        src = open(path).read()
        stripped = strip_lean_comments(src)
        names = re.findall(r"^(?!private)\s*theorem\s+([\w.']+)", stripped, re.M)
        ns = re.search(r"^namespace\s+([\w.]+)", stripped, re.M).group(1)
        self.obligations += len(names)
        # forbidden constructs anywhere in the project sources
        bad = []
        for root, _, files in os.walk(os.path.join(LEAN, "GoaVerif")):
            for f in files:
                if f.endswith(".lean"):
                    s = strip_lean_comments(open(os.path.join(root, f)).read())
                    for m in FORBIDDEN.finditer(s):
                        bad.append("%s: %s" % (os.path.relpath(os.path.join(root, f), LEAN), m.group(0).strip()))
        if bad:
            self.broken.append({"kind": "proof", "name": "forbidden construct", "detail": "; ".join(bad[:20])})
        audit_file = os.path.join(self.tmp, "Audit.lean")
        with open(audit_file, "w") as f:
            f.write("import GoaVerif.Props.%s\n" % module)
            for n in names:
                f.write("#print axioms %s.%s\n" % (ns, n))
        rc, so, se = sh(["lake", "env", "lean", audit_file], cwd=LEAN, timeout=900)
        self.checker_cmds.append("cd lean && lake env lean <Audit: #print axioms for every theorem of Props/%s.lean>" % module)
        axioms = {}
        for m in re.finditer(r"'([^']+)' (depends on axioms: \[([^\]]*)\]|does not depend on any axioms)", so.replace("\n", " ")):
            axs = [a.strip() for a in (m.group(3) or "").split(",") if a.strip()]
            axioms[m.group(1)] = axs
        ok = 0
        for n in names:
            full = ns + "." + n
            if full not in axioms:
                self.broken.append({"kind": "proof", "name": "audit: no axiom report for " + full, "detail": (so + se)[-1500:]})
                continue
            extra = [a for a in axioms[full] if a not in ALLOWED_AXIOMS]
            if extra:
                self.broken.append({"kind": "proof", "name": "audit: inadmissible axioms in " + full, "detail": ", ".join(extra)})
                continue
            ok += 1
        if not bad:
            self.discharged += ok
        self.cov.setdefault("theorems", {}).update({(ns + "." + n): axioms.get(ns + "." + n) for n in names})
        partial = [n for n in names if n.endswith("_partial")]
        if partial:
            self.cov.setdefault("partial", []).extend(partial)
        return names

    def leanchecker(self, module):
        rc, so, se = sh(["lake", "env", "leanchecker", "GoaVerif.Props." + module], cwd=LEAN, timeout=1800)
        self.checker_cmds.append("cd lean && lake env leanchecker GoaVerif.Props." + module)
        self.obligations += 1
        if rc == 0:
            self.discharged += 1
        else:
            self.broken.append({"kind": "proof", "name": "leanchecker GoaVerif.Props." + module, "detail": (so + se)[-2000:]})

    # ------------------------------------------------------------------ correspondence
    def run_lines(self, cmd, ops_text, timeout=1800, env=None):
        rc, so, se = sh(cmd, inp=ops_text, timeout=timeout, env=env)
        return rc, so.splitlines(), se

    def correspondence(self, name, ops, impl_cmd, model_cmd, timeout=1800, impl_env=None):
        """Feed the same op lines to the implementation driver and the Lean driver, return
        the list of (index, op, impl, model) that disagree. A driver crash is a broken tie."""
        text = "\n".join(ops) + "\n"
        rc1, impl, e1 = self.run_lines(impl_cmd, text, timeout, env=impl_env)
        rc2, model, e2 = self.run_lines(model_cmd, text, timeout)
        tie = {"name": name, "lines": len(ops), "impl_cmd": " ".join(impl_cmd), "model_cmd": " ".join(model_cmd)}
        if rc1 != 0 or len(impl) != len(ops):
            self.broken.append({"kind": "tie", "name": name + ": implementation driver failed",
                                "detail": "rc=%s lines=%d/%d %s" % (rc1, len(impl), len(ops), e1[-2000:])})
        if rc2 != 0 or len(model) != len(ops):
            self.broken.append({"kind": "tie", "name": name + ": model driver failed",
                                "detail": "rc=%s lines=%d/%d %s" % (rc2, len(model), len(ops), e2[-2000:])})
        dis = []
        for i, op in enumerate(ops):
            a = impl[i] if i < len(impl) else "<missing>"
            b = model[i] if i < len(model) else "<missing>"
            if a != b:
                dis.append((i, op, a, b))
        tie["disagreements"] = len(dis)
        self.cov["ties"].setdefault("T3", []).append(tie)
        self.evaluations += len(ops)
        return impl, model, dis

    def corpus(self):
        """Minimised past failures and witnesses of known findings: always run first."""
        d = os.path.join(ROOT, "corpus", self.prop)
        out = []
        if os.path.isdir(d):
            for f in sorted(os.listdir(d)):
                out += [l.strip() for l in open(os.path.join(d, f)) if l.strip() and not l.startswith("#")]
        self.cov["corpus_size"] = len(out)
        return out

    def count(self, key, nontrivial=True):
        if nontrivial:
            self.distinct.add(key)

    def hist(self, name, key, n=1):
        d = self.cov["distribution"].setdefault(name, {})
        d[str(key)] = d.get(str(key), 0) + n

    def sample(self, x, cap=6):
        if len(self.cov["samples"]) < cap:
            self.cov["samples"].append(x)

    # ------------------------------------------------------------------ outcome
    def fail(self, signature, what, **detail):
        """Record a concrete failing input observed on the implementation."""
        self.failures.append(dict(signature=signature, what=what, **detail))

    def finish(self, replay_cmd_hint=None):
        known = load_known(self.prop)
        unlisted = []
        for f in self.failures:
            k = match_known(known, f["signature"])
            if k:
                if k["signature"] not in [x["signature"] for x in self.known_hit]:
                    self.known_hit.append(k)
            else:
                unlisted.append(f)
        for k in self.known_hit:
            print("KNOWN-FINDING: property=%s %s" % (self.prop, k["what"]), flush=True)
        rc = 0
        replay_path = None
        if unlisted:
            # smallest input first
            unlisted.sort(key=lambda f: len(json.dumps(f)))
            if os.environ.get("VERIF_DUMP_FAILURES"):  # debugging aid: one smallest example per signature
                first = {}
                for f in unlisted:
                    first.setdefault(f["signature"], f)
                with open(os.environ["VERIF_DUMP_FAILURES"], "w") as fh:
                    json.dump(list(first.values()), fh, indent=1)
            replay_path = self.write_replay({"property": self.prop, "kind": "failing-input", "failure": unlisted[0],
                                             "other_failures": len(unlisted) - 1,
                                             "all_unlisted_signatures": sorted({f["signature"] for f in unlisted}),
                                             "broken_obligations": self.broken,
                                             "replay": replay_cmd_hint or "./check %s --replay <this file>" % self.prop})
            print("VIOLATION property=%s replay=%s" % (self.prop, replay_path), flush=True)
            rc = 1
        elif self.broken:
            replay_path = self.write_replay({"property": self.prop, "kind": "no-failing-input-found",
                                             "broken_obligations": self.broken,
                                             "note": "a theorem, a regenerated model or a correspondence no longer checks; "
                                                     "the search over model and implementation found no input on which the property fails"})
            print("VIOLATION property=%s replay=%s no-failing-input-found" % (self.prop, replay_path), flush=True)
            rc = 1
        self.write_evidence(len(unlisted) + (1 if (self.broken and not unlisted) else 0))
        shutil.rmtree(self.tmp, ignore_errors=True)
        self.log("done rc=%d obligations=%d/%d evaluations=%d" % (rc, self.discharged, self.obligations, self.evaluations))
        sys.exit(rc)

    def write_replay(self, obj):
        d = os.path.join(ROOT, "replays")
        n = 0
        while os.path.exists(os.path.join(d, "%s-%d.json" % (self.prop, n))):
            n += 1
        p = os.path.join(d, "%s-%d.json" % (self.prop, n))
        obj.update(seed=self.seed, tier=self.tier)
        with open(p, "w") as f:
            json.dump(obj, f, indent=1)
        return p

    def write_evidence(self, violations):
        cov = dict(self.cov)
        cov.update(
            obligations=self.obligations, discharged=self.discharged,
            checker_cmd=" ; ".join(dict.fromkeys(self.checker_cmds)) or "none",
            evaluations=self.evaluations, distinct_nontrivial=len(self.distinct),
            known_findings_hit=[k["signature"] for k in self.known_hit],
            broken=[b["name"] for b in self.broken],
        )
        if self.discharged < 1:
            # a run whose proof obligations could not even be attempted reports exploration-style counts only
            cov["obligations_attempted"] = cov.pop("obligations")
            cov.pop("discharged")
        cov.setdefault("rule", "see DESIGN.md")
        if not cov["samples"]:
            cov["samples"] = ["(no sample recorded)"]
        ev = {
            "property_id": self.prop, "tier": self.tier, "seed": self.seed, "level": self.level,
            "coverage": cov, "assumptions": self.assumptions,
            "wall_s": round(time.time() - self.t0, 2), "violations": violations,
        }
        with open(os.path.join(ROOT, "evidence", self.prop + ".json"), "w") as f:
            json.dump(ev, f, indent=1)


def theorem_at(path, line):
    try:
        lines = open(path).read().splitlines()
    except OSError:
        return None
    for i in range(min(line, len(lines)) - 1, -1, -1):
        m = re.match(r"\s*(?:private\s+)?(theorem|def|example|lemma|instance)\s*([\w.']*)", lines[i])
        if m:
            return (m.group(1) + " " + m.group(2)).strip()
    return None


def sha256_file(p):
    return hashlib.sha256(open(p, "rb").read()).hexdigest()


def load_known(prop):
    p = os.path.join(ROOT, "known_findings.json")
    if not os.path.exists(p):
        return []
    data = json.load(open(p))
    return [f for f in data.get("findings", []) if f.get("property") == prop and f.get("status") == "known"]


def match_known(known, signature):
    for k in known:
        if k["signature"] == signature:
            return k
    return None
