"""Shared helpers for the properties that quantify over designs: the design stream
(genrun make), running goa's real DSL + generators in a fresh process per design (genrun run),
building the generated tree."""
import json
import os
import shutil
import subprocess
import tempfile
from concurrent.futures import ThreadPoolExecutor

from .core import BIN, goenv

GENRUN = os.path.join(BIN, "genrun")


def limited(gb=6):
    """preexec_fn for child processes that run goa's generators: an address-space limit, so that a generator that
    never terminates (a known finding for recursive gRPC types) cannot take the machine's memory with it"""
    def fn():
        import resource
        resource.setrlimit(resource.RLIMIT_AS, (gb << 30, gb << 30))
    return fn

FLAG_CYCLE = [[], ["-errors"], ["-security"], ["-errors", "-security", "-risky-names"], ["-nested-inline"], ["-risky-names"], ["-errors", "-risky-names"]]


def flags_for(index, allow_nested=True):
    f = FLAG_CYCLE[index % len(FLAG_CYCLE)]
    if not allow_nested and "-nested-inline" in f:
        return []
    return f


def risky_name(design):
    """The attribute name of the design that generated code may collide with, if any."""
    d = design if isinstance(design, dict) else json.loads(design)
    names = set(__import__("re").findall(r'"name": ?"(\w+)"', json.dumps(d)))
    hit = [n for n in RISKY if n in names]
    return hit[0] if hit else None


RISKY = ["v", "c", "p", "err", "body", "res", "ctx", "req", "resp", "w", "r", "e", "ok", "s", "mux", "enc", "dec", "val", "key", "i",
         "strconv", "fmt", "http", "goa", "view", "result", "payload", "string", "int", "error", "nil", "true", "new", "make", "range",
         "func", "map", "var", "package", "select", "default", "interface"]


def make_design(seed, index, flags):
    p = subprocess.run([GENRUN, "make", "-seed", str(seed), "-index", str(index)] + list(flags),
                       capture_output=True, text=True, env=goenv())
    if p.returncode != 0:
        raise RuntimeError("genrun make failed: " + p.stderr[-500:])
    return p.stdout.strip()


def run_design(design_json, workdir, example=False, twice=False, timeout=180):
    """Returns the genrun report (dict). A crash or timeout of the process is reported, not raised."""
    os.makedirs(workdir, exist_ok=True)
    dj = os.path.join(workdir, "design.json")
    with open(dj, "w") as f:
        f.write(design_json)
    cmd = [GENRUN, "run", "-design", dj, "-out", os.path.join(workdir, "out")]
    if example:
        cmd.append("-example")
    if twice:
        cmd.append("-twice")
    try:
        p = subprocess.run(cmd, capture_output=True, text=True, env=goenv(), timeout=timeout, preexec_fn=limited())
    except subprocess.TimeoutExpired:
        return {"crash": "timeout after %ss" % timeout}
    try:
        return json.loads(p.stdout)
    except Exception:
        return {"crash": "genrun exited %s: %s" % (p.returncode, (p.stderr or p.stdout)[-1500:])}


def go_build(moddir, pkgs="./...", timeout=600):
    try:
        p = subprocess.run(["go", "build", pkgs], cwd=moddir, capture_output=True, text=True, env=goenv(), timeout=timeout)
    except subprocess.TimeoutExpired:
        return 124, "timeout"
    return p.returncode, p.stdout + p.stderr


def features(design):
    """Coarse feature vector of a design (for the evidence distribution and finding signatures)."""
    d = design if isinstance(design, dict) else json.loads(design)
    f = {"services": len(d["services"]), "methods": sum(len(s["methods"]) for s in d["services"]),
         "types": len(d.get("types", [])), "schemes": len(d.get("schemes", [])), "nested_inline": False,
         "locations": set(), "prims": set(), "validations": set(), "errors": 0}

    def walk(att, depth, inline_parent):
        t = att.get("type") or {}
        if t.get("prim"):
            f["prims"].add(t["prim"])
        for k in (att.get("val") or {}):
            f["validations"].add(k)
        if t.get("is_object") or t.get("object"):
            if inline_parent:
                f["nested_inline"] = True
            for fld in t.get("object") or []:
                walk(fld["att"], depth + 1, True)
        if t.get("array"):
            walk(t["array"], depth + 1, False)
        if t.get("map_key"):
            walk(t["map_key"], depth + 1, False)
            walk(t["map_elem"], depth + 1, False)

    for td in d.get("types", []):
        walk(td["att"], 0, False)
    for s in d["services"]:
        for m in s["methods"]:
            for k in ("payload", "result"):
                if m.get(k):
                    walk(m[k], 0, False)
            f["errors"] += len(m.get("errors") or [])
            h = m.get("http") or {}
            for loc, key in (("query", "params"), ("header", "headers"), ("cookie", "cookies")):
                if h.get(key):
                    f["locations"].add(loc)
            if "{" in h.get("path", ""):
                f["locations"].add("path")
    for k in ("locations", "prims", "validations"):
        f[k] = sorted(f[k])
    return f


def parallel(fn, items, workers=16):
    with ThreadPoolExecutor(workers) as ex:
        return list(ex.map(fn, items))


def scratch(prefix):
    return tempfile.mkdtemp(prefix="goaverif-%s-" % prefix)
