"""C10, second half: payloads and results through the generated gRPC client and server.

goa's generator calls `protoc`; the sandbox has none, so the harness puts its own stand-in
(harness/cmd/miniprotoc, as `protoc`) on the PATH of the generator child only. It writes Go structs
with protoc-gen-go's field naming and the classic protoc-gen-go-grpc service code. The generated
gRPC server and client are then linked with the glue and driven over a REAL grpc transport
(bufconn) — the only substitution is the message codec (a table of deep copies instead of protobuf
bytes: the stand-in structs carry no protobuf reflection).

Per unary method: valid payload/result pairs must round-trip (request message + metadata,
response message + headers + trailers); one-site boundary mutations of the payload must be refused
before the service method runs exactly when the Lean specification (Model/Validation.lean,
drv_valid) says they break a rule; mutated results must be refused by the generated client."""
import json
import os
import re
import shutil

from .core import BIN, LEAN
from . import designs, e2e, c04
from .c02 import canon, diff_paths, att_at

FAKEBIN = os.path.join(os.path.dirname(BIN), "fakebin")


def install_protoc(c):
    if not c.go_build("miniprotoc"):
        return False
    os.makedirs(FAKEBIN, exist_ok=True)
    shutil.copy2(os.path.join(BIN, "miniprotoc"), os.path.join(FAKEBIN, "protoc"))
    return True


def has_union(schema, att, depth=0):
    a = schema.resolve(att) if att else None
    if not a or depth > 6:
        return False
    t = a.get("type", {})
    if t.get("one_of"):
        return True
    for k in ("array", "map_key", "map_elem"):
        if t.get(k) and has_union(schema, t[k], depth + 1):
            return True
    return any(has_union(schema, f["att"], depth + 1) for f in t.get("object") or [])


def strip_unions(schema, att, v):
    """union attributes are left unset (the harness does not build union values)"""
    return v


def pbnorm(v):
    """what protobuf can carry: an empty repeated field, map or byte string is an absent one"""
    if isinstance(v, dict):
        out = {k: pbnorm(x) for k, x in v.items()}
        return {k: x for k, x in out.items() if x is not None and x != [] and x != {}}
    if isinstance(v, list):
        return [pbnorm(x) for x in v]
    return v


def drivable(b, m):
    for side in ("payload", "result"):
        a = m.get(side)
        if a is None:
            continue
        t = b.schema.resolve(a).get("type", {})
        if not (t.get("is_object") or t.get("object") or t.get("prim")):
            return False
    return m.get("grpc") is not None


def plan(b, seed, per_valid, cap):
    cmds, meta = [], []
    for s in b.design["services"]:
        for m in s["methods"]:
            if not drivable(b, m):
                continue
            if m.get("stream"):
                plan_stream(b, s, m, seed, per_valid, cap, cmds, meta)
                continue
            pobj = m.get("payload") and b.schema.is_object(m["payload"])
            robj = m.get("result") and b.schema.is_object(m["result"])
            for k in range(per_valid):
                rng = e2e.rng_for(seed, "c10", b.index, s["name"], m["name"], k)
                p = None
                if m.get("payload"):
                    p = e2e.gen_object(b.schema, m["payload"], rng, "body", 0, {}) if pobj else e2e.gen_value(b.schema, m["payload"], rng, "body")
                    if p is None:
                        continue
                res = None
                if m.get("result"):
                    res = e2e.gen_value(b.schema, m["result"], rng, "body")
                    if res is None:
                        continue
                base = {"op": "gcall", "service": s["name"], "method": m["name"], "payload": p, "script": {"result": res},
                        "caller_md": k % 2 == 1}  # every second caller already has outgoing metadata in its context
                cmds.append(base)
                meta.append((s, m, "both", "valid", p, res))
                if k == 0 and pobj and isinstance(p, dict):
                    # required string attributes carried in metadata with the (valid) value "": the key is sent, the value is empty
                    req = set(b.schema.resolve(m["payload"]).get("required") or [])
                    fields = dict(b.schema.fields(m["payload"]))
                    empt = [mp["attr"] for mp in (m.get("grpc") or {}).get("metadata") or [] if mp["attr"] in req and mp["attr"] in fields
                            and (b.schema.resolve(fields[mp["attr"]]).get("type") or {}).get("prim") == "String" and not b.schema.eff_val(fields[mp["attr"]])]
                    if empt:
                        c2 = dict(base, payload=dict(p, **{a: "" for a in empt}))
                        cmds.append(c2)
                        meta.append((s, m, "both", "valid", c2["payload"], res))
                # the same exchange with the OneOf unions of payload and result filled in (round trip only: the validation
                # specification has no unions, the mutations below start from the values without them)
                if has_union(b.schema, m.get("payload")) or has_union(b.schema, m.get("result")):
                    e2e.UNIONS = True
                    try:
                        rng2 = e2e.rng_for(seed, "c10u", b.index, s["name"], m["name"], k)
                        pu = (e2e.gen_object(b.schema, m["payload"], rng2, "body", 0, {}) if pobj else e2e.gen_value(b.schema, m["payload"], rng2, "body")) if m.get("payload") else None
                        ru = e2e.gen_value(b.schema, m["result"], rng2, "body") if m.get("result") else None
                    finally:
                        e2e.UNIONS = False
                    if (pu is not None or not m.get("payload")) and (ru is not None or not m.get("result")):
                        cmds.append(dict(base, payload=pu, script={"result": ru}))
                        meta.append((s, m, "both", "valid-with-unions", pu, ru))
                if pobj:
                    for label, mp in c04.mutations(b.schema, m["payload"], p, {}, rng, cap):
                        cmds.append(dict(base, payload=mp))
                        meta.append((s, m, "request", label, mp, res))
                if robj:
                    for label, mr in c04.mutations(b.schema, m["result"], res, {}, rng, cap // 2):
                        cmds.append(dict(base, script={"result": mr}))
                        meta.append((s, m, "response", label, p, mr))
    return cmds, meta


def plan_stream(b, s, m, seed, per_valid, cap, cmds, meta):
    """streaming methods: the messages the client streams and the results the server streams, in order; then the
    same exchange with ONE message (or one result) replaced by a boundary mutation"""
    kind = m["stream"]
    up, down = kind in ("payload", "both"), kind in ("result", "both")

    def value(att, rng):
        if att is None:
            return None
        return e2e.gen_object(b.schema, att, rng, "body", 0, {}) if b.schema.is_object(att) else e2e.gen_value(b.schema, att, rng, "body")
    for k in range(max(2, per_valid // 2)):
        rng = e2e.rng_for(seed, "c10s", b.index, s["name"], m["name"], k)
        payload, msgs, results, result = None, [], [], None
        if up:
            msgs = [value(m["payload"], rng) for _ in range(rng.randint(0, 3))]
        elif m.get("payload"):
            payload = value(m["payload"], rng)
            if payload is None:
                continue
        if down:
            results = [value(m["result"], rng) for _ in range(rng.randint(0, 3))] if m.get("result") else []
        elif m.get("result"):
            result = value(m["result"], rng)
            if result is None:
                continue
        if any(x is None for x in msgs + results):
            continue
        base = {"op": "gstream", "service": s["name"], "method": m["name"], "payload": payload, "messages": msgs, "script": {"results": results, "result": result}}
        cmds.append(base)
        meta.append((s, m, "stream", "valid", base, None))
        if up and msgs and b.schema.is_object(m["payload"]):
            j = rng.randrange(len(msgs))
            for label, mv in c04.mutations(b.schema, m["payload"], msgs[j], {}, rng, max(2, cap // 3)):
                c2 = dict(base, messages=msgs[:j] + [mv] + msgs[j + 1:])
                cmds.append(c2)
                meta.append((s, m, "stream-request", label, c2, (j, mv)))
        if down and results and m.get("result") and b.schema.is_object(m["result"]):
            j = rng.randrange(len(results))
            for label, mv in c04.mutations(b.schema, m["result"], results[j], {}, rng, max(2, cap // 3)):
                c2 = dict(base, script={"results": results[:j] + [mv] + results[j + 1:], "result": result})
                cmds.append(c2)
                meta.append((s, m, "stream-response", label, c2, (j, mv)))


def judge_stream(b, s, m, side, label, cmd, bad, verdict, o):
    """streamed messages arrive equal and in order; a message (result) that breaks a rule is not handed to the service
    method (the caller): the stream ends with an error there"""
    name = "%s.%s" % (s["name"], m["name"])
    out = []
    kind = re.sub(r"[+-]\d+(\.\d+)?", "", label)
    msgs = [pbnorm(canon(x)) for x in cmd.get("messages") or []]
    results = [pbnorm(canon(x)) for x in cmd["script"].get("results") or []]
    got_up = [pbnorm(canon(x)) for x in o.get("server_streamed") or []]
    got_down = [pbnorm(canon(x)) for x in o.get("client_streamed") or []]
    up, down = m["stream"] in ("payload", "both"), m["stream"] in ("result", "both")
    rejected = bool(verdict) and verdict.startswith("rejected")
    names = verdict.split(" ")[2] if rejected else ""
    if not o.get("server_called"):
        return [("c10/stream/method-not-invoked", "%s: the streaming method was not invoked: %s" % (name, json.dumps(o.get("client_error"))[:200]))]
    if side == "stream-request" and rejected:
        j = bad[0]
        if len(got_up) > j and got_up[j] == pbnorm(canon(bad[1])):
            return [("c10/stream/invalid-message-reached-user-code/%s/%s" % (kind, names), "%s: streamed message %d violating %s was handed to the service method" % (name, j, names))]
        for k in range(min(j, len(got_up))):
            for sg, what in roundtrip_diffs(b, m["payload"], msgs[k], got_up[k], "request"):
                out.append((sg if "truncated" in sg else "c10/stream/messages-before-the-invalid-one", "%s: streamed message %d (before the invalid one): %s" % (name, k, what)))
        if len(got_up) < j:
            out.append(("c10/stream/messages-before-the-invalid-one", "%s: only %d of the %d messages before the invalid one arrived" % (name, len(got_up), j)))
        return out
    if side == "stream-response" and rejected:
        j = bad[0]
        if len(got_down) > j and got_down[j] == pbnorm(canon(bad[1])):
            return [("c10/stream/invalid-result-returned/%s/%s" % (kind, names), "%s: streamed result %d violating %s was returned to the caller" % (name, j, names))]
        return out
    if side != "stream":
        # a mutation the specification accepts (e.g. an optional attribute left unset): the exchange must go through
        if o.get("client_error") or o.get("recv_error"):
            return [("c10/stream/valid-message-refused/%s" % kind, "%s: %s" % (name, (o.get("recv_error") or (o.get("client_error") or {}).get("message") or "")[:200]))]
        return out
    # everything valid: equal and in order
    def seq(att, want, have, side2, sig):
        if len(want) != len(have):
            out.append((sig, "%s: %d messages streamed, %d received (%s / %s)" % (name, len(want), len(have), json.dumps(want)[:200], json.dumps(have)[:200])))
            return
        for k, (w, h) in enumerate(zip(want, have)):
            if h == "<nil>":
                h = None
            for sg, what in roundtrip_diffs(b, att, w, h, side2):
                out.append((sg if "truncated" in sg else sig, "%s: streamed message %d: %s" % (name, k, what)))
    if up:
        seq(m["payload"], msgs, got_up, "request", "c10/stream/request-messages")
    if down and not o.get("client_error"):
        seq(m["result"], results, got_down, "response", "c10/stream/response-messages")
    if o.get("client_error") and not o.get("recv_error"):
        out.append(("c10/stream/valid-exchange-failed", "%s: %s" % (name, (o["client_error"].get("message") or "")[:200])))
    if not up and m.get("payload") is not None:
        for sig, what in roundtrip_diffs(b, m["payload"], pbnorm(canon(cmd.get("payload"))), pbnorm(canon(o.get("server_payload"))), "request"):
            out.append((sig, "%s: payload %s" % (name, what)))
    if not down and m.get("result") is not None and not o.get("client_error"):
        for sig, what in roundtrip_diffs(b, m["result"], pbnorm(canon(cmd["script"].get("result"))), pbnorm(canon(o.get("client_result"))), "response"):
            out.append((sig, "%s: result %s" % (name, what)))
    return out


def roundtrip_diffs(b, att, sent, got, side):
    """[(signature, what)] per attribute that did not arrive as sent"""
    out = []
    if isinstance(sent, dict) and got is None:
        got = {}
    if isinstance(got, dict) and sent is None:
        sent = {}
    if not isinstance(sent, dict) or not isinstance(got, dict):
        if sent != got:
            prim = b.schema.resolve(att).get("type", {}).get("prim")
            if prim in ("Int", "UInt") and isinstance(sent, (int, float)) and not (-2 ** 31 <= sent < 2 ** 31 if prim == "Int" else 0 <= sent < 2 ** 32):
                return [("c10/int-beyond-32-bits-truncated/%s" % side, "value %r of an %s attribute arrived as %r" % (sent, prim, got))]
            return [("c10/%s-roundtrip/%s" % (side, prim or type(sent).__name__), "sent as %r arrived as %r" % (sent, got))]
        return out
    for path, s, g in diff_paths(sent, got):
        _, _, leaf = att_at(b.schema, att, path)
        prim = b.schema.resolve(leaf).get("type", {}).get("prim") if leaf else None
        if prim == "Bytes" and s == "" and g is None:
            continue  # an empty byte string is an absent one for the stand-in codec (and for non-optional protobuf fields)
        if prim in ("Int", "UInt") and isinstance(s, (int, float)) and not isinstance(s, bool) and not (-2 ** 31 <= s < 2 ** 31 if prim == "Int" else 0 <= s < 2 ** 32):
            out.append(("c10/int-beyond-32-bits-truncated/%s" % side, "attribute %s (%s) = %r arrived as %r" % (path, prim, s, g)))
        else:
            out.append(("c10/%s-roundtrip/%s" % (side, prim or type(s).__name__), "attribute %s sent as %r arrived as %r" % (path, s, g)))
    return out


def metadata_refused(m, p, o):
    """the known finding: a metadata value outside printable ASCII makes the transport fail the call"""
    g = o.get("grpc") or {}
    if o.get("server_called") or "non-printable ASCII" not in (g.get("message") or "") + ((o.get("client_error") or {}).get("message") or ""):
        return None
    for mp in (m.get("grpc") or {}).get("metadata") or []:
        v = p.get(mp["attr"]) if isinstance(p, dict) else None
        if isinstance(v, list):
            bad = [x for x in v if isinstance(x, str) and not re.match(r"^[\x20-\x7e]*$", x)]
            v = bad[0] if bad else None
        if isinstance(v, str) and not re.match(r"^[\x20-\x7e]*$", v):
            return ("c10/metadata/value-outside-printable-ascii", "%s: the string attribute %s = %r is mapped to metadata and sent as it is; grpc refuses metadata values "
                    "outside printable ASCII, the payload never reaches the service" % (m["name"], mp["attr"], v))
    return None


def judge_valid(b, s, m, p, res, o):
    out = []
    name = "%s.%s" % (s["name"], m["name"])
    g = o.get("grpc") or {}
    if not o.get("server_called"):
        return [("c10/valid-request-refused", "%s: a valid payload did not reach the service method: %s %s" % (name, g.get("code"), (g.get("message") or "")[:200]))]
    if m.get("payload") is not None:
        sent, got = pbnorm(canon(p)), pbnorm(canon(o.get("server_payload")))
        for sig, what in roundtrip_diffs(b, m["payload"], sent, got, "request"):
            out.append((sig, "%s: payload %s" % (name, what)))
    if o.get("client_error"):
        out.append(("c10/valid-result-refused", "%s: the client returned an error for a valid result: %s" % (name, (o["client_error"].get("message") or "")[:200])))
    elif m.get("result") is not None:
        want, have = pbnorm(canon(res)), pbnorm(canon(o.get("client_result")))
        for sig, what in roundtrip_diffs(b, m["result"], want, have, "response"):
            out.append((sig, "%s: result %s" % (name, what)))
    # placement: metadata attributes travel outside the message, header / trailer attributes outside the response message
    gm = m.get("grpc") or {}
    req_msg = g.get("req_msg") if isinstance(g.get("req_msg"), dict) else {}
    lower = {k.lower().replace("_", ""): k for k in req_msg}
    for mp in gm.get("metadata") or []:
        if isinstance(p, dict) and p.get(mp["attr"]) is not None and p.get(mp["attr"]) != []:
            # (an empty array has no metadata entry: it arrives as absent)
            key = (mp.get("wire") or mp["attr"]).lower()
            if key not in {k.lower() for k in (g.get("server_md") or {})}:
                out.append(("c10/metadata-not-sent", "%s: attribute %s is mapped to metadata but the server received no such key (%s)" % (name, mp["attr"], sorted(g.get("server_md") or {}))))
            if mp["attr"].lower().replace("_", "") in lower:
                out.append(("c10/metadata-also-in-message", "%s: attribute %s is mapped to metadata and is also a field of the request message" % (name, mp["attr"])))
    for kind, where in (("headers", "header"), ("trailers", "trailer")):
        for mp in gm.get(kind) or []:
            if isinstance(res, dict) and res.get(mp["attr"]) is not None and not o.get("client_error"):
                key = (mp.get("wire") or mp["attr"]).lower()
                if key not in {k.lower() for k in (g.get(where) or {})}:
                    out.append(("c10/%s-not-sent" % where, "%s: result attribute %s is mapped to a response %s but none was sent (%s)" % (name, mp["attr"], where, sorted(g.get(where) or {}))))
    return out


def judge_mutation(side, label, verdict, o):
    kind = re.sub(r"[+-]\d+(\.\d+)?", "", label)
    rejected = verdict.startswith("rejected")
    names = verdict.split(" ")[2] if rejected else ""
    g = o.get("grpc") or {}
    ce = o.get("client_error")
    if side == "request":
        if rejected and o.get("server_called"):
            return [("c10/invalid-reached-user-code/%s/%s" % (kind, names), "a request message violating %s was passed to the service method" % names)]
        if not rejected and not o.get("server_called"):
            return [("c10/valid-refused/%s" % kind, "a request satisfying every rule was refused: %s %s" % (g.get("code"), (g.get("message") or "")[:160]))]
        return []  # the status code of a refusal is not part of the property (goa answers InvalidArgument or Unknown)
    if not o.get("server_called"):
        return []
    if rejected and not ce:
        return [("c10/invalid-result-returned/%s/%s" % (kind, names), "the generated client returned a result violating %s" % names)]
    if not rejected and ce:
        return [("c10/valid-result-refused/%s" % kind, "the generated client refused a valid result: %s" % (ce.get("message") or "")[:160])]
    return []


def _enclosing_func(path, line, cache={}):
    """name of the top-level function of the generated file that contains the line (None: not inside one)"""
    if path not in cache:
        try:
            cache[path] = open(path).read().splitlines()
        except OSError:
            cache[path] = []
    src = cache[path]
    for i in range(min(line, len(src)) - 1, -1, -1):
        m = re.match(r"func (?:\([^)]*\) )?(\w+)\(", src[i])
        if m:
            return m.group(1)
        if src[i].startswith("}"):
            return None
    return None


def build_signatures(err, design=None, outdir=None):
    """{signature: first line carrying it} for every distinct compile error of a failed build. Independent of the order in
    which `go build` prints the packages. The two recorded findings about responses with Headers/Trailers are recognised by
    WHERE the error sits — inside Encode<Method>Response of the server / Decode<Method>Response of the client of a method
    whose response has headers or trailers — not by the presence of some line anywhere in the output: an error anywhere else
    keeps its own signature and is reported."""
    hdr_methods = set()
    for s in (design or {}).get("services", []):
        for m in s["methods"]:
            g = m.get("grpc") or {}
            if g.get("headers") or g.get("trailers"):
                hdr_methods.add((s["name"].replace("_", "").lower(), m["name"].replace("_", "").lower()))
    sigs = {}
    lines = err.splitlines()
    for l in lines:
        mm = re.search(r"(gen/grpc/(\w+)/((\w+)/\w+\.go)):(\d+):\d+: (.*)", l)
        if mm:
            path, svc, rel, pkg, lineno, msg = mm.group(1), mm.group(2), mm.group(3), mm.group(4), int(mm.group(5)), mm.group(6)
            if msg.startswith("too many errors"):
                continue
            sig = "c10/build:%s: %s" % (rel, re.sub(r"\b[A-Z]\w*\d+\b", "T", msg)[:80])
            if rel in ("server/encode_decode.go", "client/encode_decode.go") and outdir and hdr_methods:
                fn = _enclosing_func(os.path.join(outdir, path), lineno) or ""
                fm = re.match(r"Encode(\w+)Response$", fn) if pkg == "server" else re.match(r"Decode(\w+)Response$", fn)
                if fm and (svc.replace("_", "").lower(), fm.group(1).lower()) in hdr_methods:
                    sig = "c10/build:response-headers-or-trailers" + ("" if pkg == "server" else "/client-decoder")
        elif re.search(r"\.go:\d+:\d+: ", l):
            if "too many errors" in l:
                continue
            sig = "c10/build:" + re.sub(r":\d+:\d+:", ":", l.strip())[:80]
        else:
            continue
        sigs.setdefault(sig, l.strip())
    if not sigs:
        last = lines[-1] if lines else "?"
        sigs["c10/build:" + last[:80]] = last
    return sigs


def run_roundtrip(c, n, per_valid, cap):
    c.cov["rule"] += (" Second half: gRPC designs 0..%d generated with a stand-in protoc, built and driven over a real grpc transport (bufconn): per unary method "
                      "%d valid payload/result pairs (round trip, metadata / header / trailer placement) and up to %d one-site boundary mutations of payload and result "
                      "judged by the Lean validation specification (refused before user code / refused by the client)." % (n - 1, per_valid, cap))
    c.cov["trusted_base"] += [
        "harness/cmd/miniprotoc stands in for protoc + protoc-gen-go + protoc-gen-go-grpc (Go structs with protoc-gen-go's field naming, optional scalars as pointers, "
        "oneof wrappers, classic service code); harness/e2ert/grpc.go replaces protobuf marshalling by a table of deep copies (empty repeated fields, maps and byte "
        "strings become absent, as on the protobuf wire); transport, metadata, status codes are the real google.golang.org/grpc",
        "OneOf union values are driven for the round trip only (the validation specification has no unions); methods with non-object array/map payloads are not driven; in a streaming exchange the client sends all its messages, closes its side and then reads (no interleaved schedules)",
    ]
    if not (install_protoc(c) and c.lake_build("drv_valid", what="tie")):
        return
    drv = os.path.join(LEAN, ".lake/build/bin/drv_valid")
    c04.load_format_verdicts(c)
    work = designs.scratch("C10rt")
    builds = e2e.build_many(c.seed, range(n), lambda i: ["-grpc-design"], work, tags="grpcglue", path_prefix=FAKEBIN, workers=8)
    # one design on its own: an attribute of an alias type (with an Enum of its own) carried in gRPC metadata
    builds += e2e.build_many(c.seed, [1000], lambda i: ["-grpc-design"], work, tags="grpcglue", path_prefix=FAKEBIN, workers=1)
    total = 0
    for b in builds:
        if b.error:
            kind = "rejected" if b.error.startswith("rejected") else "diverges" if b.error.startswith("genrun:") else "failed"
            c.hist("grpc-build", kind)   # a generator child that dies (memory limit, timeout) is the divergence the first half reports
            if kind == "failed":
                # one failure per distinct compile error: `go build` prints the packages in no fixed order, so "the first error"
                # is not a property of the design (that made this check report a recorded finding under a second name)
                for sig, line in sorted(build_signatures(b.error, b.design, os.path.join(b.workdir, "out")).items()):
                    c.fail(sig, "gRPC design %d: the generated code does not compile: %s" % (b.index, line[:300]), input={"seed": c.seed, "index": b.index}, design=b.design, actual=b.error[-3000:])
            b.cleanup()
            continue
        c.hist("grpc-build", "ok")
        cmds, meta = plan(b, c.seed, per_valid, cap)
        if not cmds:
            b.cleanup()
            continue
        obs, err = b.run(cmds)
        if obs is None or len(obs) != len(cmds):
            c.broken.append({"kind": "tie", "name": "gRPC e2e binary failed for design %d" % b.index, "detail": str(err)[-800:]})
            b.cleanup()
            continue
        lines, keep = [], []
        for i, (s, m, side, label, p, res) in enumerate(meta):
            if side in ("both", "stream"):
                continue
            try:
                if side.startswith("stream-"):
                    lines.append(c04.model_line(b, m["payload"] if side == "stream-request" else m["result"], res[1], {}, True))
                else:
                    lines.append(c04.model_line(b, m["payload"] if side == "request" else m["result"], p if side == "request" else res, {}, True))
                keep.append(i)
            except c04.Skip as ex:
                c.hist("skipped", str(ex)[:40])
        verdicts = []
        if lines:
            rc, verdicts, se = c.run_lines([drv], "\n".join(lines) + "\n")
            if len(verdicts) != len(lines):
                c.broken.append({"kind": "tie", "name": "drv_valid output (C10)", "detail": (se or "")[-400:]})
                b.cleanup()
                continue
        vmap = dict(zip(keep, verdicts))
        for i, ((s, m, side, label, p, res), o) in enumerate(zip(meta, obs)):
            inp = {"seed": c.seed, "index": b.index, "command": cmds[i], "side": side, "label": label}
            if o.get("harness_error"):
                c.fail("harness", "design %d: %s" % (b.index, o["harness_error"][:200]), input=inp, design=b.design)
                continue
            if o.get("panic"):
                c.fail("c10/panic/%s" % side, "design %d %s.%s: generated code panicked: %s" % (b.index, s["name"], m["name"], o["panic"].splitlines()[0]), input=inp, design=b.design,
                       actual=o["panic"][:1200])
                continue
            c.evaluations += 1
            total += 1
            c.count("%d/%s/%s/%s" % (b.index, s["name"], m["name"], json.dumps(cmds[i], sort_keys=True)[:300]))
            md_refused = metadata_refused(m, cmds[i].get("payload"), o)
            if md_refused:
                c.hist("grpc-exchange", "metadata-refused")
                fails = [md_refused]
            elif side.startswith("stream"):
                v = vmap.get(i)
                if side != "stream" and (v is None or v == "bad-op"):
                    continue
                c.hist("grpc-exchange", "%s/%s:%s" % (side, m["stream"], (v or "valid").split(" ")[0]))
                fails = judge_stream(b, s, m, side, label, p, res, v, o)
            elif side == "both":
                c.hist("grpc-exchange", "valid")
                fails = judge_valid(b, s, m, p, res, o)
            else:
                v = vmap.get(i)
                if v is None or v == "bad-op":
                    continue
                c.hist("grpc-exchange", side + ":" + v.split(" ")[0])
                c.hist("grpc-mutation", side + ":" + re.sub(r"[+-]\d+(\.\d+)?", "±", label))
                fails = judge_mutation(side, label, v, o)
            for sig, what in fails:
                c.fail(sig, "design %d [%s] %s" % (b.index, label, what), input=inp, design=b.design, expected=vmap.get(i, "round trip"),
                       actual=json.dumps({k: o.get(k) for k in ("server_called", "server_payload", "client_result", "client_error", "grpc")})[:1500])
        if len(c.cov["samples"]) < 4:
            c.sample({"grpc_design": b.index, "command": cmds[0], "observation": obs[0]})
        b.cleanup()
    shutil.rmtree(work, ignore_errors=True)
    c.cov["ties"].setdefault("T5", []).append({"name": "generated gRPC client/server (stand-in pb, real transport) vs design and Lean validation spec", "exchanges": total})


def replay_one(c, f):
    install_protoc(c)
    c.lake_build("drv_valid", what="tie")
    work = designs.scratch("C10rtr")
    b = e2e.build_design(f["input"]["seed"], f["input"]["index"], ["-grpc-design"], work, tags="grpcglue", path_prefix=FAKEBIN)
    if b.error:
        print("build:", b.error)
        shutil.rmtree(work, ignore_errors=True)
        return 1
    obs, err = b.run([f["input"]["command"]])
    print(json.dumps(obs[0])[:2500] if obs else err)
    bad = False
    if obs:
        cmd = f["input"]["command"]
        for s in b.design["services"]:
            for m in s["methods"]:
                if s["name"] != cmd["service"] or m["name"] != cmd["method"]:
                    continue
                side, label = f["input"]["side"], f["input"]["label"]
                if side == "both":
                    res = judge_valid(b, s, m, cmd.get("payload"), cmd["script"].get("result"), obs[0])
                else:
                    line = c04.model_line(b, m["payload"] if side == "request" else m["result"], cmd.get("payload") if side == "request" else cmd["script"].get("result"), {}, True)
                    rc, v, se = c.run_lines([os.path.join(LEAN, ".lake/build/bin/drv_valid")], line + "\n")
                    print("model:", v)
                    res = judge_mutation(side, label, v[0], obs[0]) if v else []
                for sig, what in res:
                    print("violates:", sig, what)
                bad = bool(res) or bool(obs[0].get("panic"))
    shutil.rmtree(work, ignore_errors=True)
    return 1 if bad else 0
