"""C02 / C03 — payloads and results survive the generated HTTP client <-> server round trip.
Tie T5: per design the real generators run, the generated code is built with the glue and the
e2ert runtime, and valid values are sent through the generated client into the generated server;
the value the service method received (C02) and the value the client caller got back with the
status on the wire (C03) are compared with what was sent. Lean: Props/C02.lean (transport of
primitives as strings: parse ∘ format = id; location partition of a payload) over Model/Transport.lean,
tied by drv_transport against the same exchanges."""
import json
import subprocess
import os
import re
import shutil
from .core import BIN, LEAN, sh
from . import designs, e2e

COOKIE_OCTET = re.compile(r"^[\x21\x23-\x2B\x2D-\x3A\x3C-\x5B\x5D-\x7E]*$")


SEP = "\x1f"


def show(path):
    return path.replace(SEP, "/")


def num(x):
    return isinstance(x, (int, float)) and not isinstance(x, bool)


def canon(v):
    """Canonical form for comparison: numbers by value, empty collections as absent."""
    if isinstance(v, dict):
        out = {k: canon(x) for k, x in v.items()}
        return {k: x for k, x in out.items() if x is not None} or None
    if isinstance(v, list):
        return [canon(x) for x in v] or None
    if num(v):
        return float(v) if not isinstance(v, int) or abs(v) < 2 ** 53 else v
    return v


def diff_paths(sent, got, path=""):
    """(path, sent, got) for every leaf that differs."""
    if sent is None and isinstance(got, dict):
        sent = {}
    if got is None and isinstance(sent, dict):
        got = {}
    if isinstance(sent, dict) and isinstance(got, dict):
        out = []
        for k in sorted(set(sent) | set(got)):
            out += diff_paths(sent.get(k), got.get(k), path + SEP + k)
        return out
    if isinstance(sent, list) and isinstance(got, list) and len(sent) == len(got):
        out = []
        for i, (a, b) in enumerate(zip(sent, got)):
            out += diff_paths(a, b, path + SEP + "%d" % i)
        return out
    return [] if sent == got else [(path, sent, got)]


def att_at(schema, att, path):
    """(parent att, leaf name, leaf att) for a /a/b/0 style path."""
    parent, name = None, None
    for seg in [s for s in path.split(SEP) if s]:
        a = schema.resolve(att)
        t = a.get("type", {})
        if t.get("array") and seg.isdigit():
            parent, name, att = a, seg, t["array"]
        elif t.get("map_key"):
            parent, name, att = a, seg, t["map_elem"]
        elif t.get("one_of"):
            alt = next((f["att"] for f in t["one_of"] if f["name"] == seg), None)
            if alt is None:
                return parent, name, None
            parent, name, att = a, seg, alt
        else:
            nxt = dict(schema.fields(a)).get(seg)
            if nxt is None:
                return parent, name, None
            parent, name, att = a, seg, nxt
    return parent, name, att


def is_bytes(schema, att):
    return att is not None and schema.resolve(att).get("type", {}).get("prim") == "Bytes"


def classify_request_diff(b, method, path, sent, got, locs):
    """Signature of a payload attribute that did not arrive as sent."""
    top = path.strip(SEP).split(SEP)[0]
    loc = locs.get(top, "body")
    parent, name, att = att_at(b.schema, method["payload"], path)
    if is_bytes(b.schema, att) and sent == "" and got is None:
        return None  # empty byte slice: same as an empty collection
    if att is not None and att.get("has_default") and sent in (0, 0.0, "", False) and got == att.get("default"):
        return "request/%s/defaulted-zero-arrives-as-default" % ("body" if loc == "body" else "param")
    if att is not None and att.get("has_default") and sent is None and got == att.get("default"):
        return None  # unset -> default: what the property asks for
    if loc != "body" and sent == "" and got is None:
        req = top in b.schema.required(method["payload"])
        return "request/%s/empty-string-is-absent" % loc
    if loc == "cookie" and isinstance(sent, str) and not COOKIE_OCTET.match(sent):
        return "request/cookie/value-outside-cookie-octets"
    if loc == "header" and isinstance(sent, str) and (not sent.isascii() or sent != sent.strip() or any(ord(ch) < 32 for ch in sent)):
        return "request/header/value-outside-field-content"
    if loc == "header" and isinstance(sent, list) and any(isinstance(x, str) and (not x.isascii() or "," in x or x != x.strip()) for x in sent):
        return "request/header/array-element-outside-field-content"
    return "request/%s/%s" % (loc, type(sent).__name__)


def c04_absent(b, att, value):
    """the value leaves an optional array/map/bytes attribute with MinLength >= 1 unset (the defect recorded under C04)"""
    from . import c04
    try:
        return bool(att) and isinstance(value, dict) and c04.absent_optional_collection(b.schema, att, value)
    except Exception:
        return False


def chosen_response(method, result):
    """the success response the design selects for this result: the first whose tag matches, else the untagged one"""
    resps = (method.get("http") or {}).get("responses") or []
    for r0 in resps:
        t = r0.get("tag")
        if t and isinstance(result, dict) and result.get(t[0]) == t[1]:
            return r0
    for r0 in resps:
        if not r0.get("tag"):
            return r0
    return None


ELEMS = {}


def model_elems(direction, loc, strs):
    """Model/Transport.lean deliverElems through drv_transport: the strings that arrive under the key (None: driver unavailable)"""
    line = "elems %s %s %s" % (direction, loc, " ".join(x.encode().hex() or "-" for x in strs))
    line = line.strip()
    if line not in ELEMS:
        drv = os.path.join(LEAN, ".lake/build/bin/drv_transport")
        if not os.path.exists(drv):
            return None
        p = subprocess.run([drv], input=line + "\n", capture_output=True, text=True)
        toks = p.stdout.split()
        ELEMS[line] = [bytes.fromhex(t).decode() if t != "-" else "" for t in toks[1:]] if toks[:1] == ["arrives"] else None
    return ELEMS[line]


def judge_call(b, svc, method, cmd, obs):
    """Returns a list of (signature, what) for one observed call with a valid payload and result."""
    out = []
    name = "%s.%s" % (svc["name"], method["name"])
    if obs.get("harness_error"):
        return [("harness", "harness error: " + str(obs["harness_error"])[:200])]
    if obs.get("panic"):
        first = obs["panic"].splitlines()[0]
        where = re.search(r"gentest/gen/[\w/]+\.(\w+)", obs["panic"])
        return [("panic/%s" % (where.group(1) if where else "?"), "generated code panicked: %s" % first)]
    locs = e2e.locations_of(method)
    payload = cmd.get("payload")
    w = obs.get("wire") or {}
    if not obs.get("server_called"):
        # a valid payload must reach the service
        path_vals = [payload.get(k) for k, l in locs.items() if l == "path"] if payload else []
        if w.get("status") == 404 and any(isinstance(v, str) and ("/" in v or v == "") for v in path_vals):
            return [("request/path/value-with-slash-or-empty", "%s: path value containing '/' (or empty) is not escaped by the generated client: %s -> 404" % (name, w.get("path")))]
        if w.get("status") == 404 and any(isinstance(v, str) and ("?" in v or "#" in v or "%" in v) for v in path_vals):
            return [("request/path/value-with-url-metacharacter", "%s: path value with ?, # or %% is not escaped by the generated client: %s" % (name, w.get("path")))]
        ce = (obs.get("client_error") or {}).get("message", "")
        mm = re.search(r'\\"(\w+)\\" is missing from (query string|header|cookie)', ce)
        if mm and payload and payload.get(mm.group(1)) == "":
            return [("request/%s/required-empty-string-reported-missing" % {"query string": "query"}.get(mm.group(2), mm.group(2)),
                     "%s: required attribute %s carried in the %s with value \"\" is answered missing_field" % (name, mm.group(1), mm.group(2)))]
        if mm and payload and payload.get(mm.group(1)) in ([], {}):
            return [("request/%s/required-empty-collection-reported-missing" % {"query string": "query"}.get(mm.group(2), mm.group(2)),
                     "%s: required attribute %s carried in the %s as an empty array/map is answered missing_field (nothing is written for it)" % (name, mm.group(1), mm.group(2)))]
        for k, l in locs.items():
            v = (payload or {}).get(k)
            if l == "cookie" and isinstance(v, str) and not COOKIE_OCTET.match(v):
                return [("request/cookie/value-outside-cookie-octets", "%s: cookie value %r is altered by net/http's sanitiser and then fails validation: %s" % (name, v, ce[:120]))]
            if l == "header" and isinstance(v, str) and (not v.isascii() or v != v.strip() or any(ord(ch) < 32 for ch in v)):
                return [("request/header/value-outside-field-content", "%s: header value %r is altered in transport and then fails validation: %s" % (name, v, ce[:120]))]
        if w.get("status") == 400 and "invalid_length" in (w.get("resp_body") or "") and c04_absent(b, method["payload"], payload):
            return [("request/absent-optional-collection-with-min-length-rejected",
                     "%s: a payload that leaves an optional array/map with MinLength unset is answered 400 invalid_length" % name)]
        return [("request/not-delivered/status-%s" % w.get("status"), "%s: valid payload %s did not reach the service: %s" % (name, json.dumps(payload)[:200], ce[:200]))]
    sent, got = canon(payload or {}), canon(obs.get("server_payload") or {})
    for path, s, g in diff_paths(sent, got):
        sig = classify_request_diff(b, method, path, s, g, locs)
        if sig:
            out.append((sig, "%s: attribute %s sent as %r arrived as %r" % (name, show(path), s, g)))
    # C03
    if method.get("result") is not None and not (cmd["script"].get("error")):
        want = canon(cmd["script"].get("expect_result", cmd["script"].get("result")))
        rlocs = {}
        chosen = chosen_response(method, cmd["script"].get("result"))
        for r0 in [chosen] if chosen else []:
            for mp in r0.get("headers") or []:
                rlocs[mp["attr"]] = "header"
            for mp in r0.get("cookies") or []:
                rlocs[mp["attr"]] = "cookie"
        # an array carried in a response header: the generated server joins the elements into ONE value ("a, b"), the generated client
        # reads one element per header VALUE and does not split: only arrays of exactly one element survive
        joined = [k for k, v in (cmd["script"].get("result") or {}).items() if rlocs.get(k) == "header" and isinstance(v, list) and len(v) != 1] \
            if isinstance(cmd["script"].get("result"), dict) else []
        # ... stated exactly by Model/Transport.lean `deliverElems` (Props/C02.lean response_header_elems_delivered_iff): what the client sees is
        # compared with the model's prediction, so another behaviour of header arrays is not covered by the recorded finding
        explained, handled = False, set()
        for k, v in ((cmd["script"].get("result") or {}).items() if isinstance(cmd["script"].get("result"), dict) else []):
            if rlocs.get(k) != "header" or not isinstance(v, list):
                continue
            _, _, att = att_at(b.schema, method["result"], SEP + k)
            prim = ((b.schema.resolve((b.schema.resolve(att).get("type") or {}).get("array") or {}) if att else {}).get("type") or {}).get("prim")
            if prim == "String":
                strs = list(v)
            elif prim in e2e.INT_RANGES:
                strs = [str(x) for x in v]
            elif prim == "Boolean":
                strs = ["true" if x else "false" for x in v]
            else:
                continue  # floats: the textual form is Go's, not modelled
            arrives = model_elems("response", "header", strs)
            if arrives is None:
                continue
            if prim == "String":
                want_seen, want_err = arrives, False
            else:
                conv = [e2e.parse_prim(prim, x) for x in arrives]
                want_seen, want_err = conv, any(x is None for x in conv)
            seen = (obs.get("client_result") or {}).get(k) if isinstance(obs.get("client_result"), dict) else None
            as_model = bool(obs.get("client_error")) if want_err else (not obs.get("client_error") and canon(seen) == canon(want_seen))
            if k in joined:
                joined.remove(k)
            if not as_model:
                out.append(("response/header/array-differs-from-model", "%s: result attribute %s = %r in a response header: the model of the generated "
                            "encoder/decoder pair predicts %s, the client %s" % (name, k, v, "an error" if want_err else repr(want_seen),
                                                                                 "returned the error " + obs["client_error"].get("message", "")[:120] if obs.get("client_error") else "saw %r" % (seen,))))
                explained = True
            elif want_err or canon(want_seen) != canon(v):
                out.append(("response/header/array-written-as-one-joined-value", "%s: result attribute %s = %r travels in a response header as one comma-joined "
                            "value, the client reads one element per header value: it %s" % (name, k, v, "fails" if want_err else "sees %r" % (want_seen,))))
                explained = True
            handled.add(k)  # judged here
        if explained and obs.get("client_error"):
            pass
        elif joined and obs.get("client_error"):
            out.append(("response/header/array-written-as-one-joined-value", "%s: result attribute %s = %r travels in a response header as one comma-joined "
                        "value, the client reads one element per header value: %s" % (name, joined[0], cmd["script"]["result"][joined[0]], obs["client_error"].get("message", "")[:160])))
        elif obs.get("client_error"):
            msg = obs["client_error"].get("message", "")
            mm = re.search(r'"(\w+)" is missing from (header|cookie)', msg)
            sent_v = (cmd["script"]["result"] or {}).get(mm.group(1)) if mm and isinstance(want, dict) else None
            if mm and sent_v == "":
                out.append(("response/%s/required-empty-string-reported-missing" % mm.group(2),
                            "%s: required result attribute %s carried in a %s with value \"\" is reported missing by the client" % (name, mm.group(1), mm.group(2))))
            elif mm and mm.group(2) == "cookie" and isinstance(sent_v, str) and not COOKIE_OCTET.match(sent_v):
                out.append(("response/cookie/value-outside-cookie-octets",
                            "%s: result attribute %s = %r carried in a response cookie is dropped or altered by net/http's cookie sanitiser" % (name, mm.group(1), sent_v)))
            elif "must be greater or equal than" in msg and "len=0" in msg and c04_absent(b, method["result"], cmd["script"]["result"]):
                out.append(("response/absent-optional-collection-with-min-length-rejected",
                            "%s: a result that leaves an optional array/map with MinLength unset is refused by the generated client: %s" % (name, msg[:160])))
            elif isinstance(want, dict) and any(rlocs.get(k) == "cookie" and isinstance(v, str) and not COOKIE_OCTET.match(v)
                                                for k, v in (cmd["script"]["result"] or {}).items()):
                bad = [k for k, v in (cmd["script"]["result"] or {}).items() if rlocs.get(k) == "cookie" and isinstance(v, str) and not COOKIE_OCTET.match(v)]
                out.append(("response/cookie/value-outside-cookie-octets",
                            "%s: result attribute %s carried in a response cookie is altered by net/http's cookie sanitiser and then fails the client's validation: %s" % (name, bad[0], msg[:120])))
            else:
                out.append(("response/client-error", "%s: the client returned an error for a valid result: %s" % (name, msg[:200])))
        else:
            have = canon(obs.get("client_result"))
            for path, s, g in diff_paths(want, have):
                _, _, att = att_at(b.schema, method["result"], path)
                if att is not None and att.get("has_default") and s is None and g == att.get("default"):
                    continue
                if is_bytes(b.schema, att) and s == "" and g is None:
                    continue
                if att is not None and att.get("has_default") and s in (0, 0.0, "", False) and g == att.get("default"):
                    out.append(("response/defaulted-zero-arrives-as-default", "%s: result attribute %s returned as %r seen by the client as %r" % (name, show(path), s, g)))
                    continue
                top = path.strip(SEP).split(SEP)[0]
                if top in handled:
                    continue
                if top in joined:
                    out.append(("response/header/array-written-as-one-joined-value", "%s: result attribute %s = %r travels in a response header as one comma-joined "
                                "value, the client sees %r" % (name, top, cmd["script"]["result"][top], (obs.get("client_result") or {}).get(top))))
                    continue
                if rlocs.get(top) == "cookie" and isinstance(s, str) and not COOKIE_OCTET.match(s):
                    out.append(("response/cookie/value-outside-cookie-octets",
                                "%s: result attribute %s = %r carried in a response cookie is dropped or altered by net/http's cookie sanitiser" % (name, show(path), s)))
                    continue
                if rlocs.get(top) and s == "" and g is None:
                    out.append(("response/%s/empty-string-is-absent" % rlocs[top], "%s: result attribute %s returned as \"\" is absent for the client" % (name, show(path))))
                    continue
                out.append(("response/%s/%s" % (rlocs.get(top, "body"), type(s).__name__), "%s: result attribute %s returned as %r seen by the client as %r" % (name, show(path), s, g)))
        # each attribute travels in the location the design assigns it, and only there: what a response carries in a header or a cookie
        # is not repeated in the body
        try:
            wire_body = json.loads(w.get("resp_body") or "null")
        except Exception:
            wire_body = None
        if isinstance(wire_body, dict) and 200 <= (w.get("status") or 0) < 300:
            for k, loc in sorted(rlocs.items()):
                if k in wire_body:
                    out.append(("response/%s/attribute-also-in-body" % loc, "%s: result attribute %s is mapped to a response %s, the response body carries it too: %s" %
                                (name, k, loc, (w.get("resp_body") or "")[:200])))
        want_status = 200
        if chosen:
            want_status = chosen["code"]
        elif method.get("result") is None:
            want_status = 204
        if w.get("status") != want_status:
            out.append(("response/status", "%s: response status %s, the design assigns %s" % (name, w.get("status"), want_status)))
    if method.get("result") is None and not cmd["script"].get("error"):
        # a method without result still answers with the status the design assigns
        chosen = chosen_response(method, None)
        want_status = chosen["code"] if chosen else 204
        if w.get("status") != want_status:
            out.append(("response/status", "%s: response status %s, the design assigns %s" % (name, w.get("status"), want_status)))
    if obs.get("write_headers") != 1:
        out.append(("response/write-headers", "%s: %s WriteHeader calls" % (name, obs.get("write_headers"))))
    return out


def commands_for(b, seed, per_method):
    cmds, meta = [], []
    for s in b.design["services"]:
        for m in s["methods"]:
            if not m.get("http"):
                continue
            locs = e2e.locations_of(m)
            for k in range(per_method):
                rng = e2e.rng_for(seed, b.index, s["name"], m["name"], k)
                p = None
                if m.get("payload"):
                    p = e2e.gen_object(b.schema, m["payload"], rng, "body", 0, locs) if b.schema.is_object(m["payload"]) \
                        else e2e.gen_value(b.schema, m["payload"], rng, "body")
                    if p is None:
                        continue
                res = None
                if m.get("result"):
                    res = e2e.gen_value(b.schema, m["result"], rng, "body")
                    if res is None:
                        continue
                    # a result attribute of type Any carried in a response header or cookie travels as text
                    if isinstance(res, dict):
                        for r0 in (m.get("http") or {}).get("responses") or []:
                            for mp in (r0.get("headers") or []) + (r0.get("cookies") or []):
                                fa = dict(b.schema.fields(m["result"])).get(mp["attr"])
                                if fa and (b.schema.resolve(fa).get("type") or {}).get("prim") == "Any" and mp["attr"] in res:
                                    res[mp["attr"]] = "any text"
                cmds.append({"op": "call", "service": s["name"], "method": m["name"], "payload": p, "script": {"result": res}})
                meta.append((s, m))
                # a service that leaves its required arrays nil: the response still carries (and the client sees) empty lists
                if k == 0 and isinstance(res, dict) and m.get("result") and b.schema.is_object(m["result"]):
                    ra = b.schema.resolve(m["result"])
                    rl = {mp["attr"] for r0 in (m.get("http") or {}).get("responses") or [] for mp in (r0.get("headers") or []) + (r0.get("cookies") or [])}
                    arrs = [fn for fn, fa in b.schema.fields(m["result"]) if fn in (ra.get("required") or []) and fn not in rl
                            and (b.schema.resolve(fa).get("type") or {}).get("array") and not b.schema.resolve(fa).get("has_default")
                            and not ((b.schema.resolve(fa).get("val") or {}).get("minlen"))]
                    if arrs:
                        cmds.append({"op": "call", "service": s["name"], "method": m["name"], "payload": p,
                                     "script": {"result": {kk: vv for kk, vv in res.items() if kk not in arrs}, "expect_result": dict(res, **{a: [] for a in arrs})}})
                        meta.append((s, m))
    return cmds, meta


def run_shared(c, prop):
    """Shared body of C02 and C03 (the same exchanges are judged for both directions)."""
    n = 24 if c.tier == "quick" else 300
    per = 25 if c.tier == "quick" else 60
    c.cov["rule"] = ("designs %d..%d of the stream (plain and errors variants; nested inline objects excluded: they do not compile, "
                     "see C01), each built with the glue; per method %d valid payload/result pairs from a type-directed generator with "
                     "boundary classes (optional present/absent, zero values, URL-reserved/percent/space/non-ASCII strings, negative and "
                     "64-bit integers, dyadic floats, empty and nested collections), sent through the generated client into the generated "
                     "server in-process (request re-parsed by http.ReadRequest). non-trivial = calls with at least one attribute.") % (0, n - 1, per)
    c.cov["trusted_base"] += [
        "harness/e2ert: conversion between design-level JSON values and generated Go types by reflection (field names via goa's codegen.Goify), "
        "stub service, in-process round tripper; harness/cmd/genrun glue generator (reads only signatures of the generated Service interface)",
        "encoding/json, net/http request writing/parsing and header/cookie sanitising are library code (exercised)",
        "streaming endpoints are not generated yet (stated gap of the thorough tier)",
    ]
    have = c.go_build("genrun")
    lean_ok = False
    if c.lake_build("GoaVerif.Props.C02"):
        c.audit("C02")
        if c.tier == "thorough":
            c.leanchecker("C02")
        lean_ok = c.lake_build("drv_transport", what="tie")
    if not have:
        return
    work = designs.scratch(prop)
    nm = 24 if c.tier == "quick" else 96
    c.cov["rule"] += (" Before them the systematic transport table: %d matrix designs (every primitive kind in one request location "
                      "query/header/cookie/body and one response location header/body/cookie, required / optional / defaulted in rotation, "
                      "without and with validations), independent of the seed." % nm)
    builds = e2e.build_many(c.seed, range(nm), lambda i: ["-matrix-design"], work)
    na = 10 if c.tier == "quick" else 40
    c.cov["rule"] += " Then %d designs around primitive alias types with validations (attributes, array elements, map values, own Enum)." % na
    builds += e2e.build_many(c.seed, range(na), lambda i: ["-alias-design"], work)
    c.cov["rule"] += " Then 8 designs around the type Any (whole payload / result, array element, map value, attribute, query parameter, response header)."
    builds += e2e.build_many(c.seed, range(8), lambda i: ["-any-design"], work)
    # the status design: every final success status, a third of them given inside the response DSL
    builds += e2e.build_many(c.seed, range(1), lambda i: ["-status-design"], work)
    # the solo table: methods whose payload (and result) is ONE attribute
    builds += e2e.build_many(c.seed, range(4 if c.tier == "quick" else 12), lambda i: ["-solo-design"], work)
    builds += e2e.build_many(c.seed, range(n), lambda i: ["-errors"] if i % 3 == 1 else [], work)
    transport_ops = []
    for b in builds:
        if b.error:
            c.hist("build", "rejected" if b.error.startswith("rejected") else "failed")
            if not b.error.startswith("rejected"):
                c.fail("e2e-build", "design %d could not be generated/built: %s" % (b.index, b.error[:300]),
                       input={"seed": c.seed, "index": b.index, "flags": b.flags}, design=b.design, expected="builds", actual=b.error)
            continue
        c.hist("build", "ok")
        cmds, meta = commands_for(b, c.seed, per)
        if not cmds:
            b.cleanup()
            continue
        obs, err = b.run(cmds)
        if obs is None or len(obs) != len(cmds):
            c.broken.append({"kind": "tie", "name": "e2e binary failed for design %d" % b.index, "detail": str(err)[-800:]})
            b.cleanup()
            continue
        for cmd, (s, m), o in zip(cmds, meta, obs):
            c.evaluations += 1
            if cmd.get("payload") or cmd["script"].get("result") is not None:
                c.count("%d/%s/%s/%s" % (b.index, s["name"], m["name"], json.dumps(cmd, sort_keys=True)[:400]))
            for loc in set(e2e.locations_of(m).values()):
                c.hist("location", loc)
            w = o.get("wire") or {}
            c.hist("status", w.get("status"))
            for sig, what in judge_call(b, s, m, cmd, o):
                want = "request" if prop == "C02" else "response"
                if sig.startswith(want) or sig.startswith("panic") or sig == "harness":
                    c.fail(sig, what, input={"seed": c.seed, "index": b.index, "flags": b.flags, "command": cmd}, design=b.design,
                           expected="value delivered unchanged", actual=json.dumps(o)[:1500])
            # feed the primitive transports of this exchange to the Lean model
            transport_ops += transport_lines(b, m, cmd, o)
        if len(c.cov["samples"]) < 2:
            c.sample({"design_index": b.index, "command": cmds[0], "observation": {k: obs[0].get(k) for k in ("server_called", "server_payload", "client_result")},
                      "wire": {k: (obs[0].get("wire") or {}).get(k) for k in ("method", "path", "raw_query", "status")}})
        b.cleanup()
    shutil.rmtree(work, ignore_errors=True)
    if lean_ok and transport_ops:
        transport_ops = list(dict.fromkeys(transport_ops))
        rc, model, se = c.run_lines([os.path.join(LEAN, ".lake/build/bin/drv_transport")], "\n".join(transport_ops) + "\n")
        bad = [(o, m) for o, m in zip(transport_ops, model) if m != "ok"]
        c.cov["ties"].setdefault("T3", []).append({"name": "wire strings of primitives vs Lean format/parse", "lines": len(transport_ops), "disagreements": len(bad)})
        if bad:
            c.broken.append({"kind": "correspondence", "name": "generated client wire strings vs Model/Transport.lean",
                             "first_disagreement": {"input": bad[0][0], "model": bad[0][1]}, "count": len(bad)})


def transport_lines(b, m, cmd, o):
    """`prim <Type> <value> <wire string>` lines for primitives that travelled as strings
    (path is skipped: it is not separable without the pattern)."""
    out = []
    if not o.get("server_called") or not cmd.get("payload") or not isinstance(cmd["payload"], dict):
        return out
    w = o.get("wire") or {}
    from urllib.parse import parse_qs
    q = parse_qs(w.get("raw_query") or "", keep_blank_values=True)
    h = m.get("http") or {}
    fields = dict(b.schema.fields(m["payload"]))
    for mp in h.get("params") or []:
        name, wire = mp["attr"], mp.get("wire") or mp["attr"]
        att = fields.get(name)
        v = cmd["payload"].get(name)
        if att is None or v is None or wire not in q:
            continue
        t = b.schema.resolve(att).get("type", {})
        if t.get("prim") in e2e.INT_RANGES or t.get("prim") == "Boolean":
            sv = ("true" if v else "false") if isinstance(v, bool) else str(v)
            out.append("prim %s %s %s" % (t["prim"], sv, q[wire][0].encode().hex() or "-"))
    return out


def run(c):
    run_shared(c, "C02")


def replay(c, obj):
    f = obj["failure"]
    c.go_build("genrun")
    work = designs.scratch("C02r")
    flags = f["input"].get("flags")
    if flags is None:
        flags = ["-errors"] if f["input"]["index"] % 3 == 1 else []
    b = e2e.build_design(f["input"]["seed"], f["input"]["index"], flags, work)
    if b.error:
        print("build:", b.error)
        shutil.rmtree(work, ignore_errors=True)
        return 1
    cmd = f["input"]["command"]
    obs, err = b.run([cmd])
    print(json.dumps(obs[0])[:2000] if obs else err)
    bad = False
    for s in b.design["services"]:
        for m in s["methods"]:
            if s["name"] == cmd["service"] and m["name"] == cmd["method"] and obs:
                res = judge_call(b, s, m, cmd, obs[0])
                for sig, what in res:
                    print("violates:", sig, what)
                bad = bool(res)
    shutil.rmtree(work, ignore_errors=True)
    return 1 if bad else 0
