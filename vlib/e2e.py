"""End-to-end harness (tie T5): per design, goa generates the code in a fresh process, genrun adds
the glue program, the Go tool chain builds it, and the binary answers JSON commands (calls through
the generated client into the generated server, raw requests) with JSON observations."""
import json
import re
import os
import random
import shutil
import subprocess

from .core import goenv
from . import designs

INT_RANGES = {"Int": (-2 ** 63, 2 ** 63 - 1), "Int32": (-2 ** 31, 2 ** 31 - 1), "Int64": (-2 ** 63, 2 ** 63 - 1),
              "UInt": (0, 2 ** 64 - 1), "UInt32": (0, 2 ** 32 - 1), "UInt64": (0, 2 ** 64 - 1)}

STRINGS = ["", "a", "abc", "hello world", "a/b", "100%", "%41", "a+b", "x&y=z", "é", "日本", "q?#", "'\"", "tab\there", "x,y", " lead", "trail ", "a;b", "\\"]
SAFE_HEADER = [s for s in STRINGS if s == s.strip() and "\t" not in s and s != ""]


class Schema:
    def __init__(self, design):
        self.d = design
        self.types = {t["name"]: t for t in design.get("types", [])}
        # attributes re-declared without a type under Reference(Base) inherit type and validations of the base attribute
        for t in design.get("types", []):
            base = self.types.get(t.get("reference") or "")
            if not base:
                continue
            bfields = {f["name"]: f["att"] for f in ((base.get("att") or {}).get("type") or {}).get("object") or []}
            for f in ((t.get("att") or {}).get("type") or {}).get("object") or []:
                if not f["att"].get("type") and f["name"] in bfields:
                    # the re-declaration works on a copy of the base attribute: its keywords are set on top of the inherited ones
                    merged = dict(bfields[f["name"]], **{k: v for k, v in f["att"].items() if k not in ("type", "val")})
                    if f["att"].get("val") or bfields[f["name"]].get("val"):
                        merged["val"] = dict(bfields[f["name"]].get("val") or {}, **(f["att"].get("val") or {}))
                    f["att"] = merged

        # validations given in the HTTP mapping (Param("id", func() { Pattern(...) })) hold on top of the attribute's own
        for sv in design.get("services", []):
            for m in sv.get("methods", []):
                pay = (m.get("payload") or {})
                fields = {f["name"]: f for f in ((pay.get("type") or {}).get("object") or [])}
                for key in ("params", "headers", "cookies"):
                    for mp in (m.get("http") or {}).get(key) or []:
                        if mp.get("val") and mp["attr"] in fields:
                            fa = fields[mp["attr"]]["att"]
                            fa["val"] = dict(fa.get("val") or {}, **mp["val"])

    def resolve(self, att):
        seen = 0
        while att and att.get("type", {}).get("ref") and seen < 10:
            att = self.types[att["type"]["ref"]]["att"]
            seen += 1
        return att

    def eff_val(self, att):
        """the attribute's validation merged with those of the alias types it refers to (the attribute's own keys win)"""
        out = {}
        chain = [att]
        seen = 0
        while att and att.get("type", {}).get("ref") and seen < 10:
            att = self.types[att["type"]["ref"]]["att"]
            chain.append(att)
            seen += 1
        for a in reversed(chain):
            out.update(a.get("val") or {})
        return out

    def is_object(self, att):
        t = self.resolve(att).get("type", {})
        return bool(t.get("is_object") or t.get("object"))

    def fields(self, att):
        return [(f["name"], f["att"]) for f in self.resolve(att)["type"].get("object") or []]

    def required(self, att):
        return set(self.resolve(att).get("required") or [])

    def is_pointer(self, parent, name, att):
        """goa stores an attribute behind a pointer iff it is a primitive (not bytes) that is neither
        required nor defaulted, or a user type / object."""
        a = self.resolve(att)
        t = a.get("type", {})
        if att.get("type", {}).get("ref") and t.get("prim") and t["prim"] not in ("Bytes", "Any"):
            # an alias of a primitive is stored like the primitive: a value when required or defaulted
            return name not in self.required(parent) and not att.get("has_default") and not a.get("has_default")
        if att.get("type", {}).get("ref") or t.get("is_object") or t.get("object") or t.get("one_of"):
            return True
        if t.get("prim") and t["prim"] not in ("Bytes", "Any"):
            return name not in self.required(parent) and not att.get("has_default")
        return False


def satisfies(prim, val, x):
    """does the primitive value meet the bound / length / pattern rules (used for Enum members of an attribute whose alias type has rules)"""
    import re
    if isinstance(x, (int, float)) and not isinstance(x, bool):
        if "min" in val and x < val["min"] or "max" in val and x > val["max"]:
            return False
        if "exmin" in val and x <= val["exmin"] or "exmax" in val and x >= val["exmax"]:
            return False
    if isinstance(x, str):
        if "minlen" in val and len(x) < val["minlen"] or "maxlen" in val and len(x) > val["maxlen"]:
            return False
        if val.get("pattern") and not re.search(val["pattern"], x):
            return False
    return True


def valid_prim(prim, val, rng, location="body"):
    """A value of the primitive type satisfying the validation (None if we cannot build one)."""
    val = val or {}
    if val.get("enum"):
        ok = [x for x in val["enum"] if satisfies(prim, {k: v for k, v in val.items() if k != "enum"}, x)]
        return rng.choice(ok) if ok else None
    if prim == "Boolean":
        return rng.choice([True, False])
    if prim in INT_RANGES:
        lo, hi = INT_RANGES[prim]
        if "min" in val:
            lo = max(lo, int(-(-val["min"] // 1)))
        if "exmin" in val:
            lo = max(lo, int(val["exmin"] // 1) + 1)
        if "max" in val:
            hi = min(hi, int(val["max"] // 1))
        if "exmax" in val:
            hi = min(hi, int(-(-val["exmax"] // 1)) - 1)
        if lo > hi:
            return None
        cands = [lo, hi, 0, 1, -1, 7, lo + 1, hi - 1, (lo + hi) // 2]
        if prim in ("Int", "Int64", "UInt", "UInt64") and location == "body":
            # JSON numbers above 2^53 are still exact in Go's decoder (it parses the literal)
            pass
        cands = [c for c in cands if lo <= c <= hi]
        return rng.choice(cands)
    if prim in ("Float32", "Float64"):
        lo, hi = -1024.0, 1024.0
        if "min" in val:
            lo = max(lo, val["min"])
        if "exmin" in val:
            lo = max(lo, val["exmin"] + 0.25)
        if "max" in val:
            hi = min(hi, val["max"])
        if "exmax" in val:
            hi = min(hi, val["exmax"] - 0.25)
        if lo > hi:
            return None
        cands = [lo, hi, 0.0, 0.5, -0.75, 3.0, 100.125, (lo + hi) / 2]
        cands = [c for c in cands if lo <= c <= hi and c * 1024 == int(c * 1024)]
        if prim == "Float64" and lo <= 100.00000095367431640625 <= hi:
            cands.append(100.00000095367431640625)  # 100 + 2^-20: exact in 64 bits, not representable in 32
        return rng.choice(cands) if cands else None
    if prim in ("String", "Bytes"):
        if val.get("format") or val.get("pattern"):
            return fmt_value(val, rng)
        lo, hi = val.get("minlen", 0), val.get("maxlen", 12)
        pool = STRINGS if location == "body" else SAFE_HEADER + (["" ] if location == "query" else [])
        if prim == "Bytes":
            pool = ["", "a", "bytes", "\x00\x01\xff", "b b"] if location == "body" else ["a", "bytes", "bb"]
        cands = [s for s in pool if lo <= (len(s) if prim == "String" else len(s)) <= hi]
        if not cands:
            s = "x" * lo
            return s if lo <= hi else None
        return rng.choice(cands)
    return None


FORMAT_SAMPLES = {"date": "2024-02-29", "date-time": "2024-02-29T12:30:00Z", "uuid": "6ba7b810-9dad-11d1-80b4-00c04fd430c8",
                  "email": "john@example.com", "hostname": "goa.design", "ipv4": "192.168.0.1", "ipv6": "fe80::1",
                  "ip": "10.0.0.1", "uri": "http://example.com/a", "mac": "00:00:5e:00:53:01", "cidr": "10.0.0.0/8",
                  "regexp": "^a+$", "json": "{\"a\":1}", "rfc1123": "Mon, 02 Jan 2006 15:04:05 UTC"}
PATTERN_SAMPLES = {"^[a-z]+$": "abc", "^x": "xyz", "[0-9]": "a1", "^(a|b)c?$": "ac", "^[a-zé]*$": "aé"}


def fmt_value(val, rng):
    if val.get("format"):
        s = FORMAT_SAMPLES.get(val.get("format"))
        if s is not None and val.get("pattern") and not re.search(val["pattern"], s):
            return None
    else:
        s = PATTERN_SAMPLES.get(val["pattern"])
    if s is None:
        return None
    if "maxlen" in val and len(s) > val["maxlen"]:
        return None
    if "minlen" in val and len(s) < val["minlen"]:
        return None
    return s


def gen_value(schema, att, rng, location="body", depth=0):
    """A valid design-level JSON value for the attribute, or None when none can be built."""
    a = schema.resolve(att)
    t = a.get("type", {})
    if t.get("prim") == "Any":
        # the type Any: in a body any JSON value (numbers must stay plain float64 numbers); elsewhere a string
        if location != "body":
            return rng.choice(["any text", "x-1"])
        return rng.choice([1.5, -3.0, "any text", True, [1.5, "x", False], {"k": 2.25, "l": ["y", 7.0]}, 1048576.0])
    if t.get("prim"):
        return valid_prim(t["prim"], schema.eff_val(att), rng, location)
    if depth > 7:
        return None  # required recursion: no finite value down this branch
    if t.get("array"):
        val = att.get("val") or {}
        lo, hi = val.get("minlen", 0), val.get("maxlen", 3)
        n = rng.randint(lo, max(lo, min(hi, lo + 3)))
        if depth > 4:
            n = lo
        if location != "body" and n == 0:
            n = max(1, lo)  # an empty array cannot be told from an absent one outside a body
            if n > hi:
                return None
        out = []
        for _ in range(n):
            v = gen_value(schema, t["array"], rng, location, depth + 1)
            if v is None:
                return None
            out.append(v)
        return out
    if t.get("map_key"):
        out = {}
        for _ in range(rng.randint(0, 2)):
            k = gen_value(schema, t["map_key"], rng, "mapkey", depth + 1)
            v = gen_value(schema, t["map_elem"], rng, location, depth + 1)
            if k is None or v is None or k == "":
                continue
            out[str(k) if not isinstance(k, bool) else str(k).lower()] = v
        return out
    if t.get("is_object") or t.get("object"):
        return gen_object(schema, a, rng, location, depth)
    if t.get("one_of") and UNIONS:
        alt = rng.choice(t["one_of"])
        v = gen_value(schema, alt["att"], rng, location, depth + 1)
        return None if v is None else {alt["name"]: v}
    return None


# OneOf unions are only built where the driver can carry them (the gRPC exchanges of C10)
UNIONS = False


def gen_object(schema, att, rng, location="body", depth=0, locations=None):
    out = {}
    req = schema.required(att)
    for name, fa in schema.fields(att):
        loc = (locations or {}).get(name, location)
        optional = name not in req
        if optional and depth > 3:
            continue
        if optional and schema.is_pointer(att, name, fa) and rng.random() < 0.35:
            continue  # left unset
        v = gen_value(schema, fa, rng, loc, depth + 1)
        if v is None:
            if optional and schema.is_pointer(att, name, fa):
                continue
            return None
        out[name] = v
    return out


def locations_of(method):
    """attribute name -> path | query | header | cookie | body, as the design maps it."""
    h = method.get("http") or {}
    locs = {}
    for key, loc in (("params", "query"), ("headers", "header"), ("cookies", "cookie")):
        for m in h.get(key) or []:
            locs[m["attr"]] = loc
    import re
    for n in re.findall(r"\{\*?(\w+)\}", h.get("path", "")):
        locs[n] = "path"
    return locs


class Built:
    """One design generated, glued and built."""

    def __init__(self, index, design_json, workdir):
        self.index, self.design_json, self.workdir = index, design_json, workdir
        self.design = json.loads(design_json)
        self.schema = Schema(self.design)
        self.error = None
        self.binary = None

    def run(self, commands, timeout=300, race=False):
        inp = "\n".join(json.dumps(c) for c in commands) + "\n"
        env = goenv()
        env["GOMEMLIMIT"] = "2GiB"
        try:
            p = subprocess.run([self.binary], input=inp, capture_output=True, text=True, timeout=timeout, env=env, cwd=self.workdir)
        except subprocess.TimeoutExpired:
            return None, "timeout"
        out = []
        for line in p.stdout.splitlines():
            try:
                out.append(json.loads(line))
            except Exception:
                out.append({"harness_error": "unparsable: " + line[:200]})
        return out, p.stderr

    def cleanup(self):
        shutil.rmtree(self.workdir, ignore_errors=True)


def build_design(seed, index, flags, work, race=False, tags=None, path_prefix=None):
    dj = designs.make_design(seed, index, flags)
    wd = os.path.join(work, "d%d%s" % (index, "".join(f for f in flags if f.endswith("-design"))))
    os.makedirs(wd, exist_ok=True)
    b = Built(index, dj, wd)
    b.flags = list(flags)
    with open(os.path.join(wd, "design.json"), "w") as f:
        f.write(dj)
    cmd = [designs.GENRUN, "run", "-design", os.path.join(wd, "design.json"), "-out", os.path.join(wd, "out"), "-glue"]
    try:
        genv = goenv()
        if path_prefix:
            genv["PATH"] = path_prefix + os.pathsep + genv.get("PATH", "")
        p = subprocess.run(cmd, capture_output=True, text=True, env=genv, timeout=900, preexec_fn=designs.limited())
        rep = json.loads(p.stdout)
    except Exception as ex:
        b.error = "genrun: %r" % ex
        return b
    if not rep.get("accepted"):
        b.error = "rejected: " + "; ".join(rep.get("errors", []))[:300]
        return b
    if rep.get("glue_error") or rep["gen"].get("error") or rep["gen"].get("panic"):
        b.error = "generation: " + str(rep.get("glue_error") or rep["gen"].get("error") or rep["gen"].get("panic"))[:400]
        return b
    args = ["go", "build"] + (["-race"] if race else []) + (["-tags", tags] if tags else []) + ["-o", os.path.join(wd, "e2e"), "./cmd/e2e"]
    p = subprocess.run(args, cwd=os.path.join(wd, "out"), capture_output=True, text=True, env=goenv())
    if p.returncode != 0:
        b.error = "build: " + (p.stdout + p.stderr)[-6000:]
        return b
    b.binary = os.path.join(wd, "e2e")
    return b


def build_many(seed, indices, flags_fn, work, race=False, workers=12, tags=None, path_prefix=None):
    return designs.parallel(lambda i: build_design(seed, i, flags_fn(i), work, race, tags, path_prefix), indices, workers)


def rng_for(seed, *keys):
    return random.Random("%s/%s" % (seed, "/".join(map(str, keys))))


def parse_prim(prim, text):
    """the value a generated decoder makes of a string for an integer or boolean attribute (None: refused) — strconv's grammar, no spaces"""
    if prim == "Boolean":
        return {"1": True, "t": True, "T": True, "TRUE": True, "true": True, "True": True,
                "0": False, "f": False, "F": False, "FALSE": False, "false": False, "False": False}.get(text)
    if not re.match(r"^[+-]?[0-9]+$", text or ""):
        return None
    n = int(text)
    lo, hi = INT_RANGES[prim]
    return n if lo <= n <= hi else None
