"""C05 — declared errors reach the client as the same error; others become faults.
Lean: Model/ErrorMap.lean (error-name -> response table after inheritance, the generated error
encoder's dispatch with the default encoder's status function *translated* from /repo by gotolean,
the generated client's dispatch by status and goa-error header), theorems in Props/C05.lean.
Tie T5: per design the generated server/client are built; the stub service returns scripted
errors (every declared error of the method incl. inherited service/API level ones, custom and
primitive error types, plain Go errors, undeclared and wrapped goa.ServiceErrors with all flag
combinations, ServiceErrors carrying a declared name) and the wire + the client's error are
compared with drv_errmap's answer."""
import itertools
import json
from urllib.parse import parse_qsl, urlencode
import os
import shutil

from .core import LEAN
from . import designs, e2e, c04


def hx(s):
    return s.encode().hex() or "-"


def ctx_tokens(design, svc, m):
    h = m.get("http") or {}
    mh = [(e["name"], e["code"]) for e in h.get("errors") or []]
    me = [e["name"] for e in m.get("errors") or []]
    se = [e["name"] for e in svc.get("errors") or []]
    sh = [(e["name"], e["code"]) for e in svc.get("http_errors") or []]
    ah = [(e["name"], e["code"]) for e in design.get("api_http_errors") or []]

    def hs(tag, l):
        return [tag, str(len(l))] + [t for n, c in l for t in (hx(n), str(c))]

    def ns(tag, l):
        return [tag, str(len(l))] + [hx(n) for n in l]
    return hs("MH", mh) + ns("ME", me) + ns("SE", se) + hs("SH", sh) + hs("AH", ah)


def effective_errors(svc, m):
    """ErrDef by name as the method sees them (method declarations win over service ones)"""
    out = {}
    for e in svc.get("errors") or []:
        out[e["name"]] = e
    for e in m.get("errors") or []:
        out[e["name"]] = e
    return out


def sample_value(schema, att, rng):
    return e2e.gen_value(schema, att, rng, "body")


def scripts_for(b, svc, m, rng):
    """(label, script error, Lean `R ...` tokens, expectation dict)"""
    out = []
    errs = effective_errors(svc, m)
    for name, e in errs.items():
        flags = (bool(e.get("timeout")), bool(e.get("temporary")), bool(e.get("fault")))
        if e.get("type"):
            v = sample_value(b.schema, e["type"], rng)
            if v is None:
                continue
            out.append(("declared-custom", {"kind": "declared", "name": name, "value": v}, ["R", hx(name), "~"],
                        {"name": name, "value": v, "sent": c04.transmitted(b.schema, e["type"], v, {}, True)}))
        else:
            out.append(("declared", {"kind": "declared", "name": name, "message": "boom " + name},
                        ["R", hx(name), hx(name)] + ["1" if f else "0" for f in flags],
                        {"name": name, "flags": flags, "message": "boom " + name}))
            # a hand-built ServiceError carrying the declared name, with its own flags
            f2 = (rng.random() < 0.5, rng.random() < 0.5, rng.random() < 0.5)
            out.append(("service-with-declared-name", {"kind": "service", "name": name, "message": "hand made", "timeout": f2[0], "temporary": f2[1], "fault": f2[2]},
                        ["R", hx(name), hx(name)] + ["1" if f else "0" for f in f2], {"name": name, "flags": f2, "message": "hand made"}))
    out.append(("plain", {"kind": "plain", "message": "plain failure"}, ["R", "~", "~"], {"undeclared": True, "message": "plain failure", "spec_status": 500}))
    for t, tmp, f in itertools.product((False, True), repeat=3):
        kind = "wrapped-service" if (t ^ f) else "service"
        n = "zz_undeclared"
        out.append(("undeclared-" + kind, {"kind": kind, "name": n, "message": "undeclared", "timeout": t, "temporary": tmp, "fault": f},
                    ["R", hx(n), hx(n)] + ["1" if x else "0" for x in (t, tmp, f)],
                    {"undeclared": True, "message": "undeclared", "spec_status": spec_status(t, tmp, f), "flags3": "%d%d%d" % (t, tmp, f)}))
    return out


def spec_status(timeout, temporary, fault):
    """The documented default mapping (http/error.go StatusCode; Props/C05.lean default_status_table states the same table
    about the definition regenerated from /repo): independent of the regenerated definition the driver is compiled from."""
    if fault:
        return 500
    if timeout:
        return 504 if temporary else 408
    return 503 if temporary else 400


def designed_content_type(design, svc, m, name):
    """the content type the design fixes for the response of this error ('' = negotiated, JSON by default)"""
    for scope in ((m.get("http") or {}).get("errors") or [], svc.get("http_errors") or [], design.get("api_http_errors") or []):
        for e in scope:
            if e["name"] == name:
                return e.get("content_type") or ""
    return ""


def judge(label, exp, model, o):
    """[(signature, what)]"""
    if o.get("harness_error"):
        return [("harness", "harness error: " + str(o["harness_error"])[:200])]
    if o.get("panic"):
        return [("error/panic/" + label, "generated code panicked: " + o["panic"].splitlines()[0])]
    w = o.get("wire") or {}
    out = []
    mv = dict(kv.split("=", 1) for kv in model.split(" "))
    if o.get("write_headers") != 1:
        out.append(("error/write-headers/" + label, "%s WriteHeader calls" % o.get("write_headers")))
    if str(w.get("status")) != mv["status"]:
        out.append(("error/status/" + label, "status %s on the wire, the model says %s" % (w.get("status"), mv["status"])))
    if exp.get("spec_status") is not None and w.get("status") != exp["spec_status"]:
        out.append(("error/undeclared-status/%s/flags=%s" % (label, exp.get("flags3", "plain")),
                    "undeclared error (timeout/temporary/fault = %s) answered with status %s, the default mapping gives %s" % (exp.get("flags3", "plain"), w.get("status"), exp["spec_status"])))
    hdr = (w.get("resp_headers") or {}).get("Goa-Error")
    want_hdr = None if mv["header"] == "~" else bytes.fromhex(mv["header"]).decode()
    if want_hdr is not None and (hdr or [None])[0] != want_hdr:
        out.append(("error/goa-error-header/" + label, "goa-error header %r, expected %r" % (hdr, want_hdr)))
    ct = ((w.get("resp_headers") or {}).get("Content-Type") or [""])[0]
    want_ct = exp.get("content_type") or ""
    if w.get("resp_body") and not ct.lower().startswith(want_ct or "application/json"):
        out.append(("error/content-type/" + label, "the error response is sent as %r, the design %s" % (ct, ("fixes %r" % want_ct) if want_ct else "fixes none (JSON unless negotiated otherwise)")))
    try:
        body = json.loads(w.get("resp_body") or "null") if not want_ct or "json" in want_ct else None
    except Exception:
        body = "<unparsable>"
        out.append(("error/malformed-body/" + label, "response body is not JSON: %r" % (w.get("resp_body") or "")[:120]))
    if mv["default"] != "~" and isinstance(body, dict):
        n, t, tmp, f = mv["default"].split(":")
        want = {"name": bytes.fromhex(n).decode(), "timeout": t == "1", "temporary": tmp == "1", "fault": f == "1"}
        got = {k: body.get(k) for k in want}
        if got != want:
            out.append(("error/default-body/" + label, "default error body %r, expected %r" % (got, want)))
        if exp.get("message") and body.get("message") != exp["message"]:
            out.append(("error/default-body-message/" + label, "message %r, expected %r" % (body.get("message"), exp["message"])))
    ce = o.get("client_error")
    if not ce:
        out.append(("error/client-returned-no-error/" + label, "the generated client returned no error"))
        return out
    if not exp.get("undeclared"):
        want_client = None if mv["client"] == "~" else bytes.fromhex(mv["client"]).decode()
        if want_client != exp["name"]:
            out.append(("model/client-name/" + label, "model: client would report %r for %r" % (want_client, exp["name"])))
        if ce.get("name") != exp["name"]:
            out.append(("error/client-name/" + label, "client error name %r, the service returned %r (%s)" % (ce.get("name"), exp["name"], ce.get("message", "")[:100])))
        elif "flags" in exp:
            got = (ce.get("timeout"), ce.get("temporary"), ce.get("fault"))
            if got != tuple(exp["flags"]):
                out.append(("error/client-flags/" + label, "client sees timeout/temporary/fault %r, the service returned %r" % (got, exp["flags"])))
            if exp.get("message") and ce.get("message") != exp["message"]:
                out.append(("error/client-message/" + label, "client sees message %r, the service returned %r" % (ce.get("message"), exp["message"])))
        elif "value" in exp:
            from .c02 import canon
            if canon(ce.get("value")) != canon(exp.get("sent", exp["value"])):
                out.append(("error/client-value/" + label, "client sees error value %r, the service returned %r" % (ce.get("value"), exp["value"])))
    return out


def run(c):
    n = 30 if c.tier == "quick" else 300
    c.cov["rule"] = ("designs 0..%d of the stream generated with errors (method-level errors with default, custom object and primitive types, "
                     "several errors on one status, service-level errors mapped at service or API level, API-level definitions referred to by name); "
                     "per method one valid payload and every script: each declared error, a hand-built ServiceError with each declared name and random "
                     "flags, a plain error, undeclared ServiceErrors with all 8 flag combinations (half of them wrapped with %%w). Wire status, "
                     "goa-error header, default body, WriteHeader count and the client's error are compared with drv_errmap. non-trivial = all exchanges "
                     "(each carries a scripted error).") % (n - 1)
    c.cov["trusted_base"] += [
        "harness/e2ert + glue as for C02 (scripted errors are built with the generated Make<Error> constructors / generated error types by reflection)",
        "Model/ErrorMap.lean `table`, `encode`, `clientName` are hand-written from expr/http_endpoint.go Prepare and the two templates; only "
        "`httpStatusCode` is translated (T1); their agreement with the generated code is by execution on the generated designs",
        "error response *headers and bodies of custom types* are compared as values through the client only",
    ]
    have = c.go_build("genrun", "gotolean")
    lean_ok = False
    if c.go_build("gofacts") and c.gofacts("statusconst", "FactsStatus") and c.lake_build("GoaVerif.Props.Status"):
        c.audit("Status")
        if c.tier == "thorough":
            c.leanchecker("Status")
    if c.gotolean("status", "TrStatus"):
        if c.lake_build("GoaVerif.Props.C05"):
            c.audit("C05")
            if c.tier == "thorough":
                c.leanchecker("C05")
        # the driver only needs the model and the regenerated definition: when a theorem no longer checks the
        # exchanges below are the search for a failing input
        lean_ok = c.lake_build("drv_errmap", what="tie")
    if not (have and lean_ok):
        return
    drv = os.path.join(LEAN, ".lake/build/bin/drv_errmap")
    work = designs.scratch("C05")
    builds = e2e.build_many(c.seed, range(n), lambda i: ["-errors"], work)
    # the status design: an error for every 4xx / 5xx status, named by net/http (written as a constant by the generators) or not
    builds += e2e.build_many(c.seed, range(1 if c.tier == "quick" else 3), lambda i: ["-status-design"], work)
    total = 0
    for b in builds:
        if b.error:
            c.hist("build", "rejected" if b.error.startswith("rejected") else "failed")
            if not b.error.startswith("rejected"):
                c.fail("e2e-build", "design %d could not be generated/built: %s" % (b.index, b.error[:300]),
                       input={"seed": c.seed, "index": b.index, "flags": getattr(b, "flags", None)}, design=b.design, expected="builds", actual=b.error)
            b.cleanup()
            continue
        c.hist("build", "ok")
        cmds, meta, lines, valids = [], [], [], []
        for s in b.design["services"]:
            for m in s["methods"]:
                if not m.get("http"):
                    continue
                rng = e2e.rng_for(c.seed, "c05", b.index, s["name"], m["name"])
                locs = e2e.locations_of(m)
                p = None
                if m.get("payload"):
                    for _ in range(6):
                        p = e2e.gen_object(b.schema, m["payload"], rng, "body", 0, locs)
                        if p is not None and c04.path_safe(b.schema, m["payload"], p, locs):
                            break
                        p = None
                    if p is None:
                        continue
                if p is not None:
                    valids.append((s, m, p))
                ctx = ctx_tokens(b.design, s, m)
                for label, script, rtoks, exp in scripts_for(b, s, m, rng):
                    if not exp.get("undeclared"):
                        exp["content_type"] = designed_content_type(b.design, s, m, exp["name"])
                    cmds.append({"op": "call", "service": s["name"], "method": m["name"], "payload": p, "script": {"error": script}})
                    meta.append((s, m, label, exp))
                    lines.append("errmap " + " ".join(ctx + rtoks))
        if not cmds:
            b.cleanup()
            continue
        obs, err = b.run(cmds)
        if obs is None or len(obs) != len(cmds):
            c.broken.append({"kind": "tie", "name": "e2e binary failed for design %d" % b.index, "detail": str(err)[-800:]})
            b.cleanup()
            continue
        rc, models, se = c.run_lines([drv], "\n".join(lines) + "\n")
        if len(models) != len(lines) or "bad-op" in models:
            c.broken.append({"kind": "tie", "name": "drv_errmap output", "detail": (se or "")[-300:] + " " + str([l for l, mo in zip(lines, models) if mo == "bad-op"][:1])})
            b.cleanup()
            continue
        for cmd, (s, m, label, exp), line, model, o in zip(cmds, meta, lines, models, obs):
            if not o.get("server_called") and not o.get("panic"):
                c.hist("not-delivered", (o.get("wire") or {}).get("status"))
                continue  # the request itself was refused (C02/C04 territory)
            c.evaluations += 1
            total += 1
            c.count("%d/%s/%s/%s" % (b.index, s["name"], m["name"], json.dumps(cmd["script"], sort_keys=True)[:200]))
            c.hist("script", label)
            c.hist("status", (o.get("wire") or {}).get("status"))
            for sig, what in judge(label, exp, model, o):
                c.fail(sig, "%s.%s [%s] %s" % (s["name"], m["name"], label, what),
                       input={"seed": c.seed, "index": b.index, "command": cmd, "label": label, "model_line": line, "expect": {k: v for k, v in exp.items() if k != "att"}},
                       design=b.design, expected=model,
                       actual=json.dumps({"client_error": o.get("client_error"), "write_headers": o.get("write_headers"), "panic": (o.get("panic") or "")[:300],
                                          "wire": {k: (o.get("wire") or {}).get(k) for k in ("status", "resp_headers", "resp_body")}})[:1200])
        total += decode_failures(c, b, valids)
        if len(c.cov["samples"]) < 3 and cmds:
            c.sample({"design_index": b.index, "script": cmds[0]["script"], "model": models[0],
                      "wire_status": (obs[0].get("wire") or {}).get("status"), "client_error": obs[0].get("client_error")})
        b.cleanup()
    shutil.rmtree(work, ignore_errors=True)
    c.cov["ties"].setdefault("T5", []).append({"name": "generated error encoder / client decoder vs Lean ErrorMap", "exchanges": total})


STANDARD_NAMES = {"missing_field", "invalid_field_type", "decode_payload", "missing_payload", "invalid_format", "invalid_pattern", "invalid_range",
                  "invalid_length", "invalid_enum_value"}


def decode_failures(c, b, valids):
    """Requests the generated decoder cannot read (a required parameter, header or cookie missing; a number that is not one; a body that is
    not JSON): each is answered by exactly one response with status 400 whose body names a standard client error, none of the flags set,
    and the service method does not run."""
    first = [{"op": "call", "service": s["name"], "method": m["name"], "payload": p, "script": {"error": {"kind": "plain", "message": "x"}}} for s, m, p in valids]
    if not first:
        return 0
    obs, err = b.run(first)
    if obs is None or len(obs) != len(first):
        c.broken.append({"kind": "tie", "name": "e2e binary failed for design %d (decode failures)" % b.index, "detail": str(err)[-800:]})
        return 0
    cmds, meta = [], []
    for (s, m, p), o in zip(valids, obs):
        w = o.get("wire") or {}
        if not o.get("server_called") or not w.get("method"):
            continue
        pay = b.schema.resolve(m["payload"])
        fields = dict(b.schema.fields(m["payload"])) if (pay.get("type") or {}).get("object") is not None or (pay.get("type") or {}).get("is_object") else {}
        required = set(pay.get("required") or [])
        headers = {k: v for k, v in (w.get("headers") or {}).items() if k not in ("Content-Length", "Host")}
        target = w.get("path", "/") + ("?" + w["raw_query"] if w.get("raw_query") else "")

        def add(label, want, target=target, headers=headers, body=w.get("body") or ""):
            cmds.append({"op": "raw", "script": {"error": {"kind": "plain", "message": "x"}}, "raw": {"method": w["method"], "target": target, "headers": headers, "body": body}})
            meta.append((s, m, label, want))
        if w.get("body") and (headers.get("Content-Type") or [""])[0].startswith("application/json"):
            add("body-not-json", {"decode_payload"}, body="{")
        q = parse_qsl(w.get("raw_query") or "", keep_blank_values=True)
        ck = [k for k in headers if k.lower() == "cookie"]
        jar = [x.split("=", 1) for v in (headers.get(ck[0]) if ck else []) for x in v.split("; ") if "=" in x]
        for loc_key, loc in (("params", "query"), ("headers", "header"), ("cookies", "cookie")):
            for mp in (m["http"].get(loc_key) or []):
                wire, att = mp.get("wire") or mp["attr"], fields.get(mp["attr"])
                if att is None or "{" + wire + "}" in m["http"]["path"] or "{*" + wire + "}" in m["http"]["path"]:
                    continue
                ra = b.schema.resolve(att)
                prim = (ra.get("type") or {}).get("prim")
                numeric = prim in e2e.INT_RANGES or prim in ("Float32", "Float64", "Boolean")
                must = mp["attr"] in required and not ra.get("has_default")
                if c04.later_required_cookie(m, loc, mp["attr"]):
                    c.hist("decode failure", "skipped: a required cookie is read later (C04 finding)")
                    continue
                if loc == "query" and any(k == wire for k, _ in q):
                    path = w.get("path", "/")
                    if must:
                        q2 = [(k, v) for k, v in q if k != wire]
                        add("query-missing", {"missing_field"}, target=path + ("?" + urlencode(q2) if q2 else ""))
                    if numeric:
                        add("query-wrong-type", {"invalid_field_type"}, target=path + "?" + urlencode([(k, "abc" if k == wire else v) for k, v in q]))
                elif loc == "header":
                    hk = [k for k in headers if k.lower() == wire.lower()]
                    if hk and must:
                        add("header-missing", {"missing_field"}, headers={k: v for k, v in headers.items() if k not in hk})
                    if hk and numeric:
                        add("header-wrong-type", {"invalid_field_type"}, headers={k: (["abc"] if k in hk else v) for k, v in headers.items()})
                elif loc == "cookie" and any(k == wire for k, _ in jar):
                    def with_jar(j):
                        h2 = {k: v for k, v in headers.items() if k not in ck}
                        if j:
                            h2["Cookie"] = ["; ".join("%s=%s" % (k, v) for k, v in j)]
                        return h2
                    if must:
                        add("cookie-missing", {"missing_field"}, headers=with_jar([(k, v) for k, v in jar if k != wire]))
                    if numeric:
                        add("cookie-wrong-type", {"invalid_field_type"}, headers=with_jar([(k, "abc" if k == wire else v) for k, v in jar]))
    if not cmds:
        return 0
    obs, err = b.run(cmds)
    if obs is None or len(obs) != len(cmds):
        c.broken.append({"kind": "tie", "name": "e2e binary failed for design %d (decode failures)" % b.index, "detail": str(err)[-800:]})
        return 0
    for cmd, (s, m, label, want), o in zip(cmds, meta, obs):
        w = o.get("wire") or {}
        c.evaluations += 1
        c.hist("decode failure", label)
        c.count("%d/%s/%s/decode/%s/%s" % (b.index, s["name"], m["name"], label, json.dumps(cmd["raw"], sort_keys=True)[:200]))
        try:
            body = json.loads(w.get("resp_body") or "null")
        except Exception:
            body = None
        what = None
        if o.get("server_called"):
            sig, what = "reached-user-code", "the service method ran"
        elif w.get("status") != 400:
            sig, what = "status-%s" % w.get("status"), "answered with status %s %s" % (w.get("status"), (w.get("resp_body") or "")[:200])
        elif not isinstance(body, dict) or body.get("name") not in STANDARD_NAMES:
            sig, what = "not-a-standard-name", "the response body is %s" % (w.get("resp_body") or "")[:200]
        elif body.get("name") not in want:
            sig, what = "other-name-%s" % body.get("name"), "reported as %r, expected %s" % (body.get("name"), sorted(want))
        elif body.get("fault") or body.get("timeout") or body.get("temporary"):
            sig, what = "flagged", "a client error carries flags: %s" % (w.get("resp_body") or "")[:200]
        elif o.get("write_headers") not in (None, 1):
            sig, what = "responses-%s" % o.get("write_headers"), "%s responses were written" % o.get("write_headers")
        if what:
            c.fail("decode-failure/%s/%s" % (label, sig), "%s.%s: a request the decoder cannot read (%s): %s" % (s["name"], m["name"], label, what),
                   input={"seed": c.seed, "index": b.index, "command": cmd, "label": "decode:" + label}, design=b.design, expected="400 %s" % sorted(want),
                   actual=json.dumps({"write_headers": o.get("write_headers"), "wire": {k: w.get(k) for k in ("status", "resp_headers", "resp_body")}})[:1200])
    return len(cmds)


def replay(c, obj):
    f = obj["failure"]
    c.go_build("genrun", "gotolean")
    c.gotolean("status", "TrStatus")
    c.lake_build("drv_errmap", what="tie")
    work = designs.scratch("C05r")
    b = e2e.build_design(f["input"]["seed"], f["input"]["index"], ["-errors"], work)
    if b.error:
        print("build:", b.error)
        shutil.rmtree(work, ignore_errors=True)
        return 1
    obs, err = b.run([f["input"]["command"]])
    print(json.dumps(obs[0])[:2000] if obs else err)
    rc, models, se = c.run_lines([os.path.join(LEAN, ".lake/build/bin/drv_errmap")], f["input"]["model_line"] + "\n")
    print("model:", models)
    res = judge(f["input"]["label"], f["input"]["expect"], models[0], obs[0]) if obs and models else [("?", "?")]
    for sig, what in res:
        print("violates:", sig, what)
    shutil.rmtree(work, ignore_errors=True)
    return 1 if res else 0
