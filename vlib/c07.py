"""C07 — OpenAPI documents are valid and list exactly the server's operations.
Per design: goa generates the four documents and the server; an independent implementation
(kin-openapi, harness/cmd/rtopenapi) loads and validates them and lists what they declare; the
generated Mount functions run against a recording muxer (e2ert `routes`). The comparison of the
operation sets, the rewriting of mounted patterns to templates and the path-parameter/template
consistency are decided by the Lean functions of Model/OpenAPI.lean (drv_oas) whose meaning is
proved in Props/C07.lean; parameters, bodies, response codes and security are compared with what
the design maps."""
import json
import sys
import os
import re
import shutil
import subprocess

from .core import LEAN, BIN, goenv
from . import designs, e2e
from .c05 import effective_errors
from .c06 import effective as effective_reqs, cred_locations

FLAGS = [[], ["-errors"], ["-security"], ["-security", "-errors"], ["-meta"]]


def hx(s):
    return s.encode().hex() or "-"


def expected_ops(design):
    """(method, path pattern, service, method dict) the design mounts"""
    out = []
    for s in design["services"]:
        for m in s["methods"]:
            h = m.get("http")
            if not h:
                continue
            for path in [h["path"]] + (h.get("more_paths") or []):
                out.append((h["verb"], (design.get("path") or "") + (s.get("path") or "") + path, s, m))
            for verb, path in h.get("more_routes") or []:
                out.append((verb, (design.get("path") or "") + (s.get("path") or "") + path, s, m))
        for f in s.get("files") or []:
            out.append(("GET", (design.get("path") or "") + (s.get("path") or "") + f[0], s, None))
    return out


def file_roots(design):
    """a file server on `/dir/{*path}` is also mounted on `/dir/` (the directory itself)"""
    out = set()
    for s in design["services"]:
        for f in s.get("files") or []:
            m = re.match(r"^(.*/)\{\*\w+\}$", f[0])
            if m:
                out.add(("GET", (design.get("path") or "") + (s.get("path") or "") + m.group(1)))
    return out


def expected_params(design, s, m, version):
    """{(name, in): required} the server reads, as far as the document version can express it"""
    h = m["http"]
    payload = m.get("payload") or {}
    req = set(payload.get("required") or [])
    fields = {f["name"]: f["att"] for f in (payload.get("type", {}).get("object") or [])}
    creds = cred_locations(design, m) if m.get("creds") else {}
    out = {}
    for n in re.findall(r"\{\*?(\w+)\}", (s.get("path") or "") + h["path"]):
        out[(n, "path")] = True
    for key, loc in (("params", "query"), ("headers", "header"), ("cookies", "cookie")):
        for mp in h.get(key) or []:
            if mp["attr"] in creds:
                continue  # documented as a security scheme
            if loc == "cookie" and version == 2:
                continue  # OpenAPI 2.0 has no cookie parameters
            # Required AND defaulted: the design says required, the server never reports it missing; goa documents query
            # parameters one way and headers the other. The flag is not compared then (None); the mismatch with the server
            # is C14's finding doc-rejects-what-server-accepts:param/required-but-missing
            out[(mp.get("wire") or mp["attr"], loc)] = None if (mp["attr"] in req and fields.get(mp["attr"], {}).get("has_default")) else mp["attr"] in req
    return out


def has_body(m):
    locs = e2e.locations_of(m)
    creds = set((m.get("creds") or {}).keys())
    payload = m.get("payload") or {}
    t = payload.get("type") or {}
    if payload and not t.get("is_object") and not t.get("object") and not t.get("ref"):
        return True  # a payload that is not an object (a primitive, Any, an array, a map) is the body itself
    names = [f["name"] for f in (t.get("object") or [])]
    return any(locs.get(n, "body") == "body" and n not in creds for n in names)


def expected_codes(design, s, m):
    h = m["http"]
    codes = set()
    resps = h.get("responses") or []
    if resps:
        codes |= {str(r["code"]) for r in resps}
    else:
        codes.add("200" if m.get("result") is not None else "204")
    table = {}
    for e in design.get("api_http_errors") or []:
        table[e["name"]] = e["code"]
    for e in s.get("http_errors") or []:
        table[e["name"]] = e["code"]
    for e in h.get("errors") or []:
        table[e["name"]] = e["code"]
    for name in effective_errors(s, m):
        if name in table:
            codes.add(str(table[name]))
    for e in h.get("errors") or []:
        codes.add(str(e["code"]))
    return codes


def run(c):
    n = 40 if c.tier == "quick" else 400
    c.cov["rule"] = ("designs 0..%d of the stream, cycling plain / errors / security / security+errors; each generated in a fresh process, the generated "
                     "server built with the glue and its Mount functions run against a recording muxer; the four documents loaded and validated by "
                     "kin-openapi (v2 also through its conversion to v3). non-trivial = operations compared.") % (n - 1)
    c.cov["trusted_base"] += [
        "gofacts statusconst (T2): the map literal statusCodeToConst, the printed body of statusCodeToHTTPConst and the StatusCode sites of http/codegen, "
        "and the Status* constants of the net/http the generated code is compiled against (go/types); Model/StatusConst.lean `emit`/`eval` are hand-written "
        "(the function is two statements; its printed body is compared with the reviewed text by `function_is_the_modelled_lookup`); that the templates "
        "write `.StatusCode` where the status goes is by execution (status designs)",
        "github.com/getkin/kin-openapi v0.128.0 (module cache): openapi3 loader + Validate (run with and without example validation), openapi2 + openapi2conv; "
        "the extra OpenAPI 2.0 rules checked by harness/cmd/rtopenapi (path parameters required and present in the template, one body parameter, "
        "unique operationId, non-empty responses); gopkg.in/yaml.v3 for the YAML renderings",
        "expected parameters/body/response codes/security are derived from the design IR by vlib/c07.py (credentials are expected as security schemes, "
        "cookies only in the 3.0 document); file servers (plain, wildcard, sharing a path with an endpoint of another verb) by index",
    ]
    have = c.go_build("genrun", "rtopenapi")
    lean_ok = False
    # the status a response is written with: the table of /repo and the constants of net/http, regenerated (T2); when the theorem no longer
    # checks, the status designs below are the search for the status code the server now gets wrong
    if c.go_build("gofacts") and c.gofacts("statusconst", "FactsStatus") and c.lake_build("GoaVerif.Props.Status"):
        c.audit("Status")
        if c.tier == "thorough":
            c.leanchecker("Status")
    if c.lake_build("GoaVerif.Props.C07"):
        c.audit("C07")
        if c.tier == "thorough":
            c.leanchecker("C07")
        lean_ok = c.lake_build("drv_oas", what="tie")
    if not (have and lean_ok):
        return
    drv = os.path.join(LEAN, ".lake/build/bin/drv_oas")
    work = designs.scratch("C07")
    builds = e2e.build_many(c.seed, range(n), lambda i: FLAGS[i % 5], work)
    na = 8 if c.tier == "quick" else 16
    builds += e2e.build_many(c.seed, range(na), lambda i: ["-any-design"], work)
    ns = 1 if c.tier == "quick" else 3
    builds += e2e.build_many(c.seed, range(ns), lambda i: ["-status-design"], work)
    c.cov["rule"] += (" Plus %d status designs: a response for every final status code net/http names and some it does not; the generated server is called "
                      "once per response and the status it writes compared with the design and with the codes the documents list." % ns)
    c.cov["rule"] += (" Plus %d designs around the type Any (whole payload/result, array element, map value, attribute, query parameter, response "
                      "header; the odd ones with example generation switched off)." % na)
    total = 0
    for b in builds:
        if b.error:
            c.hist("build", "rejected" if b.error.startswith("rejected") else "failed")
            if not b.error.startswith("rejected"):
                c.fail("e2e-build", "design %d could not be generated/built: %s" % (b.index, b.error[:300]),
                       input={"seed": c.seed, "index": b.index, "flags": getattr(b, "flags", None)}, design=b.design, expected="builds", actual=b.error)
            b.cleanup()
            continue
        c.hist("build", "ok")
        obs, err = b.run([{"op": "routes"}])
        if not obs or "routes" not in obs[0]:
            c.broken.append({"kind": "tie", "name": "e2e routes failed for design %d" % b.index, "detail": str(err)[-500:]})
            b.cleanup()
            continue
        routes = [tuple(r) for r in obs[0]["routes"]]
        roots = file_roots(b.design)
        mounted_roots = [r for r in routes if r in roots]
        routes = [r for r in routes if r not in roots]
        for r in sorted(roots):
            c.hist("file-server", "directory root mounted" if r in mounted_roots else "directory root NOT mounted")
        p = subprocess.run([os.path.join(BIN, "rtopenapi"), "-dir", os.path.join(b.workdir, "out", "gen", "http")], capture_output=True, text=True, env=goenv())
        try:
            rep = json.loads(p.stdout)
        except Exception:
            c.broken.append({"kind": "tie", "name": "rtopenapi failed for design %d" % b.index, "detail": (p.stdout + p.stderr)[-500:]})
            b.cleanup()
            continue
        inp = {"seed": c.seed, "index": b.index, "flags": getattr(b, "flags", None)}

        def fail(sig, what, **kw):
            c.fail(sig, "design %d: %s" % (b.index, what), input=inp, design=b.design, **kw)

        for ver, key in ((2, "v2"), (3, "v3")):
            d = rep[key]
            if not rep["%s_json_yaml_equal" % key]:
                # every leaf difference is classified on its own: a known one does not hide another
                for dd in rep.get(key + "_diffs") or [rep.get(key + "_diff")]:
                    fail("openapi%d/json-yaml-differ/%s" % (ver, classify_yaml_diff(dd)), "%s differs from its YAML rendering at %s" % ({"v2": "openapi.json", "v3": "openapi3.json"}[key], json.dumps(dd)[:500]))
            if d.get("load_error"):
                fail("openapi%d/does-not-load/%s" % (ver, classify_invalid(d["load_error"])), "the document does not load: " + d["load_error"][:300])
                c.hist("document that does not load", "examined after rewriting the exclusive bounds" if d.get("recovered") else "not examined further")
                if not d.get("recovered"):
                    continue
            if d.get("validate_error") and "failed to resolve" in d["validate_error"] and "conversion to v3" in d["validate_error"]:
                c.hist("validator-limitation", "openapi2conv cannot convert a $ref below additionalProperties")  # not a verdict about the document
            elif d.get("validate_error"):
                fail("openapi%d/invalid/%s" % (ver, classify_invalid(d["validate_error"])), "an independent validator rejects the document: " + d["validate_error"][:400])
            if d.get("example_error"):
                fail("openapi%d/%s" % (ver, classify_invalid(d["example_error"])), "an example in the document violates its own schema: " + d["example_error"][:400])
            for note in d.get("notes") or []:
                fail("openapi%d/note" % ver, note)
            # operations: Lean decides
            ops = d.get("ops") or []
            for o in ops:
                o["params"] = o.get("params") or []
                o["responses"] = o.get("responses") or []
            line = "ops D %d %s M %d %s" % (len(ops), " ".join("%s %s" % (o["method"], hx(o["path"])) for o in ops),
                                           len(routes), " ".join("%s %s" % (r[0], hx(r[1])) for r in routes))
            pp = ["pp %s %d %s" % (hx(o["path"]), len([x for x in o["params"] if x["in"] == "path"]),
                                   " ".join(hx(x["name"]) for x in o["params"] if x["in"] == "path")) for o in ops]
            tm = ["tmpl %s" % hx(pat) for (_, pat, _, _) in expected_ops(b.design)]
            rc, out, se = c.run_lines([drv], "\n".join([re.sub(r" +", " ", line).strip()] + [re.sub(r" +", " ", x).strip() for x in pp] + tm) + "\n")
            if len(out) != 1 + len(pp) + len(tm) or "bad-op" in out:
                c.broken.append({"kind": "tie", "name": "drv_oas output", "detail": (se or "")[-300:] + str(out)[:200]})
                continue
            mv = dict(kv.split("=", 1) for kv in out[0].split(" "))
            c.evaluations += len(ops)
            total += len(ops)
            for o in ops:
                c.count("%d/v%d/%s %s" % (b.index, ver, o["method"], o["path"]))
            if mv["docOnly"] != "~":
                fail("openapi%d/operation-not-mounted" % ver, "documented but not mounted: %s" % dec_ops(mv["docOnly"]), expected="same operations", actual=str(routes))
            for r in mounted_roots:
                if (r[0], r[1]) not in {(o["method"], o["path"]) for o in ops}:
                    fail("openapi%d/file-server-directory-root-not-documented" % ver, "the server mounts %s %s (the directory of a file server with a wildcard path), "
                         "the document does not list it" % r)
            if mv["mountOnly"] != "~":
                fail("openapi%d/operation-not-documented" % ver, "mounted but not documented: %s" % dec_ops(mv["mountOnly"]), expected="same operations", actual=str([(o["method"], o["path"]) for o in ops]))
            for o, res in zip(ops, out[1:1 + len(pp)]):
                if res != "noParam=~ noVar=~":
                    fail("openapi%d/path-parameters-vs-template" % ver, "%s %s: %s" % (o["method"], o["path"], res))
            # the design's view: what the server mounts and reads
            tmpl_of = {}
            for (verb, pat, s, m), t in zip(expected_ops(b.design), out[1 + len(pp):]):
                tmpl_of[(verb, bytes.fromhex(t).decode() if t != "-" else "")] = (s, m)
            if set(routes) != {(v, p2) for (v, p2, _, _) in expected_ops(b.design)}:
                fail("server/mounts-differ-from-design", "Mount registers %r, the design maps %r" % (sorted(routes), sorted((v, p2) for (v, p2, _, _) in expected_ops(b.design))))
            for o in ops:
                sm = tmpl_of.get((o["method"], o["path"]))
                if not sm:
                    continue
                s, m = sm
                if m is None:
                    c.hist("file-server", "operation documented")
                    continue  # a file server: method and path compared above
                name = "%s.%s" % (s["name"], m["name"])
                want = expected_params(b.design, s, m, ver)
                got = {(x["name"], x["in"]): x["required"] for x in o["params"]}
                if True:
                    # credentials carried in headers/query are documented as security schemes; documents may also repeat them as
                    # parameters (the server does read them): tolerated, not required
                    creds = cred_locations(b.design, m) if m.get("creds") else {}
                    cred_wires = {("Authorization", "header")} | {(mp.get("wire") or mp["attr"], loc) for key2, loc in (("params", "query"), ("headers", "header"))
                                                                    for mp in m["http"].get(key2) or [] if mp["attr"] in creds}
                    got = {k: v for k, v in got.items() if k not in cred_wires or k in want}
                for k in sorted(set(want) | set(got)):
                    c.hist("param-location", k[1])
                    if k not in got:
                        fail("openapi%d/parameter-missing/%s" % (ver, k[1]), "%s: the server reads %s parameter %r, the document does not list it" % (name, k[1], k[0]), expected=str(want), actual=str(got))
                    elif k not in want:
                        fail("openapi%d/parameter-unknown/%s" % (ver, k[1]), "%s: the document lists %s parameter %r the design does not map" % (name, k[1], k[0]), expected=str(want), actual=str(got))
                    elif want[k] is not None and want[k] != got[k]:
                        fail("openapi%d/parameter-required-flag/%s" % (ver, k[1]), "%s: %s parameter %r required=%s in the document, %s in the design" % (name, k[1], k[0], got[k], want[k]))
                if o["body"] != has_body(m):
                    fail("openapi%d/request-body-%s" % (ver, "undocumented" if has_body(m) else "documented-but-not-read"), "%s: request body documented=%s, the server expects one=%s" % (name, o["body"], has_body(m)))
                wc = expected_codes(b.design, s, m)
                if set(o["responses"]) != wc:
                    fail("openapi%d/response-codes" % ver, "%s: documented response codes %s, the design assigns %s" % (name, sorted(o["responses"]), sorted(wc)))
                eff = effective_reqs(b.design, s, m)
                sec = o["security"] if o["security"] is not None else (d.get("top_security") or [])
                schemes = [sc["name"] for sc in b.design.get("schemes") or []]

                def base(nm):
                    hits = [x for x in schemes if nm == x or nm.startswith(x + "_")]
                    return max(hits, key=len) if hits else nm
                got_sec = sorted(sorted(base(x) for x in r) for r in sec)
                want_sec = sorted(sorted(r["schemes"]) for r in eff)
                if got_sec != want_sec and m.get("no_security") and o["security"] is None and d.get("top_security"):
                    fail("openapi%d/security/no-security-method-inherits-document-level-requirement" % ver,
                         "%s: declared NoSecurity but the operation has no `security: []` and inherits the document's %s" % (name, got_sec))
                elif got_sec != want_sec:
                    fail("openapi%d/security" % ver, "%s: documented security %s, effective requirements %s" % (name, got_sec, want_sec))
        if "-status-design" in (getattr(b, "flags", None) or []):
            status_calls(c, b, rep, fail)
        if len(c.cov["samples"]) < 2:
            c.sample({"design_index": b.index, "mounted": routes[:4], "v3_ops": [(o["method"], o["path"], o["responses"]) for o in (rep["v3"].get("ops") or [])[:4]]})
        b.cleanup()
    shutil.rmtree(work, ignore_errors=True)
    c.cov["ties"].setdefault("T5", []).append({"name": "generated documents (via kin-openapi) vs generated Mount (recording muxer) vs design", "operations": total})


def status_calls(c, b, rep, fail):
    """the status design: one call per designed response; the status the server writes is the designed one and both documents list it"""
    cmds, want = [], []
    for s in b.design["services"]:
        for m in s["methods"]:
            h = m["http"]
            for r in h.get("responses") or []:
                cmds.append({"op": "call", "service": s["name"], "method": m["name"], "script": {}})
                want.append((s, m, r["code"]))
            for e in h.get("errors") or []:
                cmds.append({"op": "call", "service": s["name"], "method": m["name"], "script": {"error": {"kind": "declared", "name": e["name"], "message": "x"}}})
                want.append((s, m, e["code"]))
    obs, err = b.run(cmds)
    if obs is None or len(obs) != len(cmds):
        c.broken.append({"kind": "tie", "name": "e2e binary failed for status design %d" % b.index, "detail": str(err)[-800:]})
        return
    docs = {}
    for key in ("v2", "v3"):
        for o in rep[key].get("ops") or []:
            docs[(key, o["method"], o["path"])] = set(o.get("responses") or [])
    for (s, m, code), o in zip(want, obs):
        got = (o.get("wire") or {}).get("status")
        c.evaluations += 1
        c.hist("status written", "%dxx" % (code // 100))
        c.count("status/%d/%d" % (b.index, code))
        if got != code:
            fail("server/status-differs-from-design/%d" % code, "%s.%s: the design assigns status %d, the generated server writes %s" % (s["name"], m["name"], code, got),
                 expected=str(code), actual=str(got))
        for key in ("v2", "v3"):
            listed = docs.get((key, m["http"]["verb"], m["http"]["path"]))
            if listed is not None and str(got) not in listed:
                fail("openapi%s/status-written-not-documented/%s" % (key[1], got), "%s.%s: the server answers %s, the document lists %s" % (s["name"], m["name"], got, sorted(listed)))


def classify_invalid(msg):
    """stable kind of a validator complaint"""
    if re.search(r"exclusiveM(in|ax)imum of type bool", msg):
        return "exclusive-bound-is-a-number"
    if "unsupported 'type' value" in msg and "header schema is invalid" in msg:
        return "response-header-type-is-a-goa-type-name"
    if re.search(r'security scheme "[^"]*": identifier "[^"]*" is not supported by OpenAPIv3', msg):
        return "security-scheme-name-outside-component-key-charset"
    m = re.search(r'more than one "(\w+)" parameter has name "([^"]+)"', msg)
    if m:
        return "duplicate-%s-parameter-%s" % (m.group(1), m.group(2))
    if "invalid example" in msg:
        if re.search(r"doesn't match the format \"(int32|int64)\"", msg):
            return "example/beyond-integer-format"
        if re.search(r"number must be (at most|at least|less than|more than)", msg):
            return "example/outside-minimum-maximum"
        if re.search(r"value must be an? (string|object|array|number|integer|boolean)", msg):
            return "example/of-another-type"
        if re.search(r"(minimum|maximum) (string length|number of items)", msg):
            return "example/outside-length"
        if "is not one of the allowed values" in msg:
            return "example/outside-enum"
        if re.search(r"doesn't match the (format|regular expression)|JSON string doesn't match", msg):
            return "example/not-matching-format-or-pattern"
        if re.search(r'property "[^"]*" is missing', msg):
            return "example/missing-required-property"
        return "example/other: " + re.sub(r"\s+", " ", msg.split("invalid example:")[-1])[:60]
    inner = re.findall(r": ([^:\n]{6,80})$", msg.strip().split("\n")[0])
    return "other: " + (inner[0] if inner else msg[:80])


def classify_yaml_diff(d):
    """kind of one difference between a JSON document and its YAML rendering"""
    d = d or {}
    if d.get("json_type") == "string" and d.get("yaml_type", "").startswith("[]interface"):
        return "bytes-example-is-base64-in-json-and-integer-list-in-yaml"
    if d.get("json_type") == "string" and d.get("yaml_type") == "string" and d.get("json", "").strip()[:300] == d.get("yaml", "").strip()[:300]:
        return "leading-or-trailing-whitespace-of-a-string"
    if d.get("json") == "<nil>" and d.get("yaml") == "" and d.get("yaml_type") == "string":
        return "empty-string-omitted-in-json-only"
    return "other"


def dec_ops(s):
    return [(x.split(":")[0], bytes.fromhex(x.split(":")[1]).decode() if x.split(":")[1] != "-" else "") for x in s.split(",")]


def replay(c, obj):
    f = obj["failure"]
    print("re-run `./check C07` with VERIF_SEED=%s; design index %s" % (f["input"]["seed"], f["input"]["index"]))
    print(f["signature"], f["what"])
    return 1
