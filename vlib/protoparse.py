"""A small parser for the proto3 subset goa emits (protoc is not installed): syntax, package,
options, imports, one service with rpcs, messages with scalar / message / repeated / optional /
map fields, oneof groups and nested messages. Anything it cannot read is an error — that is the
well-formedness check of the text itself."""
import re

TOKEN = re.compile(r'"(?:[^"\\]|\\.)*"|[A-Za-z_][\w.]*|\d+|[{}()<>=;,\[\]]')

SCALARS = {"double", "float", "int32", "int64", "uint32", "uint64", "sint32", "sint64", "fixed32", "fixed64", "sfixed32", "sfixed64", "bool", "string", "bytes"}


class ProtoError(Exception):
    pass


def tokens(text):
    text = re.sub(r"//[^\n]*", "", text)
    text = re.sub(r"/\*.*?\*/", "", text, flags=re.S)
    pos, out = 0, []
    for m in TOKEN.finditer(text):
        gap = text[pos:m.start()]
        if gap.strip():
            raise ProtoError("unexpected text %r" % gap.strip()[:30])
        out.append(m.group(0))
        pos = m.end()
    if text[pos:].strip():
        raise ProtoError("unexpected text %r" % text[pos:].strip()[:30])
    return out


class P:
    def __init__(self, toks):
        self.t, self.i = toks, 0

    def peek(self):
        return self.t[self.i] if self.i < len(self.t) else None

    def next(self):
        if self.i >= len(self.t):
            raise ProtoError("unexpected end of file")
        self.i += 1
        return self.t[self.i - 1]

    def expect(self, s):
        x = self.next()
        if x != s:
            raise ProtoError("expected %r, got %r" % (s, x))

    def ident(self):
        x = self.next()
        if not re.match(r"^[A-Za-z_][\w.]*$", x):
            raise ProtoError("expected an identifier, got %r" % x)
        return x


def parse(text):
    p = P(tokens(text))
    f = {"syntax": None, "package": None, "imports": [], "options": {}, "services": [], "messages": []}
    while p.peek() is not None:
        k = p.next()
        if k == "syntax":
            p.expect("=")
            f["syntax"] = p.next().strip('"')
            p.expect(";")
        elif k == "package":
            f["package"] = p.ident()
            p.expect(";")
        elif k == "import":
            f["imports"].append(p.next().strip('"'))
            p.expect(";")
        elif k == "option":
            n = p.ident()
            p.expect("=")
            f["options"][n] = p.next()
            p.expect(";")
        elif k == "service":
            f["services"].append(service(p))
        elif k == "message":
            f["messages"].append(message(p))
        else:
            raise ProtoError("unexpected %r at top level" % k)
    if f["syntax"] != "proto3":
        raise ProtoError("syntax is %r, not proto3" % f["syntax"])
    return f


def service(p):
    s = {"name": p.ident(), "rpcs": []}
    p.expect("{")
    while p.peek() != "}":
        p.expect("rpc")
        r = {"name": p.ident()}
        p.expect("(")
        r["client_stream"] = p.peek() == "stream"
        if r["client_stream"]:
            p.next()
        r["request"] = p.ident()
        p.expect(")")
        p.expect("returns")
        p.expect("(")
        r["server_stream"] = p.peek() == "stream"
        if r["server_stream"]:
            p.next()
        r["response"] = p.ident()
        p.expect(")")
        if p.peek() == "{":
            p.next()
            p.expect("}")
        else:
            p.expect(";")
        s["rpcs"].append(r)
    p.expect("}")
    return s


def field(p, first):
    fld = {"label": None, "oneof": None}
    if first in ("optional", "repeated"):
        fld["label"] = first
        first = p.next()
    if first == "map":
        p.expect("<")
        fld["map_key"] = p.ident()
        p.expect(",")
        fld["type"] = p.ident()
        p.expect(">")
        fld["label"] = "map"
    else:
        if not re.match(r"^[A-Za-z_][\w.]*$", first):
            raise ProtoError("expected a type, got %r" % first)
        fld["type"] = first
    fld["name"] = p.ident()
    p.expect("=")
    n = p.next()
    if not n.isdigit():
        raise ProtoError("field number of %s is %r" % (fld["name"], n))
    fld["number"] = int(n)
    if p.peek() == "[":
        while p.next() != "]":
            pass
    p.expect(";")
    return fld


def message(p):
    m = {"name": p.ident(), "fields": [], "nested": []}
    p.expect("{")
    while p.peek() != "}":
        k = p.next()
        if k == "message":
            m["nested"].append(message(p))
        elif k == "oneof":
            group = p.ident()
            p.expect("{")
            while p.peek() != "}":
                fld = field(p, p.next())
                fld["oneof"] = group
                m["fields"].append(fld)
            p.expect("}")
        elif k == "reserved":
            while p.next() != ";":
                pass
        else:
            m["fields"].append(field(p, k))
    p.expect("}")
    return m


def problems(f):
    """what makes the parsed file not a well-formed proto3 definition"""
    out = []
    names = {}

    def walk(m, prefix=""):
        full = prefix + m["name"]
        if full in names:
            out.append(("duplicate-message", "message %s is defined twice" % full))
        names[full] = m
        seen_n, seen_name = {}, {}
        for fld in m["fields"]:
            n = fld["number"]
            if n in seen_n:
                out.append(("duplicate-number", "message %s: fields %s and %s both have number %d" % (full, seen_n[n], fld["name"], n)))
            seen_n[n] = fld["name"]
            if fld["name"] in seen_name:
                out.append(("duplicate-name", "message %s: field name %s is used twice" % (full, fld["name"])))
            seen_name[fld["name"]] = True
            if not (0 < n < 2 ** 29) or 19000 <= n <= 19999:
                out.append(("number-out-of-range", "message %s: field %s has the number %d" % (full, fld["name"], n)))
            if fld["label"] == "map" and fld.get("map_key") not in SCALARS - {"double", "float", "bytes"}:
                out.append(("map-key-type", "message %s: map field %s has key type %s" % (full, fld["name"], fld.get("map_key"))))
            if fld["oneof"] and fld["label"] in ("repeated", "map", "optional"):
                out.append(("oneof-label", "message %s: oneof member %s is %s" % (full, fld["name"], fld["label"])))
        for nm in m["nested"]:
            walk(nm, full + ".")
    for m in f["messages"]:
        walk(m)
    for m in f["messages"]:
        for fld in m["fields"]:
            t = fld["type"]
            if t not in SCALARS and t not in names and not t.startswith("google.protobuf."):
                out.append(("unknown-type", "message %s: field %s has the undefined type %s" % (m["name"], fld["name"], t)))
    for s in f["services"]:
        seen = set()
        for r in s["rpcs"]:
            if r["name"] in seen:
                out.append(("duplicate-rpc", "service %s: rpc %s is declared twice" % (s["name"], r["name"])))
            seen.add(r["name"])
            for t in (r["request"], r["response"]):
                if t not in names and not t.startswith("google.protobuf."):
                    out.append(("unknown-type", "rpc %s refers to the undefined message %s" % (r["name"], t)))
    return out
