"""C06 — secured methods run only after a security requirement is satisfied.
Lean: Model/Security.lean (requirement inheritance, the any-requirement/all-schemes chain with its
call order, credential extraction), theorems in Props/C06.lean. Tie T5: designs with Basic, API key,
JWT and OAuth2 schemes at API, service and method level (NoSecurity overrides, explicit and implicit
credential locations) are generated, built and called through the generated client with a recording
Auther scripted with every accept/reject vector; the sequence of callbacks, their credentials and
scopes, whether the method ran and the error the caller got are compared with drv_sec."""
import re
import itertools
import json
import os
import shutil

from .core import LEAN, BIN, goenv
import subprocess
from . import designs, e2e, c04

CREDS = ["secret", "a b", "Bearer tok.en", "tok=en&x", "Basic Zm9v", "x y z", "p@ss/w0rd", "k-1"]
USERS = ["alice", "bob smith", "u$er"]


def hx(s):
    return s.encode().hex() or "-"


def req_tokens(tag, reqs):
    out = [tag, str(len(reqs or []))]
    for r in reqs or []:
        out += [str(len(r["schemes"]))] + [hx(x) for x in r["schemes"]]
    return out


def effective(design, svc, m):
    if m.get("no_security"):
        return []
    return m.get("security") or svc.get("security") or design.get("security") or []


def cred_locations(design, m):
    """credential attribute -> (scheme kind, scheme name, in_header)"""
    h = m.get("http") or {}
    params = {p["attr"] for p in h.get("params") or []}
    headers = {p["attr"]: (p.get("wire") or p["attr"]) for p in h.get("headers") or []}
    out = {}
    for attr, kind in (m.get("creds") or {}).items():
        k = kind.split(":")[0]
        out[attr] = {"kind": k, "scheme": kind.split(":")[1] if ":" in kind else None, "in_header": attr not in params,
                     "header": headers.get(attr, "Authorization") if attr not in params else None}
    return out


def header_fields(design, eff, cl):
    """credential attributes read by the header schemes of the effective requirements, in requirement
    order and with repeats (two JWT schemes share one token attribute)"""
    kinds = {sc["name"]: sc["kind"] for sc in design.get("schemes") or []}
    out = []
    for r in eff:
        for sn in r["schemes"]:
            k = kinds.get(sn)
            for at, info in cl.items():
                if info["in_header"] and info["kind"] == k and (k != "apikey" or info["scheme"] == sn):
                    out.append(at)
    return out


def cred_key(design, eff, cl, at, value):
    if not cl[at]["in_header"]:
        return ((), at, value)
    return (tuple(header_fields(design, eff, cl)), at, value)


STRIP = re.compile(r"cred := strings\.SplitN\(\*?payload\.(\w+), \" \", 2\)\[1\]")


def strip_blocks(b):
    """decoder function -> credential fields of its stripping blocks, read from the generated server code
    (the list `decodeCreds` is given in Model/Security.lean; theorem decodeCreds_count says a field is
    stripped as often as it is listed)"""
    import glob
    out = {}
    for fn in glob.glob(os.path.join(b.workdir, "out", "gen", "*", "*", "server", "encode_decode.go")):
        src = open(fn).read()
        for part in re.split(r"\n(?=func )", src):
            m = re.match(r"func (Decode\w+Request)\(", part)
            if m:
                fields = STRIP.findall(part)
                if fields:
                    out[os.path.relpath(fn, os.path.join(b.workdir, "out")) + ":" + m.group(1)] = fields
    return out


def cred_line(key):
    fs, at, value = key
    if not fs:
        return "cred 0 %s" % hx(value)
    return "credf %d %s %s %s" % (len(fs), " ".join(hx(f) for f in fs), hx(at), hx(value))


def transport_schemes(c, work):
    """Methods exposed over HTTP AND gRPC: after evaluation each transport endpoint has its own copy of every scheme, saying where THAT
    transport takes the credential from (HTTP: a header or the query string; gRPC: metadata). The generated HTTP decoders strip the
    bearer prefix only for schemes carried in a header, so a scheme expression shared with the gRPC endpoint (which records `metadata`)
    silently leaves `Bearer ` in front of the token."""
    P = lambda p: {"type": {"prim": p}}
    kinds = [("jwt", "token", "jwt", ["api:read"]), ("apikey", "key", "apikey:s_apikey", None), ("oauth2", "access", "oauth2", ["api:read"])]
    for order in (0, 1):
        methods, schemes = [], []
        for kind, attr, cred, scopes in (kinds if order == 0 else kinds[::-1]):
            schemes.append(dict({"name": "s_" + kind, "kind": kind}, **({"scopes": scopes} if scopes else {})))
            methods.append({"name": "m_" + kind, "security": [{"schemes": ["s_" + kind]}], "creds": {attr: cred},
                            "payload": {"type": {"is_object": True, "object": [{"name": attr, "att": P("String")}]}, "required": [attr]},
                            "http": {"verb": "GET", "path": "/" + kind}, "grpc": {}})
        d = {"api": "both%d" % order, "schemes": schemes, "services": [{"name": "sv", "grpc": True, "methods": methods}]}
        dj = os.path.join(work, "both%d.json" % order)
        json.dump(d, open(dj, "w"))
        p = subprocess.run([os.path.join(BIN, "genrun"), "schemes", "-design", dj], capture_output=True, text=True, env=goenv())
        try:
            rows = json.loads(p.stdout).get("schemes")
        except Exception:
            rows = None
        if not rows:
            c.broken.append({"kind": "tie", "name": "genrun schemes", "detail": (p.stdout + p.stderr)[-500:]})
            return
        c.evaluations += len(rows)
        ptrs = {}
        for r in rows:
            c.count(("schemes", order, r["Transport"], r["Method"]))
            c.hist("scheme location per transport", "%s %s: %s" % (r["Transport"], r["Kind"], r["In"]))
            want = ("header", "query") if r["Transport"] == "http" else ("metadata",)
            if r["In"] not in want:
                c.fail("security/scheme-location/%s" % r["Transport"], "%s.%s over %s: the scheme %s records the credential location %r (name %r), expected one of %s" %
                       (r["Service"], r["Method"], r["Transport"], r["Scheme"], r["In"], r["Name"], want), input={"design": d}, design=d)
            if r["Ptr"] in ptrs and ptrs[r["Ptr"]] != (r["Transport"], r["Method"]):
                c.fail("security/scheme-shared-between-endpoints", "%s.%s over %s and %s over %s use ONE scheme expression for %s: what one endpoint finalizes "
                       "(location, name) is what the other generates from" % (r["Service"], r["Method"], r["Transport"], ptrs[r["Ptr"]][1], ptrs[r["Ptr"]][0], r["Scheme"]),
                       input={"design": d}, design=d)
            ptrs.setdefault(r["Ptr"], (r["Transport"], r["Method"]))


def run(c):
    n = 36 if c.tier == "quick" else 360
    c.cov["rule"] = ("designs 0..%d of the stream generated with security (1-3 of Basic/APIKey/JWT/OAuth2; requirements of 1-2 schemes, 1-2 alternatives, at "
                     "API, service or method level, NoSecurity overrides; API keys in an explicit header, an explicit query parameter or goa's implicit "
                     "Authorization header, JWT in an explicit or implicit header); per method every accept/reject vector over the schemes of its "
                     "effective requirements x credential strings with spaces, scheme prefixes and URL metacharacters. non-trivial = exchanges on secured methods.") % (n - 1)
    c.cov["trusted_base"] += [
        "harness/e2ert recording Auther (the glue forwards every Auth*Func of the generated Auther interface to it with the scheme struct it received)",
        "usernames without ':' and credentials in printable ASCII without leading/trailing space (RFC 7617 / header field syntax); methods where two "
        "credentials are mapped to the same header are checked for the gate only",
        "Model/Security.lean is hand-written from the endpoint template; agreement with generated code by execution per design",
    ]
    have = c.go_build("genrun")
    lean_ok = False
    if c.lake_build("GoaVerif.Props.C06"):
        c.audit("C06")
        if c.tier == "thorough":
            c.leanchecker("C06")
        lean_ok = c.lake_build("drv_sec", what="tie")
    if not (have and lean_ok):
        return
    drv = os.path.join(LEAN, ".lake/build/bin/drv_sec")
    work = designs.scratch("C06")
    transport_schemes(c, work)
    builds = e2e.build_many(c.seed, range(n), lambda i: ["-security"] + (["-errors"] if i % 4 == 3 else []), work)
    total = 0
    for b in builds:
        if b.error:
            c.hist("build", "rejected" if b.error.startswith("rejected") else "failed")
            if not b.error.startswith("rejected"):
                c.fail("e2e-build", "design %d could not be generated/built: %s" % (b.index, b.error[:300]),
                       input={"seed": c.seed, "index": b.index, "flags": getattr(b, "flags", None)}, design=b.design, expected="builds", actual=b.error)
            if not b.error.startswith("rejected"):
                c.hist("build-failure", b.error[:80])
            b.cleanup()
            continue
        c.hist("build", "ok")
        for fn, fields in strip_blocks(b).items():
            c.hist("stripping-blocks", str(len(fields)))
            c.evaluations += 1
            dup = sorted({f for f in fields if fields.count(f) > 1})
            if dup:
                c.fail("security/credential/stripped-more-than-once", "%s removes the scheme prefix of payload.%s %d times" % (fn, dup[0], fields.count(dup[0])),
                       input={"seed": c.seed, "index": b.index, "decoder": fn}, design=b.design, expected="one stripping block per credential field", actual=fields)
        cmds, meta, lines = [], [], []
        for s in b.design["services"]:
            for m in s["methods"]:
                if not m.get("http"):
                    continue
                rng = e2e.rng_for(c.seed, "c06", b.index, s["name"], m["name"])
                locs = e2e.locations_of(m)
                eff = effective(b.design, s, m)
                schemes = sorted({x for r in eff for x in r["schemes"]})
                cl = cred_locations(b.design, m)
                base = None
                if m.get("payload"):
                    for _ in range(6):
                        base = e2e.gen_object(b.schema, m["payload"], rng, "body", 0, locs)
                        if base is not None and c04.path_safe(b.schema, m["payload"], base, locs):
                            break
                        base = None
                    if base is None:
                        continue
                res = e2e.gen_value(b.schema, m["result"], rng, "body") if m.get("result") else None
                if m.get("result") and res is None:
                    continue
                vectors = list(itertools.product((True, False), repeat=len(schemes)))
                for k, vec in enumerate(vectors):
                    p = dict(base) if base is not None else None
                    for attr, info in cl.items():
                        p[attr] = rng.choice(USERS) if info["kind"] == "username" else rng.choice(CREDS)
                    acc = dict(zip(schemes, vec))
                    cmds.append({"op": "call", "service": s["name"], "method": m["name"], "payload": p, "script": {"result": res, "auth": acc}})
                    meta.append((s, m, eff, cl, acc))
                    lines.append("sec %d " % (1 if m.get("no_security") else 0) + " ".join(
                        req_tokens("M", m.get("security")) + req_tokens("S", s.get("security")) + req_tokens("A", b.design.get("security")) +
                        ["ACC", str(sum(vec))] + [hx(x) for x, a in acc.items() if a]))
        if not cmds:
            b.cleanup()
            continue
        obs, err = b.run(cmds)
        if obs is None or len(obs) != len(cmds):
            c.broken.append({"kind": "tie", "name": "e2e binary failed for design %d" % b.index, "detail": str(err)[-800:]})
            b.cleanup()
            continue
        # credentials: one model line per distinct (in_header, credential)
        cred_q = sorted({cred_key(b.design, eff, cl, attr, cmd["payload"][attr]) for cmd, (s, m, eff, cl, acc) in zip(cmds, meta)
                         for attr, info in cl.items() if info["kind"] not in ("username", "password")})
        rc, models, se = c.run_lines([drv], "\n".join(lines + [cred_line(q) for q in cred_q]) + "\n")
        if len(models) != len(lines) + len(cred_q) or "bad-op" in models:
            c.broken.append({"kind": "tie", "name": "drv_sec output", "detail": (se or "")[-300:]})
            b.cleanup()
            continue
        cred_model = {q: bytes.fromhex(mo).decode() if mo != "-" else "" for q, mo in zip(cred_q, models[len(lines):])}
        for cmd, (s, m, eff, cl, acc), line, model, o in zip(cmds, meta, lines, models, obs):
            c.evaluations += 1
            total += 1
            if eff:
                c.count("%d/%s/%s/%s" % (b.index, s["name"], m["name"], json.dumps([cmd["script"]["auth"], cmd["payload"]], sort_keys=True)[:300]))
            level = "none" if m.get("no_security") else "method" if m.get("security") else "service" if s.get("security") else "api" if b.design.get("security") else "unsecured"
            c.hist("level", level)
            c.hist("requirements", "%dx%s" % (len(eff), "+".join(str(len(r["schemes"])) for r in eff)))
            for sig, what in judge(b, s, m, eff, cl, cmd, model, o, cred_model):
                c.fail(sig, "%s.%s %s" % (s["name"], m["name"], what), input={"seed": c.seed, "index": b.index, "command": cmd, "model_line": line},
                       design=b.design, expected=model,
                       actual=json.dumps({k: o.get(k) for k in ("server_called", "auth", "client_error", "panic")})[:900] + " status=%s" % (o.get("wire") or {}).get("status"))
        if len(c.cov["samples"]) < 3:
            for cmd, mt, model, o in zip(cmds, meta, models, obs):
                if mt[2] and "refused=~" not in model:
                    c.sample({"design_index": b.index, "script_auth": cmd["script"]["auth"], "requirements": mt[2], "model": model,
                              "observed_calls": [a.get("scheme") for a in o.get("auth") or []], "server_called": o.get("server_called")})
                    break
        b.cleanup()
    shutil.rmtree(work, ignore_errors=True)
    c.cov["ties"].setdefault("T5", []).append({"name": "generated secured endpoints vs Lean Security.endpoint / credential", "exchanges": total})


def judge(b, s, m, eff, cl, cmd, model, o, cred_model):
    if o.get("harness_error"):
        return [("harness", "harness error: " + str(o["harness_error"])[:200])]
    if o.get("panic"):
        return [("security/panic", "generated code panicked: " + o["panic"].splitlines()[0])]
    mv = dict(kv.split("=", 1) for kv in model.split(" "))
    want_calls = [] if mv["calls"] == "~" else [bytes.fromhex(x).decode() for x in mv["calls"].split(",")]
    refused = None if mv["refused"] == "~" else bytes.fromhex(mv["refused"]).decode()
    w = o.get("wire") or {}
    auth = o.get("auth") or []
    out = []
    if w.get("status") in (400, 404) and not auth and not o.get("server_called"):
        return []  # the request itself was refused before the endpoint ran (C02/C04 territory)
    got_calls = [a.get("scheme") for a in auth]
    if got_calls != want_calls:
        out.append(("security/callback-sequence", "callbacks ran for %r, the model says %r" % (got_calls, want_calls)))
    if refused is None and not o.get("server_called"):
        out.append(("security/method-not-run", "a satisfied requirement did not let the method run (status %s)" % w.get("status")))
    if refused is not None:
        if o.get("server_called"):
            out.append(("security/method-ran-unauthorized", "the service method ran although every requirement failed (last refusal by %s)" % refused))
        ce = o.get("client_error") or {}
        if ce.get("name") != "unauthorized" and "rejected by" not in (ce.get("message") or "") and "rejected by" not in (w.get("resp_body") or ""):
            out.append(("security/error-not-callback-error", "the caller did not receive the callback's error: %r" % (ce or w.get("resp_body"))))
        elif ("rejected by " + refused) not in (ce.get("message") or "") + (w.get("resp_body") or ""):
            out.append(("security/error-of-other-callback", "the caller received %r, the model says the refusal of %s" % (ce.get("message"), refused)))
    # credentials and scopes, per callback
    hdr_count = {}
    for attr, info in cl.items():
        if info.get("header") and info["kind"] not in ("username", "password"):
            hdr_count[info["header"]] = hdr_count.get(info["header"], 0) + 1
    if any(k in ("username", "password") for k in (i["kind"] for i in cl.values())):
        hdr_count["Authorization"] = hdr_count.get("Authorization", 0) + 1
    ambiguous = any(v > 1 for v in hdr_count.values())
    schemes = {sc["name"]: sc for sc in b.design.get("schemes") or []}
    # which requirement each call belongs to (replaying the chain over the effective requirements)
    owners = []
    acc = cmd["script"]["auth"]
    for r in eff:
        failed = False
        for sc in r["schemes"]:
            owners.append(r)
            if not acc.get(sc, True):
                failed = True
                break
        if not failed:
            break
    for i, a in enumerate(auth):
        sc = schemes.get(a.get("scheme"))
        if not sc:
            out.append(("security/unknown-scheme", "callback for unknown scheme %r" % a.get("scheme")))
            continue
        if sorted(a.get("scopes") or []) != sorted(sc.get("scopes") or []):
            out.append(("security/scheme-scopes", "scheme %s handed scopes %r, declared %r" % (sc["name"], a.get("scopes"), sc.get("scopes"))))
        if i < len(owners) and sorted(a.get("required_scopes") or []) != sorted(owners[i].get("scopes") or []):
            out.append(("security/required-scopes", "scheme %s handed required scopes %r, the requirement says %r" % (sc["name"], a.get("required_scopes"), owners[i].get("scopes"))))
        if ambiguous:
            continue
        p = cmd["payload"] or {}
        if sc["kind"] == "basic":
            u = [p[at] for at, info in cl.items() if info["kind"] == "username"]
            pw = [p[at] for at, info in cl.items() if info["kind"] == "password"]
            want = u + pw
        else:
            k = {"apikey": "apikey", "jwt": "jwt", "oauth2": "oauth2"}[sc["kind"]]
            ats = [at for at, info in cl.items() if info["kind"] == k and (k != "apikey" or info["scheme"] == sc["name"])]
            want = [cred_model[cred_key(b.design, eff, cl, at, p[at])] for at in ats]
        if list(a.get("creds") or []) != want:
            out.append(("security/credential/%s" % sc["kind"], "callback of %s received %r, the model says %r (sent %r)" % (sc["name"], a.get("creds"), want,
                        {at: p.get(at) for at in cl})))
    return out


def replay(c, obj):
    f = obj["failure"]
    c.go_build("genrun")
    c.lake_build("drv_sec", what="tie")
    work = designs.scratch("C06r")
    i = f["input"]["index"]
    b = e2e.build_design(f["input"]["seed"], i, ["-security"] + (["-errors"] if i % 4 == 3 else []), work)
    if b.error:
        print("build:", b.error)
        shutil.rmtree(work, ignore_errors=True)
        return 1
    cmd = f["input"]["command"]
    obs, err = b.run([cmd])
    print(json.dumps(obs[0])[:2000] if obs else err)
    res = [("?", "?")]
    for s in b.design["services"]:
        for m in s["methods"]:
            if s["name"] == cmd["service"] and m["name"] == cmd["method"] and obs:
                cl = cred_locations(b.design, m)
                eff = effective(b.design, s, m)
                q = sorted({cred_key(b.design, eff, cl, a, cmd["payload"][a]) for a, info in cl.items() if info["kind"] not in ("username", "password")})
                rc, models, se = c.run_lines([os.path.join(LEAN, ".lake/build/bin/drv_sec")],
                                             "\n".join([f["input"]["model_line"]] + [cred_line(k) for k in q]) + "\n")
                print("model:", models)
                cm = {k: bytes.fromhex(mo).decode() if mo != "-" else "" for k, mo in zip(q, models[1:])}
                res = judge(b, s, m, effective(b.design, s, m), cl, cmd, models[0], obs[0], cm)
    for sig, what in res:
        print("violates:", sig, what)
    shutil.rmtree(work, ignore_errors=True)
    return 1 if res else 0
