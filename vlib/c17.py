"""C17 — format and pattern validators. Theorems: Props/C17.lean. Ties: T2 facts from
pkg/validation.go (regex literals, format table, lock/key discipline of knownPatterns),
T3 rtfmt (real ValidateFormat / ValidatePattern) vs drv_fmt (Lean spec recognisers)."""
import os
from .core import BIN, LEAN, sh, goenv


def dec(tok):
    return "" if tok == "-" else bytes.fromhex(tok).decode("utf-8", "replace")


def kv(s):
    return dict(p.split("=", 1) for p in s.split(" ") if "=" in p)


def judge(op, impl, model):
    """Returns None or (signature, what, expected)."""
    t = op.split()
    if impl.startswith("panic"):
        return ("panic/" + t[0], "implementation panicked on %r" % op, "no panic")
    if t[0] == "fmt":
        f, g = kv(impl), kv(model) if model else {}
        name, v, exp = t[1], f.get("v"), t[3]
        val = dec(t[2]) if not name.endswith("!") else None
        if name.endswith("!"):
            if v != "0":
                return ("fmt/unknown-format-accepted", "unknown format name %r accepted" % dec(name[:-1]), "v=0")
            return None
        spec, re_ = g.get("spec", "-"), g.get("re", "-")
        if name == "hostname" and re_ != "-" and v != re_:
            return ("fmt/hostname/regex-drift", "hostname verdict %s on %r differs from goa's documented regex (%s)" % (v, val, re_), re_)
        want = spec if spec != "-" else {"A": "1", "R": "0"}.get(exp)
        if want is not None and v != want:
            side = "impl-accepts" if v == "1" else "impl-rejects"
            return ("fmt/%s/%s" % (name, side), "%s: %r is %s but the format %s it" % (
                name, val, "accepted" if v == "1" else "rejected", "excludes" if want == "0" else "includes"), "v=" + want)
        if spec != "-" and exp in "AR" and spec != {"A": "1", "R": "0"}[exp]:
            return ("gen/%s" % name, "generator and specification disagree on %r (generator says %s)" % (val, exp), spec)
    elif t[0] == "ip3":
        f = kv(impl)
        a, b, c = f["ipv4"] == "1", f["ipv6"] == "1", f["ip"] == "1"
        val = dec(t[1])
        if c != (a or b) or (a and b):
            return ("ip3/relation", "ip=%s ipv4=%s ipv6=%s on %r" % (c, a, b, val), "ip = ipv4 or ipv6, never both")
        if model.startswith("ipv4=1") and impl != model:
            return ("ip3/dotted-quad", "dotted quad %r: %s" % (val, impl), model)
        if model.startswith("ipv4=0") and a:
            return ("ip3/ipv4-accepts-non-dotted", "%r accepted as ipv4" % val, "ipv4=0")
    elif t[0] == "pat":
        f = kv(impl)
        if f.get("v") != f.get("ref"):
            return ("pattern/verdict", "ValidatePattern(%r, %r) = %s but regexp says %s (after the calls before it in this run)"
                    % (dec(t[1]), dec(t[2]), f.get("v"), f.get("ref")), "v=" + str(f.get("ref")))
    return None


def run(c):
    c.cov["rule"] = ("per format: constructive generator of valid instances + 8-13 single-point corruptions + 3 random strings over a "
                     "format-biased alphabet, %d rounds; the three IP formats on the same strings; unknown format names; "
                     "patterns: %d distinct grammar-generated regexps, each validated when new and revisited at random against "
                     "random values (sequential history), verdict vs regexp.MatchString; concurrent: 1/4/16 goroutines under "
                     "-race over a shared pattern population. non-trivial = every line; distinct = distinct (format,string).")
    c.cov["rule"] = c.cov["rule"] % ((6000, 3000) if c.tier == "thorough" else (60, 300))
    c.cov["trusted_base"] += [
        "gofacts (T2): regex literals, Format constants, switch labels and the lock/key table of knownPatterns extracted from pkg/validation.go",
        "spec recognisers of Model/Formats.lean (date, ipv4, uuid, mac, cidr v4, hostname) are hand-written specifications; "
        "for date-time, email, ipv6, uri, regexp, json, rfc1123 the oracle is validity by construction of the Go generators",
        "time, net, net/mail, net/url, regexp, encoding/json, google/uuid are library parsers: exercised against the specs, not proved",
        "Go memory model / scheduler not modelled: schedules are explored by the race detector, the theorem covers every interleaving of the modelled atomic steps",
    ]
    have = c.go_build("gofacts", "rtfmt")
    ok_model = False
    if have and c.gofacts("validation", "FactsValidation"):
        if c.lake_build("GoaVerif.Props.C17"):
            c.audit("C17")
            if c.tier == "thorough":
                c.leanchecker("C17")
        ok_model = c.lake_build("drv_fmt", what="tie")
    if not os.path.exists(os.path.join(BIN, "rtfmt")):
        return
    rc, so, se = sh([os.path.join(BIN, "rtfmt"), "gen", "-seed", str(c.seed), "-tier", c.tier])
    ops = c.corpus() + so.splitlines()
    rc, impl, se = c.run_lines([os.path.join(BIN, "rtfmt"), "run"], "\n".join(ops) + "\n")
    if rc != 0 or len(impl) != len(ops):
        c.broken.append({"kind": "tie", "name": "rtfmt run failed", "detail": se[-2000:]})
    model = [""] * len(ops)
    if ok_model:
        rc2, model, se2 = c.run_lines([os.path.join(LEAN, ".lake/build/bin/drv_fmt")], "\n".join(ops) + "\n")
        if rc2 != 0 or len(model) != len(ops):
            c.broken.append({"kind": "tie", "name": "drv_fmt failed", "detail": se2[-2000:]})
            model = [""] * len(ops)
    c.evaluations += len(ops)
    c.cov["ties"].setdefault("T3", []).append({"name": "ValidateFormat/ValidatePattern vs spec recognisers", "lines": len(ops)})
    for i, op in enumerate(ops):
        if i >= len(impl):
            break
        t = op.split()
        if t[0] == "fmt":
            c.hist("format", t[1] if not t[1].endswith("!") else "unknown-name")
            c.hist("expect", t[3])
            c.hist("verdict", kv(impl[i]).get("v"))
            c.count(t[1] + " " + t[2])
        else:
            c.hist("op", t[0])
            c.count(op)
        r = judge(op, impl[i], model[i] if i < len(model) else "")
        if r:
            if r[0].startswith("gen/"):
                c.broken.append({"kind": "tie", "name": "generator vs specification", "detail": r[1]})
            elif t[0] == "pat":
                # the verdict depends on the calls made before: the replay is the whole history
                hist = [o for o in ops[:i + 1] if o.startswith("pat ")]
                c.fail(r[0], r[1], input=op, history=shrink_history(c, hist), expected=r[2], actual=impl[i])
            else:
                c.fail(r[0], r[1], input=op, expected=r[2], actual=impl[i])
    # schedules: race detector + verdict check
    if c.go_build("rtfmt", race=True):
        for g in ((1, 4, 16) if c.tier == "quick" else (1, 2, 4, 8, 16)):
            env = goenv()
            env["GORACE"] = "halt_on_error=1"
            rc, so, se = sh([os.path.join(BIN, "rtfmt-race"), "conc", "-seed", str(c.seed + g), "-g", str(g), "-tier", c.tier], env=env, timeout=1800)
            c.evaluations += 1
            c.hist("conc_goroutines", g)
            if "DATA RACE" in se:
                c.fail("pattern/data-race", "race detector report in ValidatePattern with %d goroutines" % g,
                       input="rtfmt-race conc -seed %d -g %d" % (c.seed + g, g), expected="no race", actual=se[:1500])
            elif rc != 0:
                c.fail("pattern/concurrent-verdict", "verdict differs from regexp under %d goroutines: %s" % (g, so.strip()[-300:]),
                       input="rtfmt-race conc -seed %d -g %d" % (c.seed + g, g), expected="mismatches=0", actual=so.strip()[-500:])
            else:
                c.sample({"conc": so.strip()})
    for i in (0, len(ops) // 2):
        if i < len(impl):
            c.sample({"op": ops[i], "value": dec(ops[i].split()[2]) if ops[i].startswith("fmt") else None, "implementation": impl[i], "spec": model[i] if i < len(model) else None})


def pat_fails(c, hist):
    rc, impl, se = c.run_lines([os.path.join(BIN, "rtfmt"), "run"], "\n".join(hist) + "\n")
    if len(impl) != len(hist):
        return False
    f = kv(impl[-1])
    return f.get("v") != f.get("ref")


def shrink_history(c, hist):
    """Delta-debugging style shrink of a failing call history (the last call is the failing one)."""
    if getattr(c, "_shrunk", 0) >= 3:
        return hist
    c._shrunk = getattr(c, "_shrunk", 0) + 1
    if not pat_fails(c, hist):
        return hist
    body, last = hist[:-1], hist[-1]
    chunk = max(1, len(body) // 2)
    while chunk >= 1 and body:
        i = 0
        progressed = False
        while i < len(body):
            cand = body[:i] + body[i + chunk:]
            if pat_fails(c, cand + [last]):
                body = cand
                progressed = True
            else:
                i += chunk
        if chunk == 1 and not progressed:
            break
        chunk = max(1, chunk // 2) if chunk > 1 else (1 if progressed else 0)
    return body + [last]


def replay(c, obj):
    op = obj["failure"]["input"]
    if "history" in obj["failure"]:
        c.go_build("rtfmt")
        bad = pat_fails(c, obj["failure"]["history"])
        print("history of %d calls; last verdict wrong: %s" % (len(obj["failure"]["history"]), bad))
        return 1 if bad else 0
    if op.startswith("rtfmt-race"):
        c.go_build("rtfmt", race=True)
        rc, so, se = sh([os.path.join(BIN, "rtfmt-race")] + op.split()[1:])
        print(so, se[:2000])
        return 1 if rc != 0 or "DATA RACE" in se else 0
    c.go_build("rtfmt")
    c.lake_build("drv_fmt", what="tie")
    rc, impl, se = c.run_lines([os.path.join(BIN, "rtfmt"), "run"], op + "\n")
    rc, model, se = c.run_lines([os.path.join(LEAN, ".lake/build/bin/drv_fmt")], op + "\n")
    print("op:  ", op, "\nimpl:", impl, "\nspec:", model)
    r = judge(op, impl[0], model[0]) if impl and model else ("x", "driver failed")
    if r:
        print("violates:", r[1])
    return 1 if r else 0
