"""C09 — code generation is deterministic, repeatable and never clobbers examples.

Lean (Props/C09.lean): the output directory as a transition system (Model/FS.lean: Render with
O_APPEND and SkipExist, the cleanup of gen's sub-directories, gen / example / user edits) with
gen_state_independent, gen_idempotent, gen_content, example_preserves, edit_survives,
history_gen_same; the map-iteration-order lemmas per loop shape and `sites_accounted`, decided over
the table of every `range` over a map in the generator packages, regenerated from /repo (gofacts).

Tie: the REAL goa command (cmd/goa built from /repo's working tree) is run on real directories:
per design several fresh processes (each with its own runtime hash seed) into fresh directories,
again over its own output, and the histories gen,gen / gen,example,edit,example,gen / example,gen
with stale files, edited, emptied and deleted example files; every file's sha256, mtime and the file
lists are compared, and the final directory of every history is compared with what drv_fs (compiled
from Model/FS.lean) computes for the same history."""
import hashlib
import json
import os
import re
import shutil
import subprocess

from .core import BIN, LEAN, HARNESS, GUARD_TAG, Lock, goenv, sh
from . import designs

GOA = os.path.join(BIN, "goa")
BASE_FLAGS = [[], ["-errors"], ["-security"], ["-errors", "-security"], ["-nested-inline"]]

GOMOD = """module gentest

go 1.22.0

require (
	goa.design/goa/v3 v3.0.0
	goa.design/clue v0.0.0
	verifharness v0.0.0
)

replace goa.design/goa/v3 => /repo

replace goa.design/clue => /verif/harness/stubs/clue

replace verifharness => /verif/harness
"""

DESIGN_GO = """package design

import (
	_ "goa.design/goa/v3/dsl"
	"verifharness/declare"
)

func init() { declare.FromEnv() }
"""


def hx(s):
    return s.encode().hex() or "-"


def flags_for(i):
    f = list(BASE_FLAGS[i % len(BASE_FLAGS)])
    if i % 2 == 1:
        f.append("-meta")
    if i % 8 == 7:
        f.append("-meta-both-summaries")
    return f


def new_module(path):
    os.makedirs(os.path.join(path, "design"))
    open(os.path.join(path, "go.mod"), "w").write(GOMOD)
    shutil.copy("/repo/go.sum", os.path.join(path, "go.sum"))
    open(os.path.join(path, "design", "design.go"), "w").write(DESIGN_GO)


def goa(cmd, mod, design_path, extra=()):
    env = goenv()
    env["VERIF_DESIGN"] = design_path
    try:
        # no -o: the command line is echoed into every generated header, so it must be the same in every directory
        p = subprocess.run([GOA, cmd, "gentest/design"] + list(extra), cwd=mod, env=env, capture_output=True, text=True, timeout=300)
    except subprocess.TimeoutExpired:
        return 124, "timeout"
    return p.returncode, (p.stdout + p.stderr)[-1500:]


def snapshot(mod):
    """relative path -> (sha256, mtime_ns) of every file goa may own (not go.mod/go.sum/design)"""
    out = {}
    for root, dirs, files in os.walk(mod):
        rel = os.path.relpath(root, mod)
        if rel == ".":
            dirs[:] = [d for d in dirs if d != "design"]
        for f in files:
            p = os.path.normpath(os.path.join(rel, f))
            if p in ("go.mod", "go.sum"):
                continue
            full = os.path.join(root, f)
            st = os.stat(full)
            out[p] = (hashlib.sha256(open(full, "rb").read()).hexdigest(), st.st_mtime_ns)
    return out


def under_gen_sub(p):
    parts = p.split("/")
    return len(parts) >= 3 and parts[0] == "gen"


def first_diff(mod_a, mod_b, path):
    try:
        a = open(os.path.join(mod_a, path), errors="replace").read().splitlines()
        b = open(os.path.join(mod_b, path), errors="replace").read().splitlines()
    except OSError as ex:
        return [str(ex)], False
    d = [(x, y) for x, y in zip(a, b) if x != y]
    if len(a) != len(b):
        d.append(("<%d lines>" % len(a), "<%d lines>" % len(b)))
    only_summary = bool(d) and len(a) == len(b) and all("summary" in x.lower() and "summary" in y.lower() for x, y in d)
    return ["%s | %s" % (x.strip()[:100], y.strip()[:100]) for x, y in d[:3]], only_summary


class History:
    """Runs one history on one directory, keeping the symbolic view the model is compared with."""

    def __init__(self, mod, design_path):
        self.mod, self.dj = mod, design_path
        new_module(mod)
        self.ops = []
        self.snaps = [snapshot(mod)]
        self.writes = {}   # path -> number of modifications since creation
        self.errors = []

    def _after(self):
        prev, cur = self.snaps[-1], snapshot(self.mod)
        for p, (sha, mt) in cur.items():
            if p not in prev:
                self.writes[p] = 0
            elif prev[p][1] != mt:
                self.writes[p] += 1
        for p in prev:
            if p not in cur:
                self.writes.pop(p, None)
        self.snaps.append(cur)
        return cur

    def gen(self):
        rc, out = goa("gen", self.mod, self.dj)
        if rc != 0:
            self.errors.append("goa gen: " + out)
        self.ops.append("gen")
        return self._after()

    def example(self):
        rc, out = goa("example", self.mod, self.dj)
        if rc != 0:
            self.errors.append("goa example: " + out)
        self.ops.append("ex")
        return self._after()

    def edit(self, path, content, symbol):
        full = os.path.join(self.mod, path)
        os.makedirs(os.path.dirname(full), exist_ok=True)
        old = os.stat(full).st_mtime_ns if os.path.exists(full) else None
        with open(full, "w") as f:
            f.write(content)
        if old is not None and os.stat(full).st_mtime_ns == old:
            os.utime(full, ns=(old + 1000, old + 1000))
        self.ops.append("edit %s %s" % (hx(path), hx(symbol)))
        return self._after()

    def remove(self, path):
        os.remove(os.path.join(self.mod, path))
        self.snaps[-1] = dict(self.snaps[-1])
        self.snaps[-1].pop(path, None)
        self.writes.pop(path, None)
        self.ops.append("rm %s" % hx(path))


def outdir_history(c, work):
    """`goa example -o DIR` (an output directory that is not the working directory) over multipart designs, twice, with every example file edited
    in between: the second run succeeds and leaves every existing file as the user left it."""
    for i in (1, 3):
        mod = os.path.join(work, "outdir%d" % i)
        new_module(mod)
        dj = os.path.join(mod, "design.json")
        open(dj, "w").write(designs.make_design(c.seed, i, ["-multipart-design"]))
        out = os.path.join(mod, "out")
        os.makedirs(out)
        steps = []
        inp = {"seed": c.seed, "index": i, "flags": ["-multipart-design"], "history": ["gen -o out", "example -o out", "edit every example file", "example -o out"]}
        for cmd in ("gen", "example"):
            rc, text = goa(cmd, mod, dj, ["-o", "out"])
            steps.append(cmd)
            if rc != 0:
                c.fail("c09/outdir/%s-fails" % cmd, "goa %s -o out fails for multipart design %d: %s" % (cmd, i, text[-300:]), input=dict(inp, history=steps))
                break
        else:
            mine = {}
            for root, dirs, files in os.walk(out):
                dirs[:] = [d for d in dirs if not (root == out and d == "gen")]
                for f in files:
                    if f.endswith(".go"):
                        full = os.path.join(root, f)
                        with open(full, "a") as fh:
                            fh.write("\n// edited by the user\n")
                        mine[full] = open(full, "rb").read()
            rc, text = goa("example", mod, dj, ["-o", "out"])
            c.evaluations += 1
            c.count(("outdir", i))
            c.hist("example -o DIR over edited files", "ok" if rc == 0 else "fails")
            if rc != 0:
                c.fail("c09/outdir/second-example-fails", "the second `goa example -o out` over its own edited output fails: %s" % text[-300:], input=inp)
            for full, content in mine.items():
                if open(full, "rb").read() != content:
                    c.fail("c09/outdir/example-modifies-existing-file", "`goa example -o out` changed the existing file %s" % os.path.relpath(full, mod), input=inp)
                    break
        shutil.rmtree(mod, ignore_errors=True)


def check_design(args):
    """Everything for one design; returns a dict of observations (no framework objects: runs in a thread)."""
    seed, i, work = args
    flags = flags_for(i)
    res = {"index": i, "flags": flags, "failures": [], "lines": [], "skipped": None, "steps": 0}
    try:
        dj = designs.make_design(seed, i, flags)
    except Exception as ex:
        res["skipped"] = "make: %r" % ex
        return res
    wd = os.path.join(work, "d%d" % i)
    os.makedirs(wd)
    djp = os.path.join(wd, "design.json")
    open(djp, "w").write(dj)
    res["design"] = dj
    both = "-meta-both-summaries" in flags

    def fail(sig, what, **kw):
        res["failures"].append(dict(signature=sig, what=what, design_index=i, flags=flags, **kw))

    A = History(os.path.join(wd, "A"), djp)
    s1 = A.gen()
    if A.errors:
        if "[design]" in A.errors[0] or "attribute" in A.errors[0] and not s1:
            res["skipped"] = "rejected: " + A.errors[0][-200:]
        else:
            res["skipped"] = "gen failed: " + A.errors[0][-300:]
        shutil.rmtree(wd, ignore_errors=True)
        return res
    G = sorted(p for p in s1 if p.startswith("gen/"))
    outside = [p for p in s1 if not under_gen_sub(p)]
    if outside:
        fail("c09/gen-writes-outside-gen-subdirs", "goa gen wrote %s, which its own cleanup does not own" % outside[:3])
    gsha = {p: s1[p][0] for p in G}
    ref = os.path.join(wd, "ref")
    shutil.copytree(os.path.join(A.mod, "gen"), os.path.join(ref, "gen"))
    nondet = set()   # files already reported as differing between runs: later steps do not report them again

    def differs(sig, what, p, other_mod):
        """report that file p of other_mod differs from the first run's, once per file"""
        if p in nondet:
            return
        nondet.add(p)
        d, only_summary = first_diff(ref, other_mod, p)
        kind = "openapi" if "openapi" in p else ("go" if p.endswith(".go") else "other")
        if kind == "openapi" and only_summary and both:
            sig = "c09/nondeterministic:openapi-summary-aliases"
        elif sig == "c09/nondeterministic":
            sig = sig + ":" + kind
        fail(sig, "%s: %s differs: %s" % (what, p, d), path=p)
    # ---- fresh processes, fresh directories
    nfresh = 3 if ("-meta" in flags or both) else 1
    for k in range(nfresh):
        B = History(os.path.join(wd, "B%d" % k), djp)
        sb = B.gen()
        res["steps"] += 1
        if B.errors:
            fail("c09/gen-fails-sometimes", "a second fresh run of goa gen failed: " + B.errors[0][-200:])
            continue
        if sorted(sb) != sorted(s1):
            fail("c09/nondeterministic-file-list", "two fresh runs of goa gen produced different file lists: %s" %
                 sorted(set(sb) ^ set(s1))[:4])
        for p in G:
            if p in sb and sb[p][0] != gsha[p]:
                differs("c09/nondeterministic", "two fresh runs of goa gen on the same design", p, B.mod)
        shutil.rmtree(B.mod, ignore_errors=True)
    # ---- gen over its own output
    s2 = A.gen()
    res["steps"] += 1
    for p in sorted(set(s1) | set(s2)):
        if p not in s2 or p not in s1:
            fail("c09/regen-differs", "goa gen over its own output added or removed %s" % p, path=p)
            break
        if s1[p][0] != s2[p][0]:
            differs("c09/regen-differs", "goa gen over its own output", p, A.mod)
    # ---- stale files, example, edits
    sub = G[0].split("/")[1] if G else "x"
    A.edit("gen/%s/zz_stale.go" % sub, "package stale\n", "stale")
    A.edit("gen/zz_top.txt", "kept\n", "top")
    s3 = A.example()
    res["steps"] += 1
    E = sorted(p for p in s3 if p not in s2 and not p.startswith("gen/"))
    esha = {p: s3[p][0] for p in E}
    for p in G:
        if s3.get(p) != A.snaps[-2].get(p):
            fail("c09/example-touches-gen", "goa example modified %s" % p, path=p)
            break
    # every example file is put into one of three states, rotating with the design index so that
    # over the stream each kind of file is seen edited, emptied and deleted
    edited = {}
    removed = None
    for k, p in enumerate(E):
        mode = (k + i) % 3
        if mode == 2 and removed is None and len(E) > 2:
            removed = p
            A.remove(p)
        elif mode == 1:
            A.edit(p, "", "emptied")
            edited[p] = "emptied"
        else:
            A.edit(p, open(os.path.join(A.mod, p)).read() + "\n// user edit\n", "user-edit")
            edited[p] = "user-edit"
    before = A.snaps[-1]
    s4 = A.example()
    res["steps"] += 1
    for p in before:
        if p in s4 and s4[p] != before[p]:
            what = "edited by the user" if p in edited else "already present"
            fail("c09/example-modified-existing" + (":empty-file" if edited.get(p) == "emptied" else ""),
                 "goa example modified %s (%s): content %s, mtime %s" %
                 (p, what, "changed" if s4[p][0] != before[p][0] else "same", "changed" if s4[p][1] != before[p][1] else "same"), path=p)
    if removed and s4.get(removed, (None,))[0] != esha[removed]:
        fail("c09/example-not-recreated", "a deleted example file %s was not recreated identically" % removed, path=removed)
    before = A.snaps[-1]
    s5 = A.gen()
    res["steps"] += 1
    for p in G:
        if p not in s5:
            fail("c09/regen-differs-after-history", "after gen, example, edits, example the next goa gen did not produce %s" % p, path=p)
            break
        if s5[p][0] != gsha[p]:
            differs("c09/regen-differs-after-history", "goa gen after gen, example, edits, example", p, A.mod)
    if "gen/%s/zz_stale.go" % sub in s5:
        fail("c09/stale-file-survives", "a stale file in a sub-directory of gen/ survived goa gen")
    for p in before:
        if not under_gen_sub(p) and s5.get(p) != before[p]:
            fail("c09/gen-touched-outside", "goa gen modified or removed %s, which is outside the sub-directories of gen/" % p, path=p)
            break
    if A.errors:
        fail("c09/command-failed", A.errors[0][-300:])

    # ---- example first, then gen
    C = History(os.path.join(wd, "C"), djp)
    c1 = C.example()
    c2 = C.gen()
    res["steps"] += 2
    if C.errors:
        fail("c09/command-failed", "example-then-gen: " + C.errors[0][-300:])
    else:
        for p in E:
            if c2.get(p, (None,))[0] != esha[p]:
                fail("c09/example-depends-on-history", "example file %s differs between gen,example and example,gen" % p, path=p)
                break
            if c1.get(p) != c2.get(p):
                fail("c09/gen-touched-outside", "goa gen modified example file %s" % p, path=p)
                break
        for p in G:
            if p not in c2:
                fail("c09/regen-differs-after-history", "example,gen did not produce %s" % p, path=p)
                break
            if c2[p][0] != gsha[p]:
                differs("c09/regen-differs-after-history", "example,gen compared with gen alone", p, C.mod)

    # ---- same process, twice
    rep = designs.run_design(dj, os.path.join(wd, "T"), twice=True)
    res["steps"] += 1
    if rep.get("gen2") and rep["gen"].get("files") and rep["gen2"].get("files") is not None:
        f1 = {f["path"]: f["sha256"] for f in rep["gen"]["files"]}
        f2 = {f["path"]: f["sha256"] for f in rep["gen2"]["files"]}
        if f1 != f2:
            diff = sorted(p for p in set(f1) | set(f2) if f1.get(p) != f2.get(p))
            kind = "openapi" if all("openapi" in p for p in diff) else "go"
            sig = "c09/nondeterministic:" + kind
            if kind == "openapi" and both:
                sig = "c09/nondeterministic:openapi-summary-aliases"
            fail(sig, "generating twice in one process gave different %s" % diff[:3])

    # ---- the same histories for the model
    def symbolic(h, final):
        out = []
        for p in sorted(final):
            sha = final[p][0]
            if p in gsha and (sha == gsha[p] or p in nondet):
                sym = "g:" + p
            elif p in esha and sha == esha[p]:
                sym = "e:" + p
            elif sha == hashlib.sha256(b"package stale\n").hexdigest():
                sym = "stale"
            elif sha == hashlib.sha256(b"kept\n").hexdigest():
                sym = "top"
            elif sha == hashlib.sha256(b"").hexdigest():
                sym = "emptied"
            elif edited.get(p) == "user-edit":
                sym = "user-edit"
            else:
                sym = "?"
            w = 0 if under_gen_sub(p) else h.writes.get(p, 0)
            out.append("%s=%s#%d" % (hx(p), hx(sym), w))
        return " ".join(out)

    def model_line(h):
        ops = []
        for o in h.ops:
            ops.append(o)
        return "fs G %s E %s OPS %s" % (" ".join(hx(p) for p in G), " ".join(hx(p) for p in E), " ".join(ops))

    res["lines"].append((model_line(A), symbolic(A, s5)))
    if not C.errors:
        res["lines"].append((model_line(C), symbolic(C, c2)))
    res["n_gen"], res["n_example"] = len(G), len(E)
    shutil.rmtree(wd, ignore_errors=True)
    return res


def strip_gen_writes(line):
    out = []
    for tok in line.split():
        p, rest = tok.split("=", 1)
        path = bytes.fromhex(p).decode()
        if under_gen_sub(path):
            rest = rest.split("#")[0] + "#0"
        out.append(p + "=" + rest)
    return " ".join(out)


def run(c):
    n = 20 if c.tier == "quick" else 160
    c.cov["rule"] = ("designs 0..%d of the stream (plain / errors / security / nested, every second one decorated with openapi:* and struct:* "
                     "metadata, every eighth with both summary aliases). Per design the real goa command runs: gen in 2-4 fresh processes and "
                     "directories; gen over its own output; stale files; example; user edit / emptied / deleted example files; example; gen; and "
                     "example,gen in a fresh directory; plus two generations in one process. Every file's sha256 and mtime is compared between "
                     "steps; the final directories are compared with drv_fs. non-trivial = command invocations.") % (n - 1)
    c.cov["trusted_base"] += [
        "Model/FS.lean is hand-written from codegen/file.go Render and cmd/goa/gen.go cleanupDirs; validated in every run against the real goa command "
        "on real directories (final state of each history, content classes and modification counts)",
        "gofacts map-range extraction (go/ast + go/types) and its shape classifier; the reviewed list in Props/C09.lean is a manual review "
        "(keyed by package, function and ranged expression)",
        "gofmt / imports.Process treated as a deterministic function of the file bytes (parameter fmt of the model)",
        "not modelled: time stamps inside generated files (goa writes none), plugins, the `goa` command's temporary generator directory",
    ]
    ok = c.go_build("genrun", "gofacts")
    with Lock():
        rc, so, se = sh(["go", "build", "-tags", GUARD_TAG, "-o", GOA, "goa.design/goa/v3/cmd/goa"], cwd=HARNESS)
    if rc != 0:
        c.broken.append({"kind": "tie", "name": "build of cmd/goa", "detail": (so + se)[-2000:]})
        ok = False
    if ok:
        c.gofacts("maprange", "FactsMapRange")
    lean_ok = False
    if c.lake_build("GoaVerif.Props.C09"):
        c.audit("C09")
        if c.tier == "thorough":
            c.leanchecker("C09")
        lean_ok = True
    drv_ok = c.lake_build("drv_fs", what="tie")
    if not ok:
        return
    try:
        sites = open(os.path.join(LEAN, "GoaVerif", "Generated", "FactsMapRange.lean")).read()
        for cls in re.findall(r', "(\w+)"⟩', sites):
            c.hist("map_range_site_class", cls)
    except OSError:
        pass
    if not lean_ok:
        n = max(n, 40)  # a proof obligation broke: widen the dynamic search
    work = designs.scratch("C09")
    outdir_history(c, work)
    results = designs.parallel(check_design, [(c.seed, i, work) for i in range(n)], workers=12)
    lines = []
    for r in results:
        if r["skipped"]:
            c.hist("design", r["skipped"].split(":")[0])
            continue
        c.hist("design", "generated")
        c.hist("flags", " ".join(r["flags"]) or "plain")
        c.hist("gen_files", (r.get("n_gen", 0) // 10) * 10)
        c.hist("example_files", r.get("n_example", 0))
        c.evaluations += r["steps"]
        for k in range(r["steps"]):
            c.count((r["index"], k))
        for f in r["failures"]:
            c.fail(f.pop("signature"), f.pop("what"), **f, design=json.loads(r["design"]))
        lines += [(r["index"], m, real) for m, real in r["lines"]]
        if r["index"] < 2:
            c.sample({"design_index": r["index"], "flags": r["flags"], "gen_files": r.get("n_gen"), "example_files": r.get("n_example"),
                      "commands_run": r["steps"]})
    shutil.rmtree(work, ignore_errors=True)
    if drv_ok and lines:
        rc, model, se = c.run_lines([os.path.join(LEAN, ".lake/build/bin/drv_fs")], "\n".join(m for _, m, _ in lines) + "\n")
        dis = []
        for k, (idx, m, real) in enumerate(lines):
            mo = strip_gen_writes(model[k]) if k < len(model) and model[k] != "bad-op" else "<model failed>"
            if mo != strip_gen_writes(real):
                dis.append((idx, m, real, mo))
        c.cov["ties"].setdefault("T3", []).append({"name": "real goa command on real directories vs drv_fs", "lines": len(lines), "disagreements": len(dis)})
        if dis:
            idx, m, real, mo = dis[0]
            def dec(line):
                return {bytes.fromhex(t.split("=")[0]).decode(): (bytes.fromhex(t.split("=")[1].split("#")[0]).decode() if t.split("=")[1].split("#")[0] != "-" else "") + "#" + t.split("#")[1] for t in line.split() if "=" in t}
            try:
                a, b = dec(real), dec(mo)
                delta = {p: {"implementation": a.get(p), "model": b.get(p)} for p in sorted(set(a) | set(b)) if a.get(p) != b.get(p)}
            except Exception:
                delta = {"implementation": real[:500], "model": mo[:500]}
            c.broken.append({"kind": "correspondence", "name": "goa command vs Model/FS.lean (drv_fs)", "count": len(dis),
                             "first_disagreement": {"design_index": idx, "history": m[-300:], "delta": dict(list(delta.items())[:6])}})


def replay(c, obj):
    f = obj["failure"]
    c.go_build("genrun")
    with Lock():
        sh(["go", "build", "-tags", GUARD_TAG, "-o", GOA, "goa.design/goa/v3/cmd/goa"], cwd=HARNESS)
    work = designs.scratch("C09r")
    r = check_design((obj.get("seed", 1), f["design_index"], work))
    shutil.rmtree(work, ignore_errors=True)
    hit = [x for x in r["failures"] if x["signature"] == f["signature"]]
    for x in r["failures"]:
        print(x["signature"], "-", x["what"])
    return 1 if hit else 0
