"""C19 — request-ID / trace middlewares and ResponseCapture. Theorems: Props/C19.lean over
Model/Middleware.lean (hand-written, T3 via rtmw/drv_mw) and the regenerated fixedSampler.Sample (T1)."""
import os
from .core import BIN, LEAN, sh


def dec(tok):
    return b"" if tok == "-" else bytes.fromhex(tok)


def canon(name):
    return "-".join(p[:1].upper() + p[1:].lower() for p in name.split("-"))


def oracle(op, obs):
    t = op.split()
    if obs.startswith("panic"):
        return ("panic/" + t[0], "implementation panicked", "no panic")
    if t[0] == "rid":
        variant = t[1]
        n = int(t[3])
        opts = t[4:4 + n]
        rest = t[4 + n:]
        use, header, limit = False, "", 0
        for o in opts:
            if o[0] == "U":
                header, use = "X-Request-Id", o[1] == "1"
            elif o[0] == "H":
                header, use = dec(o[1:]).decode(), True
            elif o[0] == "L":
                limit = int(o[1:])
        ctx = None if rest[0] == "~" else dec(rest[0])
        k = int(rest[2])
        kv = [(dec(rest[3 + 2 * i]).decode(), dec(rest[4 + 2 * i])) for i in range(k)]
        if obs == "id=EMPTY":
            return ("rid/empty", "request ID is empty", "a non-empty request ID")
        hdr = b""
        if variant == "http":
            if header:
                for kk, vv in kv:
                    if canon(kk) == canon(header):
                        hdr = vv
                        break
        else:
            for kk, vv in kv:
                if kk.lower() == "x-request-id":
                    hdr = vv
                    break
        cand = hdr if (use and hdr) else ctx
        want = "id=FRESH"
        if use and cand:
            if limit > 0 and len(cand) > limit:
                cand = cand[:limit]
            want = "id=" + cand.hex()
        if obs != want:
            kind = "trusted" if want != "id=FRESH" else "untrusted"
            return ("rid/%s/%s" % (variant, kind), "request ID %s, expected %s (opts=%s)" % (obs, want, " ".join(opts)), want)
    elif t[0] == "trace":
        hT, hP, pct, disc = dec(t[2]), dec(t[3]), int(t[4]), t[5] == "1"
        if hT:
            want = "trace=%s span=53 parent=%s" % (t[2], t[3] if hP else "~")
        elif pct == 100 and not disc:
            want = "trace=54 span=53 parent=%s" % (t[3] if hP else "~")
        else:
            want = "none"
        if obs != want:
            return ("trace/%s" % t[1], "trace context %s, expected %s" % (obs, want), want)
    elif t[0] == "chain":
        hops = obs.split(";") if obs else []
        if len(hops) != int(t[2]):
            return ("chain/%s/length" % t[1], "chain has %d hops" % len(hops), t[2])
        prev = None
        for k, h in enumerate(hops):
            if prev is not None:
                if h == "none":
                    return ("chain/%s/dropped" % t[1], "hop %d lost the trace of hop %d" % (k, k - 1), "same trace")
                tr, sp, pa = h.split("/")
                if tr != prev[0] or pa != prev[1]:
                    return ("chain/%s/link" % t[1], "hop %d has trace %s parent %s, previous hop had trace %s span %s"
                            % (k, tr, pa, prev[0], prev[1]), "trace=%s parent=%s" % prev)
            elif k == 0 and t[3] != "-" and h != "none":
                tr, sp, pa = h.split("/")
                if tr != t[3] or (t[4] != "-" and pa != t[4]):
                    return ("chain/%s/inbound" % t[1], "first hop does not keep the inbound trace/parent", t[3])
            if h != "none":
                tr, sp, pa = h.split("/")
                prev = (tr, sp)
            else:
                prev = None
    elif t[0] == "capture":
        cap, wire = obs.split(" ")
        if cap.split("=")[1] != wire.split("=")[1]:
            return ("capture", "ResponseCapture reports %s but the writer saw %s" % (cap, wire), wire.replace("wire", "cap"))
    return None


def run(c):
    c.cov["rule"] = ("request ID: trust x custom header x limit in [-1, len+1] x value x {http, grpc unary, grpc stream} systematically, "
                     "then random option lists (order matters: UseRequestIDOption resets the header), inbound contexts and headers; "
                     "trace: inbound trace/parent x sampling {0,100} x discard x variant; chains of depth 1-4 (6 in thorough) for every "
                     "sampling pattern x inbound trace/parent x variant through the real traced clients; capture: every sequence of "
                     "<=3 (5) WriteHeader/Write calls over a 7-symbol alphabet + random ones. non-trivial = everything except "
                     "untrusted rid cases")
    c.cov["trusted_base"] += [
        "Model/Middleware.lean hand-written from middleware/, http/middleware/, grpc/middleware/; tied by correspondence rtmw <-> drv_mw",
        "gotolean (T1) for fixedSampler.Sample (math/rand as an oracle parameter)",
        "adaptive sampler (floats, wall clock) not modelled; informational 1xx status codes excluded from capture_exact",
        "net/http header canonicalisation and grpc metadata lower-casing as modelled (ASCII token names)",
    ]
    have = c.go_build("gotolean", "rtmw")
    ok_model = False
    if have and c.gotolean("sampler", "TrSampler"):
        if c.lake_build("GoaVerif.Props.C19"):
            c.audit("C19")
            if c.tier == "thorough":
                c.leanchecker("C19")
        ok_model = c.lake_build("drv_mw", what="tie")
    if not os.path.exists(os.path.join(BIN, "rtmw")):
        return
    rc, so, se = sh([os.path.join(BIN, "rtmw"), "gen", "-seed", str(c.seed), "-tier", c.tier])
    ops = c.corpus() + so.splitlines()
    impl_cmd = [os.path.join(BIN, "rtmw"), "run"]
    if ok_model:
        impl, model, dis = c.correspondence("middlewares", ops, impl_cmd, [os.path.join(LEAN, ".lake/build/bin/drv_mw")])
    else:
        rc, impl, se = c.run_lines(impl_cmd, "\n".join(ops) + "\n")
        dis = []
        c.evaluations += len(ops)
    failed = set()
    for i, op in enumerate(ops):
        if i >= len(impl):
            break
        t = op.split()
        c.hist("op", t[0] + ("/" + t[1] if t[0] != "capture" else ""))
        if t[0] == "rid":
            c.hist("rid_result", "fresh" if impl[i] == "id=FRESH" else "inbound")
            if impl[i] != "id=FRESH":
                c.count(op)
        else:
            c.count(op)
        r = oracle(op, impl[i])
        if r:
            failed.add(i)
            c.fail(r[0], r[1], input=op, expected=r[2], actual=impl[i])
    unexplained = [d for d in dis if d[0] not in failed]
    if unexplained:
        i, op, a, b = unexplained[0]
        c.broken.append({"kind": "correspondence", "name": "rtmw vs drv_mw",
                         "first_disagreement": {"input": op, "implementation": a, "model": b}, "count": len(unexplained)})
    for i in (10, len(ops) // 2, len(ops) - 5):
        if 0 <= i < len(impl):
            c.sample({"op": ops[i], "implementation": impl[i]})


def replay(c, obj):
    op = obj["failure"]["input"]
    c.go_build("rtmw")
    rc, impl, se = c.run_lines([os.path.join(BIN, "rtmw"), "run"], op + "\n")
    print("op:  ", op)
    print("impl:", impl[0] if impl else se)
    r = oracle(op, impl[0]) if impl else ("x", "driver failed")
    if r:
        print("violates:", r[1])
    return 1 if r else 0
