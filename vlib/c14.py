"""C14 — the OpenAPI 3 schemas accept exactly what the generated server accepts.

Three verdicts are compared per recorded exchange:
  spec    the Lean specification of the design's validations (Model/Validation.lean, drv_valid) on the
          value that was sent — the meaning of the design (shared with C04),
  server  whether the generated server invoked the service method,
  doc     whether an independent OpenAPI 3 implementation (kin-openapi openapi3filter, harness/cmd/rtoasval)
          finds the recorded request conforming to the operation of the generated openapi3.json, and
          the recorded response conforming to the documented response of its status.
doc != server is the property's failure; when the spec sides with the document the server is the one
that deviates, which is C04's finding, not the document's. Lean (Props/C14.lean): the JSON-Schema subset
semantics `accepts`, the schema `schemaOf` an attribute is documented with, and schema_iff_valid on the
fragment where they agree, with witnesses for the divergences."""
import json
import os
import re
import shutil
import subprocess

from .core import BIN, LEAN
from . import designs, e2e, c04, c05

RTOASVAL = os.path.join(BIN, "rtoasval")


def kin_class(err):
    e = err or ""
    loc = ""
    m = re.search(r'parameter "[^"]*" in (\w+)', e)
    if m:
        loc = m.group(1)
    elif "request body" in e or "response body" in e:
        loc = "body"
    elif "response header" in e:
        loc = "header"
    table = [
        ("an invalid integer: value out of range", "integer-beyond-int64"),
        ("an invalid integer", "not-an-integer"),
        ("an invalid number", "not-a-number"),
        ("an invalid boolean", "not-a-boolean"),
        ("Value is not nullable", "explicit-null"),
        ("is required but missing", "required-but-missing"),
        ("property", "object-property"),
        ("not one of the allowed values", "enum"),
        ("maximum string length", "string-max-length"),
        ("minimum string length", "string-min-length"),
        ("number must be at least", "minimum"),
        ("number must be at most", "maximum"),
        ("number must be more than", "exclusive-minimum"),
        ("number must be less than", "exclusive-maximum"),
        ("maximum number of items", "max-items"),
        ("minimum number of items", "min-items"),
        ("there must be at most", "max-properties"),
        ("there must be at least", "min-properties"),
        ("doesn't match the format", "format"),
        ("doesn't match the regular expression", "pattern"),
        ("must be an integer", "fractional-integer"),
        ("value must be a", "json-type"),
        ("Value must be", "json-type"),
        ("has unexpected value", "content-type"),
        ("no route", "no-route"),
    ]
    loc = "body" if loc == "body" else ("param" if loc else "")
    for needle, name in table:
        if needle in e:
            if name == "format":
                f = re.search(r'format "([^"]*)"', e)
                name = "format-" + (f.group(1) if f else "?")
            if name == "object-property":
                name = "missing-property" if "is missing" in e else ("unsupported-property" if "unsupported" in e else "object-property")
            return (loc + "/" if loc else "") + name
    return (loc + "/" if loc else "") + re.sub(r"[^a-z]+", "-", e.lower())[:40]


def label_class(label):
    """location class (body | param | raw) and kind of a mutation label of vlib/c04.py, without numbers"""
    l = re.sub(r"[+-]?\d+(\.\d+)?", "", label).rstrip("/").replace("//", "/")
    parts = l.split("/")
    loc = parts[0]
    loc = loc if loc in ("body", "raw", "valid") else "param"
    return loc + ("/" + "/".join(parts[1:]) if len(parts) > 1 else "")



INT32 = (-2 ** 31, 2 ** 31 - 1)
INT64 = (-2 ** 63, 2 ** 63 - 1)


def deref(doc, sch, hops=0):
    while isinstance(sch, dict) and "$ref" in sch and hops < 20:
        name = sch["$ref"].rsplit("/", 1)[-1]
        sch = (doc.get("components", {}).get("schemas", {}) or {}).get(name, {})
        hops += 1
    return sch if isinstance(sch, dict) else {}


def schema_rules(items):
    return ["R", str(len(items))] + [t for it in items for t in it]


def schema_tokens(doc, sch, depth):
    """a schema object of the real document in the token form of drv_schema (`accepts`)"""
    sch = deref(doc, sch)
    if depth <= 0:
        return ["Sa"]
    t = sch.get("type")
    if t == "boolean":
        return ["Sb"]
    if t in ("integer", "number"):
        lo, hi = {"int32": INT32, "int64": INT64}.get(sch.get("format"), (None, None)) if t == "integer" else (None, None)
        items = []
        if sch.get("enum"):
            items.append(["en", str(len(sch["enum"]))] + [c04.rat(x) for x in sch["enum"]])
        mn, mx, xmn, xmx = sch.get("minimum"), sch.get("maximum"), sch.get("exclusiveMinimum"), sch.get("exclusiveMaximum")
        if isinstance(xmn, bool):
            if xmn and mn is not None:
                mn, xmn = None, mn
            else:
                xmn = None
        if isinstance(xmx, bool):
            if xmx and mx is not None:
                mx, xmx = None, mx
            else:
                xmx = None
        for k, v in (("min", mn), ("max", mx), ("xmin", xmn), ("xmax", xmx)):
            if v is not None:
                items.append([k, c04.rat(v)])
        return ["Sn", "1" if t == "integer" else "0", "~" if lo is None else str(lo), "~" if hi is None else str(hi)] + schema_rules(items)
    if t == "string":
        binary = sch.get("format") in ("binary", "byte")
        items = []
        if sch.get("enum"):
            items.append(["es", str(len(sch["enum"]))] + [c04.hx(str(x)) for x in sch["enum"]])
        if sch.get("format") and not binary:
            items.append(["fmt"])
        if sch.get("pattern"):
            items.append(["pat"])
        for k, j in (("minlen", "minLength"), ("maxlen", "maxLength")):
            if j in sch:
                items.append([k, str(sch[j])])
        return ["Ss", "1" if binary else "0"] + schema_rules(items)
    if t == "array":
        items = []
        for k, j in (("minlen", "minItems"), ("maxlen", "maxItems")):
            if j in sch:
                items.append([k, str(sch[j])])
        return ["SA"] + schema_rules(items) + schema_tokens(doc, sch.get("items") or {}, depth - 1)
    if t == "object" or "properties" in sch or "additionalProperties" in sch:
        items = []
        for k, j in (("minlen", "minProperties"), ("maxlen", "maxProperties")):
            if j in sch:
                items.append([k, str(sch[j])])
        props = sch.get("properties")
        if props:
            out = ["SO", str(len(props))]
            for name in props:
                out += [c04.hx(name)] + schema_tokens(doc, props[name], depth - 1)
            req = sch.get("required") or []
            return out + [str(len(req))] + [c04.hx(r) for r in req] + schema_rules(items)
        ap = sch.get("additionalProperties")
        if isinstance(ap, dict):
            return ["SD", "1"] + schema_tokens(doc, ap, depth - 1) + schema_rules(items)
        return ["SD", "0"] + schema_rules(items)
    return ["Sa"]


def depth_of(v):
    if isinstance(v, dict):
        return 1 + max([depth_of(x) for x in v.values()] + [0])
    if isinstance(v, list):
        return 1 + max([depth_of(x) for x in v] + [0])
    return 1


def operation_of(doc, s, m):
    """the operation object documenting the method (first route)"""
    want = "%s#%s" % (s["name"], m["name"])
    for path, item in (doc.get("paths") or {}).items():
        for verb, op in item.items():
            if isinstance(op, dict) and (op.get("operationId") or "").split("#")[:2] == want.split("#"):
                return op
    return None


def documented_attribute(doc, op, m, name, loc):
    """(schema object, required) the document gives for a payload attribute, or None"""
    h = m.get("http") or {}
    if loc == "body":
        rb = (op.get("requestBody") or {})
        content = rb.get("content") or {}
        sch = deref(doc, (content.get("application/json") or next(iter(content.values()), {})).get("schema") or {})
        props = sch.get("properties") or {}
        if name not in props:
            return None
        return props[name], name in (sch.get("required") or [])
    wire = name
    for key, l in (("params", "query"), ("headers", "header"), ("cookies", "cookie")):
        for mp in h.get(key) or []:
            if mp["attr"] == name:
                wire = mp.get("wire") or name
    for p in op.get("parameters") or []:
        p = deref(doc, p)
        if p.get("in") == loc and (p.get("name") == wire or (loc == "header" and (p.get("name") or "").lower() == wire.lower())):
            return p.get("schema") or {}, bool(p.get("required"))
    return None


def explained_by_c04(b, m, label, val, locs, typed):
    """is an invalid request that reached the service one of C04's recorded findings (the predicates of vlib/c04.py judge)?"""
    loc = label.split("/")[0]
    if loc == "raw":
        loc = "query" if "query" in label else "header" if "header" in label else "cookie" if "cookie" in label else "body"
    attrs = [a for a, l in locs.items() if l == loc] or [None]
    if any(c04.later_required_cookie(m, loc, a) for a in attrs):
        return True
    try:
        sent = c04.transmitted(b.schema, m["payload"], val, locs, typed)
    except c04.Skip:
        return True
    return "exmax-with-exmin" in label or c04.exmax_with_exmin_site(b.schema, m["payload"], sent)


def rejected_valid_explained_by_c04(b, m, val, locs, typed, w):
    """is a valid request the server refuses one of C04's recorded findings (an optional array/map with MinLength that is absent)?"""
    try:
        name = json.loads(w.get("resp_body") or "{}").get("name")
        sent = c04.transmitted(b.schema, m["payload"], val, locs, typed)
    except (c04.Skip, ValueError):
        return True
    return name == "invalid_length" and c04.absent_optional_collection(b.schema, m["payload"], sent)


def exchange(o):
    w = o.get("wire") or {}
    if not w.get("method"):
        return None
    return {k: w.get(k) for k in ("method", "path", "raw_query", "headers", "body", "status", "resp_headers", "resp_body")}


def run(c):
    n = 20 if c.tier == "quick" else 200
    per_valid = 2 if c.tier == "quick" else 4
    cap = 40 if c.tier == "quick" else 90
    c.cov["rule"] = ("designs 0..%d of the stream (as C04): per HTTP method %d valid payload/result pairs, up to %d one-site boundary mutations around each, raw replays "
                     "with wrong JSON types, nulls, out-of-range and fractional integers, dropped and malformed parameters, and scripted declared errors. Every "
                     "exchange that reached the server is given to kin-openapi's request/response validator with the generated openapi3.json (examples removed and "
                     "numeric exclusive bounds re-spelt, both C07 findings) and its verdict is compared with the server's and the specification's. "
                     "non-trivial = exchanges judged.") % (n - 1, per_valid, cap)
    c.cov["trusted_base"] += [
        "github.com/getkin/kin-openapi v0.128.0 openapi3filter (ValidateRequest / ValidateResponse, legacy router) as the independent meaning of the document; "
        "its own limitations surface as findings and are judged case by case (DESIGN.md)",
        "the document is normalised before loading: example/examples members removed, numeric exclusiveMinimum/Maximum re-spelt as minimum + boolean (C07 findings)",
        "exchanges are those of C04/C05 (boundary generator of vlib/c04.py, scripted errors of vlib/c05.py); security designs are not used (credentials are C06/C07)",
        "Model/Schema.lean `accepts` is a hand-written semantics of the JSON-Schema subset goa emits; it is cross-checked against kin-openapi on body values in this run",
    ]
    have = c.go_build("genrun", "rtoasval")
    lean_ok = False
    if c.lake_build("GoaVerif.Props.C14"):
        c.audit("C14")
        if c.tier == "thorough":
            c.leanchecker("C14")
        lean_ok = c.lake_build("drv_schema", what="tie")
    if not have:
        return
    drv = os.path.join(LEAN, ".lake/build/bin/drv_schema")
    try:
        c04.load_format_verdicts(c)
    except Exception:
        pass
    work = designs.scratch("C14")
    builds = e2e.build_many(c.seed, range(n), lambda i: ["-errors"] if i % 3 == 1 else [], work)
    # the solo table (one attribute per method: every type x presence x validation x location, a format AND a pattern on one string)
    builds += e2e.build_many(c.seed, range(4 if c.tier == "quick" else 12), lambda i: ["-solo-design"], work)
    # two services whose only method has the same name and a different body (the body types want one name in the documents)
    builds += e2e.build_many(c.seed, range(2), lambda i: ["-twin-design"], work)
    # alias types with validations, and validations given in the HTTP mapping on top of them
    builds += e2e.build_many(c.seed, range(2 if c.tier == "quick" else 10), lambda i: ["-alias-design"], work)
    for b in builds:
        if b.error:
            c.hist("build", "rejected" if b.error.startswith("rejected") else "failed")
            if not b.error.startswith("rejected"):
                c.fail("e2e-build", "design %d could not be generated/built: %s" % (b.index, b.error[:300]),
                       input={"seed": c.seed, "index": b.index, "flags": getattr(b, "flags", None)}, design=b.design, expected="builds", actual=b.error)
            b.cleanup()
            continue
        c.hist("build", "ok")
        judge_design(c, b, drv if lean_ok else None, per_valid, cap)
        b.cleanup()
    # result types with views (the designs of C08): every rendered response must conform to the schema documented for it
    nv = 12 if c.tier == "quick" else 90
    vbuilds = e2e.build_many(c.seed, range(nv), lambda i: ["-views-design"], work)
    for b in vbuilds:
        if b.error:
            c.hist("views_build", "rejected" if b.error.startswith("rejected") else "failed")
            b.cleanup()
            continue
        c.hist("views_build", "ok")
        judge_views(c, b)
        b.cleanup()
    shutil.rmtree(work, ignore_errors=True)


def judge_views(c, b):
    from . import c08
    rts = c08.result_types(b.design)
    cmds = []
    for s in b.design["services"]:
        for m in s["methods"]:
            res = m.get("result")
            T = res and (res["type"].get("ref") or res["type"].get("collection"))
            if T not in rts:
                continue
            defined = [v["name"] for v in rts[T].get("views") or []]
            fixed = m.get("result_view") or ("default" if len(defined) == 1 else None)
            for view in ([fixed] if fixed else defined):
                for full in (True, False):
                    val = c08.make_value(b.design, res, full, len(cmds))
                    cmds.append({"op": "call", "service": s["name"], "method": m["name"], "payload": None, "script": {"result": val, "view": "" if fixed else view}})
    if not cmds:
        return
    obs, err = b.run(cmds)
    if obs is None or len(obs) != len(cmds):
        c.broken.append({"kind": "tie", "name": "e2e binary failed for views design %d" % b.index, "detail": str(err)[-600:]})
        return
    exs = [json.dumps(exchange(o) or {}) for o in obs]
    p = subprocess.run([RTOASVAL, "-doc", os.path.join(b.workdir, "out/gen/http/openapi3.json")], input="\n".join(exs) + "\n", capture_output=True, text=True)
    verdicts = [json.loads(l) if l.strip() else {} for l in p.stdout.splitlines()]
    if len(verdicts) != len(cmds):
        c.broken.append({"kind": "tie", "name": "rtoasval failed for views design %d" % b.index, "detail": p.stderr[-400:]})
        return
    for cmd, o, v in zip(cmds, obs, verdicts):
        w = o.get("wire") or {}
        if v.get("doc_error") or not v.get("route_found") or w.get("status") != 200:
            c.hist("views_response", "not judged")
            continue
        c.evaluations += 1
        c.count(("views", b.index, json.dumps(cmd)[:200]))
        c.hist("views_response", "conforms" if v.get("response_ok") else "does not conform")
        if not v.get("response_ok"):
            view = cmd["script"]["view"] or "fixed/default"
            m0 = next(m for s0 in b.design["services"] for m in s0["methods"] if m["name"] == cmd["method"])
            T0 = m0["result"]["type"].get("ref") or m0["result"]["type"].get("collection")
            many = len(rts[T0].get("views") or []) > 1
            vk = "explicit-view" if m0.get("result_view") else ("single-view" if not many else ("default-view" if view in ("default", "fixed/default") else "other-view"))
            c.fail("c14/view-response:%s:%s" % (vk, kin_class(v.get("response_err"))),
                   "%s.%s rendered with view %r does not conform to the documented response schema: %s" % (cmd["service"], cmd["method"], view, v.get("response_err", "")[:300]),
                   input={"seed": c.seed, "index": b.index, "command": cmd, "views_design": True}, design=b.design, actual=(w.get("resp_body") or "")[:300])


def judge_design(c, b, drv, per_valid, cap):
    cmds, meta = c04.plan(b, c.seed, per_valid, cap)
    # a service that returns the ZERO value of a result attribute that is required and has a default: the documented schema requires the
    # property, so the response has to carry it (the other plans leave zero values of defaulted attributes out, see c04.transmitted)
    for s in b.design["services"]:
        for m in s["methods"]:
            if not m.get("http") or not m.get("result") or not b.schema.is_object(m["result"]):
                continue
            rng = e2e.rng_for(c.seed, "c14zero", b.index, s["name"], m["name"])
            locs = e2e.locations_of(m)
            p = e2e.gen_object(b.schema, m["payload"], rng, "body", 0, locs) if m.get("payload") else None
            res = e2e.gen_value(b.schema, m["result"], rng, "body")
            if (m.get("payload") and (p is None or not c04.path_safe(b.schema, m["payload"], p, locs))) or not isinstance(res, dict):
                continue
            ra = b.schema.resolve(m["result"])
            rl = {mp["attr"] for r0 in (m.get("http") or {}).get("responses") or [] for mp in (r0.get("headers") or []) + (r0.get("cookies") or [])}
            zeros = {}
            for fn, fa in b.schema.fields(m["result"]):
                fr = b.schema.resolve(fa)
                pr = (fr.get("type") or {}).get("prim")
                if fn in (ra.get("required") or []) and fr.get("has_default") and fn not in rl and not fr.get("val") and pr and pr not in ("Bytes", "Any"):
                    zeros[fn] = False if pr == "Boolean" else "" if pr == "String" else 0
            for an in rl:  # header/cookie transport of odd strings is C03's subject (as in c04.plan)
                if isinstance(res.get(an), str) and not re.match(r"^[A-Za-z0-9._-]+$", res[an]):
                    res[an] = "abc"
            if zeros:
                cmds.append({"op": "call", "service": s["name"], "method": m["name"], "payload": p, "script": {"result": dict(res, **zeros)}})
                meta.append((s, m, "response", "zero-of-required-default", p, locs, True))
    if not cmds:
        return
    obs, err = b.run(cmds)
    if obs is None or len(obs) != len(cmds):
        c.broken.append({"kind": "tie", "name": "e2e binary failed for design %d" % b.index, "detail": str(err)[-800:]})
        return
    rc, rm = c04.raw_plan(b, cmds, meta, obs, c.seed, cap // 2)
    if rc:
        robs, err = b.run(rc)
        if robs is not None and len(robs) == len(rc):
            cmds, meta, obs = cmds + rc, meta + rm, obs + robs
    # declared and undeclared errors (responses only)
    ecmds = []
    for s in b.design["services"]:
        for m in s["methods"]:
            if not m.get("http"):
                continue
            rng = e2e.rng_for(c.seed, "c14", b.index, s["name"], m["name"])
            locs = e2e.locations_of(m)
            p = None
            if m.get("payload"):
                p = e2e.gen_object(b.schema, m["payload"], rng, "body", 0, locs) if b.schema.is_object(m["payload"]) else e2e.gen_value(b.schema, m["payload"], rng, "body")
                if p is None or not c04.path_safe(b.schema, m["payload"], p, locs):
                    continue
            try:
                scripts = c05.scripts_for(b, s, m, rng)
            except Exception:
                scripts = []
            for label, errs, _, _ in scripts:
                if label.startswith("declared"):
                    ecmds.append(({"op": "call", "service": s["name"], "method": m["name"], "payload": p, "script": {"error": errs}}, label))
    eobs = []
    if ecmds:
        eobs, err = b.run([x[0] for x in ecmds])
        if eobs is None or len(eobs) != len(ecmds):
            eobs = []
    # per payload attribute, all judged by drv_schema (compiled from Model/Schema.lean):
    #   docM  accepts (schemaOf att) v   the schema goa is modelled to document the attribute with
    #   spec  violations att v = []      the design's meaning (C04)
    #   docR  accepts <real schema> v    the schema object found in openapi3.json
    spec, per_att = {}, {}
    docp = os.path.join(b.workdir, "out/gen/http/openapi3.json")
    if drv:
        try:
            doc_json = json.load(open(docp))
        except Exception:
            doc_json = {}
        lines, owner = [], []
        for i, (cmd, (s, m, side, label, val, locs, typed)) in enumerate(zip(cmds, meta)):
            if side != "request" or not isinstance(val, dict):
                continue
            op = operation_of(doc_json, s, m)
            try:
                v = c04.transmitted(b.schema, m["payload"], val, locs, typed)
            except c04.Skip:
                continue
            if not isinstance(v, dict) or op is None:
                continue
            for name, fa in b.schema.fields(m["payload"]):
                sub = c04.sub_att(b.schema, m["payload"], [name])
                subv = {name: v[name]} if name in v and v[name] is not None else {}
                try:
                    at, vt = c04.enc_att(b.schema, sub, [subv]), c04.enc_val(b.schema, sub, subv)
                    vd = c04.enc_val(b.schema, sub, subv, string_keys=True)
                except c04.Skip:
                    continue
                loc = locs.get(name, "body")
                lines.append(" ".join(["judge"] + at + vt + vd))
                owner.append((i, name, loc, "judge"))
                da = documented_attribute(doc_json, op, m, name, loc)
                if da is None:
                    owner.append((i, name, loc, "undocumented"))
                    lines.append("schemaof P b R 0")  # keeps lines and owners aligned
                else:
                    sch, req = da
                    st = ["SO", "1", c04.hx(name)] + schema_tokens(doc_json, sch, depth_of(subv) + 2) + (["1", c04.hx(name)] if req else ["0"]) + ["R", "0"]
                    lines.append(" ".join(["accepts"] + st + vd))
                    owner.append((i, name, loc, "real"))
        if lines:
            rcode, outl, se = c.run_lines([drv], "\n".join(lines) + "\n")
            if len(outl) != len(lines):
                c.broken.append({"kind": "tie", "name": "drv_schema output for design %d" % b.index, "detail": (se or "")[-400:]})
            else:
                for (i, name, loc, kind), line, out in zip(owner, lines, outl):
                    d = per_att.setdefault(i, {}).setdefault(name, {"loc": loc})
                    if out == "bad-op":
                        d["bad"] = line[:200]
                    elif kind == "judge":
                        t = out.split()
                        d.update(docM=t[0] == "1", spec=t[1] == "1", agree=t[2] == "1", culprit=t[3])
                    elif kind == "real":
                        d["docR"] = out == "1"
                    else:
                        d["undocumented"] = True
                for i, atts in per_att.items():
                    if all("spec" in d for d in atts.values()):
                        spec[i] = all(d["spec"] for d in atts.values())
    # the document's verdict
    exs, idx = [], []
    for i, o in enumerate(obs):
        e = exchange(o)
        if e:
            exs.append(json.dumps(e))
            idx.append(("main", i))
    for i, o in enumerate(eobs):
        e = exchange(o)
        if e:
            exs.append(json.dumps(e))
            idx.append(("err", i))
    if not exs:
        return
    p = subprocess.run([RTOASVAL, "-doc", docp], input="\n".join(exs) + "\n", capture_output=True, text=True)
    verdicts = []
    for line in p.stdout.splitlines():
        try:
            verdicts.append(json.loads(line))
        except Exception:
            verdicts.append({})
    if len(verdicts) != len(exs):
        c.broken.append({"kind": "tie", "name": "rtoasval failed for design %d" % b.index, "detail": p.stderr[-600:]})
        return
    if verdicts and verdicts[0].get("doc_error"):
        c.hist("document", "not loadable")
        c.fail("c14/document-not-loadable:" + re.sub(r'"[^"]*"', "", verdicts[0]["doc_error"])[:60],
               "design %d: the independent loader refuses openapi3.json even after normalisation: %s" % (b.index, verdicts[0]["doc_error"][:300]),
               input={"seed": c.seed, "index": b.index}, design=b.design)
        return
    c.hist("document", "loaded")
    for (kind, i), v in zip(idx, verdicts):
        c.evaluations += 1
        if kind == "err":
            cmd, label = ecmds[i]
            o = eobs[i]
            c.count((b.index, "e", i))
            st = (o.get("wire") or {}).get("status")
            c.hist("error_response", "documented" if v.get("response_documented") else "undocumented")
            if not v.get("route_found"):
                continue
            if not v.get("response_documented"):
                c.fail("c14/declared-error-status-undocumented", "%s.%s: declared error answered with status %s, which the operation does not document" %
                       (cmd["service"], cmd["method"], st), input={"seed": c.seed, "index": b.index, "command": cmd}, design=b.design)
            elif not v.get("response_ok") and "unsupported content type" in (v.get("response_err") or ""):
                c.hist("validator-limitation", "kin-openapi cannot decode a non-JSON error body")  # not a verdict about goa
            elif not v.get("response_ok"):
                c.fail("c14/error-response:" + kin_class(v.get("response_err")), "%s.%s [%s]: the error response (status %s) does not conform to its documented schema: %s" %
                       (cmd["service"], cmd["method"], label, st, v.get("response_err", "")[:300]),
                       input={"seed": c.seed, "index": b.index, "command": cmd}, design=b.design, actual=(o.get("wire") or {}).get("resp_body", "")[:400])
            continue
        cmd = cmds[i]
        s, m, side, label, val, locs, typed = meta[i]
        o = obs[i]
        c.count((b.index, i))
        inp = {"seed": c.seed, "index": b.index, "command": cmd, "label": label, "side": side}
        w = o.get("wire") or {}
        if not v.get("route_found"):
            if w.get("status") not in (404, 405):
                c.fail("c14/no-route", "%s %s is served (status %s) but the document has no such operation" % (w.get("method"), w.get("path"), w.get("status")), input=inp, design=b.design)
            continue
        server_ok = bool(o.get("server_called"))
        modelled = False
        for name, d in (per_att.get(i) or {}).items():
            lc = "body" if d["loc"] == "body" else "param"
            if d.get("bad"):
                c.broken.append({"kind": "tie", "name": "drv_schema rejects a line", "detail": d["bad"]})
                continue
            if d.get("undocumented"):
                modelled = True
                c.fail("c14/attribute-undocumented:" + lc, "%s.%s: payload attribute %r (%s) has no schema in the operation" % (s["name"], m["name"], name, d["loc"]),
                       input=inp, design=b.design)
                continue
            if "docM" not in d or "docR" not in d:
                continue
            c.hist("attribute_verdicts", "doc=%s spec=%s" % ("accepts" if d["docR"] else "rejects", "valid" if d["spec"] else "invalid"))
            if d["docR"] != d["docM"]:
                modelled = True
                mapping_val = any(mp["attr"] == name and mp.get("val") for key2 in ("params", "headers", "cookies") for mp in (m.get("http") or {}).get(key2) or [])
                fatt = dict(b.schema.fields(m["payload"])).get(name) or {}
                alias = b.schema.types.get((fatt.get("type") or {}).get("ref") or "")
                if lc == "param" and alias and (alias.get("att") or {}).get("val") and (mapping_val or fatt.get("val")):
                    lc = "param/validations-of-alias-type-and-of-the-mapping"
                c.fail("c14/document-schema-differs-from-model:" + lc,
                       "%s.%s attribute %r (%s) [%s]: the schema in openapi3.json %s this value, the schema goa is modelled to emit %s it" %
                       (s["name"], m["name"], name, d["loc"], label, "accepts" if d["docR"] else "rejects", "accepts" if d["docM"] else "rejects"),
                       input=inp, design=b.design, value=(val or {}).get(name))
            if d["docM"] != d["spec"]:
                modelled = True
                c.fail("c14/schema-vs-design:%s:%s" % (d["culprit"], "schema-accepts-invalid" if d["docM"] else "schema-rejects-valid"),
                       "%s.%s attribute %r (%s) [%s]: the documented schema %s a value that the design's validations %s (%s)" %
                       (s["name"], m["name"], name, d["loc"], label, "accepts" if d["docM"] else "rejects", "reject" if d["docM"] else "accept", d["culprit"]),
                       input=inp, design=b.design, value=(val or {}).get(name))
        judged = per_att.get(i) or {}
        if judged:
            sp_vals = [d.get("spec") for d in judged.values()]
            sp = False if any(x is False for x in sp_vals) else (True if all(x is True for x in sp_vals) else None)
        else:
            sp = None
        if side == "request" and not modelled:
            doc_ok = bool(v.get("request_ok"))
            c.hist("request", "kin=%s server=%s" % ("accepts" if doc_ok else "rejects", "accepts" if server_ok else "rejects"))
            if doc_ok != server_ok:
                # The schema part of the contract is judged above by the Lean semantics. What the independent validator adds is the
                # wire-level part the model does not have: explicit nulls, presence of parameters. Its other disagreements with
                # the server (formats it does not know, numeric enums of parameters, ...) are its own limits: counted, not reported.
                kc, lc2 = kin_class(v.get("request_err")), label_class(label)
                if sp is not None and sp == doc_ok and server_ok and not explained_by_c04(b, m, label, val, locs, typed):
                    # design and document agree that the request is invalid, the server accepts it, and none of C04's recorded findings
                    # explains it: the contract forbids an input the server accepts
                    c.fail("c14/server-accepts-what-document-and-design-reject:" + kc,
                           "%s.%s [%s]: the server accepts a request that the design's validations and the document both reject: %s" % (s["name"], m["name"], label, v.get("request_err", "")[:300]),
                           input=inp, design=b.design)
                elif sp is not None and sp == doc_ok and not server_ok and label in ("raw/header-dropped", "raw/cookie-dropped") and any(
                        l == label.split("/")[1].split("-")[0] and a not in (val or {}) and a in (b.schema.resolve(m["payload"]).get("required") or [])
                        and b.schema.resolve(dict(b.schema.fields(m["payload"]))[a]).get("has_default") for a, l in locs.items()):
                    c.fail("c14/doc-accepts-what-server-rejects:required-defaulted-header-or-cookie-absent",
                           "%s.%s [%s]: the document lists the parameter as optional with a default (required AND defaulted attributes are documented with "
                           "IsRequiredNoDefault), the server answers %s %s when it is absent" % (s["name"], m["name"], label, w.get("status"), (w.get("resp_body") or "")[:160]),
                           input=inp, design=b.design)
                elif sp is not None and sp == doc_ok and not server_ok and not rejected_valid_explained_by_c04(b, m, val, locs, typed, w):
                    c.fail("c14/server-rejects-what-document-and-design-accept:" + lc2,
                           "%s.%s [%s]: the server answers %s %s to a request that the design's validations and the document both accept" %
                           (s["name"], m["name"], label, w.get("status"), (w.get("resp_body") or "")[:200]), input=inp, design=b.design)
                elif sp is not None and sp == doc_ok:
                    c.hist("attributed", "server deviates from the specification (C04): " + (("server accepts invalid:" + kc) if server_ok else ("server rejects valid:" + lc2)))
                    ex = c.cov.setdefault("attributed_examples", [])
                    if len(ex) < 6:
                        ex.append({"design": b.index, "label": label, "server": "accepts" if server_ok else "rejects %s" % (w.get("resp_body") or "")[:160],
                                   "validator": v.get("request_err", "accepts")[:200], "payload": json.dumps(cmd.get("payload"))[:200]})
                elif not doc_ok and (kc == "body/explicit-null" or (kc == "param/required-but-missing" and 'in path' not in (v.get("request_err") or ""))):
                    c.fail("c14/doc-rejects-what-server-accepts:" + kc,
                           "%s.%s [%s]: the server accepts the request, the document does not: %s" % (s["name"], m["name"], label, v.get("request_err", "")[:300]),
                           input=inp, design=b.design, spec=("valid" if sp else "invalid") if sp is not None else "unknown")
                elif doc_ok and lc2 == "param/unset-required":
                    c.fail("c14/doc-accepts-what-server-rejects:" + lc2,
                           "%s.%s [%s]: the document accepts the request, the server answers %s %s" % (s["name"], m["name"], label, w.get("status"), (w.get("resp_body") or "")[:200]),
                           input=inp, design=b.design, spec=("valid" if sp else "invalid") if sp is not None else "unknown")
                else:
                    c.hist("kin_vs_server_not_reported", ("rejects:" + kc) if not doc_ok else ("accepts:" + lc2))
        # responses produced for valid results only (an invalid result is a defect of the service method)
        if (side == "request" or label in ("valid", "zero-of-required-default")) and server_ok and 200 <= (w.get("status") or 0) < 300:
            c.hist("response", "conforms" if v.get("response_ok") else "does not conform")
            if not v.get("response_documented"):
                c.fail("c14/success-status-undocumented", "%s.%s: status %s is not documented" % (s["name"], m["name"], w.get("status")), input=inp, design=b.design)
            elif not v.get("response_ok") and re.search(r'unable to decode header "[^"]*" value: path \d+: value  ', v.get("response_err") or ""):
                # the generated server separates the elements of an array in a header by ", " (a list with optional white space, RFC 9110 5.6.1);
                # kin-openapi splits at "," and does not trim: not a verdict about the document (how such arrays reach the client is C03's
                # recorded finding)
                c.hist("validator-limitation", "array elements in a response header separated by \", \"")
            elif not v.get("response_ok") and "response header" in (v.get("response_err") or "") and any(
                    isinstance((cmd.get("script") or {}).get("result"), dict) and isinstance(cmd["script"]["result"].get(mp["attr"]), list) and len(cmd["script"]["result"][mp["attr"]]) != 1
                    for r0 in (m.get("http") or {}).get("responses") or [] for mp in r0.get("headers") or []):
                # an array in a response header with other than one element: how the generated server writes it is C03's recorded finding
                c.hist("attributed", "array in a response header (C03: response/header/array-written-as-one-joined-value)")
            elif not v.get("response_ok"):
                c.fail("c14/response:" + kin_class(v.get("response_err")), "%s.%s: the response (status %s) does not conform to its documented schema: %s" %
                       (s["name"], m["name"], w.get("status"), v.get("response_err", "")[:300]), input=inp, design=b.design, actual=(w.get("resp_body") or "")[:400])
    if len(c.cov["samples"]) < 2 and idx:
        k0, i0 = idx[0]
        c.sample({"design_index": b.index, "exchange": json.loads(exs[0]), "document_verdict": verdicts[0]})


def replay(c, obj):
    f = obj["failure"]
    c.go_build("genrun", "rtoasval")
    c.lake_build("drv_schema", what="tie")
    work = designs.scratch("C14r")
    i = f["input"]["index"]
    if f["input"].get("views_design"):
        b = e2e.build_design(f["input"]["seed"], i, ["-views-design"], work)
        if b.error:
            print(b.error)
            return 1
        before = len(c.failures)
        judge_views(c, b)
        hit = [x for x in c.failures[before:] if x["signature"] == f["signature"]]
        for x in hit[:5]:
            print(x["signature"], x["what"])
        shutil.rmtree(work, ignore_errors=True)
        return 1 if hit else 0
    b = e2e.build_design(f["input"]["seed"], i, ["-errors"] if i % 3 == 1 else [], work)
    if b.error:
        print(b.error)
        return 1
    before = len(c.failures)
    judge_design(c, b, os.path.join(LEAN, ".lake/build/bin/drv_schema"), 4, 90)
    hit = [x for x in c.failures[before:] if x["signature"] == f["signature"]]
    for x in hit[:5]:
        print(x["signature"], x["what"])
    shutil.rmtree(work, ignore_errors=True)
    return 1 if hit else 0
