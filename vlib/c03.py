"""C03 — results reach the client caller intact (same exchanges as C02, response direction)."""
from . import c02


def run(c):
    c02.run_shared(c, "C03")


replay = c02.replay
