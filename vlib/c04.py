"""C04 — user code runs only on requests that satisfy the design's validations.
Specification: lean/GoaVerif/Model/Validation.lean (`violations`, `handle`), theorems in Props/C04.lean.
Tie T5 (correspondence of the specification with generated code): per design the real generators
run and the generated server/client are built with the glue; boundary values (both sides of every
bound, rune-vs-byte lengths, enum outsiders, format/pattern failures, missing required, wrong JSON
types, out-of-type-range numbers) are sent through the generated client or as raw requests; the
Lean driver `drv_valid` judges the same (attribute, value) pair and the verdicts are compared:
method invoked <-> no violation; a rejection is a 400 whose name is a violated rule; the client
returns a validation/decoding error for a violating result."""
import copy
import json
import os
import re
import shutil
from fractions import Fraction
from urllib.parse import urlsplit, parse_qsl, urlencode

from .core import LEAN, sh
from . import designs, e2e

FORMAT_BAD = {"date": "not valid!", "date-time": "not valid!", "uuid": "not valid!", "email": "not valid!", "hostname": "!!",
              "ipv4": "not valid!", "ipv6": "not valid!", "ip": "not valid!", "uri": "not valid!", "mac": "not valid!",
              "cidr": "not valid!", "regexp": "a(b", "json": "{", "rfc1123": "not valid!"}
KINDS = {"Boolean": ["b"], "String": ["s"], "Bytes": ["y"], "Float32": ["n", "0", "~", "~"], "Float64": ["n", "0", "~", "~"]}
for _p, (_lo, _hi) in e2e.INT_RANGES.items():
    KINDS[_p] = ["n", "1", str(_lo), str(_hi)]
PLACEHOLDER = {"type": {"prim": "Boolean"}}
# further strings per format whose verdict is asked of the C17 Lean format specification (drv_fmt)
FORMAT_EXTRA = {"ipv4": ["::ffff:192.168.0.1", "1.2.3.4", "256.1.1.1", "1.2.3"], "date": ["2024-02-30", "2023-02-28", "2024-2-01", "1999-12-31"],
                "uuid": ["6BA7B810-9DAD-11D1-80B4-00C04FD430C8", "6ba7b8109dad11d180b400c04fd430c8"], "mac": ["00-00-5e-00-53-01", "00:00:5e:00:53"],
                "cidr": ["10.0.0.0/33", "10.0.0.0/0"], "hostname": ["a.b-c.d", "-a.b"]}
FORMAT_VERDICTS = {}


def load_format_verdicts(c):
    """verdicts of the C17 specification recognisers for FORMAT_EXTRA (only where spec and goa's own regex model agree)"""
    if not c.lake_build("drv_fmt", what="tie"):
        return
    pairs = [(f, x) for f, xs in FORMAT_EXTRA.items() for x in xs]
    rc, out, se = c.run_lines([os.path.join(LEAN, ".lake/build/bin/drv_fmt")], "".join("fmt %s %s x\n" % (f, hx(x)) for f, x in pairs))
    for (f, x), line in zip(pairs, out):
        m = re.match(r"re=([01-]) spec=([01-])", line)
        if m and m.group(2) in "01" and m.group(1) in ("-", m.group(2)):
            FORMAT_VERDICTS[(f, x)] = m.group(2) == "1"


class Skip(Exception):
    pass


def hx(s):
    return s.encode().hex() or "-"


def rat(x):
    f = Fraction(x)
    return "%d/%d" % (f.numerator, f.denominator)


def eff_val(schema, att):
    """the attribute's validation merged with those of the user types it aliases"""
    out = {}
    chain = [att]
    seen = 0
    while att and att.get("type", {}).get("ref") and seen < 10:
        att = schema.types[att["type"]["ref"]]["att"]
        chain.append(att)
        seen += 1
    for a in reversed(chain):
        out.update(a.get("val") or {})
    return out


def rules_tokens(ev):
    items = []
    if ev.get("enum"):
        e = ev["enum"]
        if isinstance(e[0], str):
            items.append(["es", str(len(e))] + [hx(x) for x in e])
        else:
            items.append(["en", str(len(e))] + [rat(x) for x in e])
    if ev.get("format"):
        items.append(["fmt"])
    if ev.get("pattern"):
        items.append(["pat"])
    for k, t in (("min", "min"), ("max", "max"), ("exmin", "xmin"), ("exmax", "xmax")):
        if k in ev:
            items.append([t, rat(ev[k])])
    for k in ("minlen", "maxlen"):
        if k in ev:
            items.append([k, str(ev[k])])
    return ["R", str(len(items))] + [t for it in items for t in it]


def enc_att(schema, att, values):
    """Lean attribute, unfolded only as deep as the values go (types may be recursive)."""
    values = [v for v in values if v is not None]
    a = schema.resolve(att)
    t = a.get("type", {})
    ev = eff_val(schema, att)
    if t.get("prim"):
        if t["prim"] not in KINDS:
            raise Skip("prim " + t["prim"])
        return ["P"] + KINDS[t["prim"]] + rules_tokens(ev)
    if t.get("array"):
        return ["A"] + rules_tokens(ev) + enc_att(schema, t["array"], [x for v in values if isinstance(v, list) for x in v])
    if t.get("map_key"):
        ks = [map_key(schema, t["map_key"], k) for v in values if isinstance(v, dict) for k in v]
        vs = [x for v in values if isinstance(v, dict) for x in v.values()]
        return ["M"] + rules_tokens(ev) + enc_att(schema, t["map_key"], ks) + enc_att(schema, t["map_elem"], vs)
    dicts = [v for v in values if isinstance(v, dict)]
    req = schema.required(a)
    out = []
    n = 0
    for name, fa in schema.fields(a):
        child = [d[name] for d in dicts if name in d]
        if not child and name not in req:
            continue
        n += 1
        out += [hx(name), "1" if name in req else "0"] + (enc_att(schema, fa, child) if child else enc_att(schema, PLACEHOLDER, []))
    return ["O", str(n)] + out


def map_key(schema, katt, k):
    p = schema.resolve(katt).get("type", {}).get("prim")
    if p in e2e.INT_RANGES:
        try:
            return int(k)
        except ValueError:
            return k
    return k


def enc_val(schema, att, v, string_keys=False):
    """string_keys: encode map keys as the strings they are in JSON (what a schema sees) instead of typed by the key attribute"""
    if v is None:
        return ["_"]
    a = schema.resolve(att) if att else {}
    t = a.get("type", {})
    ev = eff_val(schema, att) if att else {}
    if isinstance(v, bool):
        return ["t" if v else "f"]
    if isinstance(v, (int, float)):
        return ["n", rat(v)]
    if isinstance(v, str):
        if t.get("prim") == "Bytes":
            return ["y", str(len(v))]
        fo = po = "1"
        if ev.get("format"):
            if v == e2e.FORMAT_SAMPLES.get(ev["format"]):
                fo = "1"
            elif v == FORMAT_BAD.get(ev["format"]):
                fo = "0"
            elif (ev["format"], v) in FORMAT_VERDICTS:
                fo = "1" if FORMAT_VERDICTS[(ev["format"], v)] else "0"
            else:
                raise Skip("format verdict unknown for %r" % v)
        if ev.get("pattern"):
            po = "1" if re.search(ev["pattern"], v) else "0"
        return ["s", hx(v), fo, po]
    if isinstance(v, list):
        out = ["a", str(len(v))]
        for x in v:
            out += enc_val(schema, t.get("array") or PLACEHOLDER, x, string_keys)
        return out
    if isinstance(v, dict):
        if t.get("map_key"):
            out = ["m", str(len(v))]
            for k, x in v.items():
                if string_keys:
                    out += ["s", hx(str(k)), "1", "1"] + enc_val(schema, t["map_elem"], x, string_keys)
                else:
                    out += enc_val(schema, t["map_key"], map_key(schema, t["map_key"], k)) + enc_val(schema, t["map_elem"], x)
            return out
        fields = dict(schema.fields(a)) if (t.get("is_object") or t.get("object")) else {}
        out = ["o", str(len(v))]
        for k, x in v.items():
            out += [hx(k)] + enc_val(schema, fields.get(k) or PLACEHOLDER, x, string_keys)
        return out
    raise Skip("value %r" % (v,))


def transmitted(schema, att, value, locs, typed=True, top=True):
    """What reaches the wire for a payload/result value. Through the typed client/server (typed):
    an unset required primitive travels as its zero value and an empty optional array, map or byte
    string is omitted (Go cannot tell nil from empty; omitempty). Outside a body "" and [] cannot
    be told from absent in the query string and headers (recorded under C02/C03); in cookies and
    path segments they are not generated here."""
    a = schema.resolve(att) if att else {}
    t = a.get("type", {})
    if isinstance(value, list) and t.get("array"):
        return [transmitted(schema, t["array"], x, {}, typed, False) for x in value]
    if isinstance(value, dict) and t.get("map_key"):
        return {k: transmitted(schema, t["map_elem"], x, {}, typed, False) for k, x in value.items()}
    if not isinstance(value, dict) or not (t.get("is_object") or t.get("object")):
        return value
    out = dict(value)
    req = schema.required(a)
    for name, fa in schema.fields(a):
        ft = schema.resolve(fa).get("type", {})
        p = ft.get("prim")
        loc = locs.get(name, "body") if top else "body"
        if typed:
            if name not in out and name in req and p and p != "Bytes":
                out[name] = False if p == "Boolean" else "" if p == "String" else 0
            if fa.get("has_default") and name in out and out[name] in (0, 0.0, "", False) and p and p != "Bytes":
                # the generated code cannot always tell a zero value from unset and may substitute the default,
                # depending on location and side (recorded under C02/C03): not judged here
                raise Skip("zero value of a defaulted attribute")
            if name not in req and out.get(name) in ("", [], {}) and (p == "Bytes" or ft.get("array") or ft.get("map_key")):
                out[name] = None
        if loc in ("cookie", "path") and out.get(name) == "":
            raise Skip("empty string in " + loc)
        if loc in ("query", "header") and out.get(name) in ("", [], {}):
            out[name] = None
        if out.get(name) is not None:
            out[name] = transmitted(schema, fa, out[name], {}, typed, False)
    return {k: v for k, v in out.items() if v is not None}


# ---------------------------------------------------------------- mutations

def sites(schema, att, v, path, loc):
    a = schema.resolve(att)
    t = a.get("type", {})
    yield path, att, a, v, loc
    if isinstance(v, list) and t.get("array"):
        for i, x in enumerate(v):
            yield from sites(schema, t["array"], x, path + [i], loc)
    elif isinstance(v, dict) and t.get("map_key"):
        for k, x in v.items():
            yield from sites(schema, t["map_elem"], x, path + [k], loc)
    elif isinstance(v, dict):
        for name, fa in schema.fields(a):
            if name in v:
                yield from sites(schema, fa, v[name], path + [name], loc if path else None)


def set_at(root, path, value, delete=False):
    root = copy.deepcopy(root)
    if not path:
        return value
    cur = root
    for p in path[:-1]:
        cur = cur[p]
    if delete:
        del cur[path[-1]]
    else:
        cur[path[-1]] = value
    return root


def candidates(schema, att, a, v, loc, rng):
    """boundary values for one site: (label, new value)"""
    t = a.get("type", {})
    ev = eff_val(schema, att)
    p = t.get("prim")
    out = []
    ascii_only = loc in ("header", "cookie", "path")
    if p in e2e.INT_RANGES or p in ("Float32", "Float64"):
        isint = p in e2e.INT_RANGES
        d = 1 if isint else 0.25
        for k in ("min", "max", "exmin", "exmax"):
            if k in ev:
                b = ev[k]
                if isint and b != int(b):
                    bs = [int(b // 1), int(b // 1) + 1]
                else:
                    b = int(b) if isint else b
                    bs = [b - d, b, b + d]
                for x in bs:
                    out.append(("%s%+g" % (k + ("-with-exmin" if k == "exmax" and "exmin" in ev else ""), x - ev[k]), x))
        if ev.get("enum"):
            out.append(("enum-outsider", max(ev["enum"]) + 1))
            out += [("enum-member-%d" % i, x) for i, x in enumerate(ev["enum"])]
        if isint:
            lo, hi = e2e.INT_RANGES[p]
            out = [(l, x) for l, x in out if lo <= x <= hi]
    elif p == "String":
        if ev.get("format"):
            out += [("format-ok", e2e.FORMAT_SAMPLES[ev["format"]]), ("format-bad", FORMAT_BAD[ev["format"]])]
            out = [(l, x) for l, x in out if x is not None]
            out += [("format-spec", x) for (f, x) in FORMAT_VERDICTS if f == ev["format"] and not (ascii_only and not x.isascii())]
            if loc == "path":
                out = [(l, x) for l, x in out if "/" not in x]
        else:
            units = ["a"] if ascii_only else ["a", "é", "日"]
            if ev.get("pattern"):
                units = ["a", "x1"] if ascii_only else ["a", "é", "x1", "A"]
            for k in ("minlen", "maxlen"):
                if k in ev:
                    for n in (ev[k] - 1, ev[k], ev[k] + 1):
                        if n < 0 or (n == 0 and loc == "path"):
                            continue
                        for u in units:
                            s = (u * n)[:n] if len(u) > 1 else u * n
                            out.append(("%s%+d/%s" % (k, n - ev[k], "ascii" if s.isascii() else "multibyte"), s))
            if ev.get("pattern"):
                for s in ("abc", "ABC1", "ax", "xyz", "cc", "ac", "aé", "7"):
                    if ascii_only and not s.isascii():
                        continue
                    out.append(("pattern", s))
                if loc in ("body", "query"):
                    # anchors are anchors of the whole text, not of its lines (Go regexp without the m flag)
                    out += [("pattern-multiline", "abc\n<x>"), ("pattern-multiline", "<x>\nabc"), ("pattern-multiline", "ab\ncd")]
            if ev.get("enum"):
                out += [("enum-outsider", "zzz")] + [("enum-member-%d" % i, x) for i, x in enumerate(ev["enum"])]
    elif p == "Bytes":
        for k in ("minlen", "maxlen"):
            if k in ev:
                for n in (ev[k] - 1, ev[k], ev[k] + 1):
                    if n >= 0:
                        out.append(("%s%+d" % (k, n - ev[k]), "b" * n))
    elif t.get("map_key") and isinstance(v, dict):
        kev = eff_val(schema, t["map_key"])
        kp = schema.resolve(t["map_key"]).get("type", {}).get("prim")
        x = next(iter(v.values())) if v else e2e.gen_value(schema, t["map_elem"], rng, "body", 3)
        keys = []
        if kp == "String":
            for k in ("minlen", "maxlen"):
                if k in kev:
                    keys += [("key-%s%+d" % (k, n - kev[k]), "k" * n) for n in (kev[k] - 1, kev[k], kev[k] + 1) if n >= 1]
            if kev.get("pattern"):
                keys += [("key-pattern", s) for s in ("abc", "ABC1", "7", "xyz")]
            if kev.get("enum"):
                keys += [("key-enum-outsider", "zzz"), ("key-enum-member", kev["enum"][0])]
        elif kp in e2e.INT_RANGES:
            for k in ("min", "max", "exmin", "exmax"):
                if k in kev:
                    keys += [("key-%s%+d" % (k, d), int(kev[k]) + d) for d in (-1, 0, 1)]
            if kev.get("enum"):
                keys += [("key-enum-outsider", max(kev["enum"]) + 1)]
        if x is not None:
            for lab, k in keys:
                nv = copy.deepcopy(v)
                nv[str(k)] = copy.deepcopy(x)
                out.append((lab, nv))
    elif t.get("array") and isinstance(v, list):
        for k in ("minlen", "maxlen"):
            if k in ev:
                for n in (ev[k] - 1, ev[k], ev[k] + 1):
                    if n < 0:
                        continue
                    if n <= len(v):
                        out.append(("array-%s%+d" % (k, n - ev[k]), v[:n]))
                    else:
                        x = v[0] if v else e2e.gen_value(schema, t["array"], rng, loc or "body", 3)
                        if x is not None:
                            out.append(("array-%s%+d" % (k, n - ev[k]), v + [copy.deepcopy(x) for _ in range(n - len(v))]))
    return out


def mutations(schema, att, value, locs, rng, cap):
    """(label, mutated value) for a valid object value"""
    out = []
    for path, fatt, a, v, loc in sites(schema, att, value, [], "body"):
        loc = locs.get(path[0], "body") if path else "body"
        for label, x in candidates(schema, fatt, a, v, loc, rng):
            out.append(("%s/%s" % (loc, label), set_at(value, path, x)))
        if isinstance(v, dict) and not a.get("type", {}).get("map_key"):
            req = schema.required(a)
            for name, fa in schema.fields(a):
                if name not in v:
                    continue
                ft = schema.resolve(fa).get("type", {})
                floc = locs.get(name, "body") if not path else "body"
                if name in req:
                    # a nil required array/map/bytes is ambiguous in Go (nil or empty): left to the raw replays
                    if not (ft.get("array") or ft.get("map_key") or ft.get("prim") == "Bytes"):
                        out.append(("%s/unset-required" % floc, set_at(value, path + [name], None, delete=True)))
                elif schema.is_pointer(a, name, fa) or ft.get("array") or ft.get("map_key") or ft.get("prim") == "Bytes":
                    out.append(("%s/unset-optional" % floc, set_at(value, path + [name], None, delete=True)))
    rng.shuffle(out)
    # keep at most `cap`, one of each label first
    seen, first, rest = set(), [], []
    for m in out:
        (rest if m[0] in seen else first).append(m)
        seen.add(m[0])
    return (first + rest)[:cap]


def is_field(schema, att, path):
    """the last step of path selects an object attribute (not a map entry)"""
    a = schema.resolve(att)
    for seg in path[:-1]:
        t = a.get("type", {})
        if t.get("array") and isinstance(seg, int):
            a = schema.resolve(t["array"])
        elif t.get("map_key"):
            a = schema.resolve(t["map_elem"])
        else:
            a = schema.resolve(dict(schema.fields(a))[seg])
    t = a.get("type", {})
    return bool(t.get("is_object") or t.get("object")) and not t.get("map_key")


WRONG = {"number": "str", "string": 123, "bool": "x", "list": {"k": 1}, "dict": [1]}


def raw_mutations(schema, att, body, rng, cap):
    """(label, mutated JSON body): wrong JSON types, nulls, missing keys, out-of-type-range numbers"""
    out = []
    for path, fatt, a, v, _ in sites(schema, att, body, [], "body"):
        if not path:
            continue
        t = a.get("type", {})
        p = t.get("prim")
        if p == "Bytes":
            continue
        kind = "bool" if isinstance(v, bool) else "number" if isinstance(v, (int, float)) else "string" if isinstance(v, str) else \
            "list" if isinstance(v, list) else "dict"
        out.append(("raw/wrong-type-%s" % kind, set_at(body, path, WRONG[kind])))
        if isinstance(path[-1], str) and is_field(schema, att, path):
            out.append(("raw/null", set_at(body, path, None)))
        if p in e2e.INT_RANGES:
            lo, hi = e2e.INT_RANGES[p]
            out.append(("raw/above-type-range", set_at(body, path, hi + 1)))
            out.append(("raw/fractional-integer", set_at(body, path, 1.5)))
            if lo == 0:
                out.append(("raw/negative-unsigned", set_at(body, path, -1)))
    rng.shuffle(out)
    seen, first, rest = set(), [], []
    for m in out:
        (rest if m[0] in seen else first).append(m)
        seen.add(m[0])
    return (first + rest)[:cap]


# ---------------------------------------------------------------- run

def body_attrs(method):
    locs = e2e.locations_of(method)
    return locs


def plan(b, seed, per_valid, cap):
    """commands for one built design with, for each, the Lean line that judges it"""
    cmds, meta = [], []
    for s in b.design["services"]:
        for m in s["methods"]:
            if not m.get("http"):
                continue
            locs = e2e.locations_of(m)
            rlocs = {}
            for r0 in ((m.get("http") or {}).get("responses") or []):
                for mp in (r0.get("headers") or []):
                    rlocs[mp["attr"]] = "header"
                for mp in (r0.get("cookies") or []):
                    rlocs[mp["attr"]] = "cookie"
            for k in range(per_valid):
                rng = e2e.rng_for(seed, "c04", b.index, s["name"], m["name"], k)
                p = e2e.gen_object(b.schema, m["payload"], rng, "body", 0, locs) if m.get("payload") else None
                if m.get("payload") and p is None:
                    continue
                if p is not None and not path_safe(b.schema, m["payload"], p, locs):
                    continue
                if p is not None:
                    drop_default_zeros(b.schema, m["payload"], p)
                res = e2e.gen_value(b.schema, m["result"], rng, "body") if m.get("result") else None
                if m.get("result") and res is None:
                    continue
                if isinstance(res, dict):
                    drop_default_zeros(b.schema, m["result"], res)
                    for an, loc in rlocs.items():  # header/cookie transport of odd strings is C03's subject
                        if isinstance(res.get(an), str) and not re.match(r"^[A-Za-z0-9._-]+$", res[an]):
                            res[an] = "abc"
                base = {"op": "call", "service": s["name"], "method": m["name"], "payload": p, "script": {"result": res}}
                if m.get("payload"):
                    cmds.append(base)
                    meta.append((s, m, "request", "valid", p, locs, True))
                    for label, mp in mutations(b.schema, m["payload"], p, locs, rng, cap):
                        c2 = dict(base, payload=mp)
                        cmds.append(c2)
                        meta.append((s, m, "request", label, mp, locs, True))
                if m.get("result") and isinstance(res, dict):
                    for label, mr in mutations(b.schema, m["result"], res, rlocs, rng, cap // 2):
                        if any(loc == "header" and isinstance(mr.get(an), list) and len(mr[an]) != 1 for an, loc in rlocs.items()):
                            continue  # an array in a response header survives only with exactly one element: C03's recorded finding
                        c2 = dict(base, script={"result": mr})
                        cmds.append(c2)
                        meta.append((s, m, "response", label, mr, rlocs, True))
    return cmds, meta


SAFE_SEG = re.compile(r"^[A-Za-z0-9._~-]+$")


def path_safe(schema, att, p, locs):
    """strings in path segments, headers and cookies that the generated client or net/http are known
    to mis-encode or sanitise (C02 findings) are replaced by plain ones"""
    fields = dict(schema.fields(att))
    for name, loc in locs.items():
        v = p.get(name)
        if loc in ("header", "cookie") and isinstance(v, list) and all(isinstance(x, str) for x in v):
            ev = eff_val(schema, schema.resolve(fields[name])["type"]["array"])
            if not (ev.get("format") or ev.get("enum") or ev.get("pattern")):
                p[name] = [x if SAFE_SEG.match(x) else "abc"[:max(ev.get("minlen", 1), min(3, ev.get("maxlen", 3)))] or "a" for x in v]
            continue
        if loc not in ("path", "header", "cookie") or not isinstance(v, str) or SAFE_SEG.match(v):
            continue
        if schema.resolve(fields[name]).get("type", {}).get("prim") == "Bytes":
            continue
        ev = eff_val(schema, fields[name])
        if ev.get("format") or ev.get("enum"):
            return False
        for cand in ("abc", "a", "ab", "abcd", "hello", "x1", "xyz12"):
            if ev.get("minlen", 0) <= len(cand) <= ev.get("maxlen", 99) and (not ev.get("pattern") or re.search(ev["pattern"], cand)):
                p[name] = cand
                break
        else:
            return False
    return True


def drop_default_zeros(schema, att, v):
    """unset the defaulted attributes whose generated value is the zero value (see `transmitted`)"""
    a = schema.resolve(att) if att else {}
    t = a.get("type", {})
    if isinstance(v, list) and t.get("array"):
        for x in v:
            drop_default_zeros(schema, t["array"], x)
    elif isinstance(v, dict) and t.get("map_key"):
        for x in v.values():
            drop_default_zeros(schema, t["map_elem"], x)
    elif isinstance(v, dict):
        for name, fa in schema.fields(a):
            if name in v and fa.get("has_default") and v[name] in (0, 0.0, "", False):
                del v[name]
            elif name in v:
                drop_default_zeros(schema, fa, v[name])
    return v


def model_line(b, att, value, locs, typed=True):
    v = transmitted(b.schema, att, value, locs, typed)
    return "validate " + " ".join(enc_att(b.schema, att, [v]) + enc_val(b.schema, att, v))


def raw_plan(b, cmds, meta, obs, seed, cap):
    """second round: replay the wire of valid calls with a corrupted JSON body / query"""
    out_c, out_m = [], []
    for cmd, (s, m, side, label, val, locs, _), o in zip(cmds, meta, obs):
        if side != "request" or label != "valid" or not o.get("server_called"):
            continue
        script = cmd.get("script")
        try:
            transmitted(b.schema, m["payload"], val, locs)
        except Skip:
            continue
        w = o.get("wire") or {}
        rng = e2e.rng_for(seed, "c04raw", b.index, s["name"], m["name"], json.dumps(val, sort_keys=True))
        headers = {k: v for k, v in (w.get("headers") or {}).items() if k not in ("Content-Length", "Host")}
        target = w.get("path", "/") + ("?" + w["raw_query"] if w.get("raw_query") else "")
        body_names = [n for n, _ in b.schema.fields(m["payload"]) if locs.get(n, "body") == "body"]
        if w.get("body") and body_names:
            try:
                body = json.loads(w["body"])
            except Exception:
                continue
            if not isinstance(body, dict):
                continue
            sent = transmitted(b.schema, m["payload"], val, locs)
            body = unb64(b.schema, sub_att(b.schema, m["payload"], body_names), body)
            for lab, mb in raw_mutations(b.schema, sub_att(b.schema, m["payload"], body_names), body, rng, cap):
                merged = {k: v for k, v in sent.items() if k not in body_names}
                merged.update({k: v for k, v in mb.items() if v is not None})
                out_c.append({"op": "raw", "script": script, "raw": {"method": w["method"], "target": target, "headers": headers,
                                                                    "body": json.dumps(b64(b.schema, sub_att(b.schema, m["payload"], body_names), mb))}})
                out_m.append((s, m, "request", lab, merged, locs, False))
        # query: drop each parameter, corrupt numbers
        q = parse_qsl(w.get("raw_query") or "", keep_blank_values=True)
        fields = dict(b.schema.fields(m["payload"]))
        for mp in (m["http"].get("params") or []):
            wire = mp.get("wire") or mp["attr"]
            att = fields.get(mp["attr"])
            if att is None or not any(k == wire for k, _ in q):
                continue
            sent = transmitted(b.schema, m["payload"], val, locs)
            q2 = [(k, v) for k, v in q if k != wire]
            t2 = w.get("path", "/") + ("?" + urlencode(q2) if q2 else "")
            merged = {k: v for k, v in sent.items() if k != mp["attr"]}
            out_c.append({"op": "raw", "script": script, "raw": {"method": w["method"], "target": t2, "headers": headers, "body": w.get("body") or ""}})
            out_m.append((s, m, "request", "raw/query-dropped", merged, locs, False))
            p = b.schema.resolve(att).get("type", {}).get("prim")
            if p in e2e.INT_RANGES or p in ("Float32", "Float64", "Boolean"):
                q3 = [(k, "abc" if k == wire else v) for k, v in q]
                merged = dict(sent)
                merged[mp["attr"]] = "abc"
                out_c.append({"op": "raw", "script": script, "raw": {"method": w["method"], "target": w.get("path", "/") + "?" + urlencode(q3), "headers": headers, "body": w.get("body") or ""}})
                out_m.append((s, m, "request", "raw/query-wrong-type", merged, locs, False))
        # headers and cookies: drop each one, corrupt numbers (a request decoder reads every location its own way)
        for loc_key, lab in (("headers", "header"), ("cookies", "cookie")):
            for mp in (m["http"].get(loc_key) or []):
                wire = mp.get("wire") or mp["attr"]
                att = fields.get(mp["attr"])
                if att is None:
                    continue
                sent = transmitted(b.schema, m["payload"], val, locs)
                if lab == "header":
                    hk = [k for k in headers if k.lower() == wire.lower()]
                    if not hk:
                        continue
                    variants = [("dropped", {k: v for k, v in headers.items() if k not in hk}),
                                ("wrong-type", {k: (["abc"] if k in hk else v) for k, v in headers.items()})]
                else:
                    ck = [k for k in headers if k.lower() == "cookie"]
                    jar = [x.split("=", 1) for v in (headers.get(ck[0]) if ck else []) for x in v.split("; ") if "=" in x]
                    if not any(k == wire for k, _ in jar):
                        continue

                    def with_jar(j):
                        h2 = {k: v for k, v in headers.items() if k not in ck}
                        if j:
                            h2["Cookie"] = ["; ".join("%s=%s" % (k, v) for k, v in j)]
                        return h2
                    variants = [("dropped", with_jar([(k, v) for k, v in jar if k != wire])),
                                ("wrong-type", with_jar([(k, "abc" if k == wire else v) for k, v in jar]))]
                p = b.schema.resolve(att).get("type", {}).get("prim")
                for vname, h2 in variants:
                    merged = {k: v for k, v in sent.items() if k != mp["attr"]}
                    if vname == "wrong-type":
                        if not (p in e2e.INT_RANGES or p in ("Float32", "Float64", "Boolean")):
                            continue
                        merged[mp["attr"]] = "abc"
                    out_c.append({"op": "raw", "script": script, "raw": {"method": w["method"], "target": target, "headers": h2, "body": w.get("body") or ""}})
                    out_m.append((s, m, "request", "raw/%s-%s" % (lab, vname), merged, locs, False))
    return out_c, out_m


def conv_bytes(schema, att, v, f):
    a = schema.resolve(att) if att else {}
    t = a.get("type", {})
    if isinstance(v, str) and t.get("prim") == "Bytes":
        return f(v)
    if isinstance(v, list) and t.get("array"):
        return [conv_bytes(schema, t["array"], x, f) for x in v]
    if isinstance(v, dict) and t.get("map_key"):
        return {k: conv_bytes(schema, t["map_elem"], x, f) for k, x in v.items()}
    if isinstance(v, dict) and (t.get("is_object") or t.get("object")):
        fields = dict(schema.fields(a))
        return {k: conv_bytes(schema, fields.get(k), x, f) for k, x in v.items()}
    return v


def unb64(schema, att, v):
    import base64
    return conv_bytes(schema, att, v, lambda s: base64.b64decode(s).decode("latin-1"))


def b64(schema, att, v):
    import base64
    return conv_bytes(schema, att, v, lambda s: base64.b64encode(s.encode("latin-1")).decode())


def sub_att(schema, att, names):
    a = schema.resolve(att)
    return {"type": {"is_object": True, "object": [f for f in a["type"].get("object") or [] if f["name"] in names]},
            "required": [r for r in a.get("required") or [] if r in names]}


def absent_optional_collection(schema, att, v):
    """an optional array/map attribute with MinLength >= 1 that is absent from the (object) value"""
    a = schema.resolve(att)
    t = a.get("type", {})
    if isinstance(v, list) and t.get("array"):
        return any(absent_optional_collection(schema, t["array"], x) for x in v)
    if isinstance(v, dict) and t.get("map_key"):
        return any(absent_optional_collection(schema, t["map_elem"], x) for x in v.values())
    if isinstance(v, dict):
        req = schema.required(a)
        for name, fa in schema.fields(a):
            ft = schema.resolve(fa).get("type", {})
            if v.get(name) is None:
                if name not in req and (ft.get("array") or ft.get("map_key") or ft.get("prim") == "Bytes") and eff_val(schema, fa).get("minlen", 0) >= 1:
                    return True
            elif absent_optional_collection(schema, fa, v[name]):
                return True
    return False


def exmax_with_exmin_site(schema, att, v):
    """some number in v (a value, or the key of a map) sits at or above the ExclusiveMaximum of an attribute that also has an ExclusiveMinimum"""
    for path, fatt, a, x, _ in sites(schema, att, v, [], "body"):
        ev = eff_val(schema, fatt)
        if "exmin" in ev and "exmax" in ev and isinstance(x, (int, float)) and not isinstance(x, bool) and x >= ev["exmax"]:
            return True
        t = a.get("type", {})
        if t.get("map_key") and isinstance(x, dict):
            kev = eff_val(schema, t["map_key"])
            if "exmin" in kev and "exmax" in kev:
                for k in x:
                    try:
                        if float(k) >= kev["exmax"]:
                            return True
                    except (TypeError, ValueError):
                        pass
    return False


def later_required_cookie(m, loc, attr):
    """the generated request decoder assigns `c, err = r.Cookie(...)` for every required cookie,
    dropping what was collected in err before"""
    cookies = [c["attr"] for c in (m.get("http") or {}).get("cookies") or []]
    req = set(m["payload"].get("required") or [])
    if loc in ("path", "query", "header"):
        return any(c in req for c in cookies)
    if loc == "cookie" and attr in cookies:
        return any(c in req for c in cookies[cookies.index(attr) + 1:])
    return False


def judge(side, label, verdict, o, b, m, val, locs, typed):
    """[(signature, what)] for one exchange given the model verdict line"""
    if o.get("harness_error"):
        return [("harness", "harness error: " + str(o["harness_error"])[:200])]
    kind = re.sub(r"[+-]\d+(\.\d+)?", "", label)
    if o.get("panic"):
        where = re.search(r"gentest/gen/[\w/]+\.(\w+)", o["panic"])
        return [("%s/panic/%s/%s" % (side, kind, where.group(1) if where else "?"),
                 "generated code panicked: " + o["panic"].splitlines()[0])]
    w = o.get("wire") or {}
    rejected = verdict.startswith("rejected")
    names = verdict.split(" ")[2].split(",") if rejected else []
    att = m["payload"] if side == "request" else m["result"]
    sent = transmitted(b.schema, att, val, locs, typed)
    if side == "request":
        try:
            name = json.loads(w.get("resp_body") or "{}").get("name")
        except Exception:
            name = None
        if rejected and o.get("server_called"):
            loc = label.split("/")[0]
            if loc == "raw":
                loc = "query" if "query" in label else "header" if "header" in label else "cookie" if "cookie" in label else "body"
            # which top-level attribute differs from a valid value is not tracked: any site of that location
            attrs = [a for a, l in locs.items() if l == loc] or [None]
            if names == ["invalid_range"] and ("exmax-with-exmin" in label or exmax_with_exmin_site(b.schema, att, sent)):
                return [("request/exclusive-maximum-ignored-when-exclusive-minimum-set", "a value at or above the ExclusiveMaximum of an attribute that also has an "
                         "ExclusiveMinimum reached the service method (%s)" % label)]
            if any(later_required_cookie(m, loc, a) for a in attrs):
                return [("request/required-cookie-read-discards-earlier-errors", "a request violating %s (%s) reached the service method: the decoder "
                         "overwrites err when it reads a required cookie" % (",".join(names), label))]
            return [("request/invalid-reached-user-code/%s/%s" % (kind, "+".join(names)), "a request violating %s was passed to the service method" % ",".join(names))]
        if not rejected and not o.get("server_called"):
            if name == "invalid_length" and absent_optional_collection(b.schema, att, sent):
                return [("request/absent-optional-collection-with-min-length-rejected", "an optional array/map with MinLength that is absent is answered invalid_length")]
            return [("request/valid-rejected/%s/status-%s" % (kind, w.get("status")), "a request satisfying every validation was answered %s %s" % (w.get("status"), (w.get("resp_body") or "")[:160]))]
        if rejected:
            if w.get("status") != 400:
                return [("request/rejected-with-status-%s/%s" % (w.get("status"), kind), "violation of %s answered with status %s" % (names, w.get("status")))]
            ok = set(names)
            if "invalid_field_type" in ok:
                ok |= {"decode_payload"}
            if name == "invalid_length" and absent_optional_collection(b.schema, att, sent):
                ok |= {"invalid_length"}
            if name not in ok:
                return [("request/names-other-rule/%s/%s-for-%s" % (kind, name, "+".join(names)), "violation of %s answered with error %r" % (names, name))]
        return []
    # response side
    ce = o.get("client_error")
    if not o.get("server_called"):
        return []
    if rejected and not ce:
        if names == ["invalid_range"] and ("exmax-with-exmin" in label or exmax_with_exmin_site(b.schema, att, sent)):
            return [("response/exclusive-maximum-ignored-when-exclusive-minimum-set", "the client returned a result at or above the ExclusiveMaximum of an "
                     "attribute that also has an ExclusiveMinimum (%s)" % label)]
        return [("response/invalid-result-returned/%s/%s" % (kind, "+".join(names)), "the client returned a result violating %s" % ",".join(names))]
    if not rejected and ce:
        if ce.get("name") == "invalid_length" and absent_optional_collection(b.schema, att, sent):
            return [("response/absent-optional-collection-with-min-length-rejected", "an optional array/map with MinLength that is absent from the response is refused with invalid_length")]
        return [("response/valid-result-refused/%s/%s" % (kind, ce.get("name")), "the client refused a valid result: %s" % ce.get("message", "")[:160])]
    if rejected and ce.get("name") not in set(names) | {"validation_error", "decoding_error"} and (w.get("status") or 0) < 500:
        if not (ce.get("name") == "invalid_length" and absent_optional_collection(b.schema, att, sent)):
            return [("response/error-is-not-validation/%s/%s" % (kind, ce.get("name")), "client error %r for a result violating %s" % (ce.get("name"), names))]
    return []


def flags_for(i):
    return ["-errors"] if i % 3 == 1 else []


def assembly_tie(c):
    """T3 for the ASSEMBLY of the validation code: `rtvalcode` runs the real codegen.ValidationCode on random
    attribute trees (HTTP body context) and (a) prints the parsed Go in the canonical form `drv_valid compile`
    prints for ValCode.compile — the model of the generator; (b) reads the emitted Go on well-typed values
    around the bounds, compared with the specification's verdict and the model's (`drv_valid judge`)."""
    if not c.go_build("rtvalcode"):
        return
    rc, so, se = sh([os.path.join(designs.BIN, "rtvalcode"), "gen", "-seed", str(c.seed), "-tier", c.tier])
    ops = [l for l in so.splitlines() if l.strip()]
    rc1, impl, e1 = c.run_lines([os.path.join(designs.BIN, "rtvalcode"), "run"], "\n".join(ops) + "\n")
    rc2, model, e2 = c.run_lines([os.path.join(LEAN, ".lake/build/bin/drv_valid")], "\n".join(ops) + "\n")
    tie = {"name": "codegen.ValidationCode (real generator, emitted Go parsed and read) vs ValCode.compile / violations", "lines": len(ops)}
    if rc1 != 0 or len(impl) != len(ops) or rc2 != 0 or len(model) != len(ops):
        c.broken.append({"kind": "tie", "name": tie["name"] + ": a driver failed", "detail": "impl rc=%s %d/%d %s | model rc=%s %d/%d %s" % (
            rc1, len(impl), len(ops), (e1 or "")[-500:], rc2, len(model), len(ops), (e2 or "")[-500:])})
        return
    differ = []
    for op, a, b in zip(ops, impl, model):
        c.evaluations += 1
        if a.startswith(("unrecognised ", "panic ")):
            # the real generator emitted something the reader does not know (or emitted a pattern / format other than the designed one)
            try:
                msg = bytes.fromhex(a.split(" ", 1)[1]).decode(errors="replace")
            except Exception:
                msg = a
            first = msg.splitlines()[0] if msg else a
            c.fail("assembly/emitted-code:" + re.sub(r"[0-9]+", "N", first)[:70], "codegen.ValidationCode emitted code the reader rejects: " + first[:300],
                   input={"kind": "assembly", "line": op}, expected="statements of the known shapes carrying the designed pattern / format", actual=msg[:1500])
            continue
        if op.startswith("vmerge "):
            c.hist("assembly", "ValidationExpr.Merge")
            if a != b:
                differ.append((op, a, b))
            continue
        if op.startswith("hasval "):
            c.hist("assembly-hasValidations", b)
            if a != b:
                differ.append((op, a, b))
            continue
        if op.startswith("compile "):
            c.hist("assembly", "attribute trees")
            for kw in ("nn(", "each(", "kv(", "miss(", "enumn[", "enums[", "fmt", "pat", "runes", "len", "le:", "ge:"):
                if kw in b:
                    c.hist("assembly-code", kw.strip("(:["))
            if a != b:
                differ.append((op, a, b))
                if a.startswith(("unrecognised", "panic")):
                    c.hist("assembly", "emitted code of unknown shape")
            continue
        m = re.match(r"spec=(\S+) model=(\S+) hyp=([01]{4})$", b)
        ma = re.match(r"code=(\S+)$", a)
        if not m or not ma:
            if not a.startswith(("unrecognised", "panic")):
                c.broken.append({"kind": "tie", "name": tie["name"] + ": unreadable verdict", "detail": (a + " | " + b)[:400]})
                return
            continue
        spec, mod, hyp, code = m.group(1), m.group(2), m.group(3), ma.group(1)
        user_types = op.startswith("judgeu ")
        if user_types:
            c.hist("assembly", "values through Validate<Type> functions")
        names = lambda x: set(x.split(":", 1)[1].split(",")) if ":" in x else set()
        c.hist("assembly-verdict", "%s/%s" % (spec.split(":")[0], code.split(":")[0]))
        c.count("asm/" + op[:200])
        inp = {"kind": "assembly", "line": op}
        if "CALL-of-unknown" in code or "RUNAWAY" in code:
            c.fail("assembly/call", "the emitted validation code calls a Validate function that is not generated, or recurses without end", input=inp, expected=spec, actual=code)
            continue
        if "PANIC-nil-dereference" in code:
            c.fail("assembly/nil-dereference", "the emitted validation code dereferences a nil pointer on a well-typed value", input=inp, expected=spec, actual=code)
            continue
        if code != mod and not user_types:
            # the reading of the emitted Go differs from the model's code on this value (with user types the model
            # is the code of the attribute with its types inlined, which reports the same rules but is other code)
            differ.append((op, a, b))
        called_s, called_c = spec == "called", code == "called"
        if called_s != called_c:
            if hyp[2] == "0" and not called_s and called_c:
                c.fail("assembly/exclusive-maximum-ignored-when-exclusive-minimum-set", "emitted code lets a value beyond the exclusive maximum through when the attribute "
                       "also has an exclusive minimum", input=inp, expected=spec, actual=code)
            elif hyp[3] == "0" and called_s and not called_c:
                c.fail("assembly/absent-optional-collection-with-min-length-rejected", "emitted code rejects an absent optional array/map with MinLength >= 1 (len(nil) < min)",
                       input=inp, expected=spec, actual=code)
            else:
                c.fail("assembly/gate-differs", "the validation code the generator emits %s a value the design %s" % (
                    "lets through" if called_c else "rejects", "forbids (%s)" % spec if called_c else "allows"), input=inp, expected=spec, actual=code)
        elif hyp[2] == "1" and not names(spec) <= names(code):
            c.fail("assembly/rule-not-reported", "the emitted code does not report %s" % sorted(names(spec) - names(code)), input=inp, expected=spec, actual=code)
    tie["disagreements"] = len(differ)
    c.cov["ties"].setdefault("T3", []).append(tie)
    if differ:
        op, a, b = differ[0]
        c.broken.append({"kind": "correspondence", "name": "rtvalcode (codegen.ValidationCode) vs drv_valid (ValCode.compile)",
                         "first_disagreement": {"input": op[:600], "implementation": a[:600], "model": b[:600]}, "count": len(differ)})


def run(c):
    n = 24 if c.tier == "quick" else 240
    per_valid = 2 if c.tier == "quick" else 4
    cap = 40 if c.tier == "quick" else 90
    c.cov["rule"] = ("designs 0..%d of the stream; per HTTP method %d valid payload/result pairs, and around each up to %d one-site mutations "
                     "chosen by label coverage: bound-1/bound/bound+1 for min, max, exclusive bounds (ints: +-1, floats: +-0.25), string and bytes "
                     "lengths at minlen-1/minlen/maxlen/maxlen+1 in ASCII and multi-byte runes, array lengths, enum outsider/member, format and "
                     "pattern failures, unset required attributes, at every nesting depth and location; then raw replays of the valid wire with wrong "
                     "JSON types, nulls, out-of-type-range and fractional integers, dropped and malformed query parameters; result-side mutations "
                     "through the scripted service. Each (attribute, value) is judged by the Lean specification. non-trivial = mutated exchanges.") % (n - 1, per_valid, cap)
    c.cov["trusted_base"] += [
        "vlib/c04.py: encoding of the design IR attribute and the sent value into the driver's prefix notation; format verdicts come from a table "
        "of known-good/known-bad samples per format, pattern verdicts from Python's re on the generator's five simple patterns",
        "harness/e2ert + glue as for C02; 'transmitted' normalisation: outside a body \"\" and [] are absent (recorded under C02/C03)",
        "gofacts valcode (T2): runs codegen.AttributeValidationCode on one attribute per kind x keyword x pointer cell and parses the emitted Go "
        "(nil guard, compared quantity, operator, bound, error constructor); Props/C04.lean proves these single checks correct; their recursive "
        "assembly by the generator is modelled by ValCode.compile (tie T3 rtvalcode: the real codegen.ValidationCode on random attribute trees in the "
        "HTTP body context, its Go output parsed by go/parser into statements; the reading of those statements — nil guards, range loops, len, "
        "comparisons — in rtvalcode exec / ValCode.run is trusted); user types (Validate<Type> calls) are tied by execution only",
    ]
    have = c.go_build("genrun", "gofacts")
    lean_ok = False
    # T2: the checks codegen.AttributeValidationCode emits, regenerated from /repo (Props/C04.lean proves them correct)
    if c.gofacts("valcode", "FactsValCode") and c.lake_build("GoaVerif.Props.C04"):
        c.audit("C04")
        if c.tier == "thorough":
            c.leanchecker("C04")
    # the driver only needs the specification: when a theorem about the emitted checks no longer holds, the
    # exchanges below are the search for a failing value
    lean_ok = c.lake_build("drv_valid", what="tie")
    if not (have and lean_ok):
        return
    assembly_tie(c)
    drv = os.path.join(LEAN, ".lake/build/bin/drv_valid")
    load_format_verdicts(c)
    c.cov["ties"].setdefault("T3", []).append({"name": "format verdicts from the C17 Lean recognisers (drv_fmt)", "strings": len(FORMAT_VERDICTS)})
    work = designs.scratch("C04")
    nm = 24 if c.tier == "quick" else 96
    c.cov["rule"] += (" Before them %d designs of the systematic transport table (every primitive kind in one location, required / optional / "
                      "defaulted in rotation, odd dozens with the validation kinds in rotation)." % nm)
    builds = e2e.build_many(c.seed, range(nm), lambda i: ["-matrix-design"], work)
    na = 10 if c.tier == "quick" else 40
    c.cov["rule"] += (" Then %d designs around primitive alias types with validations; the odd ones give the attributes an Enum of their own "
                      "whose members partly violate the alias's rules." % na)
    builds += e2e.build_many(c.seed, range(na), lambda i: ["-alias-design"], work)
    # the solo table: methods whose payload (and result) is ONE attribute
    builds += e2e.build_many(c.seed, range(4 if c.tier == "quick" else 12), lambda i: ["-solo-design"], work)
    builds += e2e.build_many(c.seed, range(n), flags_for, work)
    lines_total = 0
    for b in builds:
        if b.error:
            c.hist("build", "rejected" if b.error.startswith("rejected") else "failed")
            if not b.error.startswith("rejected"):
                c.fail("e2e-build", "design %d could not be generated/built: %s" % (b.index, b.error[:300]),
                       input={"seed": c.seed, "index": b.index, "flags": getattr(b, "flags", None)}, design=b.design, expected="builds", actual=b.error)
            b.cleanup()
            continue
        c.hist("build", "ok")
        cmds, meta = plan(b, c.seed, per_valid, cap)
        if not cmds:
            b.cleanup()
            continue
        obs, err = b.run(cmds)
        if obs is None or len(obs) != len(cmds):
            c.broken.append({"kind": "tie", "name": "e2e binary failed for design %d" % b.index, "detail": str(err)[-800:]})
            b.cleanup()
            continue
        rc, rm = raw_plan(b, cmds, meta, obs, c.seed, cap // 2)
        if rc:
            robs, err = b.run(rc)
            if robs is None or len(robs) != len(rc):
                c.broken.append({"kind": "tie", "name": "e2e binary failed (raw) for design %d" % b.index, "detail": str(err)[-800:]})
                b.cleanup()
                continue
            cmds, meta, obs = cmds + rc, meta + rm, obs + robs
        lines, keep = [], []
        for i, (cmd, (s, m, side, label, val, locs, typed)) in enumerate(zip(cmds, meta)):
            try:
                lines.append(model_line(b, m["payload"] if side == "request" else m["result"], val, locs, typed))
                keep.append(i)
            except Skip as ex:
                c.hist("skipped", str(ex)[:40])
        rcode, verdicts, se = c.run_lines([drv], "\n".join(lines) + "\n")
        if len(verdicts) != len(lines):
            c.broken.append({"kind": "tie", "name": "drv_valid output", "detail": (se or "")[-400:]})
            b.cleanup()
            continue
        lines_total += len(lines)
        for i, line, verdict in zip(keep, lines, verdicts):
            s, m, side, label, val, locs, typed = meta[i]
            o = obs[i]
            c.evaluations += 1
            if verdict == "bad-op":
                c.broken.append({"kind": "tie", "name": "drv_valid rejects a line", "detail": line[:300]})
                continue
            if label != "valid":
                c.count("%d/%s/%s/%s/%s" % (b.index, s["name"], m["name"], side, json.dumps(val, sort_keys=True)[:300]))
            c.hist("mutation", side + ":" + re.sub(r"[+-]\d+(\.\d+)?", "±", label))
            c.hist("verdict", side + ":" + verdict.split(" ")[0])
            for sig, what in judge(side, label, verdict, o, b, m, val, locs, typed):
                c.fail(sig, "%s.%s [%s] %s" % (s["name"], m["name"], label, what),
                       input={"seed": c.seed, "index": b.index, "flags": b.flags, "service": s["name"], "method": m["name"], "command": cmds[i], "side": side, "label": label,
                              "value": val, "model_line": line},
                       design=b.design, expected=verdict, actual=json.dumps({k: o.get(k) for k in ("server_called", "client_error", "client_result", "panic")})[:600] +
                       " wire=" + json.dumps({k: (o.get("wire") or {}).get(k) for k in ("status", "resp_body", "path", "raw_query", "body")})[:600])
        if len(c.cov["samples"]) < 3:
            for i, line, verdict in zip(keep, lines, verdicts):
                if verdict.startswith("rejected"):
                    c.sample({"design_index": b.index, "label": meta[i][3], "side": meta[i][2], "value": meta[i][4], "model": verdict,
                              "server_called": obs[i].get("server_called"), "status": (obs[i].get("wire") or {}).get("status")})
                    break
        b.cleanup()
    shutil.rmtree(work, ignore_errors=True)
    c.cov["ties"].setdefault("T5", []).append({"name": "generated server/client verdict vs Lean `handle`", "exchanges": lines_total})


def replay(c, obj):
    f = obj["failure"]
    c.go_build("genrun")
    c.lake_build("drv_valid", what="tie")
    if f["input"].get("kind") == "assembly":
        c.go_build("rtvalcode")
        line = f["input"]["line"] + "\n"
        rc, impl, _ = c.run_lines([os.path.join(designs.BIN, "rtvalcode"), "run"], line)
        rc, model, _ = c.run_lines([os.path.join(LEAN, ".lake/build/bin/drv_valid")], line)
        rc, code, _ = c.run_lines([os.path.join(designs.BIN, "rtvalcode"), "run"], "compile " + " ".join(line.split()[1:]) + "\n")
        print("emitted code (real generator):", impl, "\nspecification / model:", model)
        m = re.match(r"spec=(\S+) model=(\S+)", model[0]) if model else None
        bad = not (impl and m) or (impl[0] == "code=called") != (m.group(1) == "called") or "PANIC" in impl[0]
        return 1 if bad else 0
    work = designs.scratch("C04r")
    b = e2e.build_design(f["input"]["seed"], f["input"]["index"], f["input"].get("flags") or flags_for(f["input"]["index"]), work)
    if b.error:
        print("build:", b.error)
        shutil.rmtree(work, ignore_errors=True)
        return 1
    obs, err = b.run([f["input"]["command"]])
    print(json.dumps(obs[0])[:2000] if obs else err)
    rc, verdicts, se = c.run_lines([os.path.join(LEAN, ".lake/build/bin/drv_valid")], f["input"]["model_line"] + "\n")
    print("model:", verdicts)
    res = [("?", "?")]
    cmd = f["input"]["command"]
    for sv in b.design["services"]:
        for m in sv["methods"]:
            if obs and verdicts and sv["name"] == f["input"].get("service") and m["name"] == f["input"].get("method"):
                side = f["input"]["side"]
                locs = e2e.locations_of(m) if side == "request" else {}
                res = judge(side, f["input"]["label"], verdicts[0], obs[0], b, m, f["input"]["value"], locs, cmd.get("op") == "call")
    for sig, what in res:
        print("violates:", sig, what)
    shutil.rmtree(work, ignore_errors=True)
    return 1 if res else 0
