"""C01 — every accepted design generates code that compiles. Decided by translation validation:
every design of the stream goes through goa's real DSL, eval and the gen + example generators in a
fresh process (panic / error / timeout captured), then every emitted package is type-checked and
built by the Go tool chain against /repo. Proved core (Lean): NameScope.Unique / HashedUnique hand
out pairwise distinct names over every call history (Props/C01.lean, tie T3 rtscope)."""
import json
import os
import re
import shutil
from .core import BIN, LEAN, sh
from . import designs

LEVEL = "translation_validation"


def classify_build(out, feats):
    """Narrow signature of a compile failure."""
    # `go build` prints the failing packages in no fixed order: go by the first message of the alphabetically first package
    pkgs, cur = {}, ""
    for l in out.splitlines():
        if l.startswith("# "):
            cur = l[2:].split()[0]
        elif re.search(r"\.go:\d+:\d+:", l):
            pkgs.setdefault(cur, []).append(l)
    msgs = pkgs[min(pkgs)] if pkgs else []
    first = msgs[0] if msgs else out.strip().splitlines()[-1] if out.strip() else "?"
    m = re.search(r"\.go:\d+:\d+: (.*)", first)
    msg = m.group(1) if m else first
    msg = re.sub(r"\b[A-Z]\w*\d+\b", "T", msg)          # generated type names
    msg = re.sub(r"struct\{.*", "struct{…}", msg)
    msg = re.sub(r"\"[^\"]*\"", "\"…\"", msg)[:90]
    if feats.get("self_view_differs"):
        return "build/result-type-renders-itself-with-another-view/" + ("redeclared" if "redeclared" in msg else "other")
    if re.search(r"cannot use (\[\]interface\{\}|map\[string\]interface\{\})\{…\} .* in assignment", msg):
        return "build/collection-default-given-as-interface-values"
    where = re.search(r"(gen/[\w/]+/|cmd/[\w-]+/|\w+\.go)", first)
    area = "/".join(where.group(1).strip("/").split("/")[-2:]) if where else "?"
    if feats.get("risky"):
        kind = ("redeclared" if ("redeclared" in msg or "other declaration of" in msg) else "no-new-variables" if "no new variables" in msg else
                "selector-on-shadowed-name" if re.search(r"\w+\.\w+ undefined", msg) else "type-mismatch" if "cannot use" in msg else
                "invalid-operation" if "invalid operation" in msg else "undefined-name" if "undefined:" in msg else "declared-and-not-used" if "declared and not used" in msg else "other: " + msg[:60])
        # identified by the attribute name (the failing input); where and how the collision shows depends on the rest of the design
        feats["risky_symptom"] = "%s/%s" % (area.split("/")[-1], kind)
        return "build/attribute-named-%s" % feats["risky"]
    prefix = "build/nested-inline-object" if feats["nested_inline"] else "build"
    return "%s/%s: %s" % (prefix, re.sub(r"(front|svc|store|calc|goals)", "S", area), msg)


def run(c):
    n = int(os.environ.get("VERIF_C01_N", 0)) or (100 if c.tier == "quick" else 2500)
    c.cov["rule"] = ("design stream: index i visits cell i of the first-order feature table (primitive x location x "
                     "required/default/validation keyword, verb) and cycles through plain / errors / security / errors+security / "
                     "nested-inline-object variants; the rest of each design is random (1-2 services x 1-3 methods, user and "
                     "recursive types, arrays, maps, aliases). Each design: fresh process, DSL -> RunDSL -> Generate gen + "
                     "example (panic, error, timeout captured), then `go build ./...` of the emitted module against /repo. "
                     "non-trivial = accepted designs with at least one mapped attribute.")
    c.cov["trusted_base"] += [
        "the Go type checker / compiler (go build) as the oracle for 'type-checks against the goa runtime packages'",
        "harness/stubs/clue stands in for goa.design/clue (absent offline): example mains are checked against the stub's API only",
        "harness/internal/design: the design IR interpreter that issues the DSL calls (designs outside its envelope — streaming, "
        "multipart, file servers, gRPC — are not generated yet: stated gap)",
    ]
    have = c.go_build("genrun", "rtscope")
    if c.lake_build("GoaVerif.Props.C01"):
        c.audit("C01")
        if c.tier == "thorough":
            c.leanchecker("C01")
    ok_model = c.lake_build("drv_scope", what="tie")
    # proved core: NameScope correspondence
    if have and ok_model:
        rc, so, se = sh([os.path.join(BIN, "rtscope"), "gen", "-seed", str(c.seed), "-tier", c.tier])
        ops = so.splitlines()
        impl, model, dis = c.correspondence("codegen.NameScope", ops, [os.path.join(BIN, "rtscope"), "run"],
                                            [os.path.join(LEAN, ".lake/build/bin/drv_scope")])
        if dis:
            i, op, a, b = dis[0]
            # the property of the core (distinct names) is checked directly by the driver; a
            # disagreement with the model alone is a broken correspondence
            c.broken.append({"kind": "correspondence", "name": "rtscope vs drv_scope",
                             "first_disagreement": {"input": op[:500], "implementation": a[:300], "model": b[:300]}, "count": len(dis)})
        for i, o in enumerate(impl):
            if "DUPLICATE" in o:
                c.fail("scope/duplicate-name", "NameScope handed out the same name twice", input=ops[i][:800], expected="distinct names", actual=o[:300])
    if not have:
        return
    work = designs.scratch("C01")

    def one(job):
        i, flags = job
        dj = designs.make_design(c.seed, i, flags)
        wd = os.path.join(work, "d%d%s" % (i, "".join(f for f in flags if f.endswith("-design") or f.startswith("-loose"))))
        rep = designs.run_design(dj, wd, example=True)
        feats = designs.features(dj)
        feats["risky"] = designs.risky_name(dj) if "-risky-names" in flags else None
        if "-views-design" in flags:
            from . import c08
            feats["self_view_differs"] = c08.self_view_differs(json.loads(dj))
        res = {"index": i, "flags": flags, "feats": feats, "design": dj}
        if rep.get("crash"):
            res.update(status="crash", detail=rep["crash"])
        elif rep.get("panic"):
            res.update(status="dsl-panic", detail=rep["panic"])
        elif not rep["accepted"]:
            res.update(status="rejected", detail="; ".join(rep.get("errors", []))[:300])
        else:
            for stage in ("gen", "example"):
                s = rep[stage]
                if s.get("panic"):
                    res.update(status=stage + "-panic", detail=s["panic"])
                    break
                if s.get("error"):
                    res.update(status=stage + "-error", detail=s["error"])
                    break
            else:
                rc, out = designs.go_build(os.path.join(wd, "out"))
                if rc != 0:
                    res.update(status="build-fail", detail=out[-3000:])
                else:
                    res.update(status="ok", files=len(rep["gen"]["files"]) + len(rep["example"]["files"]))
        shutil.rmtree(wd, ignore_errors=True)
        return res

    extra = 24 if c.tier == "quick" else 96
    jobs = [(i, designs.flags_for(i)) for i in range(n)]
    # the systematic tables of the other checks go through the type checker too
    jobs += [(j, ["-matrix-design"]) for j in range(extra)] + [(j, ["-alias-design"]) for j in range(min(extra, 40))]
    jobs += [(j, ["-views-design"]) for j in range(extra)]
    jobs += [(j, ["-mapkey-design"]) for j in range(36 if c.tier == "quick" else 108)]  # every primitive as a map key
    jobs += [(j, ["-any-design"]) for j in range(8)]  # the type Any everywhere
    jobs += [(j, ["-solo-design"]) for j in range(12)]  # methods with exactly one payload attribute: type x presence x validation x location
    jobs += [(j, ["-multipart-design"]) for j in range(4)]  # multipart requests with one parameter / header of every kind
    jobs += [(3, ["-matrix-design", "-loose-defaults"])]  # collection defaults handed to Default() as []any / map[string]any
    c.cov["rule"] += (" Plus %d designs each of the systematic transport table (-matrix-design), the primitive-alias designs (-alias-design, at most 40) "
                      "and the result-type/view designs (-views-design); plus the table of every primitive as a map key in request body, response body and "
                      "query string (-mapkey-design); plus the solo table (-solo-design, 12 designs: every method's payload is ONE attribute, type x required/optional/default x "
                      "validated x query/header/cookie/path/body) and the multipart requests (-multipart-design, 4 designs: one parameter or header of every "
                      "primitive, array and map kind next to the parts)." % extra)
    results = designs.parallel(one, jobs)
    shutil.rmtree(work, ignore_errors=True)
    programs = 0
    for r in results:
        c.hist("status", r["status"])
        c.hist("variant", " ".join(r["flags"]) or "plain")
        for loc in r["feats"]["locations"]:
            c.hist("location", loc)
        for v in r["feats"]["validations"]:
            c.hist("validation", v)
        for p in r["feats"]["prims"]:
            c.hist("primitive", p)
        c.evaluations += 1
        if r["status"] != "rejected":
            programs += 1
            if r["feats"]["locations"] or r["feats"]["types"]:
                c.count(r["index"])
        if r["status"] == "ok" or r["status"] == "rejected":
            continue
        if r["status"] == "build-fail":
            sig = classify_build(r["detail"], r["feats"])
            what = "accepted design generates code that does not compile: " + sig
        else:
            first = r["detail"].strip().splitlines()[0][:120] if r["detail"].strip() else ""
            sig = "%s: %s" % (r["status"], re.sub(r"\d+", "N", first))
            mk = re.search(r"json: unsupported type: map\[([^\]]+)\]", r["detail"])
            if mk:
                # the example of a map whose key type encoding/json cannot write as an object key
                sig = "%s: openapi: json: unsupported type: map[%s]" % (r["status"], re.sub(r"\d+", "", mk.group(1)))
            what = "accepted design makes a later stage fail (%s): %s" % (r["status"], first)
        c.fail(sig, what, input={"seed": c.seed, "index": r["index"], "flags": r["flags"]}, design=json.loads(r["design"]),
               expected="gen and example succeed and `go build ./...` passes", actual=r["detail"][-1500:])
    c.cov["programs"] = programs
    c.cov["disagreements_checked"] = len(c.failures)
    ok = [r for r in results if r["status"] == "ok"]
    if ok:
        c.sample({"index": ok[0]["index"], "flags": ok[0]["flags"], "features": ok[0]["feats"], "generated_files": ok[0]["files"]})
        c.sample({"design": json.loads(ok[-1]["design"])})


def replay(c, obj):
    c.go_build("genrun")
    f = obj["failure"]
    work = designs.scratch("C01r")
    rep = designs.run_design(json.dumps(f["design"]), work, example=True)
    bad = False
    print(json.dumps({k: rep.get(k) for k in ("accepted", "errors", "panic", "crash")})[:500])
    if rep.get("accepted"):
        for stage in ("gen", "example"):
            if rep[stage].get("panic") or rep[stage].get("error"):
                print(stage, rep[stage].get("panic") or rep[stage].get("error"))
                bad = True
        if not bad:
            rc, out = designs.go_build(os.path.join(work, "out"))
            print(out[-1500:])
            bad = rc != 0
    else:
        bad = bool(rep.get("panic") or rep.get("crash"))
    shutil.rmtree(work, ignore_errors=True)
    return 1 if bad else 0
