"""C10 — gRPC definitions are well formed and messages round-trip payloads.

Lean (Props/C10.lean over Model/Proto.lean): tagsOK_sound, accepted_plain_numbers (an accepted
endpoint without Message/Metadata has a request message with every number present and none twice),
and kernel-checked witnesses for what the checks of expr/grpc_endpoint.go do not cover (explicit
Message: only the first attribute; Metadata without Message: nothing; numeric range: never).

Ties: per generated gRPC design the .proto text is rendered in-process (protoc is not installed),
parsed by vlib/protoparse.py (the well-formedness check of the text) and compared with the design:
one rpc per method with the designed streaming direction, every attribute outside metadata /
headers / trailers a field with the number given in the design, no number or name twice. Designs
with one field-number defect injected (duplicate, missing, zero, reserved, too large; plain, with
Metadata, with an explicit Message) are judged by drv_proto (accept/refuse as the checks are
written) and by the real engine; whatever is accepted must still yield a well-formed message."""
import copy
import json
import os
import re
import shutil
import subprocess

from .core import BIN, LEAN, goenv, sh
from . import designs, protoparse, c10rt

PROTO_SCALAR = {"Boolean": "bool", "Int": "sint32", "Int32": "sint32", "Int64": "sint64", "UInt": "uint32", "UInt32": "uint32", "UInt64": "uint64",
                "Float32": "float", "Float64": "double", "String": "string", "Bytes": "bytes"}


def hx(s):
    return s.encode().hex() or "-"


def goify(name):
    return "".join(p[:1].upper() + p[1:] for p in re.split(r"[_\s]+", name) if p)


def tag_of(att):
    for m in att.get("meta") or []:
        if m and m[0] == "rpc:tag":
            try:
                return int(m[1])
            except (ValueError, IndexError):
                return None
    return None


def resolve(design, att):
    types = {t["name"]: t for t in design.get("types", [])}
    seen = 0
    while att and (att.get("type") or {}).get("ref") and seen < 10:
        att = types[att["type"]["ref"]]["att"]
        seen += 1
    return att


def fields_of(design, att):
    a = resolve(design, att) or {}
    return [(f["name"], f["att"]) for f in (a.get("type") or {}).get("object") or []]


def recursive_types(d):
    """names of the user types that reach themselves"""
    types = {t["name"]: t for t in d.get("types", [])}

    def refs(att):
        t = (att or {}).get("type") or {}
        out = set()
        if t.get("ref"):
            out.add(t["ref"])
        for k in ("array", "map_key", "map_elem"):
            if t.get(k):
                out |= refs(t[k])
        for f in (t.get("object") or []) + (t.get("one_of") or []):
            out |= refs(f["att"])
        return out
    direct = {n: refs(t["att"]) for n, t in types.items()}
    rec = []
    for n in types:
        seen, todo = set(), list(direct[n])
        while todo:
            x = todo.pop()
            if x == n:
                rec.append(n)
                break
            if x not in seen and x in direct:
                seen.add(x)
                todo += list(direct[x])
    return rec


def proto_of(design_json, work, k, timeout=90):
    d = os.path.join(work, "p%d" % k)
    os.makedirs(d, exist_ok=True)
    p = os.path.join(d, "design.json")
    open(p, "w").write(design_json)
    try:
        env = goenv()
        env["GOMAXPROCS"] = "2"
        for attempt in (0, 1):
            r = subprocess.run([designs.GENRUN, "proto", "-design", p], capture_output=True, text=True, env=env, timeout=timeout, preexec_fn=designs.limited(4))
            if "pthread_create failed" not in r.stderr:
                break
    except subprocess.TimeoutExpired:
        shutil.rmtree(d, ignore_errors=True)
        return {"crash": "timeout after %ss" % timeout}
    shutil.rmtree(d, ignore_errors=True)
    try:
        return json.loads(r.stdout)
    except Exception:
        why = "out of memory (4 GB)" if "out of memory" in r.stderr else "exit %s" % r.returncode
        return {"crash": "%s: %s" % (why, r.stderr[:300])}


def expected_fields(design, m, side):
    """{field name: (number, kind)} of the request / response message, from the design"""
    att = m.get("payload" if side == "request" else "result")
    g = m.get("grpc") or {}
    skip = {x["attr"] for x in (g.get("metadata") or [])} if side == "request" else {x["attr"] for x in (g.get("headers") or []) + (g.get("trailers") or [])}
    if att is None:
        return {}
    a = resolve(design, att)
    t = a.get("type") or {}
    if not (t.get("is_object") or t.get("object")):
        return None  # a primitive / array / map: wrapped in a single `field`
    out = {}
    for name, fa in fields_of(design, att):
        if name in skip:
            continue
        if (fa.get("type") or {}).get("one_of"):
            for alt in fa["type"]["one_of"]:
                out[alt["name"]] = (tag_of(alt["att"]), "oneof")
        else:
            out[name] = (tag_of(fa), "field")
    return out


def judge_proto(c, d, rep, label, inp):
    """direct oracle: the emitted text against proto3 and against the design"""
    protos = rep.get("protos") or {}
    by_service = {}
    for path, text in protos.items():
        try:
            f = protoparse.parse(text)
        except protoparse.ProtoError as ex:
            c.fail("c10/proto-unparsable", "%s: %s is not proto3: %s" % (label, path, ex), input=inp, design=d, text=text[-600:])
            continue
        for kind, what in protoparse.problems(f):
            c.fail("c10/proto:" + kind, "%s: %s: %s" % (label, os.path.basename(path), what), input=inp, design=d)
        for s in f["services"]:
            by_service[s["name"].lower()] = (s, {m["name"]: m for m in f["messages"]})
    for s in d["services"]:
        if not any(m.get("grpc") is not None for m in s["methods"]):
            continue
        got = by_service.get(goify(s["name"]).lower())
        if got is None:
            c.fail("c10/service-missing", "%s: no service for %s in the .proto files" % (label, s["name"]), input=inp, design=d)
            continue
        svc, msgs = got
        rpcs = {r["name"]: r for r in svc["rpcs"]}
        want = [m for m in s["methods"] if m.get("grpc") is not None]
        if len(svc["rpcs"]) != len(want):
            c.fail("c10/rpc-count", "%s: service %s declares %d rpcs for %d methods" % (label, s["name"], len(svc["rpcs"]), len(want)), input=inp, design=d)
        for m in want:
            r = rpcs.get(goify(m["name"]))
            if r is None:
                c.fail("c10/rpc-missing", "%s: no rpc for method %s" % (label, m["name"]), input=inp, design=d)
                continue
            cs, ss = m.get("stream") in ("payload", "both"), m.get("stream") in ("result", "both")
            c.hist("streaming", {(False, False): "unary", (True, False): "client", (False, True): "server", (True, True): "bidirectional"}[(cs, ss)])
            if (r["client_stream"], r["server_stream"]) != (cs, ss):
                c.fail("c10/streaming-direction", "%s: rpc %s is declared client_stream=%s server_stream=%s, the design says %s/%s" %
                       (label, r["name"], r["client_stream"], r["server_stream"], cs, ss), input=inp, design=d)
            for side, mname in (("request", r["request"]), ("response", r["response"])):
                exp = expected_fields(d, m, side)
                msg = msgs.get(mname)
                if exp is None or msg is None:
                    continue
                got_f = {f["name"]: f for f in msg["fields"]}
                for name, (num, kind) in exp.items():
                    f = got_f.get(name)
                    if f is None:
                        c.fail("c10/field-missing", "%s: message %s has no field for attribute %s" % (label, mname, name), input=inp, design=d)
                    elif num is not None and f["number"] != num:
                        c.fail("c10/field-number", "%s: message %s field %s has number %d, the design says %d" % (label, mname, name, f["number"], num), input=inp, design=d)
                for name in got_f:
                    if name not in exp:
                        c.fail("c10/field-extra", "%s: message %s has a field %s that is not an attribute of the %s message" % (label, mname, name, side), input=inp, design=d)


def endpoint_tokens(d, m):
    g = m.get("grpc") or {}
    attrs = []
    creds = set((m.get("creds") or {}).keys())
    for name, fa in fields_of(d, m.get("payload")):
        t = tag_of(fa)
        attrs += [hx(name), "~" if t is None else str(t), "1" if (fa.get("type") or {}).get("one_of") else "0", "1" if name in creds else "0"]
    n = len(attrs) // 4
    msg = ["~"] if not g.get("message") else ["M", str(len(g["message"]))] + [hx(x) for x in g["message"]]
    md = [x["attr"] for x in g.get("metadata") or []]
    return " ".join(["endpoint", str(n)] + attrs + msg + [str(len(md))] + [hx(x) for x in md] + (["S"] if m.get("stream") in ("payload", "both") else []))


def set_tag(att, n):
    att["meta"] = [m for m in (att.get("meta") or []) if not (m and m[0] == "rpc:tag")]
    if n is not None:
        att["meta"].append(["rpc:tag", str(n)])


def tag_mutations(d):
    """(label, design, service index, method index): one field-number defect in one request message"""
    out = []
    for si, s in enumerate(d["services"]):
        for mi, m in enumerate(s["methods"]):
            p = m.get("payload")
            if m.get("grpc") is None or not p or not ((p.get("type") or {}).get("object")):
                continue
            plain = [k for k, f in enumerate(p["type"]["object"]) if not f["att"]["type"].get("one_of")]
            if len(plain) < 3:
                continue
            a, b2, c3 = plain[0], plain[1], plain[2]
            base_tag = tag_of(p["type"]["object"][b2]["att"])
            defects = {"duplicate": (c3, base_tag), "missing": (c3, None), "zero": (c3, 0), "reserved": (c3, 19000), "too-large": (c3, 2 ** 29),
                       "duplicate-of-first": (b2, tag_of(p["type"]["object"][a]["att"]))}
            streamed = m.get("stream") in ("payload", "both")
            for dname, (pos, val) in defects.items():
                for ctx in (("streamed",) if streamed else ("plain", "metadata", "message")):
                    d2 = copy.deepcopy(d)
                    m2 = d2["services"][si]["methods"][mi]
                    fs = m2["payload"]["type"]["object"]
                    set_tag(fs[pos]["att"], val)
                    first = fs[a]
                    g2 = m2["grpc"]
                    g2.pop("metadata", None)
                    g2.pop("message", None)
                    if ctx == "metadata":
                        if (first["att"]["type"].get("prim")) not in ("String", "Int", "Boolean", "Int64", "UInt32", "Float64"):
                            continue
                        g2["metadata"] = [{"attr": first["name"]}]
                    elif ctx == "message":
                        g2["message"] = [f["name"] for f in fs if not f["att"]["type"].get("one_of")]
                    out.append(("%s/%s" % (dname, ctx), d2, si, mi))
            return out  # one method per design is enough
    return out


def handler_tie(c):
    """T3 for goa's gRPC runtime around the generated code: the unary server handler and the client invoker over a real grpc transport
    (rtgrpc) vs Model/GrpcHandler.lean (drv_grpc). The fields the model gives are what Props/C10.lean proves the property demands
    (message + exactly the encoder's header and trailer metadata on success, nothing on failure, user code iff the request decoded),
    so a line on which the implementation differs is a failing input."""
    if not (c.go_build("rtgrpc") and c.lake_build("drv_grpc", what="tie")):
        return
    rc, so, se = sh([os.path.join(BIN, "rtgrpc"), "gen", "-seed", str(c.seed), "-tier", c.tier])
    ops = c.corpus() + so.splitlines()
    ops = [o for o in ops if o.startswith(("unary ", "stream "))]
    impl, model, dis = c.correspondence("gRPC unary handler + invoker vs Model/GrpcHandler.lean", ops, [os.path.join(BIN, "rtgrpc"), "run"],
                                        [os.path.join(LEAN, ".lake/build/bin/drv_grpc")])
    for op, line in zip(ops, impl):
        t = op.split()
        if t[0] == "stream":
            c.hist("stream handler steps (decoder/endpoint)", "/".join(x[:3] for x in t[1:3]))
            continue
        c.hist("handler steps (decoder/endpoint/encoder)", "/".join(x[:3] for x in t[1:4]))
        c.hist("handler metadata", "header %s, trailer %s" % ("set" if " H 0" not in op else "empty", "set" if " T 0" not in op else "empty"))
        if "ok ok ok" in op:
            c.count(op)
    for i, op, a, b in dis:
        fa, fb = dict(x.split("=", 1) for x in a.split() if "=" in x), dict(x.split("=", 1) for x in b.split() if "=" in x)
        diff = [k for k in ("code", "ran", "result", "hdr", "trlr") if fa.get(k) != fb.get(k)] or ["output"]
        c.fail("c10/runtime/%s-handler:" % op.split()[0] + "+".join(diff), "the unary handler / invoker gives %s where the property (Props/C10.lean, handler section) demands %s" % (a, b),
               input=op, expected=b, actual=a)


def run(c):
    n = 40 if c.tier == "quick" else 400
    c.cov["rule"] = ("gRPC designs 0..%d (primitives of every kind, arrays, maps, nested and recursive user types, OneOf, metadata, response headers/trailers, "
                     "explicit messages, the four streaming kinds): the .proto text goa emits, rendered in-process, parsed and compared with the design; one "
                     "request message per design with each of six field-number defects in three contexts (plain, Metadata, explicit Message): accept/refuse of "
                     "the real engine vs drv_proto, and well-formedness of whatever is accepted. non-trivial = designs and mutated designs evaluated.") % (n - 1)
    c.cov["trusted_base"] += [
        "protoc is not installed: vlib/protoparse.py is the reading of proto3 (syntax subset goa emits; field numbers 1..2^29-1 outside 19000-19999, unique "
        "numbers and names per message, known types, scalar map keys)",
        "Model/GrpcHandler.lean is hand-written from grpc/handler.go (unaryHandler.Handle) and grpc/client.go with the status function translated from "
        "grpc/error.go (gotolean, T1); harness/cmd/rtgrpc supplies hand-written decoders/encoders (scripted per line) in place of the generated ones and "
        "wrapperspb messages over bufconn; the stream handler (Decode then Handle) is called directly, without a transport",
        "Model/Proto.lean is hand-written from expr/grpc_endpoint.go Validate / validateMessage / validateRPCTags (request side); response messages and nested "
        "user types are judged only by the parser",
    ]
    have = c.go_build("genrun")
    lean_ok = False
    # the status function of grpc/error.go, translated (T1): Model/GrpcHandler.lean builds on it
    if c.go_build("gotolean") and c.gotolean("grpcerr", "TrGrpcerr") and c.lake_build("GoaVerif.Props.C10"):
        c.audit("C10")
        if c.tier == "thorough":
            c.leanchecker("C10")
        lean_ok = c.lake_build("drv_proto", what="tie")
    handler_tie(c)
    if not have:
        return
    drv = os.path.join(LEAN, ".lake/build/bin/drv_proto")
    work = designs.scratch("C10")
    cases = []
    for i in range(n):
        try:
            d = json.loads(designs.make_design(c.seed, i, ["-grpc-design"]))
        except Exception as ex:
            c.broken.append({"kind": "tie", "name": "design generator", "detail": repr(ex)})
            continue
        cases.append((i, "valid", d, None, None))
        if i % 2 == 0:
            for label, d2, si, mi in tag_mutations(d):
                cases.append((i, label, d2, si, mi))
    reps = designs.parallel(lambda k: proto_of(json.dumps(cases[k][2]), work, k), range(len(cases)), workers=14)
    model = {}
    if lean_ok:
        lines, owner = [], []
        for k, (i, label, d, si, mi) in enumerate(cases):
            if si is not None:
                lines.append(endpoint_tokens(d, d["services"][si]["methods"][mi]))
                owner.append(k)
        if lines:
            rc, out, se = c.run_lines([drv], "\n".join(lines) + "\n")
            if len(out) == len(lines):
                for k, o in zip(owner, out):
                    if o != "bad-op":
                        model[k] = (o.split()[0] == "1", o.split()[1] == "1")
            else:
                c.broken.append({"kind": "tie", "name": "drv_proto output", "detail": (se or "")[-300:]})
    dis = 0
    base_ok = {}
    for k, ((i, label, d, si, mi), rep) in enumerate(zip(cases, reps)):
        c.evaluations += 1
        c.count((i, label))
        inp = {"seed": c.seed, "index": i, "mutation": label}
        if rep.get("crash") or rep.get("panic"):
            why = str(rep.get("crash") or rep.get("panic"))
            diverges = "timeout" in why or "out of memory" in why or "stack overflow" in why or "stack exceeds" in why
            c.hist("design", "generation diverges" if diverges else "generation panics")
            c.fail("c10/generation-%s%s" % ("diverges" if diverges else "panics", ":recursive-type" if recursive_types(d) else ""),
                   "gRPC design %d (%s): rendering the .proto %s: %s" % (i, label, "does not terminate" if diverges else "panics", why[:200]), input=inp, design=d)
            continue
        accepted = bool(rep.get("accepted"))
        if label == "valid":
            base_ok[i] = accepted
            c.hist("design", "accepted" if accepted else "refused")
            if not accepted:
                c.fail("c10/valid-design-refused", "gRPC design %d is refused: %s" % (i, "; ".join(rep.get("errors") or [])[:300]), input=inp, design=d)
                continue
            judge_proto(c, d, rep, "design %d" % i, inp)
            if len(c.cov["samples"]) < 2 and rep.get("protos"):
                c.sample({"design_index": i, "proto": list(rep["protos"].values())[0][-500:]})
            continue
        if not base_ok.get(i):
            continue
        c.hist("defect", "%s: engine %s" % (label, "accepts" if accepted else "refuses"))
        mo = model.get(k)
        if mo is not None and mo[0] != accepted:
            dis += 1
            c.broken.append({"kind": "correspondence", "name": "accept/refuse of expr/grpc_endpoint.go vs Model/Proto.lean",
                             "first_disagreement": {"design": i, "mutation": label, "engine_accepts": accepted, "model_accepts": mo[0],
                                                    "errors": (rep.get("errors") or [])[:2]}})
        if accepted:
            # whatever is accepted must still be a well-formed definition with the designed numbers
            before = len(c.failures)
            judge_proto(c, d, rep, "design %d with %s" % (i, label), inp)
            defect, ctx = label.split("/")
            for f in c.failures[before:]:
                if ctx != "plain":
                    f["signature"] = "c10/field-numbers-unchecked:" + ctx       # the whole request message escapes the checks
                elif defect in ("zero", "reserved", "too-large"):
                    f["signature"] = "c10/field-number-range-unchecked"
                else:
                    f["signature"] = "c10/malformed-accepted:%s:%s" % (label, f["signature"].split("/", 1)[1])
    c.cov["ties"].setdefault("T3", []).append({"name": "field-number checks: real engine vs drv_proto", "lines": len(model), "disagreements": dis})
    shutil.rmtree(work, ignore_errors=True)
    # second half of the property: conversions and validation of the generated gRPC code, executed
    if c.tier == "quick":
        c10rt.run_roundtrip(c, 24, 6, 14)
    else:
        c10rt.run_roundtrip(c, 120, 15, 24)


def replay(c, obj):
    f = obj["failure"]
    c.go_build("genrun")
    if isinstance(f.get("input"), dict) and "command" in f["input"]:
        return c10rt.replay_one(c, f)
    work = designs.scratch("C10r")
    rep = proto_of(json.dumps(f["design"]), work, 0)
    shutil.rmtree(work, ignore_errors=True)
    print(json.dumps(rep)[:3000])
    before = len(c.failures)
    if rep.get("crash") or rep.get("panic"):
        return 1
    if rep.get("accepted"):
        judge_proto(c, f["design"], rep, "replay", f.get("input"))
    for x in c.failures[before:]:
        print(x["signature"], x["what"])
    return 1 if len(c.failures) > before else 0
