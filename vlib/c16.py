"""C16 — router. Theorems: Props/C16.lean over Model/Mux.lean (hand-written; chi represented
by a specification matcher). Tie T3: rtmux (real goahttp.NewMuxer behind http.ReadRequest,
real net/url) vs drv_mux."""
import os
from .core import BIN, LEAN, sh


def dec(tok):
    return b"" if tok == "-" else bytes.fromhex(tok)


def parse(op):
    t = op.split()
    n = int(t[2])
    routes = [(t[3 + 3 * j], dec(t[4 + 3 * j]).decode("utf-8", "replace"), int(t[5 + 3 * j])) for j in range(n)]
    i = 3 + 3 * n
    method, raw = t[i + 1], dec(t[i + 2])
    exp = None
    if len(t) > i + 3 and t[i + 3] == "EXP":
        exp = (int(t[i + 4]), dec(t[i + 5]).decode(), t[i + 6])
    return routes, method, raw, exp


def fields(obs):
    return dict(p.split("=", 1) for p in obs.split(" ") if "=" in p)


def oracle(op, impl, model):
    t = op.split()
    if impl.startswith("panic"):
        return ("panic/" + t[0], "implementation panicked", "no panic")
    if t[0] == "fullpaths":
        # the model's patterns are what the theorems of Props/C16.lean (fullpaths section) speak about: every base path on its own
        if impl != model:
            decl = lambda xs: [bytes.fromhex(x).decode() if x != "-" else "" for x in xs]
            return ("fullpaths/patterns", "a route %r under the service base paths %r (API base %r) is mounted under %r, expected %r" % (
                decl(t[2:3])[0], decl(t[3:]), decl(t[1:2])[0], decl(impl.split()[1:]), decl(model.split()[1:])), model)
        return None
    if t[0] in ("esc", "unesc", "setpath"):
        return None  # library functions: judged by the correspondence with the model only
    routes, method, raw, exp = parse(op)
    f = fields(impl)
    if model == "ambiguous":
        return None  # several patterns of the method match: the property does not say which wins
    if exp is not None:
        rid, pattern, kv = exp
        want_vars = kv
        if "route" not in f:
            return ("mux/built-url-not-routed", "URL built from pattern %r (values %s) answered %s" % (pattern, kv, impl), "route=%d" % rid)
        if int(f["route"]) != rid and routes[int(f["route"])][1:2] != routes[rid][1:2]:
            return ("mux/built-url-misrouted", "URL built from pattern %r routed to %r" % (pattern, routes[int(f["route"])][1]), "route=%d" % rid)
        if f.get("vars") != want_vars:
            return ("mux/vars", "pattern %r: Vars returned %s, the client placed %s" % (pattern, f.get("vars"), want_vars), "vars=" + want_vars)
        got = dec(f.get("pattern", "-")).decode("utf-8", "replace")
        if got != pattern:
            return ("mux/resolve-pattern", "ResolvePattern in the handler says %r, registered %r" % (got, pattern), pattern)
        mw = dec(f.get("mw", "-")).decode("utf-8", "replace")
        if mw != pattern:
            return ("mux/middleware-pattern", "ResolvePattern in a middleware says %r, registered %r" % (mw, pattern), pattern)
    elif "route" in f:
        got = dec(f.get("pattern", "-")).decode("utf-8", "replace")
        reg = routes[int(f["route"])][1]
        if got != reg:
            return ("mux/resolve-pattern", "ResolvePattern in the handler says %r, registered %r" % (got, reg), reg)
    if f.get("status") == "404" and f.get("body") != "ok":
        return ("mux/404-body", "404 without a well-formed error body", "status=404 body=ok")
    return None


def run(c):
    c.cov["rule"] = ("byte-level: PathEscape/PathUnescape/setPath on every single byte and on random strings over an alphabet rich in "
                     "'/', '%', '%XX' look-alikes, '+', spaces, non-ASCII and invalid UTF-8; requests: 1-6 random patterns (literals, "
                     "{name}, trailing {*name}, 4 methods; a middleware registered before and one implied after the handlers, both "
                     "calling ResolvePattern), URLs built by substituting url.PathEscape(value) into one of the patterns (expected "
                     "route and values known) and arbitrary paths incl. empty segments and trailing slashes, parsed with "
                     "http.ReadRequest. non-trivial = requests with at least one wildcard value or a miss.")
    c.cov["trusted_base"] += [
        "Model/Mux.lean hand-written from http/mux.go and net/url; chi's radix tree is represented by a specification matcher "
        "(segments; literal > {name} > catch-all; {name} may be empty except at the very end) validated by this correspondence",
        "net/http request parsing (ReadRequest, URL.setPath) as modelled by setPath; validated by the correspondence",
        "requests for which several patterns of the same method match are compared with nothing (the property does not say which wins)",
    ]
    have = c.go_build("rtmux")
    if c.lake_build("GoaVerif.Props.C16"):
        c.audit("C16")
        if c.tier == "thorough":
            c.leanchecker("C16")
    ok_model = c.lake_build("drv_mux", what="tie")
    if not have:
        return
    rc, so, se = sh([os.path.join(BIN, "rtmux"), "gen", "-seed", str(c.seed), "-tier", c.tier])
    ops = c.corpus() + so.splitlines()
    impl_cmd = [os.path.join(BIN, "rtmux"), "run"]
    model = None
    if ok_model:
        impl, model, _ = c.correspondence("muxer", ops, impl_cmd, [os.path.join(LEAN, ".lake/build/bin/drv_mux")])
    else:
        rc, impl, se = c.run_lines(impl_cmd, "\n".join(ops) + "\n")
        c.evaluations += len(ops)
    failed, dis, amb = set(), [], 0
    for i, op in enumerate(ops):
        if i >= len(impl):
            break
        t = op.split()
        c.hist("op", t[0])
        m = model[i] if model and i < len(model) else ""
        if t[0] == "mux":
            f = fields(impl[i])
            c.hist("outcome", "route" if "route" in f else "status=" + f.get("status", "?"))
            if m == "ambiguous":
                amb += 1
            if "EXP" in t or "route" not in f:
                c.count(op)
        else:
            c.count(op)
        r = oracle(op, impl[i], m)
        if r:
            failed.add(i)
            c.fail(r[0], r[1], input=op, expected=r[2], actual=impl[i])
        elif model and m != "ambiguous" and impl[i].split(" mw=")[0] != m:
            dis.append((i, op, impl[i], m))
    c.cov["distribution"]["ambiguous_requests_not_compared"] = amb
    if model:
        c.cov["ties"]["T3"][-1]["disagreements"] = len(dis)
    if dis:
        i, op, a, b = dis[0]
        c.broken.append({"kind": "correspondence", "name": "rtmux vs drv_mux",
                         "first_disagreement": {"input": op, "implementation": a, "model": b}, "count": len(dis)})
        # a disagreement on a library function or on routing is searched for a property failure
        # by the oracle above on the same inputs; none found here
    for i in (0, len(ops) // 2, len(ops) - 1):
        if 0 <= i < len(impl):
            c.sample({"op": ops[i][:300], "implementation": impl[i]})


def replay(c, obj):
    op = obj["failure"]["input"]
    c.go_build("rtmux")
    c.lake_build("drv_mux", what="tie")
    rc, impl, se = c.run_lines([os.path.join(BIN, "rtmux"), "run"], op + "\n")
    rc, model, se = c.run_lines([os.path.join(LEAN, ".lake/build/bin/drv_mux")], op + "\n")
    print("op:   ", op, "\nimpl: ", impl, "\nmodel:", model)
    r = oracle(op, impl[0], model[0] if model else "") if impl else ("x", "driver failed")
    if r:
        print("violates:", r[1])
    return 1 if r else 0
