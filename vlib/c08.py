"""C08 — result views expose exactly the attributes of the selected view.

Lean: Props/C08.lean over the specification of projection (Model/Views.lean): projV_keys /
projV_no_leak / projV_complete (exactly the view), projV_nested + selView_* (recursively, with the
view each attribute selects), default_empty_name, unknown_view_refused, client_same_view
(idempotence for every environment and value), projT_keys.

Ties: (T3) the real expr.Project of every (result type, view) of every generated design is dumped
as a tree and compared with drv_views `projt`; (T5) generated server and client: for every method,
view name (defined, empty, undefined) and value the stub returns, the JSON on the wire, the
goa-view header and the value the client hands back are compared with drv_views `projv` applied to
the same value; responses re-labelled with an undefined view must be refused by the client."""
import json
import re
import os
import shutil
import subprocess

from .core import BIN, LEAN, goenv
from . import designs, e2e

FLAGS = ["-views-design"]


def hx(s):
    return s.encode().hex() or "-"


def opt(s):
    return hx(s) if s else "~"


def result_types(design):
    return {t["name"]: t for t in design.get("types", []) if t.get("kind") == "result"}


def env_tokens(design):
    rts = result_types(design)
    out = ["E", str(len(rts))]
    for name, t in rts.items():
        fields = t["att"]["type"].get("object") or []
        out += ["T", hx(name), str(len(fields))]
        for f in fields:
            ty = f["att"]["type"]
            target = ty.get("ref") if ty.get("ref") in rts else (ty.get("collection") if ty.get("collection") in rts else None)
            out += [hx(f["name"]), opt(target), "1" if ty.get("collection") else "0", opt(f["att"].get("view"))]
        views = t.get("views") or []
        out.append(str(len(views)))
        for v in views:
            out += [hx(v["name"]), str(len(v["attrs"]))]
            for vf in v["attrs"]:
                out += [hx(vf["name"]), opt(vf.get("view"))]
    return out


def shape(design, att, v):
    """value -> shape tokens (which attributes are set)"""
    rts = result_types(design)
    ty = att["type"]
    if v is None:
        return ["_"]
    if ty.get("collection"):
        inner = {"type": {"ref": ty["collection"]}}
        return ["a", str(len(v))] + [t for x in v for t in shape(design, inner, x)]
    if ty.get("ref") in rts:
        fields = {f["name"]: f["att"] for f in rts[ty["ref"]]["att"]["type"].get("object") or []}
        out = ["o", str(len(v))]
        for k, x in v.items():
            out += [hx(k)] + shape(design, fields[k], x)
        return out
    return ["p"]


def parse_shape(toks, i=0):
    t = toks[i]
    if t == "_":
        return None, i + 1
    if t == "p":
        return True, i + 1
    if t == "o":
        n = int(toks[i + 1])
        i += 2
        out = {}
        for _ in range(n):
            k = bytes.fromhex(toks[i]).decode() if toks[i] != "-" else ""
            out[k], i = parse_shape(toks, i + 1)
        return out, i
    if t == "a":
        n = int(toks[i + 1])
        i += 2
        out = []
        for _ in range(n):
            x, i = parse_shape(toks, i)
            out.append(x)
        return out, i
    raise ValueError("bad shape token " + t)


def apply_shape(sh, v):
    """the part of value v the projected shape keeps"""
    if sh is None:
        return None
    if sh is True:
        return v
    if isinstance(sh, dict):
        return {k: apply_shape(s, v[k]) for k, s in sh.items()}
    return [apply_shape(s, x) for s, x in zip(sh, v)]


# never a zero value: a required attribute outside the view comes back as the zero value of its Go field, which is how "unset" looks there
PRIM_SAMPLES = {"String": ["abc", "x y"], "Int": [7, 3], "Boolean": [True, True], "Float64": [1.5, 0.25], "Int64": [123456789012, 5], "UInt32": [40000, 9]}


def self_view_differs(design):
    """some result type refers to itself and one of its views renders that attribute with another view than itself"""
    for t in design.get("types", []):
        if t.get("kind") != "result":
            continue
        fields = {f["name"]: f["att"] for f in ((t.get("att") or {}).get("type") or {}).get("object") or []}
        for v in t.get("views") or []:
            for vf in v.get("attrs") or []:
                att = fields.get(vf["name"]) or {}
                ty = att.get("type") or {}
                if (ty.get("ref") or ty.get("collection")) == t["name"]:
                    w = vf.get("view") or att.get("view") or "default"
                    if w != v["name"]:
                        return True
    return False


def make_value(design, att, full, salt, depth=0):
    rts = result_types(design)
    ty = att["type"]
    if ty.get("collection"):
        inner = {"type": {"ref": ty["collection"]}}
        n = 2 if full else 1
        items = [make_value(design, inner, full, salt + k, depth + 1) for k in range(n)]
        return None if any(x is None for x in items) else items
    if ty.get("ref") in rts:
        if depth > 3:
            return None
        t = rts[ty["ref"]]
        req = set(t["att"].get("required") or [])
        out = {}
        for k, f in enumerate(t["att"]["type"].get("object") or []):
            if not full and f["name"] not in req and (k + salt) % 2 == 0:
                continue
            if not full and f["name"] in req and f["att"]["type"].get("array"):
                continue  # the service returns the required array as a nil slice (Go cannot tell it from an empty one)
            v = make_value(design, f["att"], full, salt + k, depth + 1)
            if v is not None:
                out[f["name"]] = v
        return out
    if ty.get("array"):
        return ["t1", "t2"]
    p = ty.get("prim")
    val = att.get("val") or {}
    if p == "String" and val.get("minlen"):
        return "abcd"
    if p == "Int" and "min" in val:
        return 4
    return PRIM_SAMPLES.get(p, ["s"])[salt % 2]


def canon(v):
    if isinstance(v, dict):
        return {k: canon(x) for k, x in v.items() if x is not None and x != []}  # a nil slice and an empty one are the same value
    if isinstance(v, list):
        return [canon(x) for x in v]
    if isinstance(v, (int, float)) and not isinstance(v, bool):
        return float(v)
    return v


def run(c):
    n = 24 if c.tier == "quick" else 240
    c.cov["rule"] = ("designs 0..%d of the views stream: 1-3 result types with 1-3 views, nested result types with the view given on the declaration, inside the "
                     "enclosing view, both or neither, two attributes of one nested type, collections, self references; methods returning a result type, a "
                     "collection or a result type with the view fixed in the design. Per method: every defined view, the empty name and an undefined name x a "
                     "full and a sparse value; responses re-labelled with an undefined and with another defined view. non-trivial = rendered exchanges.") % (n - 1)
    c.cov["trusted_base"] += [
        "Model/Views.lean is a specification (no memoisation); the real expr.Project and the generated view code are compared with it per design",
        "harness/e2ert conversions between JSON values and generated Go types; the goa-view header is re-labelled by the in-process round tripper",
        "views on errors, streaming results and gRPC are not generated; attribute names inside views are those of the type (the DSL refuses others)",
    ]
    have = c.go_build("genrun")
    lean_ok = False
    if c.lake_build("GoaVerif.Props.C08"):
        c.audit("C08")
        if c.tier == "thorough":
            c.leanchecker("C08")
        lean_ok = c.lake_build("drv_views", what="tie")
    if not (have and lean_ok):
        return
    drv = os.path.join(LEAN, ".lake/build/bin/drv_views")
    work = designs.scratch("C08")
    builds = e2e.build_many(c.seed, range(n), lambda i: FLAGS, work)
    # ---------------- T3: expr.Project vs projt
    t3_ops, t3_real, t3_meta = [], [], []
    for b in builds:
        if b.error and b.error.startswith("rejected"):
            c.hist("build", "rejected")
            continue
        try:
            p = subprocess.run([designs.GENRUN, "project", "-design", os.path.join(b.workdir, "design.json")], capture_output=True, text=True, env=goenv(), timeout=120)
            real = json.loads(p.stdout)
        except Exception as ex:
            c.broken.append({"kind": "tie", "name": "genrun project failed for design %d" % b.index, "detail": repr(ex)})
            continue
        env = env_tokens(b.design)
        for key, tree in sorted(real.items()):
            if "/" not in key:
                continue
            T, view = key.split("/", 1)
            t3_ops.append(" ".join(["projt"] + env + ["Q", hx(T), hx(view)]))
            t3_real.append(tree)
            t3_meta.append((b, T, view))
    if t3_ops:
        rc, model, se = c.run_lines([drv], "\n".join(t3_ops) + "\n")
        dis = 0
        for op, real, mo, (b, T, view) in zip(t3_ops, t3_real, model, t3_meta):
            c.evaluations += 1
            c.hist("projected", "error" if real == "X" else "tree")
            if real.startswith("panic"):
                c.fail("c08/project-panics", "expr.Project(%s, %r) panics: %s" % (T, view, real[:200]), input={"seed": c.seed, "index": b.index}, design=b.design)
            elif real != mo:
                dis += 1
                c.fail("c08/project-type-differs", "design %d: expr.Project(%s, %r) is not the projection the views define" % (b.index, T, view),
                       input={"seed": c.seed, "index": b.index, "type": T, "view": view}, design=b.design, expected=decode_tree(mo), actual=decode_tree(real))
        c.cov["ties"].setdefault("T3", []).append({"name": "expr.Project vs drv_views projt", "lines": len(t3_ops), "disagreements": dis})
    # ---------------- T5: rendered exchanges
    for b in builds:
        if b.error:
            if not b.error.startswith("rejected"):
                c.hist("build", "failed")
                # the recorded defect needs a result type that refers to itself and renders that attribute with ANOTHER view than
                # the enclosing one; any other build failure is not covered by it
                kind = ("redeclared" if "redeclared" in b.error else "other") if self_view_differs(b.design) else \
                    "unexpected: " + re.sub(r"\b[A-Z]\w*\d+\b", "T", (re.findall(r"\.go:\d+:\d+: (.*)", b.error) or [b.error[-80:]])[0])[:80]
                c.fail("c08/build:" + kind,
                       "design %d with result views could not be generated/built: %s" % (b.index, b.error[-400:]),
                       input={"seed": c.seed, "index": b.index}, design=b.design)
            continue
        c.hist("build", "ok")
        judge_design(c, b, drv)
        b.cleanup()
    shutil.rmtree(work, ignore_errors=True)


def decode_tree(s):
    out = []
    for t in s.split():
        try:
            out.append(bytes.fromhex(t).decode() if len(t) > 3 and all(ch in "0123456789abcdef" for ch in t) else t)
        except Exception:
            out.append(t)
    return " ".join(out)


def judge_design(c, b, drv):
    rts = result_types(b.design)
    env = env_tokens(b.design)
    cmds, meta = [], []
    for s in b.design["services"]:
        for m in s["methods"]:
            res = m.get("result")
            if not res:
                continue
            T = res["type"].get("ref") or res["type"].get("collection")
            if T not in rts:
                continue
            defined = [v["name"] for v in rts[T].get("views") or []]
            # a result type with a single view has no view in the service signature and no goa-view header: its view is fixed
            fixed = m.get("result_view") or ("default" if len(defined) == 1 else None)
            names = [fixed] if fixed else defined + ["", "nope"]
            for view in names:
                for full in (True, False):
                    val = make_value(b.design, res, full, len(cmds))
                    base = {"op": "call", "service": s["name"], "method": m["name"], "payload": None, "script": {"result": val, "view": "" if fixed else view}}
                    if m.get("skip_request_body"):
                        base["payload"], base["raw_body"] = {"tag": "t%d" % len(cmds)}, "raw body %d" % len(cmds)
                    cmds.append(base)
                    meta.append((m, T, view, val, None))
                    base_at = len(cmds) - 1
                    if full and view in defined and not fixed:
                        for tv in ["nope"] + [d for d in defined if d != view][:1]:
                            c2 = json.loads(json.dumps(base))
                            c2["script"]["tamper_view"] = tv
                            cmds.append(c2)
                            meta.append((m, T, view, val, tv))
                    if full and view in defined and not fixed and res["type"].get("collection"):
                        # an EMPTY collection under an undefined label: there is no element whose validation could refuse the view
                        c2 = json.loads(json.dumps(base))
                        c2["script"]["result"], c2["script"]["tamper_view"] = [], "nope"
                        cmds.append(c2)
                        meta.append((m, T, view, [], "nope"))
                    if view == "default" and not fixed:
                        # the same response without a label: an empty name means the default view, so the client does what it did
                        # with the labelled one
                        c2 = json.loads(json.dumps(base))
                        c2["script"]["tamper_view"] = ""
                        cmds.append(c2)
                        meta.append((m, T, view, val, "unlabelled:%d" % base_at))
                    if full and view in defined and not res["type"].get("collection"):
                        # a non-conforming server: the response lacks a required attribute of the labelled view
                        hdr_attrs = {mp["attr"] for r0 in ((m.get("http") or {}).get("responses") or []) for mp in (r0.get("headers") or [])}
                        in_view = [a["name"] for v in rts[T]["views"] if v["name"] == view for a in v["attrs"]]
                        prim_attrs = {f["name"] for f in rts[T]["att"]["type"].get("object") or [] if (f["att"].get("type") or {}).get("prim")}
                        for an in rts[T]["att"].get("required") or []:
                            # (primitive attributes: a missing required array is accepted as an empty one, see C14)
                            if an in in_view and an not in hdr_attrs and an in prim_attrs:
                                c2 = json.loads(json.dumps(base))
                                c2["script"]["tamper_drop"] = [an]
                                cmds.append(c2)
                                meta.append((m, T, view, val, "drop:" + an))
                                if view == "default" and not fixed:
                                    # ... and without a label: still the default view, still refused
                                    c3 = json.loads(json.dumps(c2))
                                    c3["script"]["tamper_view"] = ""
                                    cmds.append(c3)
                                    meta.append((m, T, view, val, "drop:" + an))
    if not cmds:
        return
    obs, err = b.run(cmds)
    if obs is None or len(obs) != len(cmds):
        c.broken.append({"kind": "tie", "name": "e2e binary failed for design %d" % b.index, "detail": str(err)[-800:]})
        return
    # expected projections from the Lean model
    ops = []
    for (m, T, view, val, tv) in meta:
        att = m["result"]
        if att["type"].get("collection"):
            # a collection is projected element by element
            ops.append(" ".join(["projv"] + env + ["Q", hx(T), hx(view)] + shape(b.design, {"type": {"ref": T}}, val[0] if val else {})))
        else:
            ops.append(" ".join(["projv"] + env + ["Q", hx(T), hx(view)] + shape(b.design, att, val)))
    known_ops = [" ".join(["known"] + env + ["Q", hx(T), hx(view)]) for (m, T, view, val, tv) in meta]
    rc, model, se = c.run_lines([drv], "\n".join(ops + known_ops) + "\n")
    if len(model) != 2 * len(ops):
        c.broken.append({"kind": "tie", "name": "drv_views failed", "detail": se[-500:]})
        return
    for k, ((m, T, view, val, tv), cmd, o) in enumerate(zip(meta, cmds, obs)):
        c.evaluations += 1
        c.count((b.index, k))
        if m.get("skip_request_body"):
            c.hist("request body streamed to the service", "arrived" if o.get("server_body") == cmd.get("raw_body") else "differs" if o.get("server_called") else "method not called")
            if o.get("server_called") and o.get("server_body") != cmd.get("raw_body"):
                c.fail("c08/streamed-request-body", "%s: the service read %r from the request body stream, the client sent %r" % (m["name"], o.get("server_body"), cmd.get("raw_body")),
                       input={"seed": c.seed, "index": b.index, "command": cmd}, design=b.design)
        known = model[len(ops) + k] == "1"
        is_coll = bool(m["result"]["type"].get("collection"))
        c.hist("case", ("tampered:" + ("undefined" if tv == "nope" else "dropped" if tv.startswith("drop:") else "unlabelled" if tv.startswith("unlabelled:") else "other")) if tv else ("view:" + ("defined" if view in [v["name"] for v in rts[T]["views"]] else (view or "empty"))))
        inp = {"seed": c.seed, "index": b.index, "command": cmd}
        w = o.get("wire") or {}
        if o.get("panic") and known:
            c.fail("c08/panic", "%s view %r: panic %s" % (m["name"], view, o["panic"][:200]), input=inp, design=b.design)
            continue
        if o.get("harness_error"):
            c.fail("c08/harness", "%s: %s" % (m["name"], o["harness_error"]), input=inp, design=b.design)
            continue
        if not known:
            if o.get("panic"):
                c.hist("undefined_view_from_service", "server panics")
                continue
            c.hist("undefined_view_from_service", "client error" if o.get("client_error") else "empty result")
            # an undefined view chosen by the service (a defect of the user's code): whatever the server does with it,
            # no attribute of the result may reach the caller as a success
            if not o.get("client_error") and flat_keys(o.get("client_result")):
                c.fail("c08/undefined-view-accepted", "%s: the service chose the undefined view %r and the client still got a result %s" %
                       (m["name"], view, json.dumps(o.get("client_result"))[:200]), input=inp, design=b.design)
            continue
        if tv and tv.startswith("drop:"):
            c.hist("case", "required attribute of the view dropped from the response")
            if not o.get("client_error"):
                c.fail("c08/client-accepts-response-without-required-attribute", "%s view %r: the response lacked the required attribute %s of the view and the client "
                       "accepted it: %s" % (m["name"], view, tv[5:], json.dumps(o.get("client_result"))[:200]), input=inp, design=b.design)
            continue
        if tv and tv.startswith("unlabelled:"):
            ob = obs[int(tv.split(":")[1])]
            c.hist("case", "default view without a label")
            if bool(o.get("client_error")) != bool(ob.get("client_error")) or canon(o.get("client_result")) != canon(ob.get("client_result")):
                c.fail("c08/unlabelled-response-is-not-read-as-default-view", "%s: the response rendered with the default view gives the client %s when labelled and %s "
                       "without a goa-view header" % (m["name"], json.dumps(ob.get("client_error") or ob.get("client_result"))[:200],
                                                      json.dumps(o.get("client_error") or o.get("client_result"))[:200]), input=inp, design=b.design)
            continue
        if tv == "nope":
            if not o.get("client_error"):
                c.fail("c08/client-accepts-undefined-view", "%s: response labelled goa-view=nope was accepted by the client" % m["name"], input=inp, design=b.design)
            continue
        sh, _ = parse_shape(model[k].split())
        # expected projected value
        if is_coll:
            exp_items = []
            # project every element with its own shape
            el_ops = [" ".join(["projv"] + env + ["Q", hx(T), hx(view)] + shape(b.design, {"type": {"ref": T}}, x)) for x in val]
            rc2, el_model, _ = c.run_lines([drv], "\n".join(el_ops) + "\n")
            for x, line in zip(val, el_model):
                exp_items.append(apply_shape(parse_shape(line.split())[0], x))
            expected = exp_items
        else:
            expected = apply_shape(sh, val)
        if tv:
            continue  # re-labelled with another defined view: only absence of a panic is required
        # --- the wire
        try:
            body = json.loads(w.get("resp_body") or "null")
        except Exception:
            body = "<unparsable>"
        if w.get("status") != 200:
            c.fail("c08/status", "%s view %r: status %s %s" % (m["name"], view, w.get("status"), (w.get("resp_body") or "")[:200]), input=inp, design=b.design)
            continue
        # attributes the design maps to response headers travel there, not in the body
        hdr_map = {mp["attr"]: (mp.get("wire") or mp["attr"]) for r0 in ((m.get("http") or {}).get("responses") or []) for mp in (r0.get("headers") or [])}
        expected_full = expected
        if hdr_map and isinstance(expected, dict):
            for an, wire_name in hdr_map.items():
                if an in expected:
                    hvs = (w.get("resp_headers") or {}).get(wire_name) or (w.get("resp_headers") or {}).get(wire_name.title())
                    if not hvs or str(hvs[0]) != str(expected[an]):
                        c.fail("c08/header-attribute", "%s view %r: attribute %s = %r is mapped to the header %s, the response carries %r" %
                               (m["name"], view, an, expected[an], wire_name, hvs), input=inp, design=b.design)
            expected = {k: v for k, v in expected.items() if k not in hdr_map}
        # known finding: a recursive result type with a header-mapped attribute uses ONE body type (without the attribute) for the
        # nested occurrences too
        rec_hdr = bool(hdr_map) and any((f["att"].get("type") or {}).get("ref") == T for f in rts[T]["att"]["type"].get("object") or [])

        def only_nested_header_attrs(paths):
            return bool(paths) and all(p.count("/") > 1 and p.rsplit("/", 1)[1] in hdr_map for p in paths)
        if canon(body) != canon(expected):
            leaked = sorted(set(flat_keys(canon(body))) - set(flat_keys(canon(expected))))
            missing = sorted(set(flat_keys(canon(expected))) - set(flat_keys(canon(body))))
            sig = "c08/wire-leak" if leaked else ("c08/wire-missing" if missing else "c08/wire-value")
            if rec_hdr and not leaked and only_nested_header_attrs(missing):
                sig = "c08/header-mapped-attribute-lost-in-nested-self-reference"
            c.fail(sig, "%s view %r: on the wire %s, the view selects %s (extra %s, missing %s)" %
                   (m["name"], view, json.dumps(body)[:300], json.dumps(expected)[:300], leaked[:4], missing[:4]), input=inp, design=b.design)
        hv = (w.get("resp_headers") or {}).get("Goa-View")
        single = len(rts[T].get("views") or []) == 1
        want_h = None if (m.get("result_view") or single) else [view or "default"]
        if hv is None and want_h and (view or "default") == "default":
            hv = want_h  # no header means the default view
        if hv != want_h:
            c.fail("c08/goa-view-header", "%s view %r: goa-view header %s, expected %s" % (m["name"], view, hv, want_h), input=inp, design=b.design)
        expected = expected_full
        # --- the client
        if o.get("client_error"):
            msg = o["client_error"].get("message", "")
            sig = "c08/client-refuses-valid"
            if rec_hdr and any('"%s" is missing' % an in msg for an in hdr_map):
                sig = "c08/header-mapped-attribute-lost-in-nested-self-reference"
            else:
                # the known defect of the client's nested body types (built from the nested DEFAULT view), seen through a REQUIRED
                # attribute of the nested view that was rendered: the client drops it while decoding and then misses it
                lost = re.findall(r'"(\w+)" is missing from result', msg)
                paths = [p for p in flat_keys(canon(expected)) if p.rsplit("/", 1)[-1] in lost]
                if lost and any(p.count("/") > 1 and outside_nested_default(rts, T, p) for p in paths):
                    sig = "c08/client-drops-nested-attrs-outside-nested-default-view/required-attribute"
            c.fail(sig, "%s view %r: the client refused the response: %s" % (m["name"], view, msg[:300]),
                   input=inp, design=b.design)
        elif canon(drop_zero_extras(o.get("client_result"), expected)) != canon(expected):
            got = drop_zero_extras(o.get("client_result"), expected)
            missing = sorted(set(flat_keys(canon(expected))) - set(flat_keys(canon(got))))
            extra = sorted(set(flat_keys(canon(got))) - set(flat_keys(canon(expected))))
            sig = "c08/client-result"
            if rec_hdr and not extra and only_nested_header_attrs(missing):
                sig = "c08/header-mapped-attribute-lost-in-nested-self-reference"
            elif missing and not extra and all(outside_nested_default(rts, T, p) for p in missing) and \
                    canon(strip_paths(expected, missing)) == canon(strip_paths(got, missing)):
                sig = "c08/client-drops-nested-attrs-outside-nested-default-view"
            c.fail(sig, "%s view %r: the client returned %s, the view selects %s" %
                   (m["name"], view, json.dumps(o.get("client_result"))[:300], json.dumps(expected)[:300]), input=inp, design=b.design)
    if len(c.cov["samples"]) < 2:
        c.sample({"design_index": b.index, "command": cmds[0], "wire_body": (obs[0].get("wire") or {}).get("resp_body"), "goa_view": ((obs[0].get("wire") or {}).get("resp_headers") or {}).get("Goa-View")})


def drop_zero_extras(got, exp):
    """a non-pointer Go field cannot be unset: outside the view it holds its zero value"""
    if isinstance(got, dict) and isinstance(exp, dict):
        return {k: drop_zero_extras(v, exp.get(k)) for k, v in got.items() if k in exp or v not in (0, 0.0, "", False, None, [], {})}
    if isinstance(got, list) and isinstance(exp, list):
        return [drop_zero_extras(g, e) for g, e in zip(got, exp)] + got[len(exp):]
    return got


def outside_nested_default(rts, T, path):
    """path like /owner/name or /[]/owner/name: is the last attribute one of a NESTED result type and outside that type's default view?"""
    segs = [x for x in path.split("/") if x and x != "[]"]
    if len(segs) < 2:
        return False
    cur = T
    for sname in segs[:-1]:
        fields = {f["name"]: f["att"] for f in rts[cur]["att"]["type"].get("object") or []}
        ty = (fields.get(sname) or {}).get("type") or {}
        cur = ty.get("ref") or ty.get("collection")
        if cur not in rts:
            return False
    dv = next((v for v in rts[cur]["views"] if v["name"] == "default"), None)
    return dv is not None and segs[-1] not in [a["name"] for a in dv["attrs"]]


def strip_paths(v, paths, prefix=""):
    if isinstance(v, dict):
        return {k: strip_paths(x, paths, prefix + "/" + k) for k, x in v.items() if (prefix + "/" + k) not in paths}
    if isinstance(v, list):
        return [strip_paths(x, paths, prefix + "/[]") for x in v]
    return v


def flat_keys(v, prefix=""):
    if isinstance(v, dict):
        out = []
        for k, x in v.items():
            out.append(prefix + "/" + k)
            out += flat_keys(x, prefix + "/" + k)
        return out
    if isinstance(v, list):
        out = []
        for x in v:
            out += flat_keys(x, prefix + "/[]")
        return out
    return []


def replay(c, obj):
    f = obj["failure"]
    c.go_build("genrun")
    c.lake_build("drv_views", what="tie")
    work = designs.scratch("C08r")
    b = e2e.build_design(f["input"]["seed"], f["input"]["index"], FLAGS, work)
    if b.error and not f["signature"].startswith("c08/build") and not f["signature"].startswith("c08/project"):
        print(b.error)
        return 1
    before = len(c.failures)
    if f["signature"].startswith("c08/project"):
        p = subprocess.run([designs.GENRUN, "project", "-design", os.path.join(b.workdir, "design.json")], capture_output=True, text=True, env=goenv())
        print(p.stdout[:3000])
        return 1
    if not b.error:
        judge_design(c, b, os.path.join(LEAN, ".lake/build/bin/drv_views"))
    for x in c.failures[before:]:
        print(x["signature"], x["what"])
    shutil.rmtree(work, ignore_errors=True)
    return 1 if (len(c.failures) > before or b.error) else 0
