"""C11 — DSL evaluation phases and root ordering. Theorems: Props/C11.lean over Model/Eval.lean
(hand-written from eval/context.go and eval/eval.go). Tie T3: rteval (real eval.Register /
Context.Roots / RunDSL with instrumented roots) vs drv_eval."""
import os
from .core import BIN, LEAN, sh


class Cur:
    def __init__(self, toks):
        self.t, self.i = toks, 0

    def next(self):
        s = self.t[self.i]
        self.i += 1
        return s

    def nat(self):
        return int(self.next())


def reach(dep, start):
    """strict reachability: nodes reachable by at least one edge"""
    seen, stack = set(), list(dep.get(start, []))
    while stack:
        x = stack.pop()
        if x not in seen:
            seen.add(x)
            stack.extend(dep.get(x, []))
    return seen


def check_order(dep, registered, obs):
    nodes = set(registered)
    for r in registered:
        nodes |= reach(dep, r)
    if nodes - set(registered):
        # DependsOn returns roots that were never registered: outside the property's envelope
        # (characterised by the correspondence only)
        return None
    cyc = [n for n in sorted(nodes) if n in reach(dep, n)]
    if obs == "cycle":
        if not cyc:
            return ("roots/false-cycle", "dependency cycle reported for an acyclic graph", "an order")
        return None
    if not obs.startswith("order"):
        return ("roots/error", "unexpected result " + obs, "order or cycle")
    order = obs.split()[1:]
    if cyc:
        selfonly = all(n in dep.get(n, []) for n in cyc) and not any(
            m != n and m in reach(dep, n) and n in reach(dep, m) for n in cyc for m in cyc)
        if selfonly:
            return ("roots/self-dependency-not-reported", "a root that lists itself in DependsOn is not reported as a cycle", "cycle")
        if not any(n in registered for n in cyc):
            return ("roots/cycle-among-unregistered-not-reported",
                    "a cycle among roots that are only reachable through DependsOn (never registered) is not reported", "cycle")
        return ("roots/cycle-not-reported", "cycle through %s not reported" % ",".join(cyc), "cycle")
    if len(set(order)) != len(order):
        return ("roots/duplicate", "a root appears twice in the order", "no duplicates")
    if set(order) != nodes:
        return ("roots/set", "order covers %s, expected %s" % (sorted(order), sorted(nodes)), " ".join(sorted(nodes)))
    idx = {n: i for i, n in enumerate(order)}
    for r in order:
        for d in reach(dep, r):
            if idx[d] > idx[r]:
                return ("roots/dependency-after-dependent", "%s depends on %s but comes before it" % (r, d), "%s before %s" % (d, r))
    return None


def parse_roots(toks):
    c = Cur(toks)
    c.next(); c.next(); c.nat(); c.next()
    dep = {}
    for _ in range(c.nat()):
        n = c.next()
        dep[n] = [c.next() for _ in range(c.nat())]
    c.next()
    reg = [c.next() for _ in range(c.nat())]
    return dep, reg


def parse_run(toks):
    c = Cur(toks)
    c.next(); c.next(); c.nat(); c.next()
    roots = {}
    for _ in range(c.nat()):
        n = c.next()
        deps = [c.next() for _ in range(c.nat())]
        sets = [[c.nat() for _ in range(c.nat())] for _ in range(c.nat())]
        roots[n] = dict(deps=deps, sets=sets, self=c.nat())
    c.next()
    pool = {}
    for _ in range(c.nat()):
        i = c.nat()
        d = c.next()
        effs = None
        if d != "~":
            effs = [c.next() for _ in range(int(d[1:]))]
        prep = c.next() == "1"
        v = c.next()
        val = None
        if v != "~":
            val = [c.nat() for _ in range(int(v[1:]))]
        fin = c.next() == "1"
        pool[i] = dict(dsl=effs, prep=prep, val=val, fin=fin)
    c.next()
    init = [c.next() for _ in range(c.nat())]
    return roots, pool, init


ORD = {"D": 0, "P": 1, "V": 2, "F": 3}


def check_run(toks, obs):
    roots, pool, init = parse_run(toks)
    res, _, tr = obs.partition(" | ")
    evs = [tuple(e.split(":")) for e in tr.split()] if tr.strip() else []
    phases = [ORD[e[0]] for e in evs]
    if phases != sorted(phases):
        return ("run/barrier", "an expression entered a phase before all had completed the previous one", "D* P* V* F*")
    dep = {n: r["deps"] for n, r in roots.items()}
    if res == "cycle":
        return None  # judged by the roots oracle on the same graphs
    # which DSLs ran, which effects were executed
    ran = [(e[1], int(e[2])) for e in evs if e[0] == "D"]
    exec_tags, registered, appended = [], list(init), []
    for root, i in ran:
        for f in pool[i]["dsl"] or []:
            if f[0] == "e":
                exec_tags.append(f[1:])
            elif f[0] == "r" and f[1:] in roots and f[1:] not in registered:
                registered.append(f[1:])
            elif f[0] == "a":
                r, s, x = f[1:].split(":")
                appended.append((r, int(s), int(x)))
    if exec_tags:
        if res != "errors " + ",".join(exec_tags):
            return ("run/exec-errors", "execution errors %s but RunDSL returned %r" % (exec_tags, res), "errors " + ",".join(exec_tags))
        if any(p > 0 for p in phases):
            return ("run/phase-after-exec-error", "prepare/validate/finalize ran although execution failed", "no later phase")
        return None
    # roots that must be processed: registered (initially or during execution) and their dependencies
    must = set(registered)
    for r in registered:
        must |= reach(dep, r)
    must = {m for m in must if m in roots}
    live = {n: [list(s) for s in r["sets"]] for n, r in roots.items()}
    for r, s, x in appended:
        if r in live and s < len(live[r]):
            live[r][s].append(x)
    val_tags = [str(t) for e in evs if e[0] == "V" for t in (pool[int(e[2])]["val"] or [])]
    # execution too runs roots dependency first (also the roots a DSL registered during the previous pass)
    order = []
    for e in evs:
        if e[0] == "D" and e[1] not in order:
            order.append(e[1])
    for i, a in enumerate(order):
        for b in order[i + 1:]:
            if b in reach(dep, a) and a not in reach(dep, b) and b in registered:
                return ("run/exec-order", "the DSL of root %s is executed before that of its dependency %s" % (a, b), "%s first" % b)
    for ph, key in (("P", "prep"), ("V", "val"), ("F", "fin")):
        if ph == "F" and val_tags:
            continue
        seen = {(e[1], int(e[2])) for e in evs if e[0] == ph}
        for n in must:
            ids = [roots[n]["self"]] + [x for s in live[n] for x in s]
            for x in ids:
                has = pool[x][key] is not None if key == "val" else pool[x][key]
                if has and (n, x) not in seen:
                    return ("run/missing-%s" % ph, "expression %d of root %s was not %s" % (x, n, {"P": "prepared", "V": "validated", "F": "finalized"}[ph]), "%s:%s:%d" % (ph, n, x))
        # roots in dependency order within the phase
        order = []
        for e in evs:
            if e[0] == ph and (not order or order[-1] != e[1]):
                order.append(e[1])
        for i, a in enumerate(order):
            for b in order[i + 1:]:
                if b in reach(dep, a) and a not in reach(dep, b):
                    return ("run/phase-order", "in phase %s root %s is processed before its dependency %s" % (ph, a, b), "%s first" % b)
    if val_tags:
        if res != "errors " + ",".join(val_tags):
            return ("run/validation-errors", "validation errors %s but RunDSL returned %r" % (val_tags, res), "errors " + ",".join(val_tags))
        if any(p == 3 for p in phases):
            return ("run/finalize-after-validation-error", "finalization ran on a design that failed validation", "no F event")
    elif res != "ok":
        return ("run/result", "no error was reported by any expression but RunDSL returned %r" % res, "ok")
    # execution: every DSL of every processed root runs, including dynamically registered roots ...
    ranset = set(ran)
    for n in must:
        for s in roots[n]["sets"]:
            for x in s:
                if pool[x]["dsl"] is not None and (n, x) not in ranset:
                    sig = "run/registered-root-dsl-not-run" if n not in init else "run/dsl-not-run"
                    return (sig, "the DSL of expression %d of root %s was never executed" % (x, n), "D:%s:%d" % (n, x))
    # ... and expressions appended while executing
    for r, s, x in appended:
        if r in must and s < len(roots[r]["sets"]) and pool[x]["dsl"] is not None and (r, x) not in ranset:
            return ("run/appended-expr-dsl-not-run", "expression %d appended to set %d of root %s during execution is prepared/validated/finalized "
                    "but its DSL is never executed" % (x, s, r), "D:%s:%d" % (r, x))
    return None


def oracle(op, obs):
    t = op.split()
    if obs.startswith("panic"):
        return ("panic/" + t[0], "engine panicked", "no panic")
    if t[0] == "roots":
        dep, reg = parse_roots(t)
        return check_order(dep, reg, obs)
    if t[0] == "run":
        return check_run(t, obs)
    return None


def goa_roots(c):
    """goa's OWN roots, as its packages register them at start-up (a fresh process, no reset): a result type generated while the design
    root executes (Result(CollectionOf(X)) inside a Method) lands in the generated-result-types root, which was empty when the evaluation
    started. Dependencies first and every DSL executed before validation: the design root is evaluated first and the collection's DSL
    has run (its name, its element type, its views)."""
    rc, so, se = sh([os.path.join(BIN, "rteval"), "goaroots"])
    line = (so.strip().splitlines() or [""])[-1]
    c.evaluations += 1
    c.count("goaroots")
    f = dict(x.split("=", 1) for x in line.split() if "=" in x)
    c.hist("goa's own roots", line or "no output")
    want = {"order": "design,generated-result-types", "typename": "BottleCollection", "views": "2", "collection": "1", "err": "~"}
    bad = [k for k in want if f.get(k) != want[k]]
    if rc != 0 or bad:
        c.fail("goaroots/" + "+".join(bad or ["crash"]), "with the roots as goa registers them, a design whose method returns CollectionOf(Bottle) evaluates to %s; "
               "expected %s" % (line or se[-300:], " ".join("%s=%s" % kv for kv in want.items())), input="rteval goaroots", expected=str(want), actual=line)


def run(c):
    c.cov["rule"] = ("Context.Roots on every irreflexive digraph with 1-%d roots x every registration order (exhaustive), then random "
                     "graphs on 4-8 roots (DAGs and cyclic, duplicate dependencies, partial registration); RunDSL on random worlds of "
                     "1-5 roots with expression sets whose members implement any of Source/Preparer/Validator/Finalizer, report errors "
                     "in execution or validation, register roots and append expressions while executing. non-trivial = graphs with at "
                     "least one edge / runs with at least one event") % (4 if c.tier == "thorough" else 3)
    c.cov["trusted_base"] += [
        "Model/Eval.lean hand-written from eval/context.go and eval/eval.go (fuel-bounded recursion; fuel 3n+4 per run), tied by correspondence rteval <-> drv_eval",
        "instrumented roots of the harness implement eval.Root/Source/Preparer/Validator/Finalizer exactly as the scenario says",
    ]
    have = c.go_build("rteval")
    ok_model = False
    if c.lake_build("GoaVerif.Props.C11"):
        c.audit("C11")
        if c.tier == "thorough":
            c.leanchecker("C11")
    ok_model = c.lake_build("drv_eval", what="tie")
    if not have:
        return
    goa_roots(c)
    rc, so, se = sh([os.path.join(BIN, "rteval"), "gen", "-seed", str(c.seed), "-tier", c.tier])
    ops = c.corpus() + so.splitlines()
    impl_cmd = [os.path.join(BIN, "rteval"), "run"]
    if ok_model:
        impl, model, dis = c.correspondence("eval engine", ops, impl_cmd, [os.path.join(LEAN, ".lake/build/bin/drv_eval")])
    else:
        rc, impl, se = c.run_lines(impl_cmd, "\n".join(ops) + "\n")
        dis = []
        c.evaluations += len(ops)
    failed = set()
    for i, op in enumerate(ops):
        if i >= len(impl):
            break
        t = op.split()
        c.hist("op", t[0])
        res = impl[i].split(" | ")[0].split(" ")[0]
        c.hist(t[0] + "_result", res)
        if t[0] == "roots":
            dep, reg = parse_roots(t)
            c.hist("roots_n", len(dep))
            if any(dep.values()):
                c.count(op)
        elif " | " in impl[i] and impl[i].split(" | ")[1].strip():
            c.count(op)
        r = oracle(op, impl[i])
        if r:
            failed.add(i)
            c.fail(r[0], r[1], input=op, expected=r[2], actual=impl[i])
    unexplained = [d for d in dis if d[0] not in failed]
    if unexplained:
        i, op, a, b = unexplained[0]
        c.broken.append({"kind": "correspondence", "name": "rteval vs drv_eval",
                         "first_disagreement": {"input": op, "implementation": a, "model": b}, "count": len(unexplained)})
    for i in (5, len(ops) - 3):
        if 0 <= i < len(impl):
            c.sample({"op": ops[i], "implementation": impl[i]})


def replay(c, obj):
    op = obj["failure"]["input"]
    c.go_build("rteval")
    rc, impl, se = c.run_lines([os.path.join(BIN, "rteval"), "run"], op + "\n")
    print("op:  ", op)
    print("impl:", impl[0] if impl else se)
    r = oracle(op, impl[0]) if impl else ("x", "driver failed")
    if r:
        print("violates:", r[1])
    return 1 if r else 0
