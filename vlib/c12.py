"""C12 — any DSL program yields a design or located errors, never a crash; accepted designs have no
dangling references.

Lean (Props/C12.lean): dsl_functions_guarded (decide over the table of every exported DSL function,
regenerated from /repo: type switches on the current expression have a default, no unchecked
assertion, every inspecting function can report), accepted_closed over the reference model
(Model/Closure.lean); the engine-level guarantees are C11's.

Search and ties:
* rtdsl: random programs assembled from ALL exported functions of package dsl (the registry is
  regenerated from /repo), misplaced / repeated / ill-typed / nil / self-referential, evaluated by
  the real engine in child processes: a panic, a fatal error (stack overflow), a time-out, a refusal
  without an error, or an accepted design with an unresolved reference is a failure; accepted
  designs are handed to the generators.
* closure differential: valid designs of the stream, each with ONE injected dangling name (mapped
  attribute, response attribute, error response, scheme, view): the real engine must refuse exactly
  when drv_closure (compiled from Model/Closure.lean) says the design is not closed."""
import copy
import json
import os
import re
import shutil
import subprocess

from .core import BIN, LEAN, HARNESS, goenv, sh
from . import designs

RTDSL = os.path.join(BIN, "rtdsl")

PANIC_CLASSES = [
    (r"NewMappedAttributeExpr", "mapped-attribute-of-non-object"),
    (r"expr\.(AsObject|AsMap|AsArray|AsUnion)$|ResultTypeExpr\)\.(Name|ID|IsCompatible|Kind|Hash)|UserTypeExpr\)\.", "typed-nil-user-type"),
    (r"dsl\.cookieAttribute", "cookie-option-outside-cookie"),
]


def panic_class(where):
    for pat, name in PANIC_CLASSES:
        if re.search(pat, where or ""):
            return name
    return re.sub(r"\.func\d+(\.\d+)?$", "", where or "?")


def hx(s):
    return s.encode().hex() or "-"


def L(names):
    names = list(names)
    return ["L", str(len(names))] + [hx(n) for n in names]


def fields_of(design, att):
    types = {t["name"]: t for t in design.get("types", [])}
    seen = 0
    while att and (att.get("type") or {}).get("ref") and seen < 10:
        att = types[att["type"]["ref"]]["att"]
        seen += 1
    t = (att or {}).get("type") or {}
    return [f["name"] for f in t.get("object") or []]


def closure_tokens(d):
    api_schemes = [s for r in d.get("security") or [] for s in r["schemes"]]
    out = ["closure", "D"] + L(s["name"] for s in d.get("schemes") or []) + L(e["name"] for e in d.get("errors") or []) + \
        L(e["name"] for e in d.get("api_http_errors") or []) + L(api_schemes) + [str(len(d["services"]))]
    types = {t["name"]: t for t in d.get("types", [])}
    for s in d["services"]:
        out += ["S", hx(s["name"])] + L(e["name"] for e in s.get("errors") or []) + L(e["name"] for e in s.get("http_errors") or []) + \
            L(x for r in s.get("security") or [] for x in r["schemes"]) + [str(len(s["methods"]))]
        for m in s["methods"]:
            h = m.get("http") or {}
            body = h.get("body") or {}
            battrs = ([body["attr"]] if body.get("attr") else []) + list(body.get("attrs") or [])
            resp = []
            for r in h.get("responses") or []:
                resp += [x["attr"] for x in (r.get("headers") or [])] + [x["attr"] for x in (r.get("cookies") or [])]
                if r.get("tag"):
                    resp.append(r["tag"][0])
            rt = ((m.get("result") or {}).get("type") or {})
            tname = rt.get("ref") or rt.get("collection")
            views = [v["name"] for v in (types.get(tname) or {}).get("views") or []]
            out += ["M", hx(m["name"])] + L(fields_of(d, m.get("payload"))) + L(fields_of(d, m.get("result"))) + L(e["name"] for e in m.get("errors") or []) + \
                L([x["attr"] for x in h.get("params") or []] + re.findall(r"\{\*?(\w+)\}", (s.get("path") or "") + h.get("path", ""))) + \
                L(x["attr"] for x in h.get("headers") or []) + L(x["attr"] for x in h.get("cookies") or []) + L(battrs) + L(resp) + \
                L(e["name"] for e in h.get("errors") or []) + L(x for r in m.get("security") or [] for x in r["schemes"]) + \
                [hx(m["result_view"]) if m.get("result_view") else "~"] + L(views)
            for v in (types.get(tname) or {}).get("views") or []:
                out += L(a["name"] for a in v["attrs"])
    avs = attr_views(d)
    if avs:
        out += ["V", str(len(avs))]
        for owner, view, views in avs:
            out += [hx(owner), hx(view)] + L(views)
    return " ".join(out)


def reachable_types(d):
    """names of the user types reachable from a method payload, result or error (goa validates — and generates — only those)"""
    types = {t["name"]: t for t in d.get("types", [])}
    seen = set()

    def walk(att):
        ty = (att or {}).get("type") or {}
        for k in ("ref", "collection"):
            n = ty.get(k)
            if n and n in types and n not in seen:
                seen.add(n)
                walk(types[n].get("att"))
        for k in ("array", "map_key", "map_elem"):
            if ty.get(k):
                walk(ty[k])
        for f in (ty.get("object") or []) + (ty.get("one_of") or []):
            walk(f["att"])
    for s in d.get("services", []):
        for m in s["methods"]:
            walk(m.get("payload"))
            walk(m.get("result"))
            for e in (m.get("errors") or []) + (s.get("errors") or []):
                walk(e.get("type"))
    return seen


def attr_views(d):
    """(owner, view, views of the target type) for every attribute of result type that fixes its view on the declaration
    or inside a view of the enclosing type — for the types a method reaches"""
    types = {t["name"]: t for t in d.get("types", [])}
    live = reachable_types(d)
    out = []
    for t in d.get("types", []):
        if t["name"] not in live:
            continue
        fields = {f["name"]: f["att"] for f in ((t.get("att") or {}).get("type") or {}).get("object") or []}
        for name, att in fields.items():
            ty = att.get("type") or {}
            target = ty.get("ref") or ty.get("collection")
            if target in types and types[target].get("views") and att.get("view"):
                out.append(("%s.%s" % (t["name"], name), att["view"], [v["name"] for v in types[target]["views"]]))
        for v in t.get("views") or []:
            for vf in v.get("attrs") or []:
                att = fields.get(vf["name"]) or {}
                ty = att.get("type") or {}
                target = ty.get("ref") or ty.get("collection")
                if vf.get("view") and target in types and types[target].get("views"):
                    out.append(("%s.%s@%s" % (t["name"], vf["name"], v["name"]), vf["view"], [x["name"] for x in types[target]["views"]]))
    return out


def attr_view_mutations(d):
    """a dangling view on the declaration of the first and of the last attribute that uses a result type used at least twice"""
    types = {t["name"]: t for t in d.get("types", [])}
    uses = {}
    live = reachable_types(d)
    for ti, t in enumerate(d.get("types", [])):
        if t["name"] not in live:
            continue
        for fi, f in enumerate(((t.get("att") or {}).get("type") or {}).get("object") or []):
            ty = f["att"].get("type") or {}
            target = ty.get("ref")
            if target in types and types[target].get("views"):
                uses.setdefault(target, []).append((ti, fi))
    out = []
    for target, places in uses.items():
        if len(places) < 2:
            continue
        for label, (ti, fi) in (("attribute-view-first-use", places[0]), ("attribute-view-last-use", places[-1])):
            d2 = copy.deepcopy(d)
            d2["types"][ti]["att"]["type"]["object"][fi]["att"]["view"] = "zz_view"
            out.append((label, d2))
        break
    # the same inside a view: View("default", func() { Attribute("owner", func() { View("zz_view") }) })
    for target, places in uses.items():
        for (ti, fi) in places:
            fname = d["types"][ti]["att"]["type"]["object"][fi]["name"]
            for vi, v in enumerate(d["types"][ti].get("views") or []):
                for ai, a in enumerate(v["attrs"]):
                    if a["name"] == fname:
                        d2 = copy.deepcopy(d)
                        d2["types"][ti]["views"][vi]["attrs"][ai]["view"] = "zz_view"
                        out.append(("attribute-view-inside-a-view", d2))
                        return out
    return out
    return out


def mutations(d):
    """(kind, mutated design) — one dangling name each, where the design has a place for it"""
    out = []
    for si, s in enumerate(d["services"]):
        for mi, m in enumerate(s["methods"]):
            h = m.get("http")
            if not h:
                continue
            def mut(fn, kind):
                d2 = copy.deepcopy(d)
                fn(d2["services"][si]["methods"][mi])
                out.append((kind, d2))
            if fields_of(d, m.get("payload")):
                mut(lambda mm: mm["http"].setdefault("headers", []).append({"attr": "zz_missing"}) or mm["http"].update(headers=(mm["http"].get("headers") or [])), "header")
                mut(lambda mm: mm["http"].update(params=(mm["http"].get("params") or []) + [{"attr": "zz_missing"}]), "param")
                mut(lambda mm: mm["http"].update(cookies=(mm["http"].get("cookies") or []) + [{"attr": "zz_missing"}]), "cookie")
            if fields_of(d, m.get("result")) and (h.get("responses") or []):
                mut(lambda mm: mm["http"]["responses"][0].update(headers=(mm["http"]["responses"][0].get("headers") or []) + [{"attr": "zz_missing"}]), "response-attribute")
            mut(lambda mm: mm["http"].update(errors=(mm["http"].get("errors") or []) + [{"name": "zz_undeclared", "code": 418}]), "error-response")
            mut(lambda mm: mm.update(security=[{"schemes": ["zz_scheme"]}]), "scheme")
            if m.get("security") and m["security"][0].get("schemes"):
                # a dangling name next to a valid one, in second and in first position
                mut(lambda mm: mm["security"][0].update(schemes=mm["security"][0]["schemes"] + ["zz_scheme"]), "scheme-not-first")
                mut(lambda mm: mm["security"][0].update(schemes=["zz_scheme"] + mm["security"][0]["schemes"]), "scheme")
            rt = ((m.get("result") or {}).get("type") or {})
            if any(t["name"] == (rt.get("ref") or rt.get("collection")) and t.get("views") for t in d.get("types", [])):
                mut(lambda mm: mm.update(result_view="zz_view"), "view")
            if fields_of(d, m.get("result")) and (h.get("responses") or []):
                mut(lambda mm: mm["http"]["responses"].append({"code": 203, "tag": ["zz_missing", "x"]}), "response-tag")
            # an attribute the result type HAS but not every view selects (a single-view type included), mapped to a response header
            tdef = next((t for t in d.get("types", []) if t["name"] == rt.get("ref") and t.get("views")), None)
            if tdef and not m.get("result_view"):
                prim = [f["name"] for f in tdef["att"]["type"].get("object") or [] if (f["att"].get("type") or {}).get("prim")]
                outside = [a for a in prim if not all(a in [x["name"] for x in v["attrs"]] for v in tdef["views"])]
                if outside:
                    mut(lambda mm: mm["http"].update(responses=[{"code": 200, "headers": [{"attr": outside[0], "wire": "X-Outside"}]}]), "response-attribute-outside-a-view")
            if si == 0 and mi == 0:
                break
    return out + attr_view_mutations(d)


def run(c):
    nprog = 60000 if c.tier == "quick" else 1500000
    nd = 30 if c.tier == "quick" else 300
    c.cov["rule"] = ("(a) %d random DSL programs (seed-derived, up to 60 calls and depth 6 each) assembled from all exported functions of package dsl — 3 in 4 calls are "
                     "ones that belong in the enclosing function, 1 in 4 any function; arguments from pools with nil functions, nil and typed-nil types, dangling "
                     "names, values returned by earlier (possibly failed) calls — evaluated in child processes with a time limit; every 40th accepted design goes "
                     "through the generators; (b) designs 0..%d of the valid stream and of the views stream, each also with one dangling name injected per kind; "
                     "accept/reject of the real engine vs drv_closure. non-trivial = programs that reached RunDSL plus mutated designs.") % (nprog, nd - 1)
    c.cov["trusted_base"] += [
        "gofacts dslfuncs/dslguards (go/types): the registry of exported DSL functions and the table of how each inspects eval.Current(); argument pools and the "
        "context bias of harness/cmd/rtdsl are hand-written — the reach of the random search is what the distribution below shows, it is not a proof of absence",
        "Model/Closure.lean is a specification of the reference checks (names only); the IR -> tokens encoding is vlib/c12.py closure_tokens",
        "the reference walk of accepted designs (rtdsl dangling()) covers requirements, result views, mapped request attributes, error responses and response tags",
    ]
    ok = c.go_build("gofacts", "genrun")
    if ok:
        c.gofacts("dslguards", "FactsDSL")
        rc, so, se = sh([os.path.join(BIN, "gofacts"), "-set", "dslfuncs", "-o", os.path.join(HARNESS, "cmd/rtdsl/registry_gen.go"), "-dir", HARNESS], cwd=HARNESS)
        if rc != 0:
            c.broken.append({"kind": "tie", "name": "T2 registry of DSL functions", "detail": (so + se)[-1500:]})
            ok = False
        else:
            reg = open(os.path.join(HARNESS, "cmd/rtdsl/registry_gen.go")).read()
            c.cov["ties"].setdefault("T2", []).append({"set": "dslfuncs", "functions": reg.count("func(g *gen)")})
    ok = ok and c.go_build("rtdsl")
    lean_ok = False
    if c.lake_build("GoaVerif.Props.C12"):
        c.audit("C12")
        if c.tier == "thorough":
            c.leanchecker("C12")
        lean_ok = c.lake_build("drv_closure", what="tie")
    if not ok:
        return
    work = designs.scratch("C12")
    # ---------------- (a) random programs
    gendir = os.path.join(work, "genmod")
    os.makedirs(gendir)
    open(os.path.join(gendir, "go.mod"), "w").write(
        "module gentest\n\ngo 1.22.0\n\nrequire goa.design/goa/v3 v3.0.0\n\nreplace goa.design/goa/v3 => /repo\n")
    shutil.copy("/repo/go.sum", os.path.join(gendir, "go.sum"))
    nproc = 14
    per = nprog // nproc

    def batch(k):
        args = [RTDSL, "run", "-seed", str(c.seed), "-from", str(k * per), "-n", str(per)]
        try:
            p = subprocess.run(args, capture_output=True, text=True, timeout=900, env=goenv())
            return k, p.returncode, p.stdout, p.stderr[-3000:]
        except subprocess.TimeoutExpired as ex:
            out = ex.stdout.decode() if isinstance(ex.stdout, bytes) else (ex.stdout or "")
            return k, 124, out, "timeout"

    accepted_idx = []
    for k, rc, out, err in designs.parallel(batch, range(nproc), workers=nproc):
        started = None
        for line in out.splitlines():
            try:
                r = json.loads(line)
            except Exception:
                continue
            if r.get("start"):
                started = r["index"]
                continue
            started = None
            c.evaluations += 1
            c.hist("program", r["outcome"])
            c.hist("calls", min(60, (r.get("calls", 0) // 10) * 10))
            if r.get("calls", 0) > 3:
                c.count(("p", r["index"]))
            inp = {"seed": c.seed, "program": r["index"]}
            if r["outcome"] == "panic":
                c.fail("c12/panic:" + panic_class(r.get("where")), "DSL program %d panics in %s: %s" % (r["index"], r.get("where"), (r.get("panic") or "")[:160]), input=inp)
            elif r["outcome"] == "errors":
                if r.get("errors", 0) == 0 or not (r.get("first_error") or "").strip():
                    c.fail("c12/refused-without-error", "DSL program %d is refused without a usable error" % r["index"], input=inp)
            else:
                accepted_idx.append(r["index"])
                for dg in r.get("dangling") or []:
                    c.fail("c12/accepted-with-dangling:" + re.sub(r'"[^"]*"|\S+\.\S+:? ', "", dg)[:50].strip(), "DSL program %d is accepted although %s" % (r["index"], dg), input=inp)
        if rc != 0:
            why = "time-out" if rc == 124 else ("stack overflow (endless recursion)" if "stack overflow" in err else "fatal error")
            where = ""
            m = re.search(r"goa\.design/goa/v3/([\w./()*]+)\(", err)
            if m:
                where = m.group(1)
            c.fail("c12/fatal:" + ("endless-recursion" if "stack overflow" in err else why) + (":" + re.sub(r"\(\*(\w+)\)", r"\1", where) if where else ""),
                   "evaluation of DSL program %s kills the process: %s %s" % (started, why, where), input={"seed": c.seed, "program": started}, report=err[-1200:])
    # generators on a sample of the accepted designs (one process each: a generator may die)
    sample = accepted_idx[::40][: (25 if c.tier == "quick" else 400)]

    def gen_one(i):
        try:
            gd = gendir + "-%d" % i
            shutil.copytree(gendir, gd)
            try:
                p = subprocess.run([RTDSL, "show", "-seed", str(c.seed), "-index", str(i), "-gen", gd], capture_output=True, text=True, timeout=120, env=goenv())
            finally:
                shutil.rmtree(gd, ignore_errors=True)
            return i, json.loads(p.stdout.splitlines()[-1]) if p.stdout.strip() else {"gen": "no output rc=%s %s" % (p.returncode, p.stderr[-300:])}
        except subprocess.TimeoutExpired:
            return i, {"gen": "timeout"}
        except Exception as ex:
            return i, {"gen": "harness: %r" % ex}
    for i, r in designs.parallel(gen_one, sample, workers=14):
        g = r.get("gen") or "not run"
        c.evaluations += 1
        c.hist("generators_on_accepted", "ok" if g == "ok" else re.sub(r"[\"'][^\"']*[\"']", "…", g)[:60])
        if g.startswith("panic") or g in ("timeout",) or g.startswith("no output"):
            c.fail("c12/generator-crashes:" + re.sub(r".*@ ", "", g)[:60], "the generators crash on the accepted design of DSL program %d: %s" % (i, g[:300]),
                   input={"seed": c.seed, "program": i})
    # ---------------- (b) closure differential
    recursion_part(c, work)
    if lean_ok:
        closure_part(c, work, nd)
    shutil.rmtree(work, ignore_errors=True)


def recursion_designs():
    """small designs whose types reach themselves directly, through arrays, nested arrays, maps and each other, used over HTTP and gRPC"""
    P = lambda p: {"type": {"prim": p}}
    R = lambda n: {"type": {"ref": n}}
    A = lambda a: {"type": {"array": a}}
    M = lambda a: {"type": {"map_key": P("String"), "map_elem": a}}
    shapes = {
        "field": [("Node", [("v", P("Int")), ("next", R("Node"))])],
        "array": [("Node", [("v", P("Int")), ("kids", A(R("Node")))])],
        "array-of-array": [("Node", [("v", P("Int")), ("grid", A(A(R("Node"))))])],
        "map": [("Node", [("v", P("Int")), ("by", M(R("Node")))])],
        "mutual-array": [("Folder", [("name", P("String")), ("entries", A(R("Entry")))]), ("Entry", [("n", P("Int")), ("parent", R("Folder"))])],
        "mutual-map": [("Folder", [("name", P("String")), ("entries", M(R("Entry")))]), ("Entry", [("n", P("Int")), ("parent", R("Folder"))])],
    }
    out = []
    # types that extend each other, used as payload / result of a secured and of an unsecured method
    for where in ("payload", "result"):
        for secured in (False, True):
            d = {"api": "ext", "types": [
                {"name": "A", "kind": "type", "extend": "B", "att": {"type": {"is_object": True, "object": [{"name": "a", "att": P("String")}]}}},
                {"name": "B", "kind": "type", "extend": "A", "att": {"type": {"is_object": True, "object": [{"name": "b", "att": P("String")}]}}}],
                "services": [{"name": "extsvc", "methods": [{"name": "run", where: R("A"), "http": {"verb": "POST", "path": "/run"}}]}]}
            if secured:
                d["schemes"] = [{"name": "key", "kind": "apikey"}]
                d["services"][0]["methods"][0]["security"] = [{"schemes": ["key"]}]
            out.append(("extend-cycle/%s/%s" % (where, "secured" if secured else "open"), d))
    # services that are each other's parent
    for with_path in (False, True):
        svc = lambda n, par: dict({"name": n, "parent": par, "methods": [{"name": "show", "payload": {"type": {"is_object": True, "object": [{"name": n + "id", "att": P("String")}]}},
                                                                       "http": {"verb": "GET", "path": "/{%sid}" % n}}]}, **({"path": "/" + n} if with_path else {}))
        out.append(("parent-cycle/%s" % ("path" if with_path else "no-path"), {"api": "parcyc", "services": [svc("a", "b"), svc("b", "a")]}))
    # a result type rendered with a view it does not define (View("nope") without DSL), used and unused
    for used in (False, True):
        d = {"api": "rv", "types": [{"name": "Rv", "kind": "result", "identifier": "application/vnd.rv", "render_view": "nope",
                                     "att": {"type": {"is_object": True, "object": [{"name": "a", "att": P("String")}]}},
                                     "views": [{"name": "default", "attrs": [{"name": "a"}]}]}],
             "services": [{"name": "rvsvc", "methods": [dict({"name": "run", "http": {"verb": "GET", "path": "/run"}}, **({"result": R("Rv")} if used else {}))]}]}
        out.append(("render-view-undefined/%s" % ("used" if used else "unused"), d))
    # two result types whose identifiers differ in the suffix only (one canonical identifier); the SECOND renders a nested result type with a
    # view that type does not define: refused, as for any other result type (whatever the validation keys its bookkeeping by)
    for shape in ("single", "collection", "first"):
        child = {"name": "Child", "kind": "result", "identifier": "application/vnd.child", "att": {"type": {"is_object": True, "object": [{"name": "a", "att": P("String")}]}},
                 "views": [{"name": "default", "attrs": [{"name": "a"}]}]}
        plain = lambda n, ident: {"name": n, "kind": "result", "identifier": ident, "att": {"type": {"is_object": True, "object": [{"name": "a", "att": P("String")}]}},
                                  "views": [{"name": "default", "attrs": [{"name": "a"}]}]}
        dangling = lambda n, ident: {"name": n, "kind": "result", "identifier": ident,
                                     "att": {"type": {"is_object": True, "object": [{"name": "a", "att": P("String")}, {"name": "child", "att": R("Child")}]}},
                                     "views": [{"name": "default", "attrs": [{"name": "a"}, {"name": "child", "view": "extended"}]}]}
        if shape == "first":
            types = [child, dangling("TwinJSON", "application/vnd.twin+json"), plain("TwinXML", "application/vnd.twin+xml")]
            res = R("TwinJSON")
        else:
            types = [child, plain("TwinJSON", "application/vnd.twin+json"), dangling("TwinXML", "application/vnd.twin+xml")]
            res = R("TwinXML") if shape == "single" else {"type": {"collection": "TwinXML"}}
        out.append(("must-refuse/twin-identifiers/%s" % shape, {"api": "twin", "types": types,
                    "services": [{"name": "twinsvc", "methods": [{"name": "run", "result": res, "http": {"verb": "GET", "path": "/run"}}]}]}))
    # an error response for an error nobody declares, with a header / a body of its own: refused (there is no error type to check them against)
    for level in ("method", "service", "api"):
        for extra in ("header", "plain"):
            er = dict({"name": "missing", "code": 404}, **({"headers": [{"attr": "x"}]} if extra == "header" else {}))
            d = {"api": "undecl", "services": [{"name": "s", "methods": [{"name": "run", "http": {"verb": "GET", "path": "/run"}}]}]}
            if level == "method":
                d["services"][0]["methods"][0]["http"]["errors"] = [er]
            elif level == "service":
                d["services"][0]["http_errors"] = [er]
            else:
                d["api_http_errors"] = [er]
            out.append(("must-refuse/undeclared-error-response/%s/%s" % (level, extra), d))
    # requirements at API level with one kind of scheme, at service level with another: the method inherits the SERVICE's (and only needs its credentials)
    for kind in ("jwt", "apikey", "oauth2"):
        scheme = {"name": "top", "kind": kind}
        if kind in ("jwt", "oauth2"):
            scheme["scopes"] = ["api:read"]
        out.append(("must-accept/service-requirement-overrides-api/%s" % kind, {
            "api": "ovr", "schemes": [scheme, {"name": "login", "kind": "basic"}], "security": [{"schemes": ["top"]}],
            "services": [{"name": "ovrsvc", "security": [{"schemes": ["login"]}], "methods": [
                {"name": "run", "payload": {"type": {"is_object": True, "object": [{"name": "user", "att": P("String")}, {"name": "pass", "att": P("String")}]}, "required": ["user", "pass"]},
                 "creds": {"user": "username", "pass": "password"}, "http": {"verb": "GET", "path": "/run"}}]}]}))
    for sname, types in shapes.items():
        for transport in ("http", "grpc", "both"):
            for where in ("payload", "result", "error"):
                d = {"api": "rec", "types": [{"name": n, "kind": "type", "att": {"type": {"is_object": True, "object": [{"name": fn, "att": fa} for fn, fa in fs]}}}
                                             for n, fs in types], "services": []}
                root = types[0][0]
                m = {"name": "run"}
                if where == "payload":
                    m["payload"] = R(root)
                elif where == "result":
                    m["result"] = R(root)
                else:
                    m["errors"] = [{"name": "bad", "type": R(root)}]
                if transport in ("http", "both"):
                    m["http"] = {"verb": "POST", "path": "/run"}
                    if where == "error":
                        m["http"]["errors"] = [{"name": "bad", "code": 409}]
                if transport in ("grpc", "both"):
                    m["grpc"] = {}
                d["services"].append({"name": "recsvc", "methods": [m], "grpc": transport != "http"})
                out.append(("%s/%s/%s" % (sname, transport, where), d))
    return out


def parent_designs():
    """a child service under Parent(...): the parent's canonical endpoint has a path wildcard; the child method has a payload of every
    shape (object with / without the inherited attribute, primitive, array, map, none) and a relative or an absolute route"""
    P = lambda p: {"type": {"prim": p}}
    obj = lambda fs, req=(): {"type": {"is_object": True, "object": [{"name": n, "att": a} for n, a in fs]}, "required": list(req)}
    payloads = {
        "object-with-parent-attribute": obj([("pid", P("String")), ("kid", P("Int"))], ["pid"]),
        "object-without-parent-attribute": obj([("kid", P("Int"))]),
        "string": P("String"),
        "int": P("Int"),
        "array": {"type": {"array": P("String")}},
        "map": {"type": {"map_key": P("String"), "map_elem": P("Int")}},
        "none": None,
    }
    out = []
    for pname, payload in payloads.items():
        for route in ("/kids", "/kids/{kid}", "//abs/kids"):
            if "{kid}" in route and not (payload and (payload.get("type") or {}).get("object")):
                continue
            parent = {"name": "parents", "path": "/parents", "methods": [
                {"name": "show", "payload": obj([("pid", P("String"))], ["pid"]), "http": {"verb": "GET", "path": "/{pid}"}}]}
            m = {"name": "list", "http": {"verb": "POST", "path": route}}
            if payload is not None:
                m["payload"] = payload
            child = {"name": "kids", "parent": "parents", "methods": [m]}
            out.append(("parent/%s/%s" % (pname, route.strip("/").replace("/", "_")), {"api": "par", "services": [parent, child]}))
    return out


def recursion_part(c, work):
    fam = recursion_designs() + parent_designs()

    def real(k):
        rep = designs.run_design(json.dumps(fam[k][1]), os.path.join(work, "r%d" % k), timeout=60)
        shutil.rmtree(os.path.join(work, "r%d" % k), ignore_errors=True)
        return rep
    for (label, d), rep in zip(fam, designs.parallel(real, range(len(fam)), workers=14)):
        c.evaluations += 1
        c.count(("rec", label))
        crash = rep.get("crash") or rep.get("panic")
        c.hist("recursive_types", "crash" if crash else ("accepted" if rep.get("accepted") else "refused"))
        if label.startswith("must-accept/") and not rep.get("accepted"):
            c.fail("c12/valid-design-%s:%s" % ("crashes" if crash else "refused", label.split("/", 1)[1]), "a valid design (%s) is not accepted: %s" %
                   (label, str(crash or rep.get("errors"))[-300:]), input={"seed": c.seed, "family": label}, design=d)
            continue
        if label.startswith("must-refuse/") and not crash and rep.get("accepted"):
            c.fail("c12/dangling-reference-accepted:" + label.split("/", 1)[1], "a design that names something that does not exist (%s) is accepted" % label,
                   input={"seed": c.seed, "family": label}, design=d)
            continue
        if crash:
            kind = "endless-recursion" if "stack overflow" in str(crash) else ("time-out" if "timeout" in str(crash) else "panic")
            if label.startswith("must-refuse/"):
                c.fail("c12/%s:%s" % (kind, label.split("/", 1)[1]), "evaluating the design (%s) does not return an error: %s" % (label, str(crash)[-300:]),
                       input={"seed": c.seed, "family": label}, design=d)
                continue
            if label.startswith("parent/"):
                c.fail("c12/parent-service-%s:%s" % (kind, label.split("/")[1]), "evaluating a design with a child service under Parent(...) (%s) does not return: %s" % (label, str(crash)[-300:]),
                       input={"seed": c.seed, "family": label}, design=d)
                continue
            c.fail("c12/recursive-type-%s:%s" % (kind, label.split("/")[1]), "evaluating a design whose type reaches itself (%s) does not return: %s" % (label, str(crash)[-300:]),
                   input={"seed": c.seed, "recursion": label}, design=d)


def closure_part(c, work, nd):
    drv = os.path.join(LEAN, ".lake/build/bin/drv_closure")
    cases = []
    for i in range(nd):
        for flags in (designs.flags_for(i, allow_nested=False), ["-views-design"] if i % 2 == 0 else None):
            if flags is None:
                continue
            try:
                d = json.loads(designs.make_design(c.seed, i, flags))
            except Exception:
                continue
            cases.append((i, "valid", d))
            for kind, d2 in mutations(d):
                cases.append((i, kind, d2))
    lines = [closure_tokens(d) for _, _, d in cases]
    rc, model, se = c.run_lines([drv], "\n".join(lines) + "\n")
    if len(model) != len(lines):
        c.broken.append({"kind": "tie", "name": "drv_closure output", "detail": (se or "")[-400:]})
        return

    def real(k):
        i, kind, d = cases[k]
        rep = designs.run_design(json.dumps(d), os.path.join(work, "c%d" % k))
        shutil.rmtree(os.path.join(work, "c%d" % k), ignore_errors=True)
        return rep
    reps = designs.parallel(real, range(len(cases)), workers=14)
    dis = 0
    base_ok = {}
    for (i, kind, d), mo, rep in zip(cases, model, reps):
        c.evaluations += 1
        c.count(("d", i, kind, len(base_ok)))
        inp = {"seed": c.seed, "index": i, "mutation": kind}
        if rep.get("crash") or rep.get("panic"):
            c.fail("c12/design-crashes:" + kind, "design %d (%s): evaluation crashes: %s" % (i, kind, str(rep.get("crash") or rep.get("panic"))[:300]), input=inp, design=d)
            continue
        accepted = bool(rep.get("accepted"))
        closed = mo == "closed"
        c.hist("closure", "%s: model=%s engine=%s" % ("valid" if kind == "valid" else "one dangling " + kind, "closed" if closed else "dangling", "accepts" if accepted else "refuses"))
        if kind == "valid":
            base_ok[i] = accepted and closed
            if closed and not accepted:
                c.hist("closure_baseline", "refused for another reason")
            if accepted and not closed:
                dis += 1
                c.fail("c12/accepted-not-closed:" + mo.split()[1].split(":")[0], "design %d is accepted but the reference model finds %s" % (i, mo[:200]), input=inp, design=d)
            continue
        if not base_ok.get(i):
            continue
        if closed:
            c.broken.append({"kind": "tie", "name": "closure mutation %s of design %d did not create a dangling reference in the model" % (kind, i), "detail": mo})
            continue
        if accepted:
            dis += 1
            c.fail("c12/dangling-accepted:" + kind, "design %d with an undefined %s name is accepted by eval.RunDSL (model: %s)" % (i, kind, decode(mo)[:200]), input=inp, design=d)
        else:
            errs = " ".join(rep.get("errors") or [])
            if not errs.strip():
                c.fail("c12/refused-without-error", "design %d (%s): refused without any error" % (i, kind), input=inp, design=d)
    c.cov["ties"].setdefault("T3", []).append({"name": "eval.RunDSL accept/refuse vs drv_closure", "lines": len(lines), "disagreements": dis})
    if cases:
        c.sample({"design_index": cases[1][0], "mutation": cases[1][1], "model": decode(model[1])[:200], "engine_accepts": bool(reps[1].get("accepted")),
                  "first_error": (reps[1].get("errors") or [""])[0][:200]})


def decode(line):
    def d(t):
        try:
            return bytes.fromhex(t).decode()
        except Exception:
            return t
    return " ".join(":".join(d(x) for x in tok.split(":")) for tok in line.split())


def replay(c, obj):
    f = obj["failure"]
    inp = f.get("input") or {}
    c.go_build("rtdsl", "genrun")
    if "program" in inp:
        p = subprocess.run([RTDSL, "show", "-seed", str(inp["seed"]), "-index", str(inp["program"])], capture_output=True, text=True, env=goenv(), timeout=120)
        print(p.stdout[-3000:])
        print(p.stderr[-1500:])
        if p.returncode != 0:
            return 1
        try:
            r = json.loads(p.stdout.splitlines()[-1])
        except Exception:
            return 1
        return 1 if (r["outcome"] == "panic" or r.get("dangling")) else 0
    work = designs.scratch("C12r")
    rep = designs.run_design(json.dumps(f["design"]), os.path.join(work, "d"))
    shutil.rmtree(work, ignore_errors=True)
    print(json.dumps(rep)[:1500])
    return 1 if rep.get("accepted") or rep.get("crash") else 0
