"""Regenerates every GoaVerif/Generated/*.lean module (ties T1/T2) — used by setup.sh."""
import os
from .core import BIN, HARNESS, LEAN, sh

T1 = [("status", "TrStatus"), ("grpcerr", "TrGrpcerr"), ("sampler", "TrSampler")]
T2 = [("validation", "FactsValidation"), ("hasher", "FactsHasher"), ("maprange", "FactsMapRange")]


def regen_all():
    rc_all = 0
    for tool, items in (("gotolean", T1), ("gofacts", T2)):
        for setname, module in items:
            dst = os.path.join(LEAN, "GoaVerif", "Generated", module + ".lean")
            rc, so, se = sh([os.path.join(BIN, tool), "-set", setname, "-ns", module, "-o", dst, "-dir", HARNESS], cwd=HARNESS)
            if rc != 0:
                print("regen failed:", tool, setname, se)
                rc_all = 1
    return rc_all
