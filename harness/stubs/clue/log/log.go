// Package log is a minimal stand-in for goa.design/clue/log (absent from the offline module
// cache): just the API surface the code produced by `goa example` uses, so that the example
// mains can be type-checked. Stated limitation of C01: example code is checked against this
// stub's signatures, not against the real clue module.
package log

import (
	"context"
	"fmt"
	"net/http"
	"os"

	goa "goa.design/goa/v3/pkg"
	"google.golang.org/grpc"
)

type (
	// KV is a key/value pair.
	KV struct {
		K string
		V any
	}
	// Fielder is implemented by KV.
	Fielder interface{ LogFields() []KV }
	// FormatFunc formats an entry.
	FormatFunc func(e *Entry) []byte
	// Entry is a log entry.
	Entry struct{ KeyVals []KV }
	// LogOption configures the logger.
	LogOption func(*options)
	options   struct{}
)

// LogFields implements Fielder.
func (kv KV) LogFields() []KV { return []KV{kv} }

func FormatJSON(e *Entry) []byte     { return nil }
func FormatTerminal(e *Entry) []byte { return nil }
func IsTerminal() bool               { return false }

func WithFormat(fn FormatFunc) LogOption { return func(*options) {} }
func WithDebug() LogOption               { return func(*options) {} }

func Context(ctx context.Context, opts ...LogOption) context.Context { return ctx }

func Print(ctx context.Context, keyvals ...Fielder)             {}
func Printf(ctx context.Context, format string, v ...any)       {}
func Debugf(ctx context.Context, format string, v ...any)       {}
func Errorf(ctx context.Context, err error, f string, v ...any) {}
func Fatal(ctx context.Context, err error, keyvals ...Fielder) {
	fmt.Fprintln(os.Stderr, err)
	os.Exit(1)
}
func Fatalf(ctx context.Context, err error, format string, v ...any) {
	fmt.Fprintln(os.Stderr, err)
	os.Exit(1)
}

// Endpoint is a goa endpoint middleware.
func Endpoint(e goa.Endpoint) goa.Endpoint { return e }

// HTTP returns an HTTP middleware.
func HTTP(ctx context.Context, opts ...any) func(http.Handler) http.Handler {
	return func(h http.Handler) http.Handler { return h }
}

func UnaryServerInterceptor(ctx context.Context, opts ...any) grpc.UnaryServerInterceptor {
	return func(ctx context.Context, req any, info *grpc.UnaryServerInfo, handler grpc.UnaryHandler) (any, error) {
		return handler(ctx, req)
	}
}

func StreamServerInterceptor(ctx context.Context, opts ...any) grpc.StreamServerInterceptor {
	return func(srv any, ss grpc.ServerStream, info *grpc.StreamServerInfo, handler grpc.StreamHandler) error {
		return handler(srv, ss)
	}
}
