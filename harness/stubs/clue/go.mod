module goa.design/clue

go 1.22.0

require (
	goa.design/goa/v3 v3.0.0
	google.golang.org/grpc v1.67.1
)
