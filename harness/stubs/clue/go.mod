module goa.design/clue

go 1.22.0
