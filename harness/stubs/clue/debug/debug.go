// Package debug is a minimal stand-in for goa.design/clue/debug (see ../log).
package debug

import (
	"context"
	"net/http"

	goa "goa.design/goa/v3/pkg"
	"google.golang.org/grpc"
)

// Muxer is the subset of the goa muxer the debug handlers need.
type Muxer interface {
	Handle(method, pattern string, handler http.Handler)
}

type goaMuxer interface {
	Handle(method, pattern string, handler http.HandlerFunc)
}

type adapter struct{ m goaMuxer }

func (a adapter) Handle(method, pattern string, handler http.Handler) {
	a.m.Handle(method, pattern, handler.ServeHTTP)
}

// Adapt adapts a goa muxer.
func Adapt(m goaMuxer) Muxer { return adapter{m} }

func MountPprofHandlers(mux Muxer, opts ...any)   {}
func MountDebugLogEnabler(mux Muxer, opts ...any) {}
func LogPayloads(opts ...any) func(goa.Endpoint) goa.Endpoint {
	return func(e goa.Endpoint) goa.Endpoint { return e }
}

func HTTP() func(http.Handler) http.Handler {
	return func(h http.Handler) http.Handler { return h }
}

func UnaryServerInterceptor() grpc.UnaryServerInterceptor {
	return func(ctx context.Context, req any, info *grpc.UnaryServerInfo, handler grpc.UnaryHandler) (any, error) {
		return handler(ctx, req)
	}
}

func StreamServerInterceptor() grpc.StreamServerInterceptor {
	return func(srv any, ss grpc.ServerStream, info *grpc.StreamServerInfo, handler grpc.StreamHandler) error {
		return handler(srv, ss)
	}
}
