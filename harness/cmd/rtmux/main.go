// Command rtmux is the C16 correspondence driver (tie T3): goa's Muxer on synthetic requests
// parsed the way a server parses them (http.ReadRequest), plus net/url's escaping functions.
//
//	rtmux gen -seed N -tier quick|thorough
//	rtmux run
package main

import (
	"bufio"
	"bytes"
	"encoding/gob"
	"encoding/json"
	"encoding/xml"
	"flag"
	"fmt"
	"net/http"
	"net/http/httptest"
	"net/url"
	"os"
	"sort"
	"strconv"
	"strings"

	"goa.design/goa/v3/expr"
	goahttp "goa.design/goa/v3/http"
	httpmw "goa.design/goa/v3/http/middleware"

	"verifharness/internal/lp"
)

func main() {
	if len(os.Args) < 2 {
		os.Exit(2)
	}
	fs := flag.NewFlagSet(os.Args[1], flag.ExitOnError)
	seed := fs.Uint64("seed", 1, "seed")
	tier := fs.String("tier", "quick", "tier")
	fs.Parse(os.Args[2:])
	switch os.Args[1] {
	case "gen":
		gen(*seed, *tier)
	case "run":
		lp.Lines(run)
	default:
		os.Exit(2)
	}
}

// ------------------------------------------------------------------ generation

var lits = []string{"users", "files", "v1", "a", "images", "x-y", "a.b", "~u"}
var methods = []string{"GET", "POST", "PUT", "DELETE"}

type pat struct {
	segs   []string // literal text, "{name}" or "{*name}"
	method string
}

func (p pat) text() string {
	if len(p.segs) == 0 {
		return "/"
	}
	return "/" + strings.Join(p.segs, "/")
}

func randPattern(r *lp.Rng, idx int) pat {
	n := r.Intn(4)
	var segs []string
	names := []string{"id", "name", "x", "k_1", "ID"}
	for i := 0; i < n; i++ {
		if r.Intn(3) == 0 {
			nm := names[(idx+i)%len(names)]
			dup := false
			for _, s := range segs {
				if s == "{"+nm+"}" {
					dup = true
				}
			}
			if !dup {
				segs = append(segs, "{"+nm+"}")
				continue
			}
		}
		segs = append(segs, lp.Pick(r, lits))
	}
	if r.Intn(4) == 0 {
		segs = append(segs, "{*"+lp.Pick(r, []string{"path", "rest", "filepath", "p"})+"}")
	}
	return pat{segs, lp.Pick(r, methods)}
}

var valueAlphabet = []string{"a", "b", "Z", "0", "9", "/", "%", "%2", "%41", "%2F", "%25", "%zz", "+", " ", ";", ",", "?", "#", "&", "=", ":", "@", "$", "é", "日本", "\x00", "\x7f", "\xff", ".", "..", "~", "-", "_", "'", "\"", "{", "}", "*", "[", "|", "\\", "^"}

func randValue(r *lp.Rng, allowEmpty bool) string {
	n := r.Intn(5)
	if !allowEmpty && n == 0 {
		n = 1
	}
	var b strings.Builder
	for i := 0; i < n; i++ {
		b.WriteString(lp.Pick(r, valueAlphabet))
	}
	return b.String()
}

// rawSafe drops the bytes that cannot appear unescaped in the path of a request line
// (they end the path or make net/http reject the request before the muxer sees it).
func rawSafe(s string) string {
	var b []byte
	for i := 0; i < len(s); i++ {
		c := s[i]
		if c <= ' ' || c == 0x7f || c == '?' || c == '#' {
			continue
		}
		b = append(b, c)
	}
	return string(b)
}

func emit(routes []pat, method, raw string, exp string) {
	var b strings.Builder
	fmt.Fprintf(&b, "mux R %d", len(routes))
	for i, p := range routes {
		fmt.Fprintf(&b, " %s %s %d", p.method, lp.Enc(p.text()), i)
	}
	fmt.Fprintf(&b, " REQ %s %s", method, lp.Enc(raw))
	if exp != "" {
		b.WriteString(" EXP " + exp)
	}
	fmt.Println(b.String())
}

func gen(seed uint64, tier string) {
	r := lp.NewRng(seed)
	n := 4000
	if tier == "thorough" {
		n = 300000
	}
	// the patterns a route is mounted under: API base path x service base paths x route path
	for _, api := range fpAPI[1:] {
		for _, route := range fpRoutes {
			for nb := 0; nb <= 3; nb++ {
				line := "fullpaths " + lp.Enc(api) + " " + lp.Enc(route)
				for k := 0; k < nb; k++ {
					line += " " + lp.Enc(lp.Pick(r, fpBases))
				}
				fmt.Println(line)
			}
		}
	}
	// byte-level functions on their own
	for i := 0; i < n/4; i++ {
		v := randValue(r, true)
		fmt.Printf("esc %s\n", lp.Enc(v))
		fmt.Printf("unesc %s\n", lp.Enc(v))
		fmt.Printf("unesc %s\n", lp.Enc(url.PathEscape(v)))
		fmt.Printf("setpath %s\n", lp.Enc("/"+lp.Pick(r, lits)+"/"+rawSafe(v)))
		fmt.Printf("setpath %s\n", lp.Enc("/"+lp.Pick(r, lits)+"/"+url.PathEscape(v)))
	}
	for b := 0; b < 256; b++ {
		fmt.Printf("esc %s\n", lp.Enc(string([]byte{byte(b)})))
		fmt.Printf("setpath %s\n", lp.Enc("/"+rawSafe(string([]byte{byte(b)}))))
	}
	// requests
	for i := 0; i < n; i++ {
		k := 1 + r.Intn(6)
		var routes []pat
		for j := 0; j < k; j++ {
			routes = append(routes, randPattern(r, j))
		}
		// the classic pair: same catch-all prefix under two methods with different names
		if r.Intn(10) == 0 {
			routes = append(routes, pat{[]string{"files", "{*filepath}"}, "GET"}, pat{[]string{"files", "{*target}"}, "PUT"})
		}
		for q := 0; q < 3; q++ {
			switch r.Intn(5) {
			case 0: // arbitrary path
				raw := "/" + lp.Pick(r, lits)
				for d := r.Intn(3); d > 0; d-- {
					raw += "/" + lp.Pick(r, append(lits, url.PathEscape(randValue(r, true)), rawSafe(randValue(r, true))))
				}
				if r.Intn(4) == 0 {
					raw += lp.Pick(r, []string{"/", "//", "/" + lp.Pick(r, lits) + "/"})
				}
				emit(routes, lp.Pick(r, methods), raw, "")
			default: // a URL built from one of the patterns by substituting escaped values
				ti := r.Intn(len(routes))
				t := routes[ti]
				var segs []string
				var kv []string
				for _, s := range t.segs {
					switch {
					case strings.HasPrefix(s, "{*"):
						v := randValue(r, true)
						segs = append(segs, url.PathEscape(v))
						kv = append(kv, lp.Enc(s[2:len(s)-1])+"="+lp.Enc(v))
					case strings.HasPrefix(s, "{"):
						v := randValue(r, false)
						segs = append(segs, url.PathEscape(v))
						kv = append(kv, lp.Enc(s[1:len(s)-1])+"="+lp.Enc(v))
					default:
						segs = append(segs, s)
					}
				}
				sort.Strings(kv)
				raw := "/" + strings.Join(segs, "/")
				emit(routes, t.method, raw, fmt.Sprintf("%d %s [%s]", ti, lp.Enc(t.text()), strings.Join(kv, ",")))
			}
		}
	}
}

// ------------------------------------------------------------------ execution

var (
	fpAPI    = []string{"", "", "/api", "/v1/"}
	fpBases  = []string{"/a", "/a/", "/b", "/c/{id}", "/c/{id}/", "/", "/deep/er"}
	fpRoutes = []string{"/", "/x", "/x/", "/{k}", "/{k}/", "", "/x/y"}
)

func run(toks []string) string {
	if toks[0] == "fullpaths" {
		// the real expression model: API base path, a service with these base paths, one endpoint with this route
		root := &expr.RootExpr{API: &expr.APIExpr{Name: "fp", HTTP: &expr.HTTPExpr{Path: lp.MustDec(toks[1])}}}
		old := expr.Root
		expr.Root = root
		defer func() { expr.Root = old }()
		svc := &expr.HTTPServiceExpr{ServiceExpr: &expr.ServiceExpr{Name: "s"}}
		for _, b := range toks[3:] {
			svc.Paths = append(svc.Paths, lp.MustDec(b))
		}
		root.API.HTTP.Services = []*expr.HTTPServiceExpr{svc}
		ep := &expr.HTTPEndpointExpr{MethodExpr: &expr.MethodExpr{Name: "m"}, Service: svc}
		route := &expr.RouteExpr{Method: "GET", Path: lp.MustDec(toks[2]), Endpoint: ep}
		out := []string{"paths"}
		for _, p := range route.FullPaths() {
			out = append(out, lp.Enc(p))
		}
		return strings.Join(out, " ")
	}
	switch toks[0] {
	case "esc":
		return lp.Enc(url.PathEscape(lp.MustDec(toks[1])))
	case "unesc":
		s, err := url.PathUnescape(lp.MustDec(toks[1]))
		if err != nil {
			return "err"
		}
		return "ok " + lp.Enc(s)
	case "setpath":
		req, err := readRequest("GET", lp.MustDec(toks[1]))
		if err != nil {
			return "err"
		}
		return fmt.Sprintf("path=%s raw=%s", lp.Enc(req.URL.Path), lp.Enc(req.URL.RawPath))
	case "mux":
		// the same muxer with goa's SmartRedirectSlashes middleware mounted: a request that a route matches as it is goes to that
		// route with the same variables (the middleware only redirects paths that match with the trailing slash toggled)
		plain := serveMux(toks, false)
		if strings.HasPrefix(plain, "route=") {
			if smart := serveMux(toks, true); smart != plain {
				return plain + " with-SmartRedirectSlashes:" + smart
			}
		}
		return plain
	}
	return "bad-op"
}

func serveMux(toks []string, smart bool) string {
	{
		k, _ := strconv.Atoi(toks[2])
		m := goahttp.NewMuxer()
		if smart {
			m.Use(httpmw.SmartRedirectSlashes)
		}
		var hit, mwPattern, mwVars, handlerVars string
		hitAny := false
		// a middleware registered before the handlers, one after the first Handle
		m.Use(func(h http.Handler) http.Handler {
			return http.HandlerFunc(func(w http.ResponseWriter, r *http.Request) {
				mwPattern = m.ResolvePattern(r)
				mwVars = fmt.Sprint(sortedVars(m.Vars(r)))
				h.ServeHTTP(w, r)
			})
		})
		i := 3
		for j := 0; j < k; j++ {
			method, pattern, id := toks[i], lp.MustDec(toks[i+1]), toks[i+2]
			i += 3
			m.Handle(method, pattern, func(w http.ResponseWriter, r *http.Request) {
				hitAny = true
				vars := m.Vars(r)
				handlerVars = fmt.Sprint(sortedVars(vars))
				var kv []string
				for n, v := range vars {
					kv = append(kv, lp.Enc(n)+"="+lp.Enc(v))
				}
				sort.Strings(kv)
				hit = fmt.Sprintf("route=%s vars=[%s] pattern=%s", id, strings.Join(kv, ","), lp.Enc(m.ResolvePattern(r)))
			})
		}
		method, raw := toks[i+1], lp.MustDec(toks[i+2])
		req, err := readRequest(method, raw)
		if err != nil {
			return "status=400"
		}
		// the muxer has served other requests before: the same path under every other method that has a route
		// (what a request resolves to must not depend on the requests served earlier)
		seenM := map[string]bool{method: true}
		for j := 0; j < k; j++ {
			if om := toks[3+3*j]; !seenM[om] {
				seenM[om] = true
				if wreq, err := readRequest(om, raw); err == nil {
					m.ServeHTTP(httptest.NewRecorder(), wreq)
				}
			}
		}
		hit, mwPattern, mwVars, handlerVars, hitAny = "", "", "", "", false
		rec := httptest.NewRecorder()
		m.ServeHTTP(rec, req)
		if hitAny {
			if mwVars != handlerVars {
				// a middleware registered with Use sees the same path variables as the handler
				return hit + " mw=" + lp.Enc(mwPattern) + " middleware-vars-differ:" + lp.Enc(mwVars)
			}
			return hit + " mw=" + lp.Enc(mwPattern)
		}
		if rec.Code == http.StatusNotFound {
			var er goahttp.ErrorResponse
			body := "bad"
			if err := json.Unmarshal(rec.Body.Bytes(), &er); err == nil && er.Fault && er.Name != "" && er.ID != "" &&
				strings.HasPrefix(rec.Result().Header.Get("Content-Type"), "application/json") { // the headers as they were when the status was written
				body = "ok"
			}
			// the same request as clients with an Accept header send it: the 404 must still carry a well-formed
			// error body in the encoding the Content-Type announces
			for _, accept := range []string{"application/json", "application/xml", "*/*", "text/plain, application/json",
				"text/html,application/xhtml+xml,application/xml;q=0.9,*/*;q=0.8", "application/gob"} {
				if body != "ok" {
					break
				}
				req2, _ := readRequest(method, raw)
				req2.Header.Set("Accept", accept)
				rec2 := httptest.NewRecorder()
				m.ServeHTTP(rec2, req2)
				ct := rec2.Result().Header.Get("Content-Type") // a header set after WriteHeader never reaches the client
				var er2 goahttp.ErrorResponse
				okBody := false
				switch {
				case strings.HasPrefix(ct, "application/json"):
					okBody = json.Unmarshal(rec2.Body.Bytes(), &er2) == nil && er2.Name != "" && er2.Fault
				case strings.HasPrefix(ct, "application/xml"):
					okBody = xml.Unmarshal(rec2.Body.Bytes(), &er2) == nil && er2.Name != "" && er2.Fault
				case strings.HasPrefix(ct, "application/gob"):
					okBody = gob.NewDecoder(bytes.NewReader(rec2.Body.Bytes())).Decode(&er2) == nil && er2.Name != "" && er2.Fault
				}
				if rec2.Code != http.StatusNotFound || !okBody {
					body = "bad-with-accept:" + lp.Enc(accept)
				}
			}
			return "status=404 body=" + body
		}
		return "status=" + strconv.Itoa(rec.Code)
	}
}

func sortedVars(vars map[string]string) []string {
	var kv []string
	for n, v := range vars {
		kv = append(kv, n+"="+v)
	}
	sort.Strings(kv)
	return kv
}

// readRequest parses the request line exactly as net/http's server does.
func readRequest(method, target string) (*http.Request, error) {
	if strings.ContainsAny(target, " \r\n") || target == "" {
		// would not survive the request line: treat as a client that escaped nothing (rejected)
		return nil, fmt.Errorf("unrepresentable target")
	}
	var b bytes.Buffer
	fmt.Fprintf(&b, "%s %s HTTP/1.1\r\nHost: example.com\r\n\r\n", method, target)
	return http.ReadRequest(bufio.NewReader(&b))
}
