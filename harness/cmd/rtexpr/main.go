// Command rtexpr is the C13 correspondence driver (tie T3): expr.Hash / Equal / Dup / DupAtt
// on generated type graphs (cycles through user types, metadata, validations).
//
//	rtexpr gen -seed N -tier quick|thorough
//	rtexpr run
//
// A graph travels as:  N <n> node*  A <m> att*  with
//
//	node: p:<prim> | a:<att> | m:<katt>:<eatt> | o:<k> (<namehex> <att>)*k
//	      | u:<namehex>:<k> (<namehex> <att>)*k | t:<namehex>:<att>:<r|u>
//	att:  <node> <ntags> (<keyhex> <nvals> <valhex>*)*  <val: ~ | v>
package main

import (
	"flag"
	"fmt"
	"os"
	"reflect"
	"sort"
	"strconv"
	"strings"

	"goa.design/goa/v3/expr"

	"verifharness/internal/lp"
)

func main() {
	if len(os.Args) < 2 {
		os.Exit(2)
	}
	fs := flag.NewFlagSet(os.Args[1], flag.ExitOnError)
	seed := fs.Uint64("seed", 1, "seed")
	tier := fs.String("tier", "quick", "tier")
	fs.Parse(os.Args[2:])
	switch os.Args[1] {
	case "gen":
		gen(*seed, *tier)
	case "run":
		lp.Lines(run)
	default:
		os.Exit(2)
	}
}

// ------------------------------------------------------------------ abstract graphs

type gnode struct {
	kind   string // p a m o u t
	prim   string
	name   string
	atts   []int
	names  []string
	result bool
}

type gatt struct {
	node int
	meta [][]string // key, vals...
	val  bool
}

type graph struct {
	nodes []gnode
	atts  []gatt
	done  []int // composite nodes (not user types) whose construction is finished: may be shared
}

var prims = []string{"boolean", "int", "int32", "int64", "uint", "uint32", "uint64", "float32", "float64", "string", "bytes", "any"}
var fieldNames = []string{"a", "b", "c", "id", "name", "a/string-b", "x-y", "Z", "é", "a_b", "-", "_o_", "b/int"}
var typeNames = []string{"T", "U", "Account", "T2", "error", "a!b", "Res"}
var metaKeys = []string{"struct:field:name", "struct:field:type", "struct:field:proto", "struct:tag:json", "openapi:x", "struct:type:name"}

func (g *graph) addNode(n gnode) int { g.nodes = append(g.nodes, n); return len(g.nodes) - 1 }
func (g *graph) addAtt(a gatt) int   { g.atts = append(g.atts, a); return len(g.atts) - 1 }

// randType builds a random type; user types already created may be referenced (cycles).
func randType(r *lp.Rng, g *graph, depth int, uts *[]int) int {
	if depth <= 0 || r.Intn(5) == 0 {
		if len(*uts) > 0 && r.Intn(3) == 0 {
			return (*uts)[r.Intn(len(*uts))]
		}
		return g.addNode(gnode{kind: "p", prim: lp.Pick(r, prims)})
	}
	if len(g.done) > 0 && r.Intn(7) == 0 {
		// the same array / map / union / object value reached through a second path (sharing is not structure)
		return g.done[r.Intn(len(g.done))]
	}
	id := randComposite(r, g, depth, uts)
	if g.nodes[id].kind != "t" {
		g.done = append(g.done, id)
	}
	return id
}

func randComposite(r *lp.Rng, g *graph, depth int, uts *[]int) int {
	switch r.Intn(6) {
	case 0:
		return g.addNode(gnode{kind: "a", atts: []int{randAtt(r, g, depth-1, uts)}})
	case 1:
		return g.addNode(gnode{kind: "m", atts: []int{randAtt(r, g, 0, uts), randAtt(r, g, depth-1, uts)}})
	case 2:
		n := gnode{kind: "u", name: lp.Pick(r, typeNames)}
		for _, nm := range distinct(r, 1+r.Intn(4)) {
			n.names = append(n.names, nm)
			n.atts = append(n.atts, randAtt(r, g, depth-1, uts))
		}
		return g.addNode(n)
	case 3:
		// a user type: reserve the node first so that its own attribute may refer to it
		id := g.addNode(gnode{kind: "t", name: lp.Pick(r, typeNames) + strconv.Itoa(len(g.nodes)), result: r.Intn(4) == 0})
		*uts = append(*uts, id)
		a := g.addAtt(gatt{})
		g.nodes[id].atts = []int{a}
		obj := randObject(r, g, depth-1, uts)
		g.atts[a] = gatt{node: obj, meta: randMeta(r), val: r.Intn(3) == 0}
		return id
	default:
		return randObject(r, g, depth-1, uts)
	}
}

func distinct(r *lp.Rng, k int) []string {
	p := append([]string{}, fieldNames...)
	for i := len(p) - 1; i > 0; i-- {
		j := r.Intn(i + 1)
		p[i], p[j] = p[j], p[i]
	}
	if k > len(p) {
		k = len(p)
	}
	return p[:k]
}

func randObject(r *lp.Rng, g *graph, depth int, uts *[]int) int {
	n := gnode{kind: "o"}
	id := g.addNode(n)
	for _, nm := range distinct(r, r.Intn(5)) {
		g.nodes[id].names = append(g.nodes[id].names, nm)
		a := randAtt(r, g, depth, uts)
		g.nodes[id].atts = append(g.nodes[id].atts, a)
	}
	return id
}

func randMeta(r *lp.Rng) [][]string {
	var out [][]string
	used := map[string]bool{}
	for k := r.Intn(4); k > 0; k-- {
		key := lp.Pick(r, metaKeys)
		if used[key] {
			continue
		}
		used[key] = true
		e := []string{key}
		for v := r.Intn(3); v > 0; v-- {
			e = append(e, lp.Pick(r, []string{"v", "Name", "x y", "", "+z"}))
		}
		if key == "struct:type:name" && len(e) == 1 {
			e = append(e, "Override")
		}
		out = append(out, e)
	}
	return out
}

func randAtt(r *lp.Rng, g *graph, depth int, uts *[]int) int {
	id := g.addAtt(gatt{})
	t := randType(r, g, depth, uts)
	g.atts[id] = gatt{node: t, meta: randMeta(r), val: r.Intn(3) == 0}
	return id
}

func (g *graph) String() string {
	var b strings.Builder
	fmt.Fprintf(&b, "N %d", len(g.nodes))
	for _, n := range g.nodes {
		switch n.kind {
		case "p":
			b.WriteString(" p:" + n.prim)
		case "a":
			fmt.Fprintf(&b, " a:%d", n.atts[0])
		case "m":
			fmt.Fprintf(&b, " m:%d:%d", n.atts[0], n.atts[1])
		case "o":
			fmt.Fprintf(&b, " o:%d", len(n.atts))
			for i := range n.atts {
				fmt.Fprintf(&b, " %s %d", lp.Enc(n.names[i]), n.atts[i])
			}
		case "u":
			fmt.Fprintf(&b, " u:%s:%d", lp.Enc(n.name), len(n.atts))
			for i := range n.atts {
				fmt.Fprintf(&b, " %s %d", lp.Enc(n.names[i]), n.atts[i])
			}
		case "t":
			k := "u"
			if n.result {
				k = "r"
			}
			fmt.Fprintf(&b, " t:%s:%d:%s", lp.Enc(n.name), n.atts[0], k)
		}
	}
	fmt.Fprintf(&b, " A %d", len(g.atts))
	for _, a := range g.atts {
		fmt.Fprintf(&b, " %d %d", a.node, len(a.meta))
		for _, e := range a.meta {
			fmt.Fprintf(&b, " %s %d", lp.Enc(e[0]), len(e)-1)
			for _, v := range e[1:] {
				b.WriteString(" " + lp.Enc(v))
			}
		}
		if a.val {
			b.WriteString(" v")
		} else {
			b.WriteString(" ~")
		}
	}
	return b.String()
}

func gen(seed uint64, tier string) {
	r := lp.NewRng(seed)
	n := 1200
	if tier == "thorough" {
		n = 50000
	}
	for i := 0; i < n; i++ {
		g := &graph{}
		var uts []int
		root := randType(r, g, 1+r.Intn(5), &uts)
		desc := g.String()
		for f := 0; f < 8; f++ {
			fmt.Printf("hash %d %d %s\n", f, root, desc)
		}
		fmt.Printf("props %d %d %s\n", r.Intn(1<<30), root, desc)
	}
}

// ------------------------------------------------------------------ building real expr graphs

type built struct {
	nodes []expr.DataType
	atts  []*expr.AttributeExpr
}

type cur struct {
	t []string
	i int
}

func (c *cur) next() string { s := c.t[c.i]; c.i++; return s }
func (c *cur) nat() int     { n, _ := strconv.Atoi(c.next()); return n }

func parseGraph(c *cur) *graph {
	g := &graph{}
	c.next() // N
	for n := c.nat(); n > 0; n-- {
		p := strings.Split(c.next(), ":")
		switch p[0] {
		case "p":
			g.nodes = append(g.nodes, gnode{kind: "p", prim: p[1]})
		case "a":
			a, _ := strconv.Atoi(p[1])
			g.nodes = append(g.nodes, gnode{kind: "a", atts: []int{a}})
		case "m":
			k, _ := strconv.Atoi(p[1])
			e, _ := strconv.Atoi(p[2])
			g.nodes = append(g.nodes, gnode{kind: "m", atts: []int{k, e}})
		case "o", "u":
			nd := gnode{kind: p[0]}
			cnt := p[1]
			if p[0] == "u" {
				nd.name = lp.MustDec(p[1])
				cnt = p[2]
			}
			k, _ := strconv.Atoi(cnt)
			for ; k > 0; k-- {
				nd.names = append(nd.names, lp.MustDec(c.next()))
				nd.atts = append(nd.atts, c.nat())
			}
			g.nodes = append(g.nodes, nd)
		case "t":
			a, _ := strconv.Atoi(p[2])
			g.nodes = append(g.nodes, gnode{kind: "t", name: lp.MustDec(p[1]), atts: []int{a}, result: p[3] == "r"})
		}
	}
	c.next() // A
	for m := c.nat(); m > 0; m-- {
		a := gatt{node: c.nat()}
		for k := c.nat(); k > 0; k-- {
			e := []string{lp.MustDec(c.next())}
			for v := c.nat(); v > 0; v-- {
				e = append(e, lp.MustDec(c.next()))
			}
			a.meta = append(a.meta, e)
		}
		a.val = c.next() == "v"
		g.atts = append(g.atts, a)
	}
	return g
}

func primOf(n string) expr.DataType {
	switch n {
	case "boolean":
		return expr.Boolean
	case "int":
		return expr.Int
	case "int32":
		return expr.Int32
	case "int64":
		return expr.Int64
	case "uint":
		return expr.UInt
	case "uint32":
		return expr.UInt32
	case "uint64":
		return expr.UInt64
	case "float32":
		return expr.Float32
	case "float64":
		return expr.Float64
	case "string":
		return expr.String
	case "bytes":
		return expr.Bytes
	}
	return expr.Any
}

func fp(f float64) *float64 { return &f }
func ip(i int) *int         { return &i }

func build(g *graph) *built {
	b := &built{nodes: make([]expr.DataType, len(g.nodes)), atts: make([]*expr.AttributeExpr, len(g.atts))}
	for i := range g.atts {
		b.atts[i] = &expr.AttributeExpr{}
	}
	// shells first (cycles), then contents
	results := 0 // result types seen so far: consecutive ones get identifiers that differ in their suffix only
	for i, n := range g.nodes {
		switch n.kind {
		case "p":
			b.nodes[i] = primOf(n.prim)
		case "a":
			b.nodes[i] = &expr.Array{}
		case "m":
			b.nodes[i] = &expr.Map{}
		case "o":
			b.nodes[i] = &expr.Object{}
		case "u":
			b.nodes[i] = &expr.Union{TypeName: n.name}
		case "t":
			ut := &expr.UserTypeExpr{TypeName: n.name, UID: "uid-" + strconv.Itoa(i)}
			if n.result {
				rt := &expr.ResultTypeExpr{UserTypeExpr: ut, Identifier: "application/vnd.T" + strconv.Itoa(results/2) + []string{"+json", "+xml"}[results%2]}
				results++
				rt.Views = []*expr.ViewExpr{{AttributeExpr: &expr.AttributeExpr{Type: &expr.Object{}}, Name: "default", Parent: rt}}
				b.nodes[i] = rt
			} else {
				b.nodes[i] = ut
			}
		}
	}
	for i, n := range g.nodes {
		switch n.kind {
		case "a":
			b.nodes[i].(*expr.Array).ElemType = b.atts[n.atts[0]]
		case "m":
			m := b.nodes[i].(*expr.Map)
			m.KeyType, m.ElemType = b.atts[n.atts[0]], b.atts[n.atts[1]]
		case "o":
			o := b.nodes[i].(*expr.Object)
			for k, a := range n.atts {
				*o = append(*o, &expr.NamedAttributeExpr{Name: n.names[k], Attribute: b.atts[a]})
			}
		case "u":
			u := b.nodes[i].(*expr.Union)
			for k, a := range n.atts {
				u.Values = append(u.Values, &expr.NamedAttributeExpr{Name: n.names[k], Attribute: b.atts[a]})
			}
		case "t":
			b.nodes[i].(expr.UserType).SetAttribute(b.atts[n.atts[0]])
		}
	}
	for i, a := range g.atts {
		at := b.atts[i]
		at.Type = b.nodes[a.node]
		at.Description = "att " + strconv.Itoa(i)
		for _, e := range a.meta {
			if at.Meta == nil {
				at.Meta = expr.MetaExpr{}
			}
			at.Meta[e[0]] = append(make([]string, 0, len(e)+2), e[1:]...) // spare capacity on purpose
		}
		// empty but non-nil containers are values too: a copy must not alias them either
		if len(a.meta) == 0 && i%4 == 1 {
			at.Meta = expr.MetaExpr{}
		}
		if i%5 == 2 {
			at.Bases = make([]expr.DataType, 0, 2)
			at.References = make([]expr.DataType, 0, 2)
			at.UserExamples = make([]*expr.ExampleExpr, 0, 2)
		}
		if a.val && i%7 == 3 {
			at.Validation = &expr.ValidationExpr{Values: make([]any, 0, 2), Required: make([]string, 0, 2)}
		} else if a.val {
			at.Validation = &expr.ValidationExpr{
				Values: append(make([]any, 0, 4), "one", 2), Minimum: fp(1), Maximum: fp(9), MinLength: ip(1), MaxLength: ip(7),
				Required: append(make([]string, 0, 4), "a"), Pattern: "^x", Format: expr.FormatDate,
			}
		}
		if i%3 == 0 {
			at.Bases = append(make([]expr.DataType, 0, 3), expr.String)
			at.References = append(make([]expr.DataType, 0, 3), expr.Int)
			at.UserExamples = append(make([]*expr.ExampleExpr, 0, 3), &expr.ExampleExpr{Summary: "s", Value: 1})
			at.DefaultValue = "d"
		}
	}
	return b
}

// ------------------------------------------------------------------ observation helpers

func flagsOf(f int) (bool, bool, bool) { return f&1 != 0, f&2 != 0, f&4 != 0 }

// dump prints everything reachable from dt that the property treats as owned by the type.
func dump(dt expr.DataType, seen map[string]bool, b *strings.Builder) {
	switch t := dt.(type) {
	case expr.Primitive:
		b.WriteString(t.Name())
	case *expr.Array:
		b.WriteString("[")
		dumpAtt(t.ElemType, seen, b)
		b.WriteString("]")
	case *expr.Map:
		b.WriteString("map<")
		dumpAtt(t.KeyType, seen, b)
		b.WriteString(",")
		dumpAtt(t.ElemType, seen, b)
		b.WriteString(">")
	case *expr.Object:
		b.WriteString("{")
		for _, n := range *t {
			b.WriteString(strconv.Quote(n.Name) + ":")
			dumpAtt(n.Attribute, seen, b)
			b.WriteString(";")
		}
		b.WriteString("}")
	case *expr.Union:
		b.WriteString("union " + strconv.Quote(t.TypeName) + "(")
		for _, n := range t.Values {
			b.WriteString(strconv.Quote(n.Name) + ":")
			dumpAtt(n.Attribute, seen, b)
			b.WriteString("|")
		}
		b.WriteString(")")
	case expr.UserType:
		if t == expr.Empty {
			b.WriteString("Empty")
			return
		}
		b.WriteString("type " + strconv.Quote(t.Name()) + "#" + t.ID())
		if rt, ok := t.(*expr.ResultTypeExpr); ok {
			fmt.Fprintf(b, " result %q views=%d", rt.Identifier, len(rt.Views))
		}
		if seen[t.ID()] {
			return
		}
		seen[t.ID()] = true
		b.WriteString("=")
		dumpAtt(t.Attribute(), seen, b)
	}
}

func dumpAtt(a *expr.AttributeExpr, seen map[string]bool, b *strings.Builder) {
	if a == nil {
		b.WriteString("<nil att>")
		return
	}
	b.WriteString("(")
	if a.Type != nil {
		dump(a.Type, seen, b)
	}
	fmt.Fprintf(b, " desc=%q", a.Description)
	var keys []string
	for k := range a.Meta {
		keys = append(keys, k)
	}
	sort.Strings(keys)
	for _, k := range keys {
		fmt.Fprintf(b, " meta[%q]=%q", k, a.Meta[k])
	}
	if v := a.Validation; v != nil {
		fmt.Fprintf(b, " val{%v %q %q req=%q", v.Values, v.Format, v.Pattern, v.Required)
		for _, p := range []*float64{v.Minimum, v.Maximum, v.ExclusiveMinimum, v.ExclusiveMaximum} {
			if p != nil {
				fmt.Fprintf(b, " %v", *p)
			} else {
				b.WriteString(" nil")
			}
		}
		for _, p := range []*int{v.MinLength, v.MaxLength} {
			if p != nil {
				fmt.Fprintf(b, " %v", *p)
			} else {
				b.WriteString(" nil")
			}
		}
		b.WriteString("}")
	}
	fmt.Fprintf(b, " bases=%d", len(a.Bases))
	for _, x := range a.Bases {
		b.WriteString("," + x.Name())
	}
	fmt.Fprintf(b, " refs=%d", len(a.References))
	for _, x := range a.References {
		b.WriteString("," + x.Name())
	}
	fmt.Fprintf(b, " ex=%d def=%v", len(a.UserExamples), a.DefaultValue)
	b.WriteString(")")
}

// cells collects the addresses of every mutable cell owned by the type graph, by kind.
func cells(dt expr.DataType, out map[uintptr]string, seen map[string]bool) {
	add := func(p uintptr, kind string) {
		if p != 0 {
			out[p] = kind
		}
	}
	var att func(a *expr.AttributeExpr)
	att = func(a *expr.AttributeExpr) {
		if a == nil {
			return
		}
		add(reflect.ValueOf(a).Pointer(), "AttributeExpr")
		if a.Meta != nil {
			add(reflect.ValueOf(a.Meta).Pointer(), "MetaExpr map")
			for _, v := range a.Meta {
				if cap(v) > 0 {
					add(reflect.ValueOf(v).Pointer(), "Meta value slice")
				}
			}
		}
		if v := a.Validation; v != nil {
			add(reflect.ValueOf(v).Pointer(), "ValidationExpr")
			if cap(v.Values) > 0 {
				add(reflect.ValueOf(v.Values).Pointer(), "Validation.Values")
			}
			if cap(v.Required) > 0 {
				add(reflect.ValueOf(v.Required).Pointer(), "Validation.Required")
			}
			for _, p := range []*float64{v.Minimum, v.Maximum, v.ExclusiveMinimum, v.ExclusiveMaximum} {
				if p != nil {
					add(reflect.ValueOf(p).Pointer(), "Validation bound")
				}
			}
			for _, p := range []*int{v.MinLength, v.MaxLength} {
				if p != nil {
					add(reflect.ValueOf(p).Pointer(), "Validation length bound")
				}
			}
		}
		if cap(a.Bases) > 0 {
			add(reflect.ValueOf(a.Bases).Pointer(), "Bases slice")
		}
		if cap(a.References) > 0 {
			add(reflect.ValueOf(a.References).Pointer(), "References slice")
		}
		if cap(a.UserExamples) > 0 {
			add(reflect.ValueOf(a.UserExamples).Pointer(), "UserExamples slice")
		}
		if a.Type != nil {
			cells(a.Type, out, seen)
		}
	}
	switch t := dt.(type) {
	case expr.Primitive:
	case *expr.Array:
		add(reflect.ValueOf(t).Pointer(), "Array")
		att(t.ElemType)
	case *expr.Map:
		add(reflect.ValueOf(t).Pointer(), "Map")
		att(t.KeyType)
		att(t.ElemType)
	case *expr.Object:
		add(reflect.ValueOf(t).Pointer(), "Object")
		if cap(*t) > 0 {
			add(reflect.ValueOf(*t).Pointer(), "Object slice")
		}
		for _, n := range *t {
			add(reflect.ValueOf(n).Pointer(), "NamedAttributeExpr")
			att(n.Attribute)
		}
	case *expr.Union:
		add(reflect.ValueOf(t).Pointer(), "Union")
		if cap(t.Values) > 0 {
			add(reflect.ValueOf(t.Values).Pointer(), "Union.Values slice")
		}
		for _, n := range t.Values {
			add(reflect.ValueOf(n).Pointer(), "NamedAttributeExpr")
			att(n.Attribute)
		}
	case expr.UserType:
		if t == expr.Empty {
			return
		}
		if seen[fmt.Sprintf("%p", t)] {
			return
		}
		seen[fmt.Sprintf("%p", t)] = true
		add(reflect.ValueOf(t).Pointer(), "UserType")
		if rt, ok := t.(*expr.ResultTypeExpr); ok {
			add(reflect.ValueOf(rt.UserTypeExpr).Pointer(), "UserTypeExpr of result type")
			if cap(rt.Views) > 0 {
				add(reflect.ValueOf(rt.Views).Pointer(), "ResultTypeExpr.Views")
			}
		}
		att(t.Attribute())
	}
}

// mutate changes the copy through the public fields and mutators of package expr.
func mutate(r *lp.Rng, dt expr.DataType, seen map[string]bool) {
	var att func(a *expr.AttributeExpr)
	att = func(a *expr.AttributeExpr) {
		if a == nil {
			return
		}
		a.Description = "changed"
		a.AddMeta("verif:new", "x")
		for k, v := range a.Meta {
			a.AddMeta(k, "appended")
			if len(v) > 0 {
				a.Meta[k][0] = "overwritten"
			}
		}
		if v := a.Validation; v != nil {
			v.AddRequired("zz")
			if len(v.Values) > 0 {
				v.Values[0] = "changed"
			}
			v.Values = append(v.Values, "more")
			if len(v.Required) > 0 {
				v.Required[0] = "changed"
			}
			for _, p := range []*float64{v.Minimum, v.Maximum} {
				if p != nil {
					*p = 99
				}
			}
			for _, p := range []*int{v.MinLength, v.MaxLength} {
				if p != nil {
					*p = 99
				}
			}
			v.Pattern = "changed"
		}
		if len(a.Bases) > 0 {
			a.Bases[0] = expr.Boolean
		}
		a.Bases = append(a.Bases, expr.Boolean)
		if len(a.References) > 0 {
			a.References[0] = expr.Boolean
		}
		a.References = append(a.References, expr.Boolean)
		if len(a.UserExamples) > 0 {
			a.UserExamples[0] = &expr.ExampleExpr{Summary: "changed"}
		}
		a.UserExamples = append(a.UserExamples, &expr.ExampleExpr{Summary: "more"})
		t := a.Type
		if t != nil {
			mutate(r, t, seen)
		}
		if r.Intn(4) == 0 {
			a.Type = expr.Boolean
		}
	}
	switch t := dt.(type) {
	case *expr.Array:
		att(t.ElemType)
		if r.Intn(3) == 0 {
			t.ElemType = &expr.AttributeExpr{Type: expr.Boolean}
		}
	case *expr.Map:
		att(t.KeyType)
		att(t.ElemType)
	case *expr.Object:
		for _, n := range *t {
			att(n.Attribute)
		}
		if len(*t) > 0 {
			t.Rename((*t)[0].Name, "renamed")
			if r.Intn(2) == 0 {
				t.Delete((*t)[len(*t)-1].Name)
			}
		}
		t.Set("verif_new", &expr.AttributeExpr{Type: expr.Boolean})
	case *expr.Union:
		for _, n := range t.Values {
			att(n.Attribute)
			n.Name = n.Name + "'"
		}
		t.TypeName = "changed"
		t.Values = append(t.Values, &expr.NamedAttributeExpr{Name: "more", Attribute: &expr.AttributeExpr{Type: expr.Boolean}})
	case expr.UserType:
		if t == expr.Empty || seen[fmt.Sprintf("%p", t)] {
			return
		}
		seen[fmt.Sprintf("%p", t)] = true
		att(t.Attribute())
		t.Rename("Renamed")
		if rt, ok := t.(*expr.ResultTypeExpr); ok {
			rt.Identifier = "changed"
		}
	}
}

func permute(r *lp.Rng, dt expr.DataType, seen map[string]bool) {
	var att func(a *expr.AttributeExpr)
	att = func(a *expr.AttributeExpr) {
		if a != nil && a.Type != nil {
			permute(r, a.Type, seen)
		}
	}
	shuffle := func(s []*expr.NamedAttributeExpr) {
		for i := len(s) - 1; i > 0; i-- {
			j := r.Intn(i + 1)
			s[i], s[j] = s[j], s[i]
		}
	}
	switch t := dt.(type) {
	case *expr.Array:
		att(t.ElemType)
	case *expr.Map:
		att(t.KeyType)
		att(t.ElemType)
	case *expr.Object:
		shuffle(*t)
		for _, n := range *t {
			att(n.Attribute)
		}
	case *expr.Union:
		shuffle(t.Values)
		for _, n := range t.Values {
			att(n.Attribute)
		}
	case expr.UserType:
		if t == expr.Empty || seen[fmt.Sprintf("%p", t)] {
			return
		}
		seen[fmt.Sprintf("%p", t)] = true
		att(t.Attribute())
	}
}

func allHashes(dt expr.DataType) string {
	var hs []string
	for f := 0; f < 8; f++ {
		a, b, c := flagsOf(f)
		hs = append(hs, expr.Hash(dt, a, b, c))
	}
	return strings.Join(hs, "\x00")
}

func run(toks []string) string {
	c := &cur{t: toks, i: 1}
	switch toks[0] {
	case "hash":
		f := c.nat()
		root := c.nat()
		g := parseGraph(c)
		b := build(g)
		x, y, z := flagsOf(f)
		return lp.Enc(expr.Hash(b.nodes[root], x, y, z))
	case "props":
		seed := c.nat()
		root := c.nat()
		g := parseGraph(c)
		r := lp.NewRng(uint64(seed))
		var res []string
		// repeatability (map iteration order, leftover state)
		{
			b := build(g)
			first := allHashes(b.nodes[root])
			ok := "ok"
			for i := 0; i < 40; i++ {
				if allHashes(b.nodes[root]) != first {
					ok = "differs"
					break
				}
			}
			res = append(res, "repeat="+ok)
		}
		// permutation invariance: same graph built twice, one of them with shuffled attribute order
		{
			b1, b2 := build(g), build(g)
			permute(r, b2.nodes[root], map[string]bool{})
			ok := "ok"
			if allHashes(b1.nodes[root]) != allHashes(b2.nodes[root]) {
				ok = "differs"
			} else if !expr.Equal(b1.nodes[root], b2.nodes[root]) {
				ok = "not-equal"
			}
			res = append(res, "perm="+ok)
		}
		// the documented meaning of the flags: names of user types count unless ignoreNames (and
		// always with ignoreFields); struct:field tags count unless ignoreTags
		res = append(res, "names="+checkNames(g, root), "tags="+checkTags(g, root))
		// sharing is not structure: the same graph with every shared array / map / union / object value
		// unfolded into separate copies is structurally equal (decided for graphs without cycles, where
		// the hash of a node does not depend on the path it is reached by)
		shared, cyclic := shape(g, root)
		if shared {
			ug, uroot := unshare(g, root)
			b1, b2 := build(g), build(ug)
			st := "ok"
			if allHashes(b1.nodes[root]) != allHashes(b2.nodes[uroot]) {
				st = "differs"
			} else if !expr.Equal(b1.nodes[root], b2.nodes[uroot]) {
				st = "not-equal"
			}
			if cyclic {
				st = "cyclic-" + st
			}
			res = append(res, "share="+st)
		} else {
			res = append(res, "share=none")
		}
		// copies
		for _, mode := range []string{"dup", "dupatt"} {
			b := build(g)
			orig := b.nodes[root]
			var cp expr.DataType
			if mode == "dup" {
				cp = expr.Dup(orig)
			} else {
				cp = expr.DupAtt(&expr.AttributeExpr{Type: orig, Bases: []expr.DataType{orig}}).Type
			}
			st := "ok"
			if allHashes(orig) != allHashes(cp) || !expr.Equal(orig, cp) {
				st = "hash-differs"
				if shared {
					// a copy holds separate copies of shared values: when it hashes exactly like the unfolded
					// graph, the difference is that of `share` above and not one of the copy
					ug, uroot := unshare(g, root)
					if allHashes(build(ug).nodes[uroot]) == allHashes(cp) {
						st = "hash-differs-as-unshared"
					}
				}
			}
			var d1, d2 strings.Builder
			dump(orig, map[string]bool{}, &d1)
			dump(cp, map[string]bool{}, &d2)
			if d1.String() != d2.String() {
				st = "not-structurally-equal"
			}
			res = append(res, mode+"="+st)
			oc, cc := map[uintptr]string{}, map[uintptr]string{}
			cells(orig, oc, map[string]bool{})
			cells(cp, cc, map[string]bool{})
			sharedKinds := map[string]bool{}
			for p, k := range cc {
				if _, ok := oc[p]; ok {
					sharedKinds[k] = true
				}
			}
			var sk []string
			for k := range sharedKinds {
				sk = append(sk, strings.ReplaceAll(k, " ", "_"))
			}
			sort.Strings(sk)
			res = append(res, mode+"_shared=["+strings.Join(sk, ",")+"]")
			mutate(r, cp, map[string]bool{})
			var d3 strings.Builder
			dump(orig, map[string]bool{}, &d3)
			m := "ok"
			if d3.String() != d1.String() {
				m = "original-changed:" + firstDiff(d1.String(), d3.String())
			}
			res = append(res, mode+"_mut="+m)
			// Equal is "same structural hash": also for a copy that was changed afterwards (same user type ids, other structure)
			if expr.Equal(orig, cp) != (expr.Hash(orig, false, true, true) == expr.Hash(cp, false, true, true)) ||
				expr.Equal(cp, orig) != (expr.Hash(orig, false, true, true) == expr.Hash(cp, false, true, true)) {
				res = append(res, mode+"_equal=disagrees-with-hash")
			} else {
				res = append(res, mode+"_equal=ok")
			}
		}
		return strings.Join(res, " ")
	}
	return "bad-op"
}

// reachable returns the nodes and attributes reachable from root.
func reachable(g *graph, root int) (map[int]bool, map[int]bool) {
	ns, as := map[int]bool{}, map[int]bool{}
	var visit func(n int)
	visit = func(n int) {
		if ns[n] {
			return
		}
		ns[n] = true
		for _, a := range g.nodes[n].atts {
			as[a] = true
			visit(g.atts[a].node)
		}
	}
	visit(root)
	return ns, as
}

// shape reports whether a composite non-user node is reached by two paths from root, and whether the
// graph reachable from root has a cycle.
func shape(g *graph, root int) (shared, cyclic bool) {
	state := map[int]int{} // 1 = on the stack, 2 = finished
	var visit func(n int)
	visit = func(n int) {
		switch state[n] {
		case 1:
			cyclic = true
			return
		case 2:
			if k := g.nodes[n].kind; k != "p" && k != "t" {
				shared = true
			}
			return
		}
		state[n] = 1
		for _, a := range g.nodes[n].atts {
			visit(g.atts[a].node)
		}
		state[n] = 2
	}
	visit(root)
	return
}

// unshare copies the graph reachable from root so that every array, map, union and object node is
// reached by exactly one path (user types stay single nodes; every cycle passes through one).
func unshare(g *graph, root int) (*graph, int) {
	u := &graph{}
	uts := map[int]int{}
	var copyNode func(n int) int
	copyNode = func(n int) int {
		src := g.nodes[n]
		if src.kind == "t" {
			if id, ok := uts[n]; ok {
				return id
			}
		}
		c := src
		c.atts = nil
		c.names = append([]string{}, src.names...)
		id := u.addNode(c)
		if src.kind == "t" {
			uts[n] = id
		}
		var atts []int
		for _, a := range src.atts {
			ga := g.atts[a]
			na := u.addAtt(gatt{})
			t := copyNode(ga.node)
			m := [][]string{}
			for _, e := range ga.meta {
				m = append(m, append([]string{}, e...))
			}
			u.atts[na] = gatt{node: t, meta: m, val: ga.val}
			atts = append(atts, na)
		}
		u.nodes[id].atts = atts
		return id
	}
	return u, copyNode(root)
}

func cloneGraph(g *graph) *graph {
	c := &graph{nodes: append([]gnode{}, g.nodes...)}
	for _, a := range g.atts {
		b := a
		b.meta = nil
		for _, e := range a.meta {
			b.meta = append(b.meta, append([]string{}, e...))
		}
		c.atts = append(c.atts, b)
	}
	return c
}

// visibleTypes returns the user types reachable from root without passing through another
// user type (what Hash still sees when ignoreFields is set).
func visibleTypes(g *graph, root int) map[int]bool {
	seen, vis := map[int]bool{}, map[int]bool{}
	var visit func(n int)
	visit = func(n int) {
		if seen[n] {
			return
		}
		seen[n] = true
		if g.nodes[n].kind == "t" {
			vis[n] = true
			return
		}
		for _, a := range g.nodes[n].atts {
			visit(g.atts[a].node)
		}
	}
	visit(root)
	return vis
}

func checkNames(g *graph, root int) string {
	ns, _ := reachable(g, root)
	vis := visibleTypes(g, root)
	base := build(g).nodes[root]
	tried := 0
	for n := range g.nodes {
		if !ns[n] || g.nodes[n].kind != "t" || tried >= 3 {
			continue
		}
		// a struct:type:name override hides TypeName of plain user types
		over := false
		for _, e := range g.atts[g.nodes[n].atts[0]].meta {
			if e[0] == "struct:type:name" {
				over = true
			}
		}
		if over && !g.nodes[n].result {
			continue
		}
		tried++
		v := cloneGraph(g)
		v.nodes[n].name += "Renamed"
		other := build(v).nodes[root]
		for f := 0; f < 8; f++ {
			a, b, c := flagsOf(f)
			same := expr.Hash(base, a, b, c) == expr.Hash(other, a, b, c)
			namesCount := !b || a
			if a && !vis[n] {
				// with ignoreFields the walk stops at the first user type: nested ones are not hashed
				if !same {
					return fmt.Sprintf("bad:flags=%d:renaming-hidden-user-type-%d-seen", f, n)
				}
				continue
			}
			if namesCount && same {
				return fmt.Sprintf("bad:flags=%d:renaming-user-type-%d-not-seen", f, n)
			}
			if !namesCount && !same {
				return fmt.Sprintf("bad:flags=%d:renaming-user-type-%d-seen-although-names-ignored", f, n)
			}
		}
	}
	return "ok"
}

func checkTags(g *graph, root int) string {
	ns, _ := reachable(g, root)
	base := build(g).nodes[root]
	tried := 0
	for n := range g.nodes {
		if !ns[n] || tried >= 3 {
			continue
		}
		nd := g.nodes[n]
		if nd.kind != "o" && nd.kind != "t" {
			continue
		}
		for _, a := range nd.atts {
			for mi, e := range g.atts[a].meta {
				if !strings.HasPrefix(e[0], "struct:field:") || tried >= 3 {
					continue
				}
				tried++
				v := cloneGraph(g)
				v.atts[a].meta[mi] = append(v.atts[a].meta[mi], "changed")
				other := build(v).nodes[root]
				for f := 0; f < 8; f++ {
					x, y, z := flagsOf(f)
					same := expr.Hash(base, x, y, z) == expr.Hash(other, x, y, z)
					if z && !same {
						return fmt.Sprintf("bad:flags=%d:tag-of-att-%d-seen-although-tags-ignored", f, a)
					}
					if !z && !x && same {
						return fmt.Sprintf("bad:flags=%d:tag-of-att-%d-not-seen", f, a)
					}
				}
			}
		}
	}
	return "ok"
}

func firstDiff(a, b string) string {
	i := 0
	for i < len(a) && i < len(b) && a[i] == b[i] {
		i++
	}
	lo := i - 30
	if lo < 0 {
		lo = 0
	}
	hi := i + 30
	if hi > len(b) {
		hi = len(b)
	}
	return lp.Enc(b[lo:hi])
}
