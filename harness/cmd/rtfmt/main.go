// Command rtfmt is the C17 correspondence driver (tie T3): goa.ValidateFormat and
// goa.ValidatePattern on constructively valid, single-point-corrupted and random strings.
//
//	rtfmt gen -seed N -tier quick|thorough
//	rtfmt run                  one verdict per input line (sequential: the pattern cache
//	                           accumulates history across lines)
//	rtfmt conc -seed N -g G    G goroutines sharing the pattern cache (build with -race)
package main

import (
	"encoding/json"
	"flag"
	"fmt"
	"os"
	"regexp"
	"strconv"
	"strings"
	"sync"
	"time"

	goa "goa.design/goa/v3/pkg"

	"verifharness/internal/lp"
)

func main() {
	if len(os.Args) < 2 {
		os.Exit(2)
	}
	fs := flag.NewFlagSet(os.Args[1], flag.ExitOnError)
	seed := fs.Uint64("seed", 1, "seed")
	tier := fs.String("tier", "quick", "tier")
	g := fs.Int("g", 8, "goroutines")
	fs.Parse(os.Args[2:])
	switch os.Args[1] {
	case "gen":
		gen(*seed, *tier)
	case "run":
		lp.Lines(run)
	case "conc":
		conc(*seed, *g, *tier)
	default:
		os.Exit(2)
	}
}

// ------------------------------------------------------------------ generators

type sample struct {
	s      string
	expect string // A (valid by construction) | R (corrupted) | ? (random)
}

const hexd = "0123456789abcdefABCDEF"

func hexs(r *lp.Rng, n int) string {
	b := make([]byte, n)
	for i := range b {
		b[i] = hexd[r.Intn(len(hexd))]
	}
	return string(b)
}

func pad(n, w int) string { return fmt.Sprintf("%0*d", w, n) }

func daysIn(y, m int) int {
	switch m {
	case 2:
		if (y%4 == 0 && y%100 != 0) || y%400 == 0 {
			return 29
		}
		return 28
	case 4, 6, 9, 11:
		return 30
	}
	return 31
}

func genDate(r *lp.Rng) (int, int, int) {
	y := lp.Pick(r, []int{0, 1, 1600, 1900, 1999, 2000, 2023, 2024, 2100, 9999, r.Intn(10000)})
	m := 1 + r.Intn(12)
	d := 1 + r.Intn(daysIn(y, m))
	if r.Intn(4) == 0 {
		d = daysIn(y, m)
	}
	return y, m, d
}

func mutateAt(r *lp.Rng, s string, repl string) string {
	if s == "" {
		return repl
	}
	i := r.Intn(len(s))
	return s[:i] + repl + s[i+1:]
}

func dates(r *lp.Rng) []sample {
	y, m, d := genDate(r)
	v := pad(y, 4) + "-" + pad(m, 2) + "-" + pad(d, 2)
	return []sample{
		{v, "A"},
		{pad(y, 4) + "-13-" + pad(d, 2), "R"},
		{pad(y, 4) + "-00-" + pad(d, 2), "R"},
		{pad(y, 4) + "-" + pad(m, 2) + "-" + pad(daysIn(y, m)+1, 2), "R"},
		{pad(y, 4) + "-" + pad(m, 2) + "-00", "R"},
		{pad(y, 4) + "/" + pad(m, 2) + "/" + pad(d, 2), "R"},
		{pad(y, 4) + "-" + strconv.Itoa(m) + "-" + pad(d, 2) + lp.Pick(r, []string{"x", " ", "T"}), "R"},
		{v[2:], "R"},
		{mutateAt(r, v, lp.Pick(r, []string{"a", " ", ":"})), "R"},
	}
}

func dateTimes(r *lp.Rng) []sample {
	y, m, d := genDate(r)
	if y == 0 {
		y = 4 // RFC 3339 has no year 0; year 4 is a leap year like year 0, so the day stays valid
	}
	date := pad(y, 4) + "-" + pad(m, 2) + "-" + pad(d, 2)
	hh, mm, ss := r.Intn(24), r.Intn(60), r.Intn(60)
	tm := pad(hh, 2) + ":" + pad(mm, 2) + ":" + pad(ss, 2)
	frac := lp.Pick(r, []string{"", "", ".5", ".123456789", ".000"})
	zone := lp.Pick(r, []string{"Z", "+00:00", "-07:00", "+05:30", "+14:00", "-12:00"})
	v := date + "T" + tm + frac + zone
	return []sample{
		{v, "A"},
		{date + "T" + tm + frac, "R"},
		{date + "X" + tm + frac + zone, "R"},
		{pad(y, 4) + "-13-" + pad(d, 2) + "T" + tm + zone, "R"},
		{date + "T25:" + pad(mm, 2) + ":" + pad(ss, 2) + zone, "R"},
		{date + "T" + pad(hh, 2) + ":61:" + pad(ss, 2) + zone, "R"},
		{date + "T" + tm + "." + zone, "R"},
		{date, "R"},
		{date + "T" + tm + frac + zone + "x", "R"},
	}
}

func uuidCore(r *lp.Rng, variant string) string {
	return hexs(r, 8) + "-" + hexs(r, 4) + "-" + hexs(r, 4) + "-" + variant + hexs(r, 3) + "-" + hexs(r, 12)
}

func uuids(r *lp.Rng) []sample {
	good := lp.Pick(r, []string{"8", "9", "a", "b", "A", "B"})
	bad := lp.Pick(r, []string{"0", "1", "7", "c", "d", "e", "f", "C", "F"})
	c := uuidCore(r, good)
	raw := strings.ReplaceAll(c, "-", "")
	return []sample{
		{c, "A"},
		{lp.Pick(r, []string{"urn:uuid:", "URN:UUID:", "Urn:Uuid:"}) + c, "A"},
		{"{" + c + "}", "A"},
		{raw, "A"},
		{uuidCore(r, bad), "R"},
		{strings.ReplaceAll(uuidCore(r, bad), "-", ""), "R"},
		{c[:8] + c[9:13] + "-" + c[13:], "R"},
		{mutateAt(r, raw, lp.Pick(r, []string{"g", "-", " ", "z"})), "R"},
		{c + "0", "R"},
		{c[1:], "R"},
		{"urn:uuix:" + c, "R"},
		{"{" + c, "R"},
		{lp.Pick(r, []string{"x", "(", "[", " "}) + c + "}", "R"},
		{"{" + c + lp.Pick(r, []string{"x", ")", "]", "{"}), "R"},
	}
}

func label(r *lp.Rng) string {
	const an = "abcdefghijklmnopqrstuvwxyzABCDEFGHIJKLMNOPQRSTUVWXYZ0123456789"
	n := 1 + r.Intn(lp.Pick(r, []int{1, 3, 10, 63}))
	b := make([]byte, n)
	for i := range b {
		if i > 0 && i < n-1 && r.Intn(6) == 0 {
			b[i] = '-'
		} else {
			b[i] = an[r.Intn(len(an))]
		}
	}
	return string(b)
}

func hostname(r *lp.Rng) string {
	n := 1 + r.Intn(4)
	var ls []string
	for i := 0; i < n; i++ {
		ls = append(ls, label(r))
	}
	return strings.Join(ls, ".")
}

func hostnames(r *lp.Rng) []sample {
	h := hostname(r)
	return []sample{
		{h, "A"},
		{lp.Pick(r, []string{"goa.design", "a", "a.b", "x1.y2.z3", "localhost", "EXAMPLE.COM", "1.2.3.4", "a.1", "7"}), "A"},
		{"-" + h, "R"},
		{h + "-", "R"},
		{h + ".-x", "R"},
		{strings.Replace(h, h[:1], "_", 1), "R"},
		{h + lp.Pick(r, []string{" ", "!", "_", "/", "é"}) + "x", "R"},
		{h + "..com", "R"},
		{"." + h, "R"},
		{strings.Repeat("a", 64) + ".com", "R"},
		{lp.Pick(r, []string{"ab cd!!", "foo_bar.com", "_hi_", "", " "}), "R"},
	}
}

func octet(r *lp.Rng) string { return strconv.Itoa(lp.Pick(r, []int{0, 1, 9, 10, 99, 100, 199, 200, 249, 250, 255, r.Intn(256)})) }

func ipv4(r *lp.Rng) string { return octet(r) + "." + octet(r) + "." + octet(r) + "." + octet(r) }

func ipv4s(r *lp.Rng) []sample {
	v := ipv4(r)
	p := strings.Split(v, ".")
	return []sample{
		{v, "A"},
		{p[0] + "." + p[1] + "." + p[2] + "." + strconv.Itoa(256+r.Intn(744)), "R"},
		{"0" + p[0] + "." + p[1] + "." + p[2] + "." + p[3], "R"},
		{p[0] + "." + p[1] + "." + p[2], "R"},
		{v + "." + p[0], "R"},
		{p[0] + ".." + p[2] + "." + p[3], "R"},
		{mutateAt(r, v, lp.Pick(r, []string{"a", " ", ":", "-"})), "R"},
		{v + " ", "R"},
		{" " + v, "R"},
		{"::ffff:" + v, "R"}, // an IPv6 address, not an IPv4 one
		{"0:0:0:0:0:ffff:" + v, "R"},
	}
}

func h16(r *lp.Rng) string { return strings.ToLower(hexs(r, 1+r.Intn(4))) }

func ipv6(r *lp.Rng) string {
	switch r.Intn(5) {
	case 0:
		var g []string
		for i := 0; i < 8; i++ {
			g = append(g, h16(r))
		}
		return strings.Join(g, ":")
	case 1:
		a, b := r.Intn(4), r.Intn(4)
		var l, rr []string
		for i := 0; i < a; i++ {
			l = append(l, h16(r))
		}
		for i := 0; i < b; i++ {
			rr = append(rr, h16(r))
		}
		return strings.Join(l, ":") + "::" + strings.Join(rr, ":")
	case 2:
		return lp.Pick(r, []string{"::ffff:", "::", "64:ff9b::", "0:0:0:0:0:ffff:"}) + ipv4(r)
	case 3:
		return lp.Pick(r, []string{"::", "::1", "fe80::1", "2001:db8::", "ff02::2"})
	default:
		return "2001:db8:" + h16(r) + "::" + h16(r)
	}
}

func ipv6s(r *lp.Rng) []sample {
	v := ipv6(r)
	return []sample{
		{v, "A"},
		{"1:2:3:4:5:6:7:8:9", "R"},
		{"1::2::3", "R"},
		{"12345::1", "R"},
		{"fe80::1%eth0", "R"},
		{"g::1", "R"},
		{v + " ", "R"},
		{":" + strings.TrimLeft(v, ":") + ":x", "R"},
		{ipv4(r), "R"}, // an IPv4 address, not an IPv6 one
	}
}

func macs(r *lp.Rng) []sample {
	n := lp.Pick(r, []int{6, 8, 20})
	sep := lp.Pick(r, []string{":", "-"})
	var g []string
	for i := 0; i < n; i++ {
		g = append(g, hexs(r, 2))
	}
	v := strings.Join(g, sep)
	dn := lp.Pick(r, []int{3, 4, 10})
	var dg []string
	for i := 0; i < dn; i++ {
		dg = append(dg, hexs(r, 4))
	}
	dv := strings.Join(dg, ".")
	bad := lp.Pick(r, []int{1, 2, 5, 7, 9, 19, 21})
	var bg []string
	for i := 0; i < bad; i++ {
		bg = append(bg, hexs(r, 2))
	}
	return []sample{
		{v, "A"}, {dv, "A"},
		{strings.Join(bg, sep), "R"},
		{strings.Replace(v, sep, lp.Pick(r, []string{".", " ", "_"}), 1), "R"},
		{mutateAt(r, strings.Join(g, ""), "g") + sep, "R"},
		{v[1:], "R"},
		{v + sep, "R"},
		{strings.Join(g, ""), "R"},
		{dv + ".1", "R"},
		{"zz" + v[2:], "R"},
	}
}

func cidrs(r *lp.Rng) []sample {
	v4 := ipv4(r)
	n := lp.Pick(r, []int{0, 1, 8, 24, 31, 32, r.Intn(33)})
	v6 := ipv6(r)
	n6 := lp.Pick(r, []int{0, 64, 128, r.Intn(129)})
	return []sample{
		{v4 + "/" + strconv.Itoa(n), "A"},
		{v6 + "/" + strconv.Itoa(n6), "A"},
		{v4 + "/" + strconv.Itoa(33+r.Intn(100)), "R"},
		{v6 + "/129", "R"},
		{v4, "R"},
		{v4 + "/", "R"},
		{v4 + "/-1", "R"},
		{v4 + "/" + strconv.Itoa(n) + "/" + strconv.Itoa(n), "R"},
		{"/" + strconv.Itoa(n), "R"},
		{v4 + "/a", "R"},
		{v4 + ".1/" + strconv.Itoa(n), "R"},
		{v4 + " /" + strconv.Itoa(n), "R"},
	}
}

func emails(r *lp.Rng) []sample {
	loc := lp.Pick(r, []string{"john", "john.doe", "a+b", "x_y-z", "A1"})
	dom := hostname(r)
	return []sample{
		{loc + "@" + dom, "A"},
		{"John Doe <" + loc + "@" + dom + ">", "A"},
		{"\"quoted local\"@" + dom, "A"},
		{loc + dom, "R"},
		{loc + "@", "R"},
		{"@" + dom, "R"},
		{"a b@" + dom, "R"},
		{loc + "@" + dom + ">", "R"},
		{"", "R"},
		{"<" + loc + "@" + dom, "R"},
	}
}

func uris(r *lp.Rng) []sample {
	h := hostname(r)
	return []sample{
		{lp.Pick(r, []string{"http", "https", "ftp", "x-y"}) + "://" + h + lp.Pick(r, []string{"", "/", "/a/b?c=d#e", ":8080/p%20q"}), "A"},
		{"/" + lp.Pick(r, []string{"", "a", "a/b%2Fc?x=1"}), "A"},
		{"urn:isbn:0451450523", "A"},
		{"mailto:" + h, "A"},
		{"", "R"},
		{"relative/path", "R"},
		{h, "R"},
		{"/a%zzb", "R"},
		{"http://[::1/x", "R"},
		{"http://a b/", "R"},
		{"://" + h, "R"},
		{"ht tp://" + h, "R"},
	}
}

func regexSrc(r *lp.Rng, depth int) string {
	if depth <= 0 {
		return lp.Pick(r, []string{"a", "b", "ab", "[a-c]", "[^a]", "\\d", "\\w+", ".", "x?", "^a", "b$", "[[:alpha:]]", "(?i)q"})
	}
	switch r.Intn(6) {
	case 0:
		return regexSrc(r, depth-1) + regexSrc(r, depth-1)
	case 1:
		return "(" + regexSrc(r, depth-1) + "|" + regexSrc(r, depth-1) + ")"
	case 2:
		return "(?:" + regexSrc(r, depth-1) + ")" + lp.Pick(r, []string{"*", "+", "?", "{2}", "{1,3}", "{0,}"})
	case 3:
		return "^" + regexSrc(r, depth-1) + "$"
	default:
		return regexSrc(r, depth-1)
	}
}

func regexps(r *lp.Rng) []sample {
	v := regexSrc(r, 1+r.Intn(3))
	return []sample{
		{v, "A"},
		{"(" + v, "R"},
		{v + ")", "R"},
		{"[a" + v[:0], "R"},
		{"*" + v, "R"},
		{v + "\\", "R"},
		{"a{2,1}", "R"},
		{"(?P<n" + v + ")", "R"},
		{"[z-a]", "R"},
		{"\\8", "R"},
	}
}

func jsonVal(r *lp.Rng, depth int) any {
	if depth <= 0 {
		return lp.Pick(r, []any{nil, true, false, 0, -1.5, 1e10, "", "str \" \\ é", "x"})
	}
	switch r.Intn(3) {
	case 0:
		n := r.Intn(3)
		a := make([]any, n)
		for i := range a {
			a[i] = jsonVal(r, depth-1)
		}
		return a
	case 1:
		n := r.Intn(3)
		m := map[string]any{}
		for i := 0; i < n; i++ {
			m[lp.Pick(r, []string{"a", "b", "k y", ""})] = jsonVal(r, depth-1)
		}
		return m
	}
	return jsonVal(r, 0)
}

func jsons(r *lp.Rng) []sample {
	b, _ := json.Marshal(jsonVal(r, 1+r.Intn(3)))
	v := string(b)
	return []sample{
		{v, "A"},
		{" " + v + "\n", "A"},
		{"[" + v + ",]", "R"},
		{"{a:" + v + "}", "R"},
		{"{'a':" + v + "}", "R"},
		{"[" + v, "R"},
		{v + "]", "R"},
		{"", "R"},
		{v + " " + v, "R"},
		{"[01]", "R"},
		{"nul", "R"},
		{"\"\\x\"", "R"},
	}
}

func rfc1123s(r *lp.Rng) []sample {
	y, m, d := genDate(r)
	if y < 1 {
		y = 1
	}
	t := time.Date(y, time.Month(m), d, r.Intn(24), r.Intn(60), r.Intn(60), 0, time.UTC)
	v := t.Format(time.RFC1123)
	gmt := strings.Replace(v, "UTC", lp.Pick(r, []string{"GMT", "MST", "PST"}), 1)
	return []sample{
		{v, "A"}, {gmt, "A"},
		{strings.Replace(v, ",", "", 1), "R"},
		{strings.Replace(v, t.Format("Jan"), "Foo", 1), "R"},
		{v[5:], "R"},
		{strings.Replace(v, t.Format("15:04:05"), "25:00:00", 1), "R"},
		{strings.Replace(v, t.Format("15:04:05"), t.Format("15:04"), 1), "R"},
		{v + " x", "R"},
		{t.Format(time.RFC3339), "R"},
		{strings.Replace(v, t.Format("02"), "32", 1), "R"},
	}
}

var gens = map[string]func(*lp.Rng) []sample{
	"date": dates, "date-time": dateTimes, "uuid": uuids, "email": emails, "hostname": hostnames,
	"ipv4": ipv4s, "ipv6": ipv6s, "uri": uris, "mac": macs, "cidr": cidrs, "regexp": regexps,
	"json": jsons, "rfc1123": rfc1123s,
}

var fmtNames = []string{"date", "date-time", "uuid", "email", "hostname", "ipv4", "ipv6", "uri", "mac", "cidr", "regexp", "json", "rfc1123"}

func randomNoise(r *lp.Rng, name string) string {
	alpha := map[string]string{
		"date": "0123456789--", "ipv4": "0123456789...", "ipv6": "0123456789abcdef::::.", "mac": "0123456789abcdef::--..",
		"hostname": "abcXYZ019-._ ", "uuid": "0123456789abcdef-{}", "cidr": "0123456789./",
	}[name]
	if alpha == "" {
		alpha = "ab01 .:/-@{}[]\"\\"
	}
	n := r.Intn(20)
	b := make([]byte, n)
	for i := range b {
		b[i] = alpha[r.Intn(len(alpha))]
	}
	return string(b)
}

func gen(seed uint64, tier string) {
	r := lp.NewRng(seed)
	rounds := 60
	if tier == "thorough" {
		rounds = 6000
	}
	for i := 0; i < rounds; i++ {
		for _, name := range fmtNames {
			for _, s := range gens[name](r) {
				fmt.Printf("fmt %s %s %s\n", name, lp.Enc(s.s), s.expect)
			}
			for k := 0; k < 3; k++ {
				fmt.Printf("fmt %s %s ?\n", name, lp.Enc(randomNoise(r, name)))
			}
		}
		// the three IP formats on the same string
		for _, v := range []string{ipv4(r), ipv6(r), randomNoise(r, "ipv6"), randomNoise(r, "ipv4"), "::ffff:" + ipv4(r)} {
			fmt.Printf("ip3 %s\n", lp.Enc(v))
		}
	}
	for _, n := range []string{"", "Date", "datetime", "ipv5", "hostname ", "uuid4"} {
		fmt.Printf("fmt %s %s R\n", lp.Enc(n)+"!", lp.Enc("2024-01-01"))
	}
	// patterns: a growing population of distinct patterns, revisited at random (cache history)
	np := 300
	if tier == "thorough" {
		np = 3000
	}
	var pats []string
	for len(pats) < np {
		pats = append(pats, regexSrc(r, 1+r.Intn(3)))
		for k := 0; k < 4; k++ {
			p := lp.Pick(r, pats)
			if k == 0 {
				p = pats[len(pats)-1]
			}
			v := randomValue(r)
			fmt.Printf("pat %s %s\n", lp.Enc(p), lp.Enc(v))
		}
	}
}

func randomValue(r *lp.Rng) string {
	const a = "aabbcxq01 "
	n := r.Intn(6)
	b := make([]byte, n)
	for i := range b {
		b[i] = a[r.Intn(len(a))]
	}
	return string(b)
}

// ------------------------------------------------------------------ execution

func verdict(err error) string {
	if err == nil {
		return "1"
	}
	return "0"
}

func run(toks []string) string {
	switch toks[0] {
	case "fmt":
		name := toks[1]
		if strings.HasSuffix(name, "!") {
			name = lp.MustDec(strings.TrimSuffix(name, "!"))
		}
		err := goa.ValidateFormat("f", lp.MustDec(toks[2]), goa.Format(name))
		out := "v=" + verdict(err)
		if err != nil {
			if n, ok := err.(goa.GoaErrorNamer); ok && n.GoaErrorName() == "invalid_format" {
				out += " e=invalid_format"
			} else {
				out += " e=other"
			}
		}
		return out
	case "ip3":
		v := lp.MustDec(toks[1])
		return fmt.Sprintf("ipv4=%s ipv6=%s ip=%s", verdict(goa.ValidateFormat("f", v, goa.FormatIPv4)),
			verdict(goa.ValidateFormat("f", v, goa.FormatIPv6)), verdict(goa.ValidateFormat("f", v, goa.FormatIP)))
	case "pat":
		p, v := lp.MustDec(toks[1]), lp.MustDec(toks[2])
		ref, _ := regexp.MatchString(p, v)
		got := goa.ValidatePattern("f", v, p) == nil
		return fmt.Sprintf("v=%v ref=%v", got, ref)
	}
	return "bad-op"
}

// conc drives ValidatePattern from g goroutines over a shared population of patterns and
// compares every verdict with regexp.MatchString; meant to run in a -race build.
func conc(seed uint64, g int, tier string) {
	r := lp.NewRng(seed)
	np := 200
	per := 3000
	if tier == "thorough" {
		np, per = 1500, 40000
	}
	var pats []string
	for i := 0; i < np; i++ {
		pats = append(pats, regexSrc(r, 1+r.Intn(3)))
	}
	type call struct{ p, v string }
	work := make([][]call, g)
	for i := range work {
		rr := lp.NewRng(seed*1000 + uint64(i))
		for k := 0; k < per; k++ {
			work[i] = append(work[i], call{lp.Pick(rr, pats), randomValue(rr)})
		}
	}
	var wg sync.WaitGroup
	var mu sync.Mutex
	bad := 0
	first := ""
	start := make(chan struct{})
	for i := 0; i < g; i++ {
		wg.Add(1)
		go func(cs []call) {
			defer wg.Done()
			<-start
			for _, c := range cs {
				ref, _ := regexp.MatchString(c.p, c.v)
				got := goa.ValidatePattern("f", c.v, c.p) == nil
				if got != ref {
					mu.Lock()
					bad++
					if first == "" {
						first = fmt.Sprintf("pattern=%s value=%s got=%v want=%v", lp.Enc(c.p), lp.Enc(c.v), got, ref)
					}
					mu.Unlock()
				}
			}
		}(work[i])
	}
	close(start)
	wg.Wait()
	fmt.Printf("conc goroutines=%d calls=%d patterns=%d mismatches=%d %s\n", g, g*per, np, bad, first)
	if bad > 0 {
		os.Exit(3)
	}
}
