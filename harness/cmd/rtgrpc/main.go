// Command rtgrpc is a C10 correspondence driver (tie T3) for goa's gRPC runtime: the unary server
// handler (grpc/handler.go) and the client invoker (grpc/client.go) over a real grpc transport
// (bufconn), with hand-written stand-ins for the generated decoders/encoders whose behaviour each
// line scripts. (The generated response header/trailer code does not compile — a recorded finding —
// so designs cannot reach this part of the runtime.)
//
//	rtgrpc gen -seed N -tier quick|thorough
//	rtgrpc run
//
// line:   unary <dec> <ep> <enc> H <n> (<key> <m> <hex value>*)* T <n> (...)*
// step:   ok | plain | svc<timeout><temporary><fault>
// output: code=<grpc status code> ran=<0|1> result=<0|1> hdr=<k:v,v;...> trlr=<...>
package main

import (
	"bufio"
	"context"
	"errors"
	"flag"
	"fmt"
	"net"
	"os"
	"sort"
	"strconv"
	"strings"
	"sync/atomic"

	"google.golang.org/grpc"
	"google.golang.org/grpc/credentials/insecure"
	"google.golang.org/grpc/metadata"
	"google.golang.org/grpc/status"
	"google.golang.org/grpc/test/bufconn"
	"google.golang.org/protobuf/types/known/wrapperspb"

	goagrpc "goa.design/goa/v3/grpc"
	goa "goa.design/goa/v3/pkg"

	"verifharness/internal/lp"
)

func main() {
	if len(os.Args) < 2 {
		os.Exit(2)
	}
	switch os.Args[1] {
	case "gen":
		fs := flag.NewFlagSet("gen", flag.ExitOnError)
		seed := fs.Uint64("seed", 1, "seed")
		tier := fs.String("tier", "quick", "tier")
		fs.Parse(os.Args[2:])
		gen(*seed, *tier)
	case "run":
		run()
	}
}

var steps = []string{"ok", "ok", "ok", "plain", "svc000", "svc100", "svc010", "svc001", "svc110", "svc011", "svc111"}
var keys = []string{"x-a", "x-b", "x-view", "x-bin-ish"}
var vals = []string{"v", "two words", "", "a,b", "é", "0"}

func genMD(r *lp.Rng) string {
	n := r.Intn(4)
	if r.Intn(3) == 0 {
		n = 0
	}
	var b strings.Builder
	used := map[string]bool{}
	var parts []string
	for i := 0; i < n; i++ {
		k := lp.Pick(r, keys)
		if used[k] {
			continue
		}
		used[k] = true
		m := 1 + r.Intn(3)
		p := k + " " + strconv.Itoa(m)
		for j := 0; j < m; j++ {
			p += " " + lp.Enc(lp.Pick(r, vals))
		}
		parts = append(parts, p)
	}
	fmt.Fprintf(&b, "%d", len(parts))
	for _, p := range parts {
		b.WriteString(" " + p)
	}
	return b.String()
}

func gen(seed uint64, tier string) {
	r := lp.NewRng(seed*7907 + 3)
	n := 400
	if tier == "thorough" {
		n = 4000
	}
	// every combination of outcomes once with both kinds of metadata present, then random ones
	for _, d := range []string{"ok", "plain", "svc010"} {
		for _, e := range []string{"ok", "plain", "svc001"} {
			for _, c := range []string{"ok", "plain", "svc100"} {
				fmt.Printf("unary %s %s %s H 1 x-a 1 %s T 1 x-b 2 %s %s\n", d, e, c, lp.Enc("h"), lp.Enc("t1"), lp.Enc("t2"))
			}
		}
	}
	for i := 0; i < n; i++ {
		fmt.Printf("unary %s %s %s H %s T %s\n", lp.Pick(r, steps), lp.Pick(r, steps), lp.Pick(r, steps), genMD(r), genMD(r))
	}
	// the stream handler: Decode (request message and metadata, before the endpoint) then Handle (the endpoint with the stream)
	for _, d := range steps {
		for _, e := range steps {
			fmt.Printf("stream %s %s\n", d, e)
		}
	}
}

type spec struct {
	dec, ep, enc string
	hdr, trlr    metadata.MD
}

func parseMD(toks []string) (metadata.MD, []string) {
	n, _ := strconv.Atoi(toks[0])
	toks = toks[1:]
	md := metadata.MD{}
	for i := 0; i < n; i++ {
		k := toks[0]
		m, _ := strconv.Atoi(toks[1])
		for j := 0; j < m; j++ {
			md.Append(k, lp.MustDec(toks[2+j]))
		}
		toks = toks[2+m:]
	}
	return md, toks
}

func parse(line string) (*spec, error) {
	t := strings.Fields(line)
	if len(t) < 7 || t[0] != "unary" || t[4] != "H" {
		return nil, errors.New("bad-op")
	}
	s := &spec{dec: t[1], ep: t[2], enc: t[3]}
	var rest []string
	s.hdr, rest = parseMD(t[5:])
	if len(rest) < 2 || rest[0] != "T" {
		return nil, errors.New("bad-op")
	}
	s.trlr, _ = parseMD(rest[1:])
	return s, nil
}

func failure(step, where string) error {
	switch {
	case step == "ok":
		return nil
	case step == "plain":
		return errors.New(where + " failed")
	default: // svc<timeout><temporary><fault>
		return &goa.ServiceError{Name: "boom", ID: "id", Message: where, Timeout: step[3] == '1', Temporary: step[4] == '1', Fault: step[5] == '1'}
	}
}

var ran atomic.Int32

func serverUnary(_ any, ctx context.Context, dec func(any) error, _ grpc.UnaryServerInterceptor) (any, error) {
	in := new(wrapperspb.StringValue)
	if err := dec(in); err != nil {
		return nil, err
	}
	s, err := parse(in.Value)
	if err != nil {
		return nil, err
	}
	h := goagrpc.NewUnaryHandler(
		func(ctx context.Context, req any) (any, error) {
			ran.Add(1)
			return "result", failure(s.ep, "endpoint")
		},
		func(ctx context.Context, pb any, md metadata.MD) (any, error) { return "payload", failure(s.dec, "decoder") },
		func(ctx context.Context, v any, hdr, trlr *metadata.MD) (any, error) {
			for k, vs := range s.hdr {
				hdr.Append(k, vs...)
			}
			for k, vs := range s.trlr {
				trlr.Append(k, vs...)
			}
			return wrapperspb.String("response"), failure(s.enc, "encoder")
		})
	// what the generated server code does with the handler's outcome
	resp, err := h.Handle(ctx, in)
	if err != nil {
		return nil, goagrpc.EncodeError(err)
	}
	return resp, nil
}

func show(md metadata.MD) string {
	var ks []string
	for k := range md {
		if strings.HasPrefix(k, "x-") {
			ks = append(ks, k)
		}
	}
	sort.Strings(ks)
	var parts []string
	for _, k := range ks {
		var vs []string
		for _, v := range md[k] {
			vs = append(vs, lp.Enc(v))
		}
		parts = append(parts, k+":"+strings.Join(vs, ","))
	}
	if len(parts) == 0 {
		return "~"
	}
	return strings.Join(parts, ";")
}

func run() {
	lis := bufconn.Listen(1 << 20)
	srv := grpc.NewServer()
	srv.RegisterService(&grpc.ServiceDesc{ServiceName: "verif.Svc", HandlerType: (*any)(nil),
		Methods: []grpc.MethodDesc{{MethodName: "Unary", Handler: serverUnary}}}, struct{}{})
	go srv.Serve(lis) // nolint: errcheck
	conn, err := grpc.NewClient("passthrough:///bufnet", grpc.WithContextDialer(func(context.Context, string) (net.Conn, error) { return lis.Dial() }),
		grpc.WithTransportCredentials(insecure.NewCredentials()))
	if err != nil {
		fmt.Println("harness:", err)
		os.Exit(1)
	}
	in := bufio.NewScanner(os.Stdin)
	in.Buffer(make([]byte, 1<<20), 1<<24)
	out := bufio.NewWriter(os.Stdout)
	defer out.Flush()
	for in.Scan() {
		line := strings.TrimSpace(in.Text())
		if t := strings.Fields(line); len(t) == 3 && t[0] == "stream" {
			// what the generated server does: Decode, and only then Handle; errors go through EncodeError
			ran.Store(0)
			h := goagrpc.NewStreamHandler(
				func(ctx context.Context, req any) (any, error) { ran.Add(1); return nil, failure(t[2], "endpoint") },
				func(ctx context.Context, pb any, md metadata.MD) (any, error) { return "payload", failure(t[1], "decoder") })
			_, err := h.Decode(context.Background(), wrapperspb.String("x"))
			if err == nil {
				err = h.Handle(context.Background(), "stream")
			}
			code := 0
			if err != nil {
				st, _ := status.FromError(goagrpc.EncodeError(err))
				code = int(st.Code())
			}
			fmt.Fprintf(out, "code=%d ran=%d\n", code, ran.Load())
			out.Flush()
			continue
		}
		if _, err := parse(line); err != nil {
			fmt.Fprintln(out, "bad-op")
			out.Flush()
			continue
		}
		ran.Store(0)
		var gotH, gotT metadata.MD
		inv := goagrpc.NewInvoker(
			func(ctx context.Context, reqpb any, opts ...grpc.CallOption) (any, error) {
				res := new(wrapperspb.StringValue)
				err := conn.Invoke(ctx, "/verif.Svc/Unary", reqpb, res, opts...)
				return res, err
			},
			func(ctx context.Context, v any, md *metadata.MD) (any, error) { return wrapperspb.String(v.(string)), nil },
			func(ctx context.Context, resp any, hdr, trlr metadata.MD) (any, error) {
				gotH, gotT = hdr, trlr
				return resp.(*wrapperspb.StringValue).Value, nil
			})
		res, err := inv.Invoke(context.Background(), line)
		code := 0
		if err != nil {
			st, _ := status.FromError(err)
			code = int(st.Code())
		}
		fmt.Fprintf(out, "code=%d ran=%d result=%s hdr=%s trlr=%s\n", code, ran.Load(), map[bool]string{true: "1", false: "0"}[res == "response"], show(gotH), show(gotT))
		out.Flush()
	}
}
