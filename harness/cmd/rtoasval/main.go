// Command rtoasval (C14) asks an independent implementation of OpenAPI 3 (kin-openapi's
// openapi3filter) whether recorded HTTP exchanges conform to a generated openapi3.json:
// the request against the operation's parameters and request body, the response against the
// documented response of its status code.
//
//	rtoasval -doc openapi3.json < exchanges.jsonl   (one JSON exchange per line, one verdict per line)
package main

import (
	"bufio"
	"bytes"
	"context"
	"encoding/json"
	"flag"
	"fmt"
	"io"
	"net/http"
	"os"
	"strings"

	"github.com/getkin/kin-openapi/openapi3"
	"github.com/getkin/kin-openapi/openapi3filter"
	"github.com/getkin/kin-openapi/routers"
	"github.com/getkin/kin-openapi/routers/legacy"
)

type exchange struct {
	Method      string              `json:"method"`
	Path        string              `json:"path"`
	RawQuery    string              `json:"raw_query"`
	Headers     map[string][]string `json:"headers"`
	Body        string              `json:"body"`
	Status      int                 `json:"status"`
	RespHeaders map[string][]string `json:"resp_headers"`
	RespBody    string              `json:"resp_body"`
}

type verdict struct {
	DocError     string `json:"doc_error,omitempty"`
	RouteFound   bool   `json:"route_found"`
	RequestOK    bool   `json:"request_ok"`
	RequestErr   string `json:"request_err,omitempty"`
	ResponseOK   bool   `json:"response_ok"`
	ResponseErr  string `json:"response_err,omitempty"`
	ResponseDocd bool   `json:"response_documented"`
}

func short(err error) string {
	s := err.Error()
	// keep the reason and the JSON pointer, drop the echoed schema and value
	if i := strings.Index(s, "\nSchema:"); i > 0 {
		s = s[:i]
	}
	s = strings.ReplaceAll(s, "\n", " | ")
	if len(s) > 400 {
		s = s[:400]
	}
	return s
}

func main() {
	docPath := flag.String("doc", "", "openapi3.json")
	flag.Parse()
	out := bufio.NewWriter(os.Stdout)
	defer out.Flush()
	enc := json.NewEncoder(out)
	loader := openapi3.NewLoader()
	raw, err := os.ReadFile(*docPath)
	if err != nil {
		fmt.Fprintln(os.Stderr, err)
		os.Exit(2)
	}
	// Two defects of the documents recorded under C07 would make the independent loader refuse
	// most documents: generated examples that contradict their own schema, and the JSON-Schema-2019
	// spelling of exclusive bounds (a number) where OpenAPI 3.0 has `minimum` + a boolean. Examples
	// are removed and exclusive bounds re-spelt so that the schemas themselves can be judged.
	var tree any
	normalised := 0
	if json.Unmarshal(raw, &tree) == nil {
		tree = normalise(tree, "", &normalised)
		raw, _ = json.Marshal(tree)
	}
	doc, err := loader.LoadFromData(raw)
	var router routers.Router
	docErr := ""
	if err != nil {
		docErr = short(err)
	} else {
		// examples are C07's business; here the schemas are what matters
		doc.Servers = nil // match on the path alone
		router, err = legacy.NewRouter(doc, openapi3.DisableExamplesValidation())
		if err != nil && docErr == "" {
			docErr = short(err)
		}
	}
	openapi3.SchemaErrorDetailsDisabled = false
	in := bufio.NewScanner(os.Stdin)
	in.Buffer(make([]byte, 1<<20), 1<<26)
	for in.Scan() {
		var ex exchange
		v := verdict{DocError: docErr}
		if err := json.Unmarshal(in.Bytes(), &ex); err != nil || router == nil {
			enc.Encode(v)
			continue
		}
		func() {
			defer func() {
				if r := recover(); r != nil {
					v.RequestErr = fmt.Sprint("validator panic: ", r)
				}
			}()
			target := ex.Path
			if ex.RawQuery != "" {
				target += "?" + ex.RawQuery
			}
			req, err := http.NewRequest(ex.Method, "http://example.com"+target, bytes.NewReader([]byte(ex.Body)))
			if err != nil {
				v.RequestErr = short(err)
				return
			}
			for k, vs := range ex.Headers {
				// RFC 9110 5.3: repeated field lines are the comma-separated list; that is how goa sends
				// header arrays and how OpenAPI's `simple` style reads them
				if k == "Cookie" || k == "Set-Cookie" {
					for _, x := range vs {
						req.Header.Add(k, x)
					}
				} else {
					req.Header.Set(k, strings.Join(vs, ","))
				}
			}
			route, params, err := router.FindRoute(req)
			if err != nil {
				v.RequestErr = "no route: " + short(err)
				return
			}
			v.RouteFound = true
			opts := &openapi3filter.Options{AuthenticationFunc: openapi3filter.NoopAuthenticationFunc, MultiError: false}
			rin := &openapi3filter.RequestValidationInput{Request: req, PathParams: params, Route: route, Options: opts}
			if err := openapi3filter.ValidateRequest(context.Background(), rin); err != nil {
				v.RequestErr = short(err)
			} else {
				v.RequestOK = true
			}
			// the response
			resps := route.Operation.Responses
			if resps != nil && resps.Status(ex.Status) != nil {
				v.ResponseDocd = true
			}
			h := http.Header{}
			for k, vs := range ex.RespHeaders {
				for _, x := range vs {
					h.Add(k, x)
				}
			}
			rout := &openapi3filter.ResponseValidationInput{RequestValidationInput: rin, Status: ex.Status, Header: h, Options: opts}
			rout.SetBodyBytes([]byte(ex.RespBody))
			if err := openapi3filter.ValidateResponse(context.Background(), rout); err != nil {
				v.ResponseErr = short(err)
			} else {
				v.ResponseOK = true
			}
			_ = io.Discard
		}()
		enc.Encode(v)
	}
}

// normalise removes example/examples members of schema-like objects and re-spells numeric
// exclusiveMinimum/exclusiveMaximum the OpenAPI 3.0 way. parent is the key under which v sits.
func normalise(v any, parent string, n *int) any {
	switch x := v.(type) {
	case map[string]any:
		inProps := parent == "properties" || parent == "schemas" || parent == "headers" || parent == "responses" || parent == "parameters" || parent == "paths"
		out := map[string]any{}
		for k, val := range x {
			if !inProps && (k == "example" || k == "examples") {
				continue
			}
			out[k] = normalise(val, k, n)
		}
		if !inProps {
			for _, pair := range [][2]string{{"exclusiveMinimum", "minimum"}, {"exclusiveMaximum", "maximum"}} {
				if num, ok := out[pair[0]].(float64); ok {
					out[pair[1]] = num
					out[pair[0]] = true
					*n++
				}
			}
		}
		return out
	case []any:
		for i := range x {
			x[i] = normalise(x[i], parent, n)
		}
		return x
	}
	return v
}
