// Command miniprotoc stands in for `protoc --go_out --go-grpc_out` in the sealed sandbox (neither
// protoc nor its Go plugins are installed). It is placed, under the name `protoc`, on the PATH of
// the harness's own generator processes only (never on the PATH of goa's test suite).
//
// It reads the proto3 subset goa emits and writes, next to the .proto file,
//
//	<base>.pb.go       Go structs with protoc-gen-go's field naming (GoCamelCase), optional scalars as
//	                   pointers, repeated fields as slices, maps, nested messages as pointers, oneof groups
//	                   as interface fields with wrapper structs, and nil-safe getters;
//	<base>_grpc.pb.go  the client / server interfaces, stream types, service descriptor and Register
//	                   function in the shape protoc-gen-go-grpc (classic, non-generic API) produces.
//
// The structs carry no protobuf reflection: they cross the wire through the harness's own codec
// (harness/e2ert/grpcrt), which is what the trusted base lists in place of protobuf marshalling.
package main

import (
	"bytes"
	"fmt"
	"go/format"
	"os"
	"path/filepath"
	"regexp"
	"strconv"
	"strings"
)

type field struct {
	label  string // "" | optional | repeated | map
	typ    string
	mapKey string
	name   string
	number int
	oneof  string
}

type message struct {
	name   string
	fields []*field
	nested []*message
	parent *message
}

type rpc struct {
	name, req, res             string
	clientStream, serverStream bool
}

type service struct {
	name string
	rpcs []*rpc
}

type file struct {
	pkg, goPackage string
	imports        []string
	services       []*service
	messages       []*message
}

var tokenRE = regexp.MustCompile(`"(?:[^"\\]|\\.)*"|[A-Za-z_][\w.]*|\d+|[{}()<>=;,\[\]]`)

type parser struct {
	t []string
	i int
}

func (p *parser) peek() string {
	if p.i < len(p.t) {
		return p.t[p.i]
	}
	return ""
}
func (p *parser) next() string {
	if p.i >= len(p.t) {
		fail("unexpected end of file")
	}
	p.i++
	return p.t[p.i-1]
}
func (p *parser) expect(s string) {
	if x := p.next(); x != s {
		fail("expected %q, got %q", s, x)
	}
}

func fail(f string, a ...any) {
	fmt.Fprintf(os.Stderr, "miniprotoc: "+f+"\n", a...)
	os.Exit(1)
}

func parse(text string) *file {
	text = regexp.MustCompile(`//[^\n]*`).ReplaceAllString(text, "")
	text = regexp.MustCompile(`(?s)/\*.*?\*/`).ReplaceAllString(text, "")
	p := &parser{t: tokenRE.FindAllString(text, -1)}
	f := &file{}
	for p.peek() != "" {
		switch k := p.next(); k {
		case "syntax":
			p.expect("=")
			if s := strings.Trim(p.next(), `"`); s != "proto3" {
				fail("syntax %q", s)
			}
			p.expect(";")
		case "package":
			f.pkg = p.next()
			p.expect(";")
		case "import":
			f.imports = append(f.imports, strings.Trim(p.next(), `"`))
			p.expect(";")
		case "option":
			n := p.next()
			p.expect("=")
			v := strings.Trim(p.next(), `"`)
			if n == "go_package" {
				f.goPackage = v
			}
			p.expect(";")
		case "service":
			f.services = append(f.services, p.service())
		case "message":
			f.messages = append(f.messages, p.message(nil))
		default:
			fail("unexpected %q at top level", k)
		}
	}
	return f
}

func (p *parser) service() *service {
	s := &service{name: p.next()}
	p.expect("{")
	for p.peek() != "}" {
		p.expect("rpc")
		r := &rpc{name: p.next()}
		p.expect("(")
		if p.peek() == "stream" {
			p.next()
			r.clientStream = true
		}
		r.req = p.next()
		p.expect(")")
		p.expect("returns")
		p.expect("(")
		if p.peek() == "stream" {
			p.next()
			r.serverStream = true
		}
		r.res = p.next()
		p.expect(")")
		if p.peek() == "{" {
			p.next()
			p.expect("}")
		} else {
			p.expect(";")
		}
		s.rpcs = append(s.rpcs, r)
	}
	p.expect("}")
	return s
}

func (p *parser) field(first string) *field {
	f := &field{}
	if first == "optional" || first == "repeated" {
		f.label = first
		first = p.next()
	}
	if first == "map" {
		p.expect("<")
		f.mapKey = p.next()
		p.expect(",")
		f.typ = p.next()
		p.expect(">")
		f.label = "map"
	} else {
		f.typ = first
	}
	f.name = p.next()
	p.expect("=")
	n, err := strconv.Atoi(p.next())
	if err != nil {
		fail("field number of %s", f.name)
	}
	f.number = n
	if p.peek() == "[" {
		for p.next() != "]" {
		}
	}
	p.expect(";")
	return f
}

func (p *parser) message(parent *message) *message {
	m := &message{name: p.next(), parent: parent}
	p.expect("{")
	for p.peek() != "}" {
		switch k := p.next(); k {
		case "message":
			m.nested = append(m.nested, p.message(m))
		case "oneof":
			g := p.next()
			p.expect("{")
			for p.peek() != "}" {
				f := p.field(p.next())
				f.oneof = g
				m.fields = append(m.fields, f)
			}
			p.expect("}")
		case "reserved":
			for p.next() != ";" {
			}
		default:
			m.fields = append(m.fields, p.field(k))
		}
	}
	p.expect("}")
	return m
}

// goCamelCase is protobuf-go's strs.GoCamelCase.
func goCamelCase(s string) string {
	lower := func(c byte) bool { return 'a' <= c && c <= 'z' }
	digit := func(c byte) bool { return '0' <= c && c <= '9' }
	var b []byte
	for i := 0; i < len(s); i++ {
		c := s[i]
		switch {
		case c == '.' && i+1 < len(s) && lower(s[i+1]):
		case c == '.':
			b = append(b, '_')
		case c == '_' && (i == 0 || s[i-1] == '.'):
			b = append(b, 'X')
		case c == '_' && i+1 < len(s) && lower(s[i+1]):
		case digit(c):
			b = append(b, c)
		default:
			if lower(c) {
				c -= 'a' - 'A'
			}
			b = append(b, c)
			for ; i+1 < len(s) && lower(s[i+1]); i++ {
				b = append(b, s[i+1])
			}
		}
	}
	return string(b)
}

var scalars = map[string]string{
	"double": "float64", "float": "float32", "int32": "int32", "sint32": "int32", "sfixed32": "int32",
	"int64": "int64", "sint64": "int64", "sfixed64": "int64", "uint32": "uint32", "fixed32": "uint32",
	"uint64": "uint64", "fixed64": "uint64", "bool": "bool", "string": "string", "bytes": "[]byte",
}

type gen struct {
	f       *file
	byName  map[string]*message // full proto name (Outer.Inner) -> message
	useEmpt bool
}

func (m *message) full() string {
	if m.parent != nil {
		return m.parent.full() + "." + m.name
	}
	return m.name
}

func (m *message) goName() string { return goCamelCase(m.full()) }

func (g *gen) index(ms []*message) {
	for _, m := range ms {
		g.byName[m.full()] = m
		g.index(m.nested)
	}
}

// resolve finds the message a type name refers to from inside message `in` (innermost scope first).
func (g *gen) resolve(name string, in *message) *message {
	name = strings.TrimPrefix(name, g.f.pkg+".")
	for s := in; s != nil; s = s.parent {
		if m, ok := g.byName[s.full()+"."+name]; ok {
			return m
		}
	}
	return g.byName[name]
}

func (g *gen) goType(typ string, in *message) (string, bool) {
	if t, ok := scalars[typ]; ok {
		return t, false
	}
	if typ == "google.protobuf.Empty" {
		g.useEmpt = true
		return "*emptypb.Empty", true
	}
	m := g.resolve(typ, in)
	if m == nil {
		fail("unknown type %s", typ)
	}
	return "*" + m.goName(), true
}

func (g *gen) fieldType(f *field, in *message) string {
	t, isMsg := g.goType(f.typ, in)
	switch f.label {
	case "repeated":
		return "[]" + t
	case "map":
		k, _ := g.goType(f.mapKey, in)
		return "map[" + k + "]" + t
	case "optional":
		if isMsg || t == "[]byte" {
			return t
		}
		return "*" + t
	}
	return t
}

func zero(t string) string {
	switch {
	case t == "string":
		return `""`
	case t == "bool":
		return "false"
	case strings.HasPrefix(t, "*") || strings.HasPrefix(t, "[]") || strings.HasPrefix(t, "map["):
		return "nil"
	}
	return "0"
}

func (g *gen) emitMessage(b *bytes.Buffer, m *message) {
	gn := m.goName()
	fmt.Fprintf(b, "type %s struct {\n", gn)
	seenOneof := map[string]bool{}
	for _, f := range m.fields {
		if f.oneof != "" {
			if !seenOneof[f.oneof] {
				seenOneof[f.oneof] = true
				fmt.Fprintf(b, "\t// Types that are assignable to %s:\n", goCamelCase(f.oneof))
				for _, o := range m.fields {
					if o.oneof == f.oneof {
						fmt.Fprintf(b, "\t//\t*%s_%s\n", gn, goCamelCase(o.name))
					}
				}
				fmt.Fprintf(b, "\t%s is%s_%s\n", goCamelCase(f.oneof), gn, goCamelCase(f.oneof))
			}
			continue
		}
		fmt.Fprintf(b, "\t%s %s // = %d\n", goCamelCase(f.name), g.fieldType(f, m), f.number)
	}
	b.WriteString("}\n\n")
	fmt.Fprintf(b, "func (x *%s) Reset() { *x = %s{} }\nfunc (x *%s) String() string { return fmt.Sprintf(\"%%+v\", *x) }\nfunc (*%s) ProtoMessage() {}\n\n", gn, gn, gn, gn)
	// getters
	for _, f := range m.fields {
		fn := goCamelCase(f.name)
		ft := g.fieldType(f, m)
		if f.oneof != "" {
			t, _ := g.goType(f.typ, m)
			fmt.Fprintf(b, "func (x *%s) Get%s() %s {\n\tif x, ok := x.Get%s().(*%s_%s); ok {\n\t\treturn x.%s\n\t}\n\treturn %s\n}\n\n",
				gn, fn, t, goCamelCase(f.oneof), gn, fn, fn, zero(t))
			continue
		}
		if bt, isMsg := g.goType(f.typ, m); f.label == "optional" && !isMsg && bt != "[]byte" {
			base := bt
			fmt.Fprintf(b, "func (x *%s) Get%s() %s {\n\tif x != nil && x.%s != nil {\n\t\treturn *x.%s\n\t}\n\treturn %s\n}\n\n", gn, fn, base, fn, fn, zero(base))
			continue
		}
		fmt.Fprintf(b, "func (x *%s) Get%s() %s {\n\tif x != nil {\n\t\treturn x.%s\n\t}\n\treturn %s\n}\n\n", gn, fn, ft, fn, zero(ft))
	}
	for grp := range seenOneof {
		gg := goCamelCase(grp)
		fmt.Fprintf(b, "type is%s_%s interface{ is%s_%s() }\n\n", gn, gg, gn, gg)
		fmt.Fprintf(b, "func (x *%s) Get%s() is%s_%s {\n\tif x != nil {\n\t\treturn x.%s\n\t}\n\treturn nil\n}\n\n", gn, gg, gn, gg, gg)
		for _, f := range m.fields {
			if f.oneof != grp {
				continue
			}
			t, _ := g.goType(f.typ, m)
			fn := goCamelCase(f.name)
			fmt.Fprintf(b, "type %s_%s struct {\n\t%s %s // = %d\n}\n\nfunc (*%s_%s) is%s_%s() {}\n\n", gn, fn, fn, t, f.number, gn, fn, gn, gg)
		}
	}
	for _, n := range m.nested {
		g.emitMessage(b, n)
	}
}

func (g *gen) pbFile(src string) []byte {
	var body bytes.Buffer
	for _, m := range g.f.messages {
		g.emitMessage(&body, m)
	}
	var b bytes.Buffer
	fmt.Fprintf(&b, "// Code generated by miniprotoc (stand-in for protoc-gen-go). DO NOT EDIT.\n// source: %s\n\npackage %s\n\nimport (\n\t\"fmt\"\n", src, g.goPkgName())
	if g.useEmpt {
		b.WriteString("\temptypb \"google.golang.org/protobuf/types/known/emptypb\"\n")
	}
	b.WriteString(")\n\nvar _ = fmt.Sprintf\n\n")
	b.Write(body.Bytes())
	return gofmt(b.Bytes())
}

func (g *gen) goPkgName() string {
	p := g.f.goPackage
	if i := strings.Index(p, ";"); i >= 0 {
		return p[i+1:]
	}
	return filepath.Base(p)
}

func gofmt(src []byte) []byte {
	out, err := format.Source(src)
	if err != nil {
		fail("generated code does not parse: %v\n%s", err, src)
	}
	return out
}

func (g *gen) msgRef(name string) string {
	if name == "google.protobuf.Empty" {
		g.useEmpt = true
		return "emptypb.Empty"
	}
	m := g.resolve(name, nil)
	if m == nil {
		fail("rpc refers to unknown message %s", name)
	}
	return m.goName()
}

func (g *gen) grpcFile(src string) []byte {
	var b bytes.Buffer
	g.useEmpt = false
	var body bytes.Buffer
	for _, s := range g.f.services {
		g.emitService(&body, s, src)
	}
	fmt.Fprintf(&b, "// Code generated by miniprotoc (stand-in for protoc-gen-go-grpc). DO NOT EDIT.\n// source: %s\n\npackage %s\n\nimport (\n\t\"context\"\n\n\t\"google.golang.org/grpc\"\n\t\"google.golang.org/grpc/codes\"\n\t\"google.golang.org/grpc/status\"\n", src, g.goPkgName())
	if g.useEmpt {
		b.WriteString("\temptypb \"google.golang.org/protobuf/types/known/emptypb\"\n")
	}
	b.WriteString(")\n\nvar _ context.Context\nvar _ = codes.OK\nvar _ = status.Errorf\n\n")
	b.Write(body.Bytes())
	return gofmt(b.Bytes())
}

func (g *gen) emitService(b *bytes.Buffer, s *service, src string) {
	sn := goCamelCase(s.name)
	full := s.name
	if g.f.pkg != "" {
		full = g.f.pkg + "." + s.name
	}
	lower := strings.ToLower(sn[:1]) + sn[1:]
	// ---- client
	fmt.Fprintf(b, "type %sClient interface {\n", sn)
	for _, r := range s.rpcs {
		rn := goCamelCase(r.name)
		switch {
		case !r.clientStream && !r.serverStream:
			fmt.Fprintf(b, "\t%s(ctx context.Context, in *%s, opts ...grpc.CallOption) (*%s, error)\n", rn, g.msgRef(r.req), g.msgRef(r.res))
		case !r.clientStream:
			fmt.Fprintf(b, "\t%s(ctx context.Context, in *%s, opts ...grpc.CallOption) (%s_%sClient, error)\n", rn, g.msgRef(r.req), sn, rn)
		default:
			fmt.Fprintf(b, "\t%s(ctx context.Context, opts ...grpc.CallOption) (%s_%sClient, error)\n", rn, sn, rn)
		}
	}
	fmt.Fprintf(b, "}\n\ntype %sClient struct{ cc grpc.ClientConnInterface }\n\nfunc New%sClient(cc grpc.ClientConnInterface) %sClient { return &%sClient{cc} }\n\n", lower, sn, sn, lower)
	si := 0
	for _, r := range s.rpcs {
		rn := goCamelCase(r.name)
		req, res := g.msgRef(r.req), g.msgRef(r.res)
		method := "/" + full + "/" + r.name
		if !r.clientStream && !r.serverStream {
			fmt.Fprintf(b, "func (c *%sClient) %s(ctx context.Context, in *%s, opts ...grpc.CallOption) (*%s, error) {\n\tout := new(%s)\n\terr := c.cc.Invoke(ctx, %q, in, out, opts...)\n\tif err != nil {\n\t\treturn nil, err\n\t}\n\treturn out, nil\n}\n\n",
				lower, rn, req, res, res, method)
			continue
		}
		cs := lower + rn + "Client"
		if r.clientStream {
			fmt.Fprintf(b, "func (c *%sClient) %s(ctx context.Context, opts ...grpc.CallOption) (%s_%sClient, error) {\n\tstream, err := c.cc.NewStream(ctx, &%s_ServiceDesc.Streams[%d], %q, opts...)\n\tif err != nil {\n\t\treturn nil, err\n\t}\n\treturn &%s{stream}, nil\n}\n\n",
				lower, rn, sn, rn, sn, si, method, cs)
		} else {
			fmt.Fprintf(b, "func (c *%sClient) %s(ctx context.Context, in *%s, opts ...grpc.CallOption) (%s_%sClient, error) {\n\tstream, err := c.cc.NewStream(ctx, &%s_ServiceDesc.Streams[%d], %q, opts...)\n\tif err != nil {\n\t\treturn nil, err\n\t}\n\tx := &%s{stream}\n\tif err := x.ClientStream.SendMsg(in); err != nil {\n\t\treturn nil, err\n\t}\n\tif err := x.ClientStream.CloseSend(); err != nil {\n\t\treturn nil, err\n\t}\n\treturn x, nil\n}\n\n",
				lower, rn, req, sn, rn, sn, si, method, cs)
		}
		si++
		fmt.Fprintf(b, "type %s_%sClient interface {\n", sn, rn)
		if r.clientStream {
			fmt.Fprintf(b, "\tSend(*%s) error\n", req)
		}
		if r.serverStream {
			fmt.Fprintf(b, "\tRecv() (*%s, error)\n", res)
		} else {
			fmt.Fprintf(b, "\tCloseAndRecv() (*%s, error)\n", res)
		}
		fmt.Fprintf(b, "\tgrpc.ClientStream\n}\n\ntype %s struct{ grpc.ClientStream }\n\n", cs)
		if r.clientStream {
			fmt.Fprintf(b, "func (x *%s) Send(m *%s) error { return x.ClientStream.SendMsg(m) }\n\n", cs, req)
		}
		if r.serverStream {
			fmt.Fprintf(b, "func (x *%s) Recv() (*%s, error) {\n\tm := new(%s)\n\tif err := x.ClientStream.RecvMsg(m); err != nil {\n\t\treturn nil, err\n\t}\n\treturn m, nil\n}\n\n", cs, res, res)
		} else {
			fmt.Fprintf(b, "func (x *%s) CloseAndRecv() (*%s, error) {\n\tif err := x.ClientStream.CloseSend(); err != nil {\n\t\treturn nil, err\n\t}\n\tm := new(%s)\n\tif err := x.ClientStream.RecvMsg(m); err != nil {\n\t\treturn nil, err\n\t}\n\treturn m, nil\n}\n\n", cs, res, res)
		}
	}
	// ---- server
	fmt.Fprintf(b, "type %sServer interface {\n", sn)
	for _, r := range s.rpcs {
		rn := goCamelCase(r.name)
		switch {
		case !r.clientStream && !r.serverStream:
			fmt.Fprintf(b, "\t%s(context.Context, *%s) (*%s, error)\n", rn, g.msgRef(r.req), g.msgRef(r.res))
		case !r.clientStream:
			fmt.Fprintf(b, "\t%s(*%s, %s_%sServer) error\n", rn, g.msgRef(r.req), sn, rn)
		default:
			fmt.Fprintf(b, "\t%s(%s_%sServer) error\n", rn, sn, rn)
		}
	}
	fmt.Fprintf(b, "\tmustEmbedUnimplemented%sServer()\n}\n\ntype Unimplemented%sServer struct{}\n\n", sn, sn)
	for _, r := range s.rpcs {
		rn := goCamelCase(r.name)
		switch {
		case !r.clientStream && !r.serverStream:
			fmt.Fprintf(b, "func (Unimplemented%sServer) %s(context.Context, *%s) (*%s, error) {\n\treturn nil, status.Errorf(codes.Unimplemented, \"method %s not implemented\")\n}\n", sn, rn, g.msgRef(r.req), g.msgRef(r.res), rn)
		case !r.clientStream:
			fmt.Fprintf(b, "func (Unimplemented%sServer) %s(*%s, %s_%sServer) error {\n\treturn status.Errorf(codes.Unimplemented, \"method %s not implemented\")\n}\n", sn, rn, g.msgRef(r.req), sn, rn, rn)
		default:
			fmt.Fprintf(b, "func (Unimplemented%sServer) %s(%s_%sServer) error {\n\treturn status.Errorf(codes.Unimplemented, \"method %s not implemented\")\n}\n", sn, rn, sn, rn, rn)
		}
	}
	fmt.Fprintf(b, "func (Unimplemented%sServer) mustEmbedUnimplemented%sServer() {}\n\n", sn, sn)
	fmt.Fprintf(b, "func Register%sServer(s grpc.ServiceRegistrar, srv %sServer) { s.RegisterService(&%s_ServiceDesc, srv) }\n\n", sn, sn, sn)
	var methods, streams bytes.Buffer
	for _, r := range s.rpcs {
		rn := goCamelCase(r.name)
		req, res := g.msgRef(r.req), g.msgRef(r.res)
		method := "/" + full + "/" + r.name
		if !r.clientStream && !r.serverStream {
			fmt.Fprintf(b, "func _%s_%s_Handler(srv interface{}, ctx context.Context, dec func(interface{}) error, interceptor grpc.UnaryServerInterceptor) (interface{}, error) {\n\tin := new(%s)\n\tif err := dec(in); err != nil {\n\t\treturn nil, err\n\t}\n\tif interceptor == nil {\n\t\treturn srv.(%sServer).%s(ctx, in)\n\t}\n\tinfo := &grpc.UnaryServerInfo{Server: srv, FullMethod: %q}\n\thandler := func(ctx context.Context, req interface{}) (interface{}, error) {\n\t\treturn srv.(%sServer).%s(ctx, req.(*%s))\n\t}\n\treturn interceptor(ctx, in, info, handler)\n}\n\n",
				sn, rn, req, sn, rn, method, sn, rn, req)
			fmt.Fprintf(&methods, "\t\t{MethodName: %q, Handler: _%s_%s_Handler},\n", r.name, sn, rn)
			continue
		}
		ss := lower + rn + "Server"
		if r.clientStream {
			fmt.Fprintf(b, "func _%s_%s_Handler(srv interface{}, stream grpc.ServerStream) error {\n\treturn srv.(%sServer).%s(&%s{stream})\n}\n\n", sn, rn, sn, rn, ss)
		} else {
			fmt.Fprintf(b, "func _%s_%s_Handler(srv interface{}, stream grpc.ServerStream) error {\n\tm := new(%s)\n\tif err := stream.RecvMsg(m); err != nil {\n\t\treturn err\n\t}\n\treturn srv.(%sServer).%s(m, &%s{stream})\n}\n\n", sn, rn, req, sn, rn, ss)
		}
		fmt.Fprintf(b, "type %s_%sServer interface {\n", sn, rn)
		if r.serverStream {
			fmt.Fprintf(b, "\tSend(*%s) error\n", res)
		} else {
			fmt.Fprintf(b, "\tSendAndClose(*%s) error\n", res)
		}
		if r.clientStream {
			fmt.Fprintf(b, "\tRecv() (*%s, error)\n", req)
		}
		fmt.Fprintf(b, "\tgrpc.ServerStream\n}\n\ntype %s struct{ grpc.ServerStream }\n\n", ss)
		if r.serverStream {
			fmt.Fprintf(b, "func (x *%s) Send(m *%s) error { return x.ServerStream.SendMsg(m) }\n\n", ss, res)
		} else {
			fmt.Fprintf(b, "func (x *%s) SendAndClose(m *%s) error { return x.ServerStream.SendMsg(m) }\n\n", ss, res)
		}
		if r.clientStream {
			fmt.Fprintf(b, "func (x *%s) Recv() (*%s, error) {\n\tm := new(%s)\n\tif err := x.ServerStream.RecvMsg(m); err != nil {\n\t\treturn nil, err\n\t}\n\treturn m, nil\n}\n\n", ss, req, req)
		}
		fmt.Fprintf(&streams, "\t\t{StreamName: %q, Handler: _%s_%s_Handler, ServerStreams: %v, ClientStreams: %v},\n", r.name, sn, rn, r.serverStream, r.clientStream)
	}
	fmt.Fprintf(b, "var %s_ServiceDesc = grpc.ServiceDesc{\n\tServiceName: %q,\n\tHandlerType: (*%sServer)(nil),\n\tMethods: []grpc.MethodDesc{\n%s\t},\n\tStreams: []grpc.StreamDesc{\n%s\t},\n\tMetadata: %q,\n}\n\n",
		sn, full, sn, methods.String(), streams.String(), src)
}

func main() {
	var src, goOut, grpcOut string
	args := os.Args[1:]
	for i := 0; i < len(args); i++ {
		a := args[i]
		switch {
		case a == "--go_out" && i+1 < len(args):
			goOut = args[i+1]
			i++
		case strings.HasPrefix(a, "--go_out="):
			goOut = strings.TrimPrefix(a, "--go_out=")
		case a == "--go-grpc_out" && i+1 < len(args):
			grpcOut = args[i+1]
			i++
		case strings.HasPrefix(a, "--go-grpc_out="):
			grpcOut = strings.TrimPrefix(a, "--go-grpc_out=")
		case a == "--proto_path" || a == "-I":
			i++
		case strings.HasPrefix(a, "--"):
		default:
			src = a
		}
	}
	if src == "" {
		fail("no .proto file given")
	}
	raw, err := os.ReadFile(src)
	if err != nil {
		fail("%v", err)
	}
	f := parse(string(raw))
	g := &gen{f: f, byName: map[string]*message{}}
	g.index(f.messages)
	base := strings.TrimSuffix(filepath.Base(src), ".proto")
	if goOut == "" {
		goOut = filepath.Dir(src)
	}
	if grpcOut == "" {
		grpcOut = goOut
	}
	if err := os.WriteFile(filepath.Join(goOut, base+".pb.go"), g.pbFile(filepath.Base(src)), 0o644); err != nil {
		fail("%v", err)
	}
	if len(f.services) > 0 {
		if err := os.WriteFile(filepath.Join(grpcOut, base+"_grpc.pb.go"), g.grpcFile(filepath.Base(src)), 0o644); err != nil {
			fail("%v", err)
		}
	}
}
