// Command rterrors is the C18 correspondence driver (tie T3).
//
//	rterrors gen -seed N -tier quick|thorough   writes operation lines to stdout
//	rterrors run                                reads operation lines on stdin, runs the REAL goa
//	                                            code on each and prints one canonical observation per line
package main

import (
	"context"
	"encoding/json"
	"errors"
	"flag"
	"fmt"
	"net/http"
	"net/http/httptest"
	"os"
	"sort"
	"strconv"
	"strings"
	"time"

	goagrpc "goa.design/goa/v3/grpc"
	goapb "goa.design/goa/v3/grpc/pb"
	goahttp "goa.design/goa/v3/http"
	goa "goa.design/goa/v3/pkg"
	"google.golang.org/grpc/status"

	"verifharness/internal/lp"
)

func main() {
	if len(os.Args) < 2 {
		fmt.Fprintln(os.Stderr, "usage: rterrors gen|run")
		os.Exit(2)
	}
	switch os.Args[1] {
	case "gen":
		fs := flag.NewFlagSet("gen", flag.ExitOnError)
		seed := fs.Uint64("seed", 1, "seed")
		tier := fs.String("tier", "quick", "tier")
		fs.Parse(os.Args[2:])
		gen(*seed, *tier)
	case "run":
		lp.Lines(run)
	default:
		os.Exit(2)
	}
}

// ---------------------------------------------------------------- generation

type leaf struct {
	kind  string // Z P S W
	cid   int
	name  string
	field *string
	msg   string
	flags int
	cause bool
}

func (l leaf) toks(idx int) string {
	switch l.kind {
	case "Z":
		return "Z"
	case "P":
		return fmt.Sprintf("P %d %s", idx, lp.Enc(l.msg))
	}
	f := "~"
	if l.field != nil {
		f = lp.Enc(*l.field)
	}
	c := "~"
	if l.cause {
		c = strconv.Itoa(idx)
	}
	return fmt.Sprintf("%s %s %s %s %d %s", l.kind, lp.Enc(l.name), f, lp.Enc(l.msg), l.flags, c)
}

func sp(s string) *string { return &s }

var alphabet = []leaf{
	{kind: "Z"},
	{kind: "P", msg: "boom"},
	{kind: "S", name: "error", msg: "m1", flags: 7, cause: true},
	{kind: "S", name: "not_found", field: sp("id"), msg: "m2", flags: 0},
	{kind: "S", name: "timeout", msg: "m3", flags: 3, cause: true},
	{kind: "W", name: "bad", msg: "m4", flags: 4},
	{kind: "W", name: "bad", msg: "m5", flags: 1},   // (3+2+1)%4 = 2: two %w in one wrapper
	{kind: "W", name: "slow", msg: "m6x", flags: 2}, // (4+3+2)%4 = 1: errors.Join(side, se)
}

var names = []string{"error", "error", "not_found", "bad_request", "x;y", "-", "é", "unsupported_media_type", ""}
var msgs = []string{"", "m", "a; b", "; ", "boom", "naïve ✓", "x\ty", "0", "very long message with spaces"}

func randLeaf(r *lp.Rng) leaf {
	switch r.Intn(10) {
	case 0:
		return leaf{kind: "Z"}
	case 1, 2:
		return leaf{kind: "P", msg: lp.Pick(r, msgs)}
	case 3:
		l := randSE(r)
		l.kind = "W"
		return l
	default:
		return randSE(r)
	}
}

func randSE(r *lp.Rng) leaf {
	l := leaf{kind: "S", name: lp.Pick(r, names), msg: lp.Pick(r, msgs), flags: r.Intn(8), cause: r.Intn(3) == 0}
	if r.Intn(3) == 0 {
		l.field = sp(lp.Pick(r, []string{"id", "", "a.b[0]"}))
	}
	return l
}

// shapes enumerates every binary tree shape over n leaves as a prefix-notation template
// in which "_" stands for the next leaf.
func shapes(n int) [][]string {
	if n == 1 {
		return [][]string{{"_"}}
	}
	var out [][]string
	for k := 1; k < n; k++ {
		for _, l := range shapes(k) {
			for _, r := range shapes(n - k) {
				s := append([]string{"N"}, l...)
				s = append(s, r...)
				out = append(out, s)
			}
		}
	}
	return out
}

func randShape(r *lp.Rng, n int) []string {
	if n == 1 {
		return []string{"_"}
	}
	k := 1 + r.Intn(n-1)
	s := append([]string{"N"}, randShape(r, k)...)
	return append(s, randShape(r, n-k)...)
}

func emit(shape []string, ls []leaf) {
	var b strings.Builder
	b.WriteString("merge")
	i := 0
	for _, t := range shape {
		if t == "N" {
			b.WriteString(" N")
		} else {
			b.WriteString(" " + ls[i].toks(i))
			i++
		}
	}
	fmt.Println(b.String())
}

func gen(seed uint64, tier string) {
	r := lp.NewRng(seed)
	// status tables: exhaustive over flags x names
	for _, n := range names {
		for f := 0; f < 8; f++ {
			fmt.Printf("status %s %d\n", lp.Enc(n), f)
			fmt.Printf("grpccode %s %d\n", lp.Enc(n), f)
			fmt.Printf("grpcrt %s %s %s %d\n", lp.Enc(n), lp.Enc(lp.Pick(r, []string{"", "id1", "Zk3_-x"})), lp.Enc(lp.Pick(r, msgs)), f)
		}
	}
	// exhaustive small trees over the fixed alphabet
	maxN := 3
	if tier == "thorough" {
		maxN = 5
	}
	for n := 1; n <= maxN; n++ {
		idx := make([]int, n)
		sh := shapes(n)
		for {
			ls := make([]leaf, n)
			for i, a := range idx {
				ls[i] = alphabet[a]
			}
			for _, s := range sh {
				emit(s, ls)
			}
			i := n - 1
			for i >= 0 {
				idx[i]++
				if idx[i] < len(alphabet) {
					break
				}
				idx[i] = 0
				i--
			}
			if i < 0 {
				break
			}
		}
	}
	// random sequences of up to 8 leaves, 3 random parenthesisations each
	count := 2000
	if tier == "thorough" {
		count = 100000
	}
	for c := 0; c < count; c++ {
		n := 1 + r.Intn(8)
		ls := make([]leaf, n)
		for i := range ls {
			ls[i] = randLeaf(r)
		}
		for k := 0; k < 3; k++ {
			emit(randShape(r, n), ls)
		}
	}
}

// ---------------------------------------------------------------- execution on the real code

// upstream is a cause that has a status of its own (e.g. the error of an HTTP client)
type upstream struct{ code int }

func (u upstream) Error() string   { return fmt.Sprintf("upstream answered %d", u.code) }
func (u upstream) StatusCode() int { return u.code }

// multi is a cause that is itself a multi-error (like the value of errors.Join): it must stay reachable as a
// whole through a merged error
type multi struct {
	msg  string
	errs []error
}

func (m *multi) Error() string   { return m.msg }
func (m *multi) Unwrap() []error { return m.errs }

type wrapper struct {
	msg   string
	inner error
}

func (w *wrapper) Error() string { return w.msg }
func (w *wrapper) Unwrap() error { return w.inner }

type built struct {
	err    error
	causes map[int]error
}

func parseSE(toks []string, causes map[int]error) (*goa.ServiceError, []string) {
	name := lp.MustDec(toks[0])
	msg := lp.MustDec(toks[2])
	flags, _ := strconv.Atoi(toks[3])
	var se *goa.ServiceError
	if toks[4] != "~" {
		cid, _ := strconv.Atoi(toks[4])
		var c error = errors.New("cause-" + toks[4])
		if (cid+len(name))%2 == 1 {
			c = &multi{msg: "cause-" + toks[4], errs: []error{errors.New("first of " + toks[4]), errors.New("second of " + toks[4])}}
		}
		causes[cid] = c
		se = goa.NewServiceError(c, name, flags&1 != 0, flags&2 != 0, flags&4 != 0)
		se.Message = msg
	} else {
		se = &goa.ServiceError{Name: name, ID: goa.NewErrorID(), Message: msg, Timeout: flags&1 != 0, Temporary: flags&2 != 0, Fault: flags&4 != 0}
	}
	if toks[1] != "~" {
		f := lp.MustDec(toks[1])
		se.Field = &f
	}
	return se, toks[5:]
}

func evalTree(toks []string, causes map[int]error) (error, []string) {
	switch toks[0] {
	case "Z":
		return nil, toks[1:]
	case "P":
		cid, _ := strconv.Atoi(toks[1])
		var e error
		if cid%2 == 0 {
			e = errors.New(lp.MustDec(toks[2]))
		} else {
			// a wrapper around a non-service error is still "plain" for MergeErrors
			e = &wrapper{msg: lp.MustDec(toks[2]), inner: errors.New("inner")}
		}
		causes[cid] = e
		return e, toks[3:]
	case "S":
		se, rest := parseSE(toks[1:], causes)
		return se, rest
	case "W":
		se, rest := parseSE(toks[1:], causes)
		// the kind of wrapper is derived from the leaf (the model does not care: a wrapped service error is a service error)
		fl, _ := strconv.Atoi(toks[4])
		switch (len(se.Name) + len(se.Message) + fl) % 4 {
		case 1:
			return errors.Join(errors.New("side"), se), rest
		case 2:
			return fmt.Errorf("%w and %w", errors.New("other"), se), rest
		case 3:
			return fmt.Errorf("outer: %w", errors.Join(se, errors.New("side"))), rest
		}
		return fmt.Errorf("wrapped: %w", se), rest
	case "N":
		l, rest := evalTree(toks[1:], causes)
		r, rest := evalTree(rest, causes)
		return goa.MergeErrors(l, r), rest
	}
	panic("bad tree token " + toks[0])
}

func showSE(kind string, e *goa.ServiceError, res error, causes map[int]error) string {
	f := "~"
	if e.Field != nil {
		f = lp.Enc(*e.Field)
	}
	flags := 0
	if e.Timeout {
		flags |= 1
	}
	if e.Temporary {
		flags |= 2
	}
	if e.Fault {
		flags |= 4
	}
	var hist []string
	for _, h := range e.History() {
		hf := "~"
		if h.Field != nil {
			hf = lp.Enc(*h.Field)
		}
		hist = append(hist, lp.Enc(h.Name)+"|"+hf+"|"+lp.Enc(h.Message))
	}
	var cs []int
	for cid, c := range causes {
		if errors.Is(res, c) {
			cs = append(cs, cid)
		}
	}
	sort.Ints(cs)
	var css []string
	for _, c := range cs {
		css = append(css, strconv.Itoa(c))
	}
	return fmt.Sprintf("%s name=%s field=%s msg=%s flags=%d hist=[%s] causes=[%s]", kind, lp.Enc(e.Name), f, lp.Enc(e.Message), flags, strings.Join(hist, ","), strings.Join(css, ","))
}

func run(toks []string) string {
	switch toks[0] {
	case "merge":
		causes := map[int]error{}
		res, rest := evalTree(toks[1:], causes)
		if len(rest) != 0 {
			return "bad-op"
		}
		if res == nil {
			return "nil"
		}
		if se, ok := res.(*goa.ServiceError); ok {
			return showSE("svc", se, res, causes)
		}
		var se *goa.ServiceError
		if errors.As(res, &se) {
			// the causes a wrapper exposes are those of the wrapped service error
			return showSE("wrap", se, res, causes)
		}
		return "plain msg=" + lp.Enc(res.Error())
	case "status":
		f, _ := strconv.Atoi(toks[2])
		r := &goahttp.ErrorResponse{Name: lp.MustDec(toks[1]), Timeout: f&1 != 0, Temporary: f&2 != 0, Fault: f&4 != 0}
		want := r.StatusCode()
		// the same error through goahttp.ErrorEncoder, bare and built around causes of every kind: the status comes
		// from the service error's own flags, whatever it wraps
		for vi, cause := range []error{nil, errors.New("plain cause"), upstream{502}, fmt.Errorf("ctx: %w", upstream{404})} {
			se := &goa.ServiceError{Name: r.Name, ID: "id", Message: "m", Timeout: r.Timeout, Temporary: r.Temporary, Fault: r.Fault}
			if cause != nil {
				se = goa.NewServiceError(cause, r.Name, r.Timeout, r.Temporary, r.Fault)
			}
			for wi, e := range []error{se, fmt.Errorf("handler: %w", se)} {
				rec := httptest.NewRecorder()
				enc := goahttp.ErrorEncoder(func(ctx context.Context, w http.ResponseWriter) goahttp.Encoder { return json.NewEncoder(w) }, nil)
				if err := enc(context.Background(), rec, e); err != nil {
					return fmt.Sprintf("%d encoder-error:%d.%d:%v", want, vi, wi, err)
				}
				var body goahttp.ErrorResponse
				_ = json.Unmarshal(rec.Body.Bytes(), &body)
				if rec.Code != want || body.Name != r.Name || body.Timeout != r.Timeout || body.Temporary != r.Temporary || body.Fault != r.Fault {
					return fmt.Sprintf("%d encoder-differs:cause%d.wrap%d:status=%d name=%s", want, vi, wi, rec.Code, lp.Enc(body.Name))
				}
			}
		}
		return strconv.Itoa(want)
	case "grpccode":
		f, _ := strconv.Atoi(toks[2])
		se := &goa.ServiceError{Name: lp.MustDec(toks[1]), ID: "id", Message: "m", Timeout: f&1 != 0, Temporary: f&2 != 0, Fault: f&4 != 0}
		st, _ := status.FromError(goagrpc.EncodeError(se))
		// the same error returned by an endpoint behind the gRPC handlers, with a live context and with one that is
		// already done (a server-side deadline): the handler hands the endpoint's error on, whatever the context says
		for vi, mk := range []func() (context.Context, context.CancelFunc){
			func() (context.Context, context.CancelFunc) { return context.WithCancel(context.Background()) },
			func() (context.Context, context.CancelFunc) {
				c, cancel := context.WithCancel(context.Background())
				cancel()
				return c, cancel
			},
			func() (context.Context, context.CancelFunc) {
				return context.WithDeadline(context.Background(), time.Now().Add(-time.Second))
			},
		} {
			ctx, cancel := mk()
			ep := func(context.Context, any) (any, error) { return nil, se }
			_, herr := goagrpc.NewUnaryHandler(ep, nil, nil).Handle(ctx, nil)
			serr := goagrpc.NewStreamHandler(ep, nil).Handle(ctx, nil)
			cancel()
			for hi, e := range []error{herr, serr} {
				st2, _ := status.FromError(goagrpc.EncodeError(e))
				var back *goa.ServiceError
				if !errors.As(e, &back) || back.Name != se.Name || st2.Code() != st.Code() {
					return fmt.Sprintf("%d handler-differs:ctx%d.h%d:code=%d", int(st.Code()), vi, hi, int(st2.Code()))
				}
			}
		}
		return strconv.Itoa(int(st.Code()))
	case "grpcrt":
		f, _ := strconv.Atoi(toks[4])
		se := &goa.ServiceError{Name: lp.MustDec(toks[1]), ID: lp.MustDec(toks[2]), Message: lp.MustDec(toks[3]), Timeout: f&1 != 0, Temporary: f&2 != 0, Fault: f&4 != 0}
		enc := goagrpc.EncodeError(fmt.Errorf("ctx: %w", se))
		msg := goagrpc.DecodeError(enc)
		resp, ok := msg.(*goapb.ErrorResponse)
		if !ok {
			return "no-detail"
		}
		back := goagrpc.NewServiceError(resp)
		flags := 0
		if back.Timeout {
			flags |= 1
		}
		if back.Temporary {
			flags |= 2
		}
		if back.Fault {
			flags |= 4
		}
		return fmt.Sprintf("%s %s %s %d", lp.Enc(back.Name), lp.Enc(back.ID), lp.Enc(back.Message), flags)
	}
	return "bad-op"
}
