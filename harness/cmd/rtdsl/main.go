// Command rtdsl (C12) assembles random DSL programs from EVERY exported function of goa's dsl
// package (registry_gen.go, regenerated from /repo by gofacts) — misplaced, repeated, ill-typed,
// contradictory, self-referential — evaluates them with the real engine and reports, one JSON
// line per program: accepted / located errors / panic, and for accepted designs whether every
// reference resolves (schemes, mapped attributes, errors, views) and whether the generators run.
//
//	rtdsl run -seed S -from I -n N [-gen dir]     programs I .. I+N-1 (a line is printed BEFORE each program starts)
//	rtdsl show -seed S -index I                   the call trace of one program
package main

import (
	"encoding/json"
	"flag"
	"fmt"
	"os"
	"path/filepath"
	"runtime/debug"
	"strings"

	"goa.design/goa/v3/codegen/generator"
	"goa.design/goa/v3/codegen/service"
	"goa.design/goa/v3/dsl"
	"goa.design/goa/v3/eval"
	"goa.design/goa/v3/expr"
	grpccodegen "goa.design/goa/v3/grpc/codegen"
	httpcodegen "goa.design/goa/v3/http/codegen"
	"goa.design/goa/v3/http/codegen/openapi"

	"verifharness/internal/design"
	"verifharness/internal/lp"
)

type entry struct {
	name string
	call func(g *gen)
}

// registry is filled in main from the generated buildRegistry (a variable initialiser would be an initialisation cycle)
var registry []entry

// what usually goes inside the function argument of a DSL function
var children = map[string][]string{
	"top":     {"API", "Type", "Type", "ResultType", "Service", "Service", "BasicAuthSecurity", "APIKeySecurity", "JWTSecurity", "OAuth2Security"},
	"API":     {"Title", "Description", "Version", "Server", "HTTP", "Security", "Error", "Meta", "Docs", "Contact", "License", "TermsOfService", "GRPC"},
	"Service": {"Description", "Method", "Method", "Error", "HTTP", "GRPC", "Security", "NoSecurity", "Meta", "Docs"},
	"Method": {"Description", "Payload", "Result", "StreamingPayload", "StreamingResult", "Error", "HTTP", "GRPC", "Security", "NoSecurity", "Meta",
		"Docs", "Deprecated"},
	"HTTP": {"GET", "POST", "PUT", "DELETE", "PATCH", "Path", "Param", "Params", "Header", "Headers", "Cookie", "Body", "Response", "Response", "MapParams",
		"Parent", "CanonicalMethod", "Consumes", "Produces", "Redirect", "Files", "MultipartRequest", "SkipRequestBodyEncodeDecode", "SkipResponseBodyEncodeDecode"},
	"Response":   {"Code", "Header", "Headers", "Body", "Tag", "ContentType", "Description", "Cookie", "CookieMaxAge", "CookiePath", "CookieSecure", "Trailers"},
	"GRPC":       {"Message", "Metadata", "Response", "Trailers", "Headers", "Code"},
	"Server":     {"Host", "Services", "Description"},
	"Host":       {"URI", "Variable", "Description"},
	"View":       {"Attribute", "Attribute", "Description"},
	"OneOf":      {"Attribute", "Field", "Description", "Meta"},
	"Docs":       {"Description", "URL"},
	"Contact":    {"Name", "Email", "URL"},
	"License":    {"Name", "URL"},
	"Variable":   {"Default", "Enum", "Description"},
	"Files":      {"Description", "Docs", "Meta"},
	"ResultType": {"TypeName", "Attributes", "View", "View", "Description", "ContentType", "Required", "Reference", "Extend", "Attribute", "Field"},
}

var attrBody = []string{"Attribute", "Attribute", "Field", "Required", "Description", "Enum", "Format", "Pattern", "Minimum", "Maximum", "ExclusiveMinimum",
	"ExclusiveMaximum", "MinLength", "MaxLength", "Default", "Example", "Meta", "View", "OneOf", "Extend", "Reference", "TypeName", "Elem", "Key", "Docs",
	"ConvertTo", "CreateFrom", "Token", "Username", "Password", "APIKey", "AccessToken"}

var schemeBody = []string{"Description", "Scope", "AuthorizationCodeFlow", "ImplicitFlow", "PasswordFlow", "ClientCredentialsFlow"}

func init() {
	for _, n := range []string{"Type", "Payload", "Result", "StreamingPayload", "StreamingResult", "Attribute", "Field", "ArrayOf", "MapOf", "Elem", "Key", "Body",
		"Param", "Header", "Cookie", "Params", "Headers", "Attributes", "Error", "Message", "Metadata", "Trailers", "CollectionOf", "Token", "TokenField",
		"Username", "UsernameField", "Password", "PasswordField", "APIKey", "APIKeyField", "AccessToken", "AccessTokenField"} {
		children[n] = attrBody
	}
	for _, n := range []string{"BasicAuthSecurity", "APIKeySecurity", "JWTSecurity", "OAuth2Security"} {
		children[n] = schemeBody
	}
}

type gen struct {
	r      *lp.Rng
	depth  int
	budget int // total calls left
	kept   []any
	trace  []string
	byName map[string]*entry
}

var strPools = map[string][]string{
	"":       {"a", "b", "id", "name", "Acct", "Item", "svc", "m1", "missing", "default", "tiny", "", "err1", "not_found", "x y", "☃", "Authorization", "key:KEY", "a:b:c"},
	"path":   {"/", "/x", "/x/{id}", "/{*p}", "/{a}/{a}", "x", "//abs", "/x/{missing}", "/{id}/{*rest}", ""},
	"scheme": {"basic", "jwt", "api_key", "oauth", "missing", ""},
	"typ":    {"application/json", "text/plain", "garbage;;", ""},
	"p":      {"^[a-z]+$", "[", "", "^x"},
	"url":    {"http://example.com", "::bad", ""},
}

func (g *gen) str(param string) string {
	pool := strPools[""]
	switch param {
	case "path", "val", "uri":
		pool = strPools["path"]
	case "scheme":
		pool = strPools["scheme"]
	case "typ":
		pool = strPools["typ"]
	case "p":
		pool = strPools["p"]
	case "url", "tokenURL", "authorizationURL", "refreshURL", "email", "terms":
		pool = strPools["url"]
	}
	if g.r.Intn(5) == 0 {
		pool = strPools[""]
	}
	return lp.Pick(g.r, pool)
}

func (g *gen) strs() []string {
	n := g.r.Intn(4)
	out := make([]string, n)
	for i := range out {
		out[i] = g.str("")
	}
	return out
}

func (g *gen) num() int      { return lp.Pick(g.r, []int{0, 1, -1, 2, 200, 404, 99, 1000000}) }
func (g *gen) flt() float64  { return lp.Pick(g.r, []float64{0, 1.5, -2.25}) }
func (g *gen) boolean() bool { return g.r.Intn(2) == 0 }
func (g *gen) format() expr.ValidationFormat {
	return lp.Pick(g.r, []expr.ValidationFormat{expr.FormatDate, expr.FormatUUID, expr.FormatEmail, expr.FormatIP, "nope", ""})
}
func (g *gen) sameSite() expr.CookieSameSiteValue {
	return lp.Pick(g.r, []expr.CookieSameSiteValue{expr.CookieSameSiteLax, expr.CookieSameSiteStrict, expr.CookieSameSiteNone, "bogus"})
}

func (g *gen) dt() expr.DataType {
	switch g.r.Intn(6) {
	case 0:
		return nil
	case 1:
		for _, k := range g.kept {
			if d, ok := k.(expr.DataType); ok && g.r.Intn(2) == 0 {
				return d
			}
		}
	}
	return lp.Pick(g.r, []expr.DataType{expr.String, expr.Int, expr.Boolean, expr.Bytes, expr.Any, expr.Float64, expr.UInt32, expr.Empty})
}

func (g *gen) any() any {
	switch g.r.Intn(12) {
	case 0:
		return nil
	case 1:
		return g.str("")
	case 2:
		return lp.Pick(g.r, []string{"Acct", "Item", "missing", "String"})
	case 3:
		return g.num()
	case 4:
		return g.flt()
	case 5:
		return g.boolean()
	case 6:
		return g.fn("Attribute")
	case 7:
		if len(g.kept) > 0 {
			return g.kept[g.r.Intn(len(g.kept))]
		}
		return expr.String
	case 8:
		return []string{"x"}
	case 9:
		return struct{ A int }{1}
	}
	return g.dt()
}

func (g *gen) anys() []any {
	// mostly the documented shapes (type, description, function), sometimes anything
	switch g.r.Intn(6) {
	case 0:
		return nil
	case 1:
		return []any{g.dt()}
	case 2:
		return []any{g.dt(), g.fn("Attribute")}
	case 3:
		return []any{g.dt(), "description", g.fn("Attribute")}
	case 4:
		return []any{g.fn("Attribute")}
	}
	n := g.r.Intn(4)
	out := make([]any, n)
	for i := range out {
		out[i] = g.any()
	}
	return out
}

func (g *gen) keep(v any) {
	if v != nil && len(g.kept) < 40 {
		g.kept = append(g.kept, v)
	}
}

func (g *gen) fns(parent string) []func() {
	n := g.r.Intn(3)
	if n == 2 && g.r.Intn(3) != 0 {
		n = 1
	}
	out := make([]func(), n)
	for i := range out {
		out[i] = g.fn(parent)
	}
	return out
}

// fn returns a DSL function whose body is a random sequence of calls, mostly ones that belong
// inside parent. A nil function is one of the ill-typed arguments.
func (g *gen) fn(parent string) func() {
	if g.r.Intn(25) == 0 {
		return nil
	}
	return func() { g.body(parent) }
}

func (g *gen) body(parent string) {
	if g.depth > 6 {
		return
	}
	g.depth++
	defer func() { g.depth-- }()
	n := 1 + g.r.Intn(5)
	for i := 0; i < n && g.budget > 0; i++ {
		g.budget--
		var e *entry
		if likely, ok := children[parent]; ok && g.r.Intn(4) != 0 {
			e = g.byName[lp.Pick(g.r, likely)]
		}
		if e == nil {
			e = &registry[g.r.Intn(len(registry))]
		}
		g.trace = append(g.trace, strings.Repeat("  ", g.depth)+e.name)
		e.call(g)
	}
}

type report struct {
	Index     int      `json:"index"`
	Start     bool     `json:"start,omitempty"`
	Outcome   string   `json:"outcome,omitempty"` // accepted | errors | panic
	Errors    int      `json:"errors,omitempty"`
	Unlocated int      `json:"unlocated,omitempty"`
	FirstErr  string   `json:"first_error,omitempty"`
	Panic     string   `json:"panic,omitempty"`
	Where     string   `json:"where,omitempty"`
	Dangling  []string `json:"dangling,omitempty"`
	Gen       string   `json:"gen,omitempty"`
	Calls     int      `json:"calls"`
	Trace     []string `json:"trace,omitempty"`
}

func newGen(seed uint64, index int) *gen {
	g := &gen{r: lp.NewRng(seed*2654435761 + uint64(index)*40503 + 7), budget: 60, byName: map[string]*entry{}}
	for i := range registry {
		g.byName[registry[i].name] = &registry[i]
	}
	return g
}

// whereOf names the first frame of a panic stack that lies in goa itself
func whereOf(stack string) string {
	lines := strings.Split(stack, "\n")
	for i := 0; i+1 < len(lines); i++ {
		l := lines[i]
		if strings.HasPrefix(l, "goa.design/goa/v3/") && !strings.Contains(l, "eval.(*") && !strings.Contains(l, "/eval.") {
			fn := strings.TrimPrefix(l, "goa.design/goa/v3/")
			if j := strings.Index(fn, "("); j > 0 && !strings.HasPrefix(fn[j:], "(*") {
				fn = fn[:j]
			}
			fn = strings.Split(fn, "(0x")[0]
			return strings.TrimRight(fn, "(")
		}
	}
	return "?"
}

func runOne(seed uint64, index int, genDir string, withTrace bool) (rep report) {
	rep.Index = index
	g := newGen(seed, index)
	defer func() {
		rep.Calls = len(g.trace)
		if withTrace {
			rep.Trace = g.trace
		}
	}()
	design.Reset()
	service.Services = make(service.ServicesData)
	httpcodegen.HTTPServices = make(httpcodegen.ServicesData)
	grpccodegen.GRPCServices = make(grpccodegen.ServicesData)
	openapi.Definitions = make(map[string]*openapi.Schema)
	var err error
	func() {
		defer func() {
			if r := recover(); r != nil {
				st := string(debug.Stack())
				rep.Outcome, rep.Panic, rep.Where = "panic", fmt.Sprint(r), whereOf(st)
				if os.Getenv("RTDSL_STACK") != "" {
					fmt.Fprintln(os.Stderr, st)
				}
			}
		}()
		if !eval.Execute(func() { g.body("top") }, nil) {
			err = eval.Context.Errors
			return
		}
		err = eval.RunDSL()
	}()
	if rep.Outcome == "panic" {
		return
	}
	if err != nil {
		rep.Outcome = "errors"
		if me, ok := err.(eval.MultiError); ok {
			rep.Errors = len(me)
			for _, e := range me {
				if e == nil || e.GoError == nil || strings.TrimSpace(e.GoError.Error()) == "" || e.File == "" {
					rep.Unlocated++
				}
			}
			if len(me) > 0 {
				rep.FirstErr = firstLine(me[0].Error())
			}
		} else {
			rep.Errors = 1
			rep.FirstErr = firstLine(err.Error())
			if strings.TrimSpace(err.Error()) == "" {
				rep.Unlocated = 1
			}
		}
		if rep.Errors == 0 {
			rep.Unlocated = 1 // a refusal without any error
		}
		return
	}
	rep.Outcome = "accepted"
	func() {
		defer func() {
			if r := recover(); r != nil {
				rep.Dangling = append(rep.Dangling, "oracle panic: "+fmt.Sprint(r))
			}
		}()
		rep.Dangling = dangling()
	}()
	if genDir != "" {
		rep.Gen = generate(genDir)
	}
	return
}

func firstLine(s string) string {
	s = strings.SplitN(s, "\n", 2)[0]
	if len(s) > 200 {
		s = s[:200]
	}
	return s
}

// dangling lists references of the accepted design that do not resolve.
func dangling() []string {
	var out []string
	root := expr.Root
	schemes := map[string]bool{} // requirements hold copies of the schemes: compare by name
	for _, s := range root.Schemes {
		schemes[s.SchemeName] = true
	}
	checkReqs := func(where string, reqs []*expr.SecurityExpr) {
		for _, r := range reqs {
			for _, s := range r.Schemes {
				if s == nil || !schemes[s.SchemeName] {
					out = append(out, where+": requirement names a scheme that is not defined")
				}
			}
		}
	}
	if root.API != nil {
		checkReqs("API", root.API.Requirements)
	}
	for _, svc := range root.Services {
		checkReqs("service "+svc.Name, svc.Requirements)
		for _, m := range svc.Methods {
			checkReqs("method "+m.Name, m.Requirements)
			if rt, ok := m.Result.Type.(*expr.ResultTypeExpr); ok {
				if v, ok := m.Result.Meta.Last(expr.ViewMetaKey); ok && rt.View(v) == nil {
					out = append(out, "method "+m.Name+": result view "+v+" is not defined")
				}
			}
		}
	}
	if root.API != nil && root.API.HTTP != nil {
		for _, hs := range root.API.HTTP.Services {
			for _, e := range hs.HTTPEndpoints {
				pobj := expr.AsObject(e.MethodExpr.Payload.Type)
				named := func(kind string, ma *expr.MappedAttributeExpr) {
					if ma == nil || pobj == nil {
						return
					}
					for _, nat := range *expr.AsObject(ma.Type) {
						if pobj.Attribute(nat.Name) == nil {
							out = append(out, fmt.Sprintf("endpoint %s.%s: %s %q is not a payload attribute", hs.Name(), e.Name(), kind, nat.Name))
						}
					}
				}
				named("header", e.Headers)
				named("cookie", e.Cookies)
				named("param", e.Params)
				for _, he := range e.HTTPErrors {
					if he.ErrorExpr == nil {
						out = append(out, fmt.Sprintf("endpoint %s.%s: error response %q has no error definition", hs.Name(), e.Name(), he.Name))
					}
				}
				for _, r := range e.Responses {
					if r.Tag[0] != "" {
						if robj := expr.AsObject(e.MethodExpr.Result.Type); robj == nil || robj.Attribute(r.Tag[0]) == nil {
							out = append(out, fmt.Sprintf("endpoint %s.%s: response tag %q is not a result attribute", hs.Name(), e.Name(), r.Tag[0]))
						}
					}
				}
			}
		}
	}
	return out
}

func generate(dir string) (res string) {
	defer func() {
		if r := recover(); r != nil {
			res = "panic: " + fmt.Sprint(r) + " @ " + whereOf(string(debug.Stack()))
		}
	}()
	os.RemoveAll(filepath.Join(dir, "gen"))
	cwd, _ := os.Getwd()
	os.Chdir(dir)
	defer os.Chdir(cwd)
	if _, err := generator.Generate(dir, "gen"); err != nil {
		return "error: " + firstLine(err.Error())
	}
	return "ok"
}

func main() {
	if len(os.Args) < 2 {
		os.Exit(2)
	}
	fl := flag.NewFlagSet(os.Args[1], flag.ExitOnError)
	seed := fl.Uint64("seed", 1, "seed")
	from := fl.Int("from", 0, "first program")
	n := fl.Int("n", 1, "number of programs")
	index := fl.Int("index", 0, "program (show)")
	genDir := fl.String("gen", "", "module directory to run the generators in for accepted designs")
	fl.Parse(os.Args[2:])
	registry = buildRegistry()
	_ = dsl.API
	enc := json.NewEncoder(os.Stdout)
	switch os.Args[1] {
	case "run":
		for i := *from; i < *from+*n; i++ {
			enc.Encode(report{Index: i, Start: true}) // so that a fatal error (stack overflow, deadlock) can be attributed
			enc.Encode(runOne(*seed, i, *genDir, false))
		}
	case "show":
		enc.Encode(runOne(*seed, *index, *genDir, true))
	default:
		os.Exit(2)
	}
}
