// Command rtscope is the correspondence driver for codegen.NameScope (C01 proved core).
//
//	rtscope gen -seed N -tier quick|thorough ; rtscope run
package main

import (
	"flag"
	"fmt"
	"os"
	"strings"

	"goa.design/goa/v3/codegen"

	"verifharness/internal/lp"
)

type hasher string

func (h hasher) Hash() string { return string(h) }

func main() {
	if len(os.Args) < 2 {
		os.Exit(2)
	}
	fs := flag.NewFlagSet(os.Args[1], flag.ExitOnError)
	seed := fs.Uint64("seed", 1, "seed")
	tier := fs.String("tier", "quick", "tier")
	fs.Parse(os.Args[2:])
	switch os.Args[1] {
	case "gen":
		gen(*seed, *tier)
	case "run":
		lp.Lines(run)
	}
}

var bases = []string{"Foo", "Bar", "Foo2", "Foo1", "FooPayload", "Payload", "A", "A1", "A12", "é", ""}
var sfxs = []string{"~", "~", "Payload", "Result", "1", "2", ""}

func gen(seed uint64, tier string) {
	r := lp.NewRng(seed)
	n := 1500
	if tier == "thorough" {
		n = 60000
	}
	for i := 0; i < n; i++ {
		k := 1 + r.Intn(40)
		var b strings.Builder
		b.WriteString("scope")
		for j := 0; j < k; j++ {
			sfx := lp.Pick(r, sfxs)
			if sfx != "~" {
				sfx = lp.Enc(sfx)
			}
			switch r.Intn(5) {
			case 0:
				fmt.Fprintf(&b, " H %s %s %s", lp.Enc(fmt.Sprintf("h%d", r.Intn(6))), lp.Enc(lp.Pick(r, bases)), sfx)
			case 1:
				fmt.Fprintf(&b, " N %s", lp.Enc(lp.Pick(r, bases)))
			default:
				fmt.Fprintf(&b, " U %s %s", lp.Enc(lp.Pick(r, bases)), sfx)
			}
		}
		fmt.Println(b.String())
	}
}

func run(toks []string) string {
	s := codegen.NewNameScope()
	var out []string
	seen := map[string]bool{}
	byHash := map[string]string{}
	dup := ""
	i := 1
	suffix := func(t string) []string {
		if t == "~" {
			return nil
		}
		return []string{lp.MustDec(t)}
	}
	for i < len(toks) {
		switch toks[i] {
		case "U":
			n := s.Unique(lp.MustDec(toks[i+1]), suffix(toks[i+2])...)
			if seen[n] {
				dup = " DUPLICATE " + lp.Enc(n)
			}
			seen[n] = true
			out = append(out, lp.Enc(n))
			i += 3
		case "H":
			h := lp.MustDec(toks[i+1])
			n := s.HashedUnique(hasher(h), lp.MustDec(toks[i+2]), suffix(toks[i+3])...)
			if prev, ok := byHash[h]; ok {
				if prev != n {
					dup = " DUPLICATE hash-changed-name " + lp.Enc(n)
				}
			} else {
				if seen[n] {
					dup = " DUPLICATE " + lp.Enc(n)
				}
				seen[n] = true
				byHash[h] = n
			}
			out = append(out, lp.Enc(n))
			i += 4
		case "N":
			out = append(out, lp.Enc(s.Name(lp.MustDec(toks[i+1]))))
			i += 2
		default:
			return "bad-op"
		}
	}
	return strings.Join(out, " ") + dup
}
