// Command rtopenapi reads the four OpenAPI documents goa generated for a design
// (gen/http/openapi.json|yaml, openapi3.json|yaml), has an independent implementation
// (github.com/getkin/kin-openapi) load and validate them, and prints what they declare as one
// JSON object: operations with parameters, request bodies, response codes and security.
package main

import (
	"bytes"
	"context"
	"encoding/json"
	"flag"
	"fmt"
	"os"
	"path/filepath"
	"reflect"
	"regexp"
	"sort"
	"strings"

	"github.com/getkin/kin-openapi/openapi2"
	"github.com/getkin/kin-openapi/openapi2conv"
	"github.com/getkin/kin-openapi/openapi3"
	"gopkg.in/yaml.v3"
)

type param struct {
	Name     string `json:"name"`
	In       string `json:"in"`
	Required bool   `json:"required"`
}

type op struct {
	Method       string     `json:"method"`
	Path         string     `json:"path"`
	ID           string     `json:"operation_id"`
	Params       []param    `json:"params"`
	Body         bool       `json:"body"`
	BodyRequired bool       `json:"body_required"`
	Responses    []string   `json:"responses"`
	Security     [][]string `json:"security"` // nil: inherits the document's
	NoSecurity   bool       `json:"no_security"`
}

type doc struct {
	LoadError string `json:"load_error,omitempty"`
	// Recovered: the document did not load because of numeric exclusiveMinimum/exclusiveMaximum (a recorded finding); it was
	// read again with those written the draft-4 way so that the rest of the document is still examined
	Recovered     bool       `json:"recovered,omitempty"`
	ValidateError string     `json:"validate_error,omitempty"`
	ExampleError  string     `json:"example_error,omitempty"` // valid except that an example does not match its schema
	Ops           []op       `json:"ops"`
	Schemes       []string   `json:"schemes"`
	TopSecurity   [][]string `json:"top_security"`
	Notes         []string   `json:"notes,omitempty"`
}

type report struct {
	V2        doc       `json:"v2"`
	V3        doc       `json:"v3"`
	V2Equal   bool      `json:"v2_json_yaml_equal"`
	V3Equal   bool      `json:"v3_json_yaml_equal"`
	EqualNote string    `json:"json_yaml_note,omitempty"`
	V2Diff    *diffInfo `json:"v2_diff,omitempty"`
	V3Diff    *diffInfo `json:"v3_diff,omitempty"`
	// every leaf difference (the first 40), so that one known difference does not hide another
	V2Diffs []*diffInfo `json:"v2_diffs,omitempty"`
	V3Diffs []*diffInfo `json:"v3_diffs,omitempty"`
}

func main() {
	dir := flag.String("dir", "", "gen/http directory")
	flag.Parse()
	var r report
	r.V3 = loadV3(filepath.Join(*dir, "openapi3.json"))
	r.V2 = loadV2(filepath.Join(*dir, "openapi.json"))
	var note []string
	r.V2Equal, note = sameContent(filepath.Join(*dir, "openapi.json"), filepath.Join(*dir, "openapi.yaml"), note)
	r.V2Diff, lastDiff = lastDiff, nil
	r.V2Diffs, allDiffs = allDiffs, nil
	r.V3Equal, note = sameContent(filepath.Join(*dir, "openapi3.json"), filepath.Join(*dir, "openapi3.yaml"), note)
	r.V3Diff, lastDiff = lastDiff, nil
	r.V3Diffs, allDiffs = allDiffs, nil
	r.EqualNote = strings.Join(note, "; ")
	b, _ := json.Marshal(r)
	fmt.Println(string(b))
}

func secReqs(s *openapi3.SecurityRequirements) ([][]string, bool) {
	if s == nil {
		return nil, false
	}
	out := [][]string{}
	for _, req := range *s {
		var names []string
		for n := range req {
			names = append(names, n)
		}
		sort.Strings(names)
		out = append(out, names)
	}
	return out, len(out) == 0
}

func loadV3(path string) doc {
	var d doc
	data, err := os.ReadFile(path)
	if err != nil {
		d.LoadError = err.Error()
		return d
	}
	loader := openapi3.NewLoader()
	t, err := loader.LoadFromData(data)
	if err != nil {
		d.LoadError = err.Error()
		fixed, ok := draft4Bounds(data)
		if !ok || !exclusiveBound.MatchString(d.LoadError) {
			return d
		}
		if t, err = openapi3.NewLoader().LoadFromData(fixed); err != nil {
			d.LoadError += "; after rewriting the exclusive bounds: " + err.Error()
			return d
		}
		d.Recovered = true
	}
	if err := t.Validate(context.Background(), openapi3.DisableExamplesValidation()); err != nil {
		d.ValidateError = err.Error()
	} else if err := t.Validate(context.Background()); err != nil {
		d.ExampleError = err.Error()
	}
	d.Ops = opsOfV3(t)
	if t.Components != nil {
		for n := range t.Components.SecuritySchemes {
			d.Schemes = append(d.Schemes, n)
		}
	}
	sort.Strings(d.Schemes)
	d.TopSecurity, _ = secReqs(&t.Security)
	return d
}

var exclusiveBound = regexp.MustCompile(`exclusiveM(in|ax)imum of type bool`)

// draft4Bounds rewrites {"exclusiveMinimum": n} into {"minimum": n, "exclusiveMinimum": true} (and the same for the maximum)
// everywhere in the document; ok is false when nothing was rewritten.
func draft4Bounds(data []byte) ([]byte, bool) {
	var v any
	dec := json.NewDecoder(bytes.NewReader(data))
	dec.UseNumber()
	if err := dec.Decode(&v); err != nil {
		return nil, false
	}
	changed := false
	var walk func(x any)
	walk = func(x any) {
		switch t := x.(type) {
		case map[string]any:
			for _, k := range [][2]string{{"exclusiveMinimum", "minimum"}, {"exclusiveMaximum", "maximum"}} {
				if n, isNum := t[k[0]].(json.Number); isNum {
					t[k[1]] = n
					t[k[0]] = true
					changed = true
				}
			}
			for k, y := range t {
				if k == "example" || k == "default" || k == "enum" {
					continue // data, not schema
				}
				walk(y)
			}
		case []any:
			for _, y := range t {
				walk(y)
			}
		}
	}
	walk(v)
	out, err := json.Marshal(v)
	return out, changed && err == nil
}

func opsOfV3(t *openapi3.T) []op {
	var ops []op
	if t.Paths == nil {
		return ops
	}
	for path, item := range t.Paths.Map() {
		for method, o := range item.Operations() {
			x := op{Method: method, Path: path, ID: o.OperationID}
			for _, list := range []openapi3.Parameters{item.Parameters, o.Parameters} {
				for _, pr := range list {
					if pr.Value != nil {
						x.Params = append(x.Params, param{pr.Value.Name, pr.Value.In, pr.Value.Required})
					}
				}
			}
			if o.RequestBody != nil && o.RequestBody.Value != nil {
				x.Body = true
				x.BodyRequired = o.RequestBody.Value.Required
			}
			if o.Responses != nil {
				for code := range o.Responses.Map() {
					x.Responses = append(x.Responses, code)
				}
			}
			sort.Strings(x.Responses)
			x.Security, x.NoSecurity = secReqs(o.Security)
			sort.Slice(x.Params, func(i, j int) bool { return x.Params[i].In+x.Params[i].Name < x.Params[j].In+x.Params[j].Name })
			ops = append(ops, x)
		}
	}
	sort.Slice(ops, func(i, j int) bool { return ops[i].Path+" "+ops[i].Method < ops[j].Path+" "+ops[j].Method })
	return ops
}

func loadV2(path string) doc {
	var d doc
	data, err := os.ReadFile(path)
	if err != nil {
		d.LoadError = err.Error()
		return d
	}
	var t openapi2.T
	if err := json.Unmarshal(data, &t); err != nil {
		d.LoadError = err.Error()
		fixed, ok := draft4Bounds(data)
		if !ok || !exclusiveBound.MatchString(d.LoadError) {
			return d
		}
		t = openapi2.T{}
		if err := json.Unmarshal(fixed, &t); err != nil {
			d.LoadError += "; after rewriting the exclusive bounds: " + err.Error()
			return d
		}
		d.Recovered = true
	}
	if t.Swagger != "2.0" {
		d.Notes = append(d.Notes, "swagger field is "+t.Swagger)
	}
	// validity: the independent implementation converts it to OpenAPI 3 and validates the result;
	// plus the 2.0 rules the conversion would hide
	v3, err := openapi2conv.ToV3(&t)
	if err != nil {
		d.ValidateError = "conversion to v3: " + err.Error()
	} else if err := v3.Validate(context.Background(), openapi3.DisableExamplesValidation()); err != nil {
		d.ValidateError = "converted document: " + err.Error()
	} else if err := v3.Validate(context.Background()); err != nil {
		d.ExampleError = "converted document: " + err.Error()
	}
	ids := map[string]string{}
	for path, item := range t.Paths {
		if !strings.HasPrefix(path, "/") {
			d.Notes = append(d.Notes, "path does not start with /: "+path)
		}
		for method, o := range item.Operations() {
			// OpenAPI 2.0: the operation's URL is basePath + path
			x := op{Method: method, Path: strings.TrimSuffix(t.BasePath, "/") + path, ID: o.OperationID}
			if prev, dup := ids[o.OperationID]; dup && o.OperationID != "" {
				d.ValidateError += fmt.Sprintf(" duplicate operationId %q (%s and %s %s)", o.OperationID, prev, method, path)
			}
			ids[o.OperationID] = method + " " + path
			bodies := 0
			for _, list := range []openapi2.Parameters{item.Parameters, o.Parameters} {
				for _, pr := range list {
					switch pr.In {
					case "body":
						bodies++
						x.Body = true
						x.BodyRequired = pr.Required
					case "formData":
						x.Body = true
					default:
						x.Params = append(x.Params, param{pr.Name, pr.In, pr.Required})
					}
					if pr.In == "path" && !pr.Required {
						d.ValidateError += fmt.Sprintf(" path parameter %q of %s %s is not required", pr.Name, method, path)
					}
					if pr.In == "path" && !strings.Contains(path, "{"+pr.Name+"}") {
						d.ValidateError += fmt.Sprintf(" path parameter %q of %s %s is not in the template", pr.Name, method, path)
					}
				}
			}
			if bodies > 1 {
				d.ValidateError += fmt.Sprintf(" %d body parameters in %s %s", bodies, method, path)
			}
			for code := range o.Responses {
				x.Responses = append(x.Responses, code)
			}
			if len(o.Responses) == 0 {
				d.ValidateError += fmt.Sprintf(" no responses in %s %s", method, path)
			}
			sort.Strings(x.Responses)
			if o.Security != nil {
				x.Security = [][]string{}
				for _, req := range *o.Security {
					var names []string
					for n := range req {
						names = append(names, n)
					}
					sort.Strings(names)
					x.Security = append(x.Security, names)
				}
				x.NoSecurity = len(x.Security) == 0
			}
			sort.Slice(x.Params, func(i, j int) bool { return x.Params[i].In+x.Params[i].Name < x.Params[j].In+x.Params[j].Name })
			d.Ops = append(d.Ops, x)
		}
	}
	sort.Slice(d.Ops, func(i, j int) bool { return d.Ops[i].Path+" "+d.Ops[i].Method < d.Ops[j].Path+" "+d.Ops[j].Method })
	for n := range t.SecurityDefinitions {
		d.Schemes = append(d.Schemes, n)
	}
	sort.Strings(d.Schemes)
	for _, req := range t.Security {
		var names []string
		for n := range req {
			names = append(names, n)
		}
		sort.Strings(names)
		d.TopSecurity = append(d.TopSecurity, names)
	}
	return d
}

// sameContent parses the JSON and the YAML rendering into generic values and compares them.
func sameContent(jsonPath, yamlPath string, note []string) (bool, []string) {
	jb, err1 := os.ReadFile(jsonPath)
	yb, err2 := os.ReadFile(yamlPath)
	if err1 != nil || err2 != nil {
		return false, append(note, fmt.Sprintf("read: %v %v", err1, err2))
	}
	var jv, yv any
	if err := json.Unmarshal(jb, &jv); err != nil {
		return false, append(note, "json: "+err.Error())
	}
	if err := yaml.Unmarshal(yb, &yv); err != nil {
		return false, append(note, "yaml: "+err.Error())
	}
	jn, yn := norm(jv), norm(yv)
	if reflect.DeepEqual(jn, yn) {
		return true, note
	}
	everyDiff(jn, yn, "")
	return false, append(note, filepath.Base(jsonPath)+" differs from its YAML rendering at "+firstDiff(jn, yn, ""))
}

func norm(v any) any {
	switch t := v.(type) {
	case map[string]any:
		out := map[string]any{}
		for k, x := range t {
			out[k] = norm(x)
		}
		return out
	case map[any]any:
		out := map[string]any{}
		for k, x := range t {
			out[fmt.Sprint(k)] = norm(x)
		}
		return out
	case []any:
		out := make([]any, len(t))
		for i, x := range t {
			out[i] = norm(x)
		}
		return out
	case int:
		return float64(t)
	case int64:
		return float64(t)
	case uint64:
		return float64(t)
	}
	return v
}

func firstDiff(a, b any, path string) string {
	am, aok := a.(map[string]any)
	bm, bok := b.(map[string]any)
	if aok && bok {
		keys := map[string]bool{}
		for k := range am {
			keys[k] = true
		}
		for k := range bm {
			keys[k] = true
		}
		var ks []string
		for k := range keys {
			ks = append(ks, k)
		}
		sort.Strings(ks)
		for _, k := range ks {
			if !reflect.DeepEqual(am[k], bm[k]) {
				return firstDiff(am[k], bm[k], path+"/"+k)
			}
		}
	}
	as, aok := a.([]any)
	bs, bok := b.([]any)
	if aok && bok && len(as) == len(bs) {
		for i := range as {
			if !reflect.DeepEqual(as[i], bs[i]) {
				return firstDiff(as[i], bs[i], fmt.Sprintf("%s/%d", path, i))
			}
		}
	}
	lastDiff = &diffInfo{Path: path, JSON: truncN(a, 400), YAML: truncN(b, 400), JSONType: fmt.Sprintf("%T", a), YAMLType: fmt.Sprintf("%T", b)}
	return fmt.Sprintf("%s: %v (%T) vs %v (%T)", path, trunc(a), a, trunc(b), b)
}

var allDiffs []*diffInfo

// everyDiff records every leaf at which the two values differ.
func everyDiff(a, b any, path string) {
	if len(allDiffs) >= 40 || reflect.DeepEqual(a, b) {
		return
	}
	am, aok := a.(map[string]any)
	bm, bok := b.(map[string]any)
	if aok && bok {
		keys := map[string]bool{}
		for k := range am {
			keys[k] = true
		}
		for k := range bm {
			keys[k] = true
		}
		var ks []string
		for k := range keys {
			ks = append(ks, k)
		}
		sort.Strings(ks)
		for _, k := range ks {
			everyDiff(am[k], bm[k], path+"/"+k)
		}
		return
	}
	as, aok := a.([]any)
	bs, bok := b.([]any)
	if aok && bok && len(as) == len(bs) {
		for i := range as {
			everyDiff(as[i], bs[i], fmt.Sprintf("%s/%d", path, i))
		}
		return
	}
	allDiffs = append(allDiffs, &diffInfo{Path: path, JSON: truncN(a, 400), YAML: truncN(b, 400), JSONType: fmt.Sprintf("%T", a), YAMLType: fmt.Sprintf("%T", b)})
}

type diffInfo struct {
	Path     string `json:"path"`
	JSON     string `json:"json"`
	YAML     string `json:"yaml"`
	JSONType string `json:"json_type"`
	YAMLType string `json:"yaml_type"`
}

var lastDiff *diffInfo

func truncN(v any, n int) string {
	s := fmt.Sprint(v)
	if len(s) > n {
		s = s[:n]
	}
	return s
}

func trunc(v any) string {
	s := fmt.Sprint(v)
	if len(s) > 80 {
		s = s[:80]
	}
	return s
}
