// Command rtenc is the C15 correspondence driver (tie T3): content negotiation in
// goa's http package, observed through the real encoders/decoders.
//
//	rtenc gen -seed N -tier quick|thorough   operation lines on stdout
//	rtenc run                                runs the REAL code on stdin lines
package main

import (
	"bytes"
	"context"
	"encoding/json"
	"flag"
	"fmt"
	"io"
	"mime"
	"net/http"
	"net/http/httptest"
	"os"
	"reflect"
	"strconv"
	"strings"

	goahttp "goa.design/goa/v3/http"
	goa "goa.design/goa/v3/pkg"

	"verifharness/internal/lp"
)

func main() {
	if len(os.Args) < 2 {
		os.Exit(2)
	}
	switch os.Args[1] {
	case "gen":
		fs := flag.NewFlagSet("gen", flag.ExitOnError)
		seed := fs.Uint64("seed", 1, "seed")
		tier := fs.String("tier", "quick", "tier")
		fs.Parse(os.Args[2:])
		gen(*seed, *tier)
	case "run":
		lp.Lines(run)
	default:
		os.Exit(2)
	}
}

// ------------------------------------------------------------------ generation

var consts = []string{"application/json", "application/xml", "application/gob", "text/html", "text/plain"}

var accepts = []string{
	"", "application/json", "application/xml", "application/gob", "text/html", "text/plain",
	"application/json; charset=utf-8", "application/xml;q=0.9", "APPLICATION/XML", "Text/Plain ; q=1",
	"application/json, application/xml", "text/html,application/xhtml+xml,application/xml;q=0.9,*/*;q=0.8",
	"*/*", "application/*", "application/vnd.api+json", "application/vnd.goa.thing+xml", "application/yaml",
	"garbage;;", ";;;", "a/b/c", " ", "application/json;q", "application/gob ; a=b ; c=\"d e\"",
}

var cts = []string{
	"", "application/json", "application/xml", "application/gob", "text/html", "text/plain",
	"application/vnd.goa.thing+json", "application/vnd.goa.thing+xml", "application/vnd.goa.thing+gob",
	"application/vnd.goa.thing+html", "application/vnd.goa.thing+txt", "application/vnd.goa.thing",
	"application/vnd.goa.thing+json; view=default", "application/xml; charset=utf-8", "Application/Vnd.Goa.X+XML",
	"application/yaml", "image/png", "application/json+xml", "garbage;;", "no-slash", "a/b;c", "text/plain; charset=\"utf-8\"",
}

var presets = []string{
	"", "", "application/vnd.goa.error", "application/vnd.goa.custom+json", "application/vnd.x+xml",
	"text/plain", "application/problem; charset=utf-8", "a/b;c=d", "application/json", "weird",
}

var vkinds = []string{"struct", "string", "bytes"}

func randType(r *lp.Rng) string {
	if r.Intn(4) == 0 {
		return lp.Pick(r, accepts)
	}
	tops := []string{"application", "text", "image", "*", "Application", "x"}
	subs := []string{"json", "xml", "gob", "html", "plain", "vnd.goa.thing", "vnd.a.b", "*", "yaml", "x-y"}
	sufs := []string{"", "", "+json", "+xml", "+gob", "+html", "+txt", "+JSON", "+zip"}
	s := lp.Pick(r, tops) + "/" + lp.Pick(r, subs) + lp.Pick(r, sufs)
	for r.Intn(3) == 0 {
		s += lp.Pick(r, []string{";", "; ", " ;"}) + lp.Pick(r, []string{"q=0.5", "charset=utf-8", "view=default", "a=\"b c\"", "q", "=", "x=y+json"})
	}
	if r.Intn(6) == 0 {
		s += ", " + lp.Pick(r, consts)
	}
	return s
}

func pmTable(strs ...string) string {
	seen := map[string]bool{}
	var rows []string
	var add func(s string, depth int)
	add = func(s string, depth int) {
		if s == "" || seen[s] {
			return
		}
		seen[s] = true
		mt, _, err := mime.ParseMediaType(s)
		ok := "0"
		if err == nil {
			ok = "1"
		}
		rows = append(rows, fmt.Sprintf("%s %s %s", lp.Enc(s), lp.Enc(mt), ok))
		if depth < 3 {
			add(mt, depth+1)
		}
	}
	for _, s := range strs {
		add(s, 0)
	}
	for _, c := range consts {
		add(c, 0)
	}
	return fmt.Sprintf("T %d %s", len(rows), strings.Join(rows, " "))
}

func emitNotFound(i int, accept string) {
	fmt.Printf("notfound %s p%d T 0\n", lp.Enc(accept), i)
}

func emitResp(accept, ct, preset, vk string) {
	// every header value the implementation may produce and parse again
	mtCT, _, _ := mime.ParseMediaType(ct)
	mtA, _, _ := mime.ParseMediaType(accept)
	fmt.Printf("respenc %s %s %s %s %s\n", lp.Enc(accept), lp.Enc(ct), lp.Enc(preset), vk,
		pmTable(accept, ct, preset, mtCT, mtA, preset+"+json", preset+"+xml"))
}

func gen(seed uint64, tier string) {
	r := lp.NewRng(seed)
	i := 0
	for _, a := range accepts {
		for _, c := range cts {
			for _, p := range presets {
				// the full product is visited with a rotating value kind; the thorough tier takes all kinds
				if tier == "thorough" {
					for _, vk := range vkinds {
						emitResp(a, c, p, vk)
					}
				} else {
					emitResp(a, c, p, vkinds[i%3])
					i++
				}
			}
		}
	}
	for k, a := range accepts {
		emitNotFound(k, a)
	}
	n := 3000
	if tier == "thorough" {
		n = 150000
	}
	for k := 0; k < n; k++ {
		if k%50 == 0 {
			emitNotFound(1000+k, randType(r))
		}
		a, c, p := "", "", ""
		switch r.Intn(3) {
		case 0:
			a = randType(r)
		case 1:
			c = randType(r)
		default:
			a, c = randType(r), randType(r)
		}
		if r.Intn(3) == 0 {
			p = lp.Pick(r, presets)
			if r.Intn(2) == 0 {
				p = randType(r)
			}
		}
		emitResp(a, c, p, lp.Pick(r, vkinds))
	}
	hs := append(append([]string{}, accepts...), cts...)
	for k := 0; k < n/10; k++ {
		hs = append(hs, randType(r))
	}
	// decoded values stay what they were when further bodies are decoded (byte slices and strings, every text type)
	for _, ct := range []string{"text/plain", "text/html", "application/json", "text/plain; charset=utf-8"} {
		for _, side := range []string{"req", "resp"} {
			fmt.Printf("keep %s %s %s %s T 0\n", side, lp.Enc(ct), lp.Enc("first message, long enough to matter"), lp.Enc("SECOND"))
			fmt.Printf("keep %s %s %s %s T 0\n", side, lp.Enc(ct), lp.Enc("ab"), lp.Enc("a much longer second message than the first one"))
		}
	}
	for _, h := range hs {
		fmt.Printf("reqdec %s %s\n", lp.Enc(h), pmTable(h))
		fmt.Printf("reqenc %s T 0\n", lp.Enc(h))
		for _, c := range consts {
			fmt.Printf("setct %s %s T 0\n", lp.Enc(h), lp.Enc(c))
		}
		fmt.Printf("setct %s %s T 0\n", lp.Enc(h), lp.Enc(lp.Pick(r, hs)))
	}
}

// ------------------------------------------------------------------ execution

type thing struct {
	A string `json:"a" xml:"a"`
	B int    `json:"b" xml:"b"`
}

func kindOf(x any) string {
	if x == nil || (reflect.ValueOf(x).Kind() == reflect.Ptr && reflect.ValueOf(x).IsNil()) {
		return "nil"
	}
	t := fmt.Sprintf("%T", x)
	switch {
	case strings.Contains(t, "json."):
		return "json"
	case strings.Contains(t, "xml."):
		return "xml"
	case strings.Contains(t, "gob."):
		return "gob"
	case strings.Contains(t, "textEncoder"), strings.Contains(t, "textDecoder"):
		return "text"
	case strings.Contains(t, "unsupportedDecoder"):
		return "unsupported"
	}
	return "other:" + t
}

func init() {
	// the debug doer dumps every exchange (binary bodies included) to os.Stderr
	if null, err := os.OpenFile(os.DevNull, os.O_WRONLY, 0); err == nil {
		os.Stderr = null
	}
}

func run(toks []string) string {
	switch toks[0] {
	case "respenc":
		accept, ct, preset, vk := lp.MustDec(toks[1]), lp.MustDec(toks[2]), lp.MustDec(toks[3]), toks[4]
		ctx := context.Background()
		if accept != "" {
			ctx = context.WithValue(ctx, goahttp.AcceptTypeKey, accept)
		}
		if ct != "" {
			ctx = context.WithValue(ctx, goahttp.ContentTypeKey, ct)
		}
		w := httptest.NewRecorder()
		if preset != "" {
			w.Header().Set("Content-Type", preset)
		}
		enc := goahttp.ResponseEncoder(ctx, w)
		hdr := w.Header().Get("Content-Type")
		ek := kindOf(enc)
		resp := &http.Response{Header: http.Header{}, Body: io.NopCloser(bytes.NewReader(nil))}
		if hdr != "" {
			resp.Header.Set("Content-Type", hdr)
		}
		// the decoder kind is observed on an empty body; the round trip on the real one
		dk := kindOf(goahttp.ResponseDecoder(resp))
		rt := "bad"
		if ek != "nil" {
			rt = roundTrip(enc, w, hdr, vk)
		}
		return fmt.Sprintf("enc=%s hdr=%s dec=%s rt=%s", ek, lp.Enc(hdr), dk, rt)
	case "reqdec":
		h := lp.MustDec(toks[1])
		req := httptest.NewRequest("POST", "/", strings.NewReader("{}"))
		if h != "" {
			req.Header.Set("Content-Type", h)
		}
		dec := goahttp.RequestDecoder(req)
		k := kindOf(dec)
		if k == "unsupported" {
			var v map[string]any
			err := dec.Decode(&v)
			name := ""
			if n, ok := err.(goa.GoaErrorNamer); ok {
				name = n.GoaErrorName()
			}
			st := goahttp.NewErrorResponse(context.Background(), err).StatusCode()
			// the media type the decoder refused is recovered from its message
			msg := err.Error()
			ct := strings.TrimPrefix(msg, "unsupported media type ")
			if name != "unsupported_media_type" {
				return "dec=unsupported-with-name:" + lp.Enc(name)
			}
			return fmt.Sprintf("dec=unsupported:%s status=%d", lp.Enc(ct), st)
		}
		return "dec=" + k + " status=-"
	case "keep":
		// decode two bodies one after the other into values of their own; the first value must not change
		side, ct, b1, b2 := toks[1], lp.MustDec(toks[2]), lp.MustDec(toks[3]), lp.MustDec(toks[4])
		body := func(s string) string {
			if strings.HasPrefix(ct, "application/json") {
				j, _ := json.Marshal(s)
				return string(j)
			}
			return s
		}
		decode := func(s string, v any) error {
			if side == "req" {
				req := httptest.NewRequest("POST", "/", strings.NewReader(body(s)))
				req.Header.Set("Content-Type", ct)
				return goahttp.RequestDecoder(req).Decode(v)
			}
			resp := &http.Response{Header: http.Header{"Content-Type": []string{ct}}, Body: io.NopCloser(strings.NewReader(body(s)))}
			return goahttp.ResponseDecoder(resp).Decode(v)
		}
		res := "keep=ok"
		if !strings.HasPrefix(ct, "application/json") {
			var v1, v2 []byte
			if err := decode(b1, &v1); err != nil {
				return "keep=error:" + lp.Enc(err.Error())
			}
			if err := decode(b2, &v2); err != nil {
				return "keep=error:" + lp.Enc(err.Error())
			}
			if string(v1) != b1 || string(v2) != b2 {
				res = "keep=bytes-changed"
			}
		}
		var s1, s2 string
		if err := decode(b1, &s1); err != nil {
			return "keep=error:" + lp.Enc(err.Error())
		}
		if err := decode(b2, &s2); err != nil {
			return "keep=error:" + lp.Enc(err.Error())
		}
		if s1 != b1 || s2 != b2 {
			res = "keep=string-changed"
		}
		return res
	case "notfound":
		// a request no route matches is answered by the muxer itself: the 404 body is written in the encoding the Content-Type
		// that reaches the client announces, so the library's response decoder recovers the error
		m := goahttp.NewMuxer()
		m.Handle("GET", "/known", func(http.ResponseWriter, *http.Request) {})
		req := httptest.NewRequest("GET", "/unknown/"+toks[2], nil)
		if a := lp.MustDec(toks[1]); a != "" {
			req.Header.Set("Accept", a)
		}
		rec := httptest.NewRecorder()
		m.ServeHTTP(rec, req)
		resp := rec.Result() // the headers as they were when the status was written
		var er goahttp.ErrorResponse
		if resp.StatusCode != 404 {
			return "nf=status-" + strconv.Itoa(resp.StatusCode)
		}
		if kindOf(goahttp.ResponseDecoder(resp)) == "text" {
			return "nf=ok" // the text encoding carries strings and bytes only (as for rt=na): nothing to recover
		}
		if err := goahttp.ResponseDecoder(resp).Decode(&er); err != nil || er.Name == "" || !er.Fault {
			return "nf=undecodable:" + lp.Enc(resp.Header.Get("Content-Type"))
		}
		return "nf=ok"
	case "reqenc":
		h := lp.MustDec(toks[1])
		req := httptest.NewRequest("POST", "/", nil)
		if h != "" {
			req.Header.Set("Content-Type", h)
		}
		enc := goahttp.RequestEncoder(req)
		return fmt.Sprintf("enc=%s hdr=%s", kindOf(enc), lp.Enc(req.Header.Get("Content-Type")))
	case "setct":
		w := httptest.NewRecorder()
		h := lp.MustDec(toks[1])
		if h != "" {
			w.Header().Set("Content-Type", h)
		}
		goahttp.SetContentType(w, lp.MustDec(toks[2]))
		return "hdr=" + lp.Enc(w.Header().Get("Content-Type"))
	}
	return "bad-op"
}

// roundTrip encodes a value with the encoder goa chose, then decodes the recorded body with
// the decoder goa's ResponseDecoder chooses from the recorded Content-Type: ok / bad / na.
func roundTrip(enc goahttp.Encoder, w *httptest.ResponseRecorder, hdr, vk string) (res string) {
	defer func() {
		if r := recover(); r != nil {
			res = "bad"
		}
	}()
	var in any
	switch vk {
	case "struct":
		in = &thing{A: "héllo <&> \"q\"", B: -42}
	case "string":
		in = "plain text ✓ <tag>"
		if len(hdr)%4 == 1 {
			// now and then a body beyond any buffer a doer might keep (200 KiB)
			in = strings.Repeat("0123456789abcdef", 12800) + " ✓"
		}
	default:
		in = []byte{0, 1, 2, 250, 'x'}
	}
	k := kindOf(enc)
	if k == "xml" && vk == "bytes" {
		in = "plain text ✓ <tag>"
		vk = "string"
	}
	if err := enc.Encode(in); err != nil {
		if k == "text" && vk == "struct" {
			return "na"
		}
		return "bad"
	}
	// the response reaches the decoder the way it reaches a generated client: through its doer — the plain one, and the one the
	// generated command line tools install for --verbose (goahttp.NewDebugDoer), which reads and restores the bodies
	for _, debug := range []bool{false, true} {
		var doer goahttp.Doer = doerFunc(func(*http.Request) (*http.Response, error) {
			r := &http.Response{StatusCode: 200, Header: http.Header{}, Body: io.NopCloser(bytes.NewReader(w.Body.Bytes()))}
			if hdr != "" {
				r.Header.Set("Content-Type", hdr)
			}
			return r, nil
		})
		if debug {
			doer = goahttp.NewDebugDoer(doer)
		}
		resp, err := doer.Do(httptest.NewRequest("GET", "/", nil))
		if err != nil {
			return "bad"
		}
		if r := decodeBack(resp, vk, in); r != "ok" || debug {
			return r
		}
	}
	return "ok"
}

type doerFunc func(*http.Request) (*http.Response, error)

func (f doerFunc) Do(r *http.Request) (*http.Response, error) { return f(r) }

func decodeBack(resp *http.Response, vk string, in any) string {
	dec := goahttp.ResponseDecoder(resp)
	switch vk {
	case "struct":
		var out thing
		if err := dec.Decode(&out); err != nil || out != *(in.(*thing)) {
			return "bad"
		}
	case "string":
		var out string
		if err := dec.Decode(&out); err != nil || out != in.(string) {
			return "bad"
		}
	default:
		var out []byte
		if err := dec.Decode(&out); err != nil || !bytes.Equal(out, in.([]byte)) {
			return "bad"
		}
	}
	return "ok"
}
