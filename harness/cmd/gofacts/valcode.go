package main

import (
	"bytes"
	"fmt"
	"go/ast"
	"go/parser"
	"go/token"
	"strings"

	"goa.design/goa/v3/codegen"
	"goa.design/goa/v3/expr"
)

// factsValCode renders, with the REAL generator (codegen.AttributeValidationCode), the validation code of
// one attribute per (kind, keyword, pointer) cell, parses the emitted Go and records for each cell the
// shape of the check: nil guard, what is compared (the value, len(...) or utf8.RuneCountInString(...)),
// the comparison operator, the bound, the error constructor and its boolean argument. The Lean side
// (Props/C04.lean) proves from this table that the emitted check fires exactly when the specification
// says the rule is broken.
func factsValCode(b *bytes.Buffer, dir string) {
	_ = dir
	f3, i2 := 3.0, 2
	type cell struct {
		kind, kw string
		dt       expr.DataType
		val      func() *expr.ValidationExpr
	}
	mk := func(kind, kw string, dt expr.DataType, v func() *expr.ValidationExpr) cell { return cell{kind, kw, dt, v} }
	arr := &expr.Array{ElemType: &expr.AttributeExpr{Type: expr.String}}
	mp := &expr.Map{KeyType: &expr.AttributeExpr{Type: expr.String}, ElemType: &expr.AttributeExpr{Type: expr.Int}}
	var cells []cell
	for _, num := range []struct {
		kind string
		dt   expr.DataType
	}{{"int", expr.Int}, {"float", expr.Float64}, {"uint", expr.UInt32}} {
		cells = append(cells,
			mk(num.kind, "min", num.dt, func() *expr.ValidationExpr { return &expr.ValidationExpr{Minimum: &f3} }),
			mk(num.kind, "max", num.dt, func() *expr.ValidationExpr { return &expr.ValidationExpr{Maximum: &f3} }),
			mk(num.kind, "exmin", num.dt, func() *expr.ValidationExpr { return &expr.ValidationExpr{ExclusiveMinimum: &f3} }),
			mk(num.kind, "exmax", num.dt, func() *expr.ValidationExpr { return &expr.ValidationExpr{ExclusiveMaximum: &f3} }))
	}
	for _, c := range []struct {
		kind string
		dt   expr.DataType
	}{{"string", expr.String}, {"bytes", expr.Bytes}, {"array", arr}, {"map", mp}} {
		cells = append(cells,
			mk(c.kind, "minlen", c.dt, func() *expr.ValidationExpr { return &expr.ValidationExpr{MinLength: &i2} }),
			mk(c.kind, "maxlen", c.dt, func() *expr.ValidationExpr { return &expr.ValidationExpr{MaxLength: &i2} }))
	}
	fmt.Fprintf(b, "structure Check where\n  kind : String\n  kw : String\n  pointer : Bool\n  guard : Bool\n  lhs : String\n  op : String\n  bound : String\n  errFn : String\n  flag : Bool\nderiving Repr, DecidableEq\n\n")
	fmt.Fprintf(b, "/-- one entry per (kind, keyword, pointer): the check codegen.AttributeValidationCode emits -/\ndef checks : List Check := [\n")
	first := true
	for _, c := range cells {
		for _, pointer := range []bool{false, true} {
			att := &expr.AttributeExpr{Type: c.dt, Validation: c.val()}
			ctx := codegen.NewAttributeContext(pointer, false, false, "", codegen.NewNameScope())
			code := codegen.AttributeValidationCode(att, nil, ctx, !pointer, false, "target", "ctx")
			ck, err := parseCheck(code)
			if err != nil {
				die("valcode %s/%s pointer=%v: %v\n%s", c.kind, c.kw, pointer, err, code)
			}
			if !first {
				b.WriteString(",\n")
			}
			first = false
			fmt.Fprintf(b, "  ⟨%s, %s, %v, %v, %s, %s, %s, %s, %v⟩", leanString(c.kind), leanString(c.kw), pointer, ck.guard,
				leanString(ck.lhs), leanString(ck.op), leanString(ck.bound), leanString(ck.errFn), ck.flag)
		}
	}
	b.WriteString("\n]\n")
}

type parsedCheck struct {
	guard            bool
	lhs, op, bound   string
	errFn            string
	flag             bool
}

func parseCheck(code string) (*parsedCheck, error) {
	src := "package p\nfunc f() {\n" + code + "\n}\n"
	fset := token.NewFileSet()
	file, err := parser.ParseFile(fset, "x.go", src, 0)
	if err != nil {
		return nil, err
	}
	body := file.Decls[0].(*ast.FuncDecl).Body.List
	if len(body) != 1 {
		return nil, fmt.Errorf("%d statements", len(body))
	}
	out := &parsedCheck{}
	ifs, ok := body[0].(*ast.IfStmt)
	if !ok {
		return nil, fmt.Errorf("not an if statement")
	}
	// optional nil guard: if target != nil { <check> }
	if be, ok := ifs.Cond.(*ast.BinaryExpr); ok && be.Op == token.NEQ {
		if id, ok := be.Y.(*ast.Ident); ok && id.Name == "nil" {
			out.guard = true
			if len(ifs.Body.List) != 1 {
				return nil, fmt.Errorf("guard body has %d statements", len(ifs.Body.List))
			}
			ifs, ok = ifs.Body.List[0].(*ast.IfStmt)
			if !ok {
				return nil, fmt.Errorf("guard body is not an if statement")
			}
		}
	}
	be, ok := ifs.Cond.(*ast.BinaryExpr)
	if !ok {
		return nil, fmt.Errorf("condition is not a comparison")
	}
	out.op = be.Op.String()
	out.bound = exprString(be.Y)
	switch x := be.X.(type) {
	case *ast.CallExpr:
		fn := exprString(x.Fun)
		switch fn {
		case "len":
			out.lhs = "len"
		case "utf8.RuneCountInString":
			out.lhs = "runes"
		default:
			out.lhs = "call:" + fn
		}
	default:
		out.lhs = "val"
	}
	// the single statement: err = goa.MergeErrors(err, goa.<Fn>(ctx, ..., flag))
	if len(ifs.Body.List) != 1 {
		return nil, fmt.Errorf("check body has %d statements", len(ifs.Body.List))
	}
	as, ok := ifs.Body.List[0].(*ast.AssignStmt)
	if !ok || len(as.Rhs) != 1 {
		return nil, fmt.Errorf("check body is not an assignment")
	}
	call, ok := as.Rhs[0].(*ast.CallExpr)
	if !ok || exprString(call.Fun) != "goa.MergeErrors" || len(call.Args) != 2 {
		return nil, fmt.Errorf("not goa.MergeErrors")
	}
	inner, ok := call.Args[1].(*ast.CallExpr)
	if !ok {
		return nil, fmt.Errorf("no error constructor")
	}
	out.errFn = strings.TrimPrefix(exprString(inner.Fun), "goa.")
	if len(inner.Args) > 0 {
		if id, ok := inner.Args[len(inner.Args)-1].(*ast.Ident); ok {
			out.flag = id.Name == "true"
		}
	}
	return out, nil
}

func exprString(e ast.Expr) string {
	switch x := e.(type) {
	case *ast.Ident:
		return x.Name
	case *ast.BasicLit:
		return x.Value
	case *ast.SelectorExpr:
		return exprString(x.X) + "." + x.Sel.Name
	case *ast.StarExpr:
		return "*" + exprString(x.X)
	case *ast.UnaryExpr:
		return x.Op.String() + exprString(x.X)
	case *ast.CallExpr:
		return exprString(x.Fun) + "(...)"
	}
	return fmt.Sprintf("%T", e)
}
