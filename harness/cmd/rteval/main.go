// Command rteval is the C11 correspondence driver (tie T3): the real eval engine
// (eval.Register / Context.Roots / RunDSL) driven with instrumented roots and expressions.
//
//	rteval gen -seed N -tier quick|thorough
//	rteval run
package main

import (
	"flag"
	"fmt"
	"os"
	"strconv"
	"strings"

	"goa.design/goa/v3/dsl"
	"goa.design/goa/v3/eval"
	"goa.design/goa/v3/expr"

	"verifharness/internal/lp"
)

func main() {
	if len(os.Args) < 2 {
		os.Exit(2)
	}
	fs := flag.NewFlagSet(os.Args[1], flag.ExitOnError)
	seed := fs.Uint64("seed", 1, "seed")
	tier := fs.String("tier", "quick", "tier")
	fs.Parse(os.Args[2:])
	switch os.Args[1] {
	case "gen":
		gen(*seed, *tier)
	case "run":
		lp.Lines(run)
	case "goaroots":
		goaRoots()
	default:
		os.Exit(2)
	}
}

// ------------------------------------------------------------------ generation

func name(i int) string { return "r" + strconv.Itoa(i) }

// perms enumerates all permutations of 0..n-1.
func perms(n int) [][]int {
	if n == 0 {
		return [][]int{{}}
	}
	var out [][]int
	for _, p := range perms(n - 1) {
		for i := 0; i <= len(p); i++ {
			q := append(append(append([]int{}, p[:i]...), n-1), p[i:]...)
			out = append(out, q)
		}
	}
	return out
}

func emitGraph(n int, adj [][]int, order []int) {
	var b strings.Builder
	fmt.Fprintf(&b, "roots U %d R %d", 3*n+4, n)
	for i := 0; i < n; i++ {
		fmt.Fprintf(&b, " %s %d", name(i), len(adj[i]))
		for _, d := range adj[i] {
			b.WriteString(" " + name(d))
		}
	}
	fmt.Fprintf(&b, " I %d", len(order))
	for _, o := range order {
		b.WriteString(" " + name(o))
	}
	fmt.Println(b.String())
}

type xexpr struct {
	id   int
	dsl  []string // nil = no Source
	src  bool
	prep bool
	val  []int
	hasV bool
	fin  bool
}

type xroot struct {
	name string
	deps []string
	sets [][]int
	self int
}

func emitRun(fuel int, roots []xroot, pool []xexpr, init []string) {
	var b strings.Builder
	fmt.Fprintf(&b, "run U %d R %d", fuel, len(roots))
	for _, r := range roots {
		fmt.Fprintf(&b, " %s %d", r.name, len(r.deps))
		for _, d := range r.deps {
			b.WriteString(" " + d)
		}
		fmt.Fprintf(&b, " %d", len(r.sets))
		for _, s := range r.sets {
			fmt.Fprintf(&b, " %d", len(s))
			for _, e := range s {
				fmt.Fprintf(&b, " %d", e)
			}
		}
		fmt.Fprintf(&b, " %d", r.self)
	}
	fmt.Fprintf(&b, " P %d", len(pool))
	for _, e := range pool {
		fmt.Fprintf(&b, " %d", e.id)
		if e.src {
			fmt.Fprintf(&b, " E%d", len(e.dsl))
			for _, f := range e.dsl {
				b.WriteString(" " + f)
			}
		} else {
			b.WriteString(" ~")
		}
		b.WriteString(" " + b2s(e.prep))
		if e.hasV {
			fmt.Fprintf(&b, " V%d", len(e.val))
			for _, t := range e.val {
				fmt.Fprintf(&b, " %d", t)
			}
		} else {
			b.WriteString(" ~")
		}
		b.WriteString(" " + b2s(e.fin))
	}
	fmt.Fprintf(&b, " I %d", len(init))
	for _, n := range init {
		b.WriteString(" " + n)
	}
	fmt.Println(b.String())
}

func b2s(b bool) string {
	if b {
		return "1"
	}
	return "0"
}

func gen(seed uint64, tier string) {
	r := lp.NewRng(seed)
	// every irreflexive digraph on up to maxN roots x every registration order
	maxN := 3
	if tier == "thorough" {
		maxN = 4
	}
	for n := 1; n <= maxN; n++ {
		pairs := [][2]int{}
		for i := 0; i < n; i++ {
			for j := 0; j < n; j++ {
				if i != j {
					pairs = append(pairs, [2]int{i, j})
				}
			}
		}
		ps := perms(n)
		for mask := 0; mask < 1<<len(pairs); mask++ {
			adj := make([][]int, n)
			for k, p := range pairs {
				if mask>>k&1 == 1 {
					adj[p[0]] = append(adj[p[0]], p[1])
				}
			}
			for _, p := range ps {
				emitGraph(n, adj, p)
			}
		}
	}
	// 4 roots in the quick tier: a sample; larger random graphs, partial registration, self loops
	cnt := 3000
	if tier == "thorough" {
		cnt = 60000
	}
	for c := 0; c < cnt; c++ {
		n := 4 + r.Intn(5)
		if tier == "quick" && c%2 == 0 {
			n = 4
		}
		adj := make([][]int, n)
		dens := 1 + r.Intn(4)
		dag := r.Intn(3) != 0
		perm := perms0(r, n)
		for i := 0; i < n; i++ {
			for j := 0; j < n; j++ {
				if i == j || r.Intn(8) >= dens {
					continue
				}
				if dag && perm[i] < perm[j] {
					continue
				}
				adj[i] = append(adj[i], j)
			}
			// the same dependency listed twice, dependency order shuffled
			if len(adj[i]) > 0 && r.Intn(6) == 0 {
				adj[i] = append(adj[i], adj[i][0])
			}
		}
		order := perms0(r, n)
		// sometimes register only a subset: the rest is reachable (or not) through DependsOn
		if r.Intn(4) == 0 {
			order = order[:1+r.Intn(n)]
		}
		emitGraph(n, adj, order)
	}
	// RunDSL scenarios
	rc := 1500
	if tier == "thorough" {
		rc = 40000
	}
	for c := 0; c < rc; c++ {
		genRun(r)
	}
}

func perms0(r *lp.Rng, n int) []int {
	p := make([]int, n)
	for i := range p {
		p[i] = i
	}
	for i := n - 1; i > 0; i-- {
		j := r.Intn(i + 1)
		p[i], p[j] = p[j], p[i]
	}
	return p
}

func genRun(r *lp.Rng) {
	n := 1 + r.Intn(5)
	nInit := 1 + r.Intn(n)
	var roots []xroot
	var pool []xexpr
	nextID := 1
	rank := perms0(r, n)
	cyclic := r.Intn(10) == 0
	errMode := r.Intn(4) // 0: none, 1: exec errors, 2: validation errors, 3: both possible
	dyn := r.Intn(3) == 0
	// the roots registered before RunDSL; the others may be registered by a DSL. Dependencies
	// always point to initially registered roots, so the registry is dependency-closed at all
	// times (DependsOn returning a root that is never registered is outside the property).
	initOrder := perms0(r, n)[:nInit]
	isInit := map[int]bool{}
	for _, i := range initOrder {
		isInit[i] = true
	}
	for i := 0; i < n; i++ {
		x := xroot{name: name(i)}
		for j := 0; j < n; j++ {
			if i != j && isInit[j] && r.Intn(3) == 0 && (cyclic || rank[j] < rank[i] || !isInit[i]) {
				x.deps = append(x.deps, name(j))
			}
		}
		ns := r.Intn(3)
		for s := 0; s < ns; s++ {
			var set []int
			for k := r.Intn(4); k > 0; k-- {
				set = append(set, nextID)
				nextID++
			}
			x.sets = append(x.sets, set)
		}
		x.self = nextID
		nextID++
		roots = append(roots, x)
	}
	// two roots that only a DSL registers, the dependent one first, in ONE expression (so that the
	// registry is dependency-closed again when the pass ends): they must still run dependency first
	pairP, pairB := -1, -1
	if dyn && r.Intn(2) == 0 {
		var late []int
		for i := 0; i < n; i++ {
			if !isInit[i] {
				late = append(late, i)
			}
		}
		if len(late) >= 2 {
			pairP, pairB = late[0], late[1]
			roots[pairP].deps = append(roots[pairP].deps, name(pairB))
		}
	}
	pairPlaced := false
	// spare expressions that DSLs may append
	spare := []int{}
	for k := 0; k < 3; k++ {
		spare = append(spare, nextID)
		nextID++
	}
	tag := 1
	for id := 1; id < nextID; id++ {
		e := xexpr{id: id, prep: r.Intn(2) == 0, fin: r.Intn(2) == 0}
		isSelf := false
		for _, x := range roots {
			if x.self == id {
				isSelf = true
			}
		}
		if r.Intn(3) != 0 {
			e.hasV = true
			if (errMode == 2 || errMode == 3) && r.Intn(5) == 0 {
				for k := 1 + r.Intn(2); k > 0; k-- {
					e.val = append(e.val, tag)
					tag++
				}
			}
		}
		if !isSelf && r.Intn(4) != 0 {
			e.src = true
			if (errMode == 1 || errMode == 3) && r.Intn(6) == 0 {
				e.dsl = append(e.dsl, "e"+strconv.Itoa(tag))
				tag++
			}
			if pairP >= 0 && !pairPlaced {
				owner := -1
				for ri, x := range roots {
					for _, set := range x.sets {
						for _, xid := range set {
							if xid == id {
								owner = ri
							}
						}
					}
				}
				if owner >= 0 && isInit[owner] {
					e.dsl = append(e.dsl, "r"+name(pairP), "r"+name(pairB))
					pairPlaced = true
				}
			}
			if dyn && r.Intn(4) == 0 {
				switch r.Intn(2) {
				case 0:
					// register a root that is defined but not initially registered (or already registered)
					k := r.Intn(n)
					if k == pairP || k == pairB {
						break // registered as a pair only
					}
					e.dsl = append(e.dsl, "r"+name(k))
				default:
					x := roots[r.Intn(n)]
					if len(x.sets) > 0 {
						e.dsl = append(e.dsl, fmt.Sprintf("a%s:%d:%d", x.name, r.Intn(len(x.sets)), lp.Pick(r, spare)))
					}
				}
			}
		}
		pool = append(pool, e)
	}
	var init []string
	for _, i := range initOrder {
		init = append(init, name(i))
	}
	emitRun(3*n+4, roots, pool, init)
}

// ------------------------------------------------------------------ execution on the real engine

type world struct {
	roots map[string]*troot
	pool  map[int]*texpr
	log   []string
}

type troot struct {
	w    *world
	name string
	deps []string
	sets [][]eval.Expression
	self *texpr
}

func (r *troot) EvalName() string   { return r.name }
func (r *troot) Packages() []string { return nil }
func (r *troot) DependsOn() []eval.Root {
	var out []eval.Root
	for _, d := range r.deps {
		if o, ok := r.w.roots[d]; ok {
			out = append(out, o)
		} else {
			out = append(out, &troot{w: r.w, name: d})
		}
	}
	return out
}
func (r *troot) WalkSets(w eval.SetWalker) {
	for i := 0; i < len(r.sets); i++ {
		w(eval.ToExpressionSet(r.sets[i]))
	}
}

// the root itself takes part in prepare/validate/finalize through its `self` expression
func (r *troot) Prepare() {
	if r.self != nil && r.self.prep {
		r.w.log = append(r.w.log, fmt.Sprintf("P:%s:%d", r.name, r.self.id))
	}
}
func (r *troot) Validate() error {
	if r.self != nil && r.self.hasV {
		r.w.log = append(r.w.log, fmt.Sprintf("V:%s:%d", r.name, r.self.id))
		return r.self.verr(r)
	}
	return nil
}
func (r *troot) Finalize() {
	if r.self != nil && r.self.fin {
		r.w.log = append(r.w.log, fmt.Sprintf("F:%s:%d", r.name, r.self.id))
	}
}

type texpr struct {
	w    *world
	id   int
	effs []string
	src  bool
	prep bool
	val  []int
	hasV bool
	fin  bool
	root string // owner, set when placed in a set
}

func (e *texpr) EvalName() string { return "expr " + strconv.Itoa(e.id) }

func (e *texpr) verr(on eval.Expression) error {
	if len(e.val) == 0 {
		return nil
	}
	verr := new(eval.ValidationErrors)
	for _, t := range e.val {
		verr.Add(on, "tag%d", t)
	}
	return verr
}

func (e *texpr) dslFunc() func() {
	return func() {
		w := e.w
		w.log = append(w.log, fmt.Sprintf("D:%s:%d", e.root, e.id))
		for _, f := range e.effs {
			switch f[0] {
			case 'e':
				eval.ReportError("tag%s", f[1:])
			case 'r':
				if r, ok := w.roots[f[1:]]; ok {
					_ = eval.Register(r)
				}
			case 'a':
				p := strings.Split(f[1:], ":")
				si, _ := strconv.Atoi(p[1])
				ei, _ := strconv.Atoi(p[2])
				if r, ok := w.roots[p[0]]; ok && si < len(r.sets) {
					r.sets[si] = append(r.sets[si], w.wrap(w.pool[ei], p[0]))
				}
			}
		}
	}
}

// wrap builds a Go value implementing exactly the interfaces of the scenario's expression.
func (w *world) wrap(e *texpr, root string) eval.Expression {
	c := *e
	c.root = root
	return build(&c)
}

type capExpr struct {
	e *texpr
}

func (c capExpr) EvalName() string { return c.e.EvalName() }

// capability mixins: the engine type-switches on the interfaces, so an expression value must
// implement exactly what the scenario says it implements (16 combinations).
type mS struct{ e *texpr }
type mP struct{ e *texpr }
type mV struct{ e *texpr }
type mF struct{ e *texpr }

func (c mS) DSL() func() { return c.e.dslFunc() }
func (c mP) Prepare()    { c.e.w.log = append(c.e.w.log, fmt.Sprintf("P:%s:%d", c.e.root, c.e.id)) }
func (c mV) Validate() error {
	c.e.w.log = append(c.e.w.log, fmt.Sprintf("V:%s:%d", c.e.root, c.e.id))
	return c.e.verr(capExpr{c.e})
}
func (c mF) Finalize() { c.e.w.log = append(c.e.w.log, fmt.Sprintf("F:%s:%d", c.e.root, c.e.id)) }

func build(e *texpr) eval.Expression {
	b := capExpr{e}
	s, p, v, f := mS{e}, mP{e}, mV{e}, mF{e}
	k := 0
	if e.src {
		k |= 1
	}
	if e.prep {
		k |= 2
	}
	if e.hasV {
		k |= 4
	}
	if e.fin {
		k |= 8
	}
	switch k {
	case 0:
		return b
	case 1:
		return struct {
			capExpr
			mS
		}{b, s}
	case 2:
		return struct {
			capExpr
			mP
		}{b, p}
	case 3:
		return struct {
			capExpr
			mS
			mP
		}{b, s, p}
	case 4:
		return struct {
			capExpr
			mV
		}{b, v}
	case 5:
		return struct {
			capExpr
			mS
			mV
		}{b, s, v}
	case 6:
		return struct {
			capExpr
			mP
			mV
		}{b, p, v}
	case 7:
		return struct {
			capExpr
			mS
			mP
			mV
		}{b, s, p, v}
	case 8:
		return struct {
			capExpr
			mF
		}{b, f}
	case 9:
		return struct {
			capExpr
			mS
			mF
		}{b, s, f}
	case 10:
		return struct {
			capExpr
			mP
			mF
		}{b, p, f}
	case 11:
		return struct {
			capExpr
			mS
			mP
			mF
		}{b, s, p, f}
	case 12:
		return struct {
			capExpr
			mV
			mF
		}{b, v, f}
	case 13:
		return struct {
			capExpr
			mS
			mV
			mF
		}{b, s, v, f}
	case 14:
		return struct {
			capExpr
			mP
			mV
			mF
		}{b, p, v, f}
	default:
		return struct {
			capExpr
			mS
			mP
			mV
			mF
		}{b, s, p, v, f}
	}
}

type cursor struct {
	t []string
	i int
}

func (c *cursor) next() string { s := c.t[c.i]; c.i++; return s }
func (c *cursor) nat() int     { n, _ := strconv.Atoi(c.next()); return n }

func run(toks []string) string {
	c := &cursor{t: toks, i: 1}
	switch toks[0] {
	case "roots":
		c.next()
		c.nat()
		c.next()
		w := &world{roots: map[string]*troot{}}
		k := c.nat()
		for i := 0; i < k; i++ {
			r := &troot{w: w, name: c.next()}
			m := c.nat()
			for j := 0; j < m; j++ {
				r.deps = append(r.deps, c.next())
			}
			w.roots[r.name] = r
		}
		c.next()
		eval.Reset()
		for n := c.nat(); n > 0; n-- {
			_ = eval.Register(w.roots[c.next()])
		}
		rs, err := eval.Context.Roots()
		if err != nil {
			if strings.Contains(err.Error(), "dependency cycle") {
				return "cycle"
			}
			return "error " + lp.Enc(err.Error())
		}
		var names []string
		for _, r := range rs {
			names = append(names, r.EvalName())
		}
		return "order " + strings.Join(names, " ")
	case "run":
		c.next()
		c.nat()
		c.next()
		w := &world{roots: map[string]*troot{}, pool: map[int]*texpr{}}
		k := c.nat()
		type pending struct {
			r    *troot
			sets [][]int
			self int
		}
		var pend []pending
		for i := 0; i < k; i++ {
			r := &troot{w: w, name: c.next()}
			for m := c.nat(); m > 0; m-- {
				r.deps = append(r.deps, c.next())
			}
			var sets [][]int
			for ns := c.nat(); ns > 0; ns-- {
				var set []int
				for l := c.nat(); l > 0; l-- {
					set = append(set, c.nat())
				}
				sets = append(sets, set)
			}
			self := c.nat()
			w.roots[r.name] = r
			pend = append(pend, pending{r, sets, self})
		}
		c.next()
		for p := c.nat(); p > 0; p-- {
			e := &texpr{w: w, id: c.nat()}
			d := c.next()
			if d != "~" {
				e.src = true
				n, _ := strconv.Atoi(d[1:])
				for ; n > 0; n-- {
					e.effs = append(e.effs, c.next())
				}
			}
			e.prep = c.next() == "1"
			v := c.next()
			if v != "~" {
				e.hasV = true
				n, _ := strconv.Atoi(v[1:])
				for ; n > 0; n-- {
					e.val = append(e.val, c.nat())
				}
			}
			e.fin = c.next() == "1"
			w.pool[e.id] = e
		}
		for _, p := range pend {
			for _, set := range p.sets {
				var xs []eval.Expression
				for _, id := range set {
					xs = append(xs, w.wrap(w.pool[id], p.r.name))
				}
				p.r.sets = append(p.r.sets, xs)
			}
			p.r.self = w.pool[p.self]
		}
		c.next()
		eval.Reset()
		for n := c.nat(); n > 0; n-- {
			_ = eval.Register(w.roots[c.next()])
		}
		err := eval.RunDSL()
		res := "ok"
		if err != nil {
			msg := err.Error()
			if strings.Contains(msg, "dependency cycle") {
				res = "cycle"
			} else {
				// recover the tags in order of appearance
				var tags []string
				for _, part := range strings.Split(msg, "tag")[1:] {
					n := 0
					for n < len(part) && part[n] >= '0' && part[n] <= '9' {
						n++
					}
					tags = append(tags, part[:n])
				}
				res = "errors " + strings.Join(tags, ",")
			}
		}
		return res + " | " + strings.Join(w.log, " ")
	}
	return "bad-op"
}

// goaRoots evaluates one design with the roots exactly as goa's own packages registered them when the process started (what the
// goa command evaluates with), and prints one line per variant:
//
//	order=<roots in evaluation order> typename=<name of the generated collection> views=<n> collection=<0|1> err=<...>
//
// The design makes a root that is empty when the evaluation starts gain its content WHILE the design root executes: the result
// type of Result(CollectionOf(X)) inside a Method is generated during execution and lives in the generated-result-types root,
// whose DSL has to run after the design root's, before validation and finalization.
func goaRoots() {
	var bottle *expr.ResultTypeExpr
	ok := eval.Execute(func() {
		dsl.API("cellar", func() {})
		bottle = dsl.ResultType("application/vnd.verif.bottle", func() {
			dsl.TypeName("Bottle")
			dsl.Attributes(func() {
				dsl.Attribute("id", expr.Int)
				dsl.Attribute("name", expr.String)
				dsl.Required("id")
			})
			dsl.View("default", func() { dsl.Attribute("id"); dsl.Attribute("name") })
			dsl.View("tiny", func() { dsl.Attribute("id") })
		})
		dsl.Service("cellar", func() {
			dsl.Method("list", func() {
				dsl.Result(dsl.CollectionOf(bottle))
				dsl.HTTP(func() { dsl.GET("/bottles") })
			})
		})
	}, nil)
	var errText string
	if !ok {
		errText = eval.Context.Error()
	} else if err := eval.RunDSL(); err != nil {
		errText = err.Error()
	}
	var order []string
	if roots, err := eval.Context.Roots(); err == nil {
		for _, r := range roots {
			order = append(order, strings.ReplaceAll(r.EvalName(), " ", "-"))
		}
	}
	typename, views, coll := "~", 0, 0
	if errText == "" && len(expr.Root.Services) == 1 && len(expr.Root.Services[0].Methods) == 1 {
		if rt, isRT := expr.Root.Services[0].Methods[0].Result.Type.(*expr.ResultTypeExpr); isRT {
			typename, views = rt.TypeName, len(rt.Views)
			if expr.IsArray(rt.Type) {
				coll = 1
			}
			if typename == "" {
				typename = "~"
			}
		}
	}
	if errText == "" {
		errText = "~"
	}
	fmt.Printf("order=%s typename=%s views=%d collection=%d err=%s\n", strings.Join(order, ","), typename, views, coll, strings.ReplaceAll(errText, " ", "_"))
}
