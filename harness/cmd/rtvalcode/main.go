// Command rtvalcode is the correspondence driver for the ASSEMBLY of validation code
// (codegen/validation.go: recurseValidationCode, validateAttribute, validationCode and its templates)
// against the Lean model GoaVerif.ValCode.compile (C04).
//
//	rtvalcode gen -seed N -tier quick|thorough   random attribute trees, one `compile <att>` line each
//	rtvalcode run                                 per line: build the expr attribute, run the REAL
//	                                              codegen.ValidationCode in the context of an HTTP body type
//	                                              (Pointer = true), parse the emitted Go and print it in the
//	                                              canonical form the Lean driver prints for `compile`
//
// Attribute encoding: see lean/GoaVerif/Drive/Validation.lean.
package main

import (
	"flag"
	"fmt"
	"go/ast"
	"go/parser"
	"go/token"
	"math/big"
	"os"
	"sort"
	"strconv"
	"strings"

	"goa.design/goa/v3/codegen"
	"goa.design/goa/v3/expr"

	"verifharness/internal/lp"
)

func main() {
	if len(os.Args) < 2 {
		os.Exit(2)
	}
	fs := flag.NewFlagSet(os.Args[1], flag.ExitOnError)
	seed := fs.Uint64("seed", 1, "seed")
	tier := fs.String("tier", "quick", "tier")
	fs.Parse(os.Args[2:])
	switch os.Args[1] {
	case "gen":
		gen(*seed, *tier)
	case "run":
		lp.Lines(run)
	}
}

// ---------------------------------------------------------------- generator

// gatt is a generated attribute tree; it prints itself in the driver's prefix notation and
// generates well-typed values around its own bounds.
type gatt struct {
	kind   string // b y i n s A M O
	rules  map[string]string
	enum   []string // rats or strings
	elem   *gatt
	key    *gatt
	fields []*gatt
	name   string
	req    bool
	ref    string // kind U: a named (user) type
}

type g struct {
	r *lp.Rng
	// named object types (kind U refers to them), in definition order
	types []*gatt
}

var rats = []string{"0/1", "1/1", "2/1", "3/1", "5/1", "10/1", "-1/1", "-3/1", "1/2", "5/2", "-3/2", "100/1"}
var strs = []string{"a", "ab", "abc", "x y", ""}
var ruleOrder = []string{"fmt", "pat", "min", "max", "xmin", "xmax", "minlen", "maxlen"}

func (g *g) rules(a *gatt) {
	r := g.r
	a.rules = map[string]string{}
	switch a.kind {
	case "n", "i":
		pool := rats
		if a.kind == "i" {
			pool = rats[:8]
		}
		if r.Intn(4) == 0 {
			for n := 1 + r.Intn(3); n > 0; n-- {
				a.enum = append(a.enum, lp.Pick(r, pool))
			}
		}
		for _, kw := range []string{"min", "max", "xmin", "xmax"} {
			if r.Intn(3) == 0 {
				a.rules[kw] = lp.Pick(r, pool)
			}
		}
	case "s":
		if r.Intn(4) == 0 {
			for n := 1 + r.Intn(3); n > 0; n-- {
				a.enum = append(a.enum, lp.Pick(r, strs))
			}
		}
		if r.Intn(4) == 0 {
			a.rules["fmt"] = ""
		}
		if r.Intn(4) == 0 {
			a.rules["pat"] = ""
		}
		fallthrough
	case "y", "A", "M":
		if r.Intn(3) == 0 {
			a.rules["minlen"] = strconv.Itoa(r.Intn(4))
		}
		if r.Intn(3) == 0 {
			a.rules["maxlen"] = strconv.Itoa(1 + r.Intn(5))
		}
	}
}

func (a *gatt) ruleToks() string {
	var items []string
	if len(a.enum) > 0 {
		it := []string{"en", strconv.Itoa(len(a.enum))}
		if a.kind == "s" {
			it[0] = "es"
			for _, e := range a.enum {
				it = append(it, lp.Enc(e))
			}
		} else {
			it = append(it, a.enum...)
		}
		items = append(items, strings.Join(it, " "))
	}
	for _, kw := range ruleOrder {
		if v, ok := a.rules[kw]; ok {
			if v == "" {
				items = append(items, kw)
			} else {
				items = append(items, kw+" "+v)
			}
		}
	}
	if len(items) == 0 {
		return "R 0"
	}
	return "R " + strconv.Itoa(len(items)) + " " + strings.Join(items, " ")
}

// resolved prints the attribute with its references to named types replaced by the types, to the given
// depth (below it a placeholder no present value reaches).
func (a *gatt) resolved(g *g, depth int) string {
	switch a.kind {
	case "U":
		if depth <= 0 {
			return "P b R 0"
		}
		return g.typ(a.ref).resolved(g, depth)
	case "A":
		return "A " + a.ruleToks() + " " + a.elem.resolved(g, depth-1)
	case "M":
		return "M " + a.ruleToks() + " " + a.key.resolved(g, depth-1) + " " + a.elem.resolved(g, depth-1)
	case "O":
		parts := []string{"O", strconv.Itoa(len(a.fields))}
		for _, f := range a.fields {
			req := "0"
			if f.req {
				req = "1"
			}
			parts = append(parts, lp.Enc(f.name), req, f.resolved(g, depth-1))
		}
		return strings.Join(parts, " ")
	}
	return a.toks()
}

func (g *g) typ(name string) *gatt {
	for _, t := range g.types {
		if t.name == name {
			return t
		}
	}
	panic("type " + name)
}

func (a *gatt) hasRef() bool {
	switch a.kind {
	case "U":
		return true
	case "A":
		return a.elem.hasRef()
	case "M":
		return a.elem.hasRef()
	case "O":
		for _, f := range a.fields {
			if f.hasRef() {
				return true
			}
		}
	}
	return false
}

func (a *gatt) toks() string {
	switch a.kind {
	case "U":
		return "U " + lp.Enc(a.ref)
	case "b", "y", "s":
		return "P " + a.kind + " " + a.ruleToks()
	case "i":
		return "P n 1 ~ ~ " + a.ruleToks()
	case "n":
		return "P n 0 ~ ~ " + a.ruleToks()
	case "A":
		return "A " + a.ruleToks() + " " + a.elem.toks()
	case "M":
		return "M " + a.ruleToks() + " " + a.key.toks() + " " + a.elem.toks()
	}
	parts := []string{"O", strconv.Itoa(len(a.fields))}
	for _, f := range a.fields {
		req := "0"
		if f.req {
			req = "1"
		}
		parts = append(parts, lp.Enc(f.name), req, f.toks())
	}
	return strings.Join(parts, " ")
}

func (g *g) prim() *gatt {
	a := &gatt{kind: lp.Pick(g.r, []string{"b", "y", "i", "n", "s", "s"})}
	g.rules(a)
	return a
}

// att generates an attribute; underMap: no objects below (the model's `okCtx`).
func (g *g) att(depth int, underMap bool) *gatt {
	k := g.r.Intn(10)
	if depth <= 0 || k < 5 {
		return g.prim()
	}
	switch {
	case k < 7:
		a := &gatt{kind: "A", elem: g.att(depth-1, underMap)}
		g.rules(a)
		return a
	case k < 9:
		key := &gatt{kind: "s"}
		if g.r.Intn(3) == 0 {
			key.kind = "i"
		}
		g.rules(key)
		a := &gatt{kind: "M", key: key, elem: g.att(depth-1, true)}
		g.rules(a)
		return a
	default:
		if underMap {
			return g.prim()
		}
		return g.obj(depth - 1)
	}
}

func (g *g) obj(depth int) *gatt {
	a := &gatt{kind: "O"}
	for i, n := 0, 1+g.r.Intn(4); i < n; i++ {
		f := g.att(depth, false)
		f.name, f.req = fmt.Sprintf("f%d", i), g.r.Intn(2) == 0
		a.fields = append(a.fields, f)
	}
	return a
}

func ratAdd(s string, num, den int64) string {
	r, _ := new(big.Rat).SetString(s)
	r.Add(r, big.NewRat(num, den))
	return r.Num().String() + "/" + r.Denom().String()
}

func (g *g) length(a *gatt, free []int) int {
	c := append([]int{}, free...)
	for _, kw := range []string{"minlen", "maxlen"} {
		if v, ok := a.rules[kw]; ok {
			n, _ := strconv.Atoi(v)
			c = append(c, n-1, n, n+1)
		}
	}
	n := lp.Pick(g.r, c)
	if n < 0 {
		n = 0
	}
	return n
}

// val generates a well-typed value of a: numbers around the bounds and in the enum, lengths around
// the length bounds (multi-byte runes included), object fields absent one time in four.
func (g *g) val(a *gatt) string {
	v, _ := g.valD(a, 1000)
	return v
}

// valD: references to named types are followed to the given depth only; ok = false when a value
// would have to go deeper (the parent then leaves the field out / the collection empty).
func (g *g) valD(a *gatt, depth int) (string, bool) {
	r := g.r
	switch a.kind {
	case "U":
		if depth <= 0 {
			return "", false
		}
		return g.valD(g.typ(a.ref), depth)
	case "A":
		n := g.length(a, []int{0, 1, 2})
		var parts []string
		for i := 0; i < n; i++ {
			v, ok := g.valD(a.elem, depth-1)
			if !ok {
				break
			}
			parts = append(parts, v)
		}
		return strings.Join(append([]string{"a", strconv.Itoa(len(parts))}, parts...), " "), true
	case "M":
		n := g.length(a, []int{0, 1, 2})
		var parts []string
		cnt := 0
		for i := 0; i < n; i++ {
			v, ok := g.valD(a.elem, depth-1)
			if !ok {
				break
			}
			k, _ := g.valD(a.key, depth-1)
			parts = append(parts, k, v)
			cnt++
		}
		return strings.Join(append([]string{"m", strconv.Itoa(cnt)}, parts...), " "), true
	case "O":
		var parts []string
		n := 0
		for _, f := range a.fields {
			if r.Intn(4) == 0 {
				continue
			}
			v, ok := g.valD(f, depth-1)
			if !ok {
				continue
			}
			n++
			parts = append(parts, lp.Enc(f.name), v)
		}
		return strings.Join(append([]string{"o", strconv.Itoa(n)}, parts...), " "), true
	}
	return g.valPrim(a), true
}

func (g *g) valPrim(a *gatt) string {
	r := g.r
	switch a.kind {
	case "b":
		return lp.Pick(r, []string{"t", "f"})
	case "i", "n":
		c := []string{"0/1", "7/1", "-2/1"}
		c = append(c, a.enum...)
		for _, kw := range []string{"min", "max", "xmin", "xmax"} {
			if v, ok := a.rules[kw]; ok {
				c = append(c, v, ratAdd(v, 1, 1), ratAdd(v, -1, 1))
				if a.kind == "n" {
					c = append(c, ratAdd(v, 1, 4), ratAdd(v, -1, 4))
				}
			}
		}
		x := lp.Pick(r, c)
		if a.kind == "i" && !strings.HasSuffix(x, "/1") {
			x = ratAdd(x, 1, 2)
		}
		return "n " + x
	case "s":
		s := ""
		if len(a.enum) > 0 && r.Intn(2) == 0 {
			s = lp.Pick(r, a.enum)
		} else {
			for n := g.length(a, []int{1, 3}); n > 0; n-- {
				s += lp.Pick(r, []string{"a", "é", "z", "語"})
			}
		}
		bit := func() string {
			if r.Intn(4) == 0 {
				return "0"
			}
			return "1"
		}
		return "s " + lp.Enc(s) + " " + bit() + " " + bit()
	case "y":
		return "y " + strconv.Itoa(g.length(a, []int{0, 2}))
	}
	panic("valPrim " + a.kind)
}

// userTypes generates 1-3 named object types; a field may refer to any of them (references to the type
// itself or to a later type are optional, so that finite values exist).
func (g *g) userTypes() {
	g.types = nil
	n := 1 + g.r.Intn(3)
	for i := 0; i < n; i++ {
		g.types = append(g.types, &gatt{kind: "O", name: fmt.Sprintf("T%d", i)})
	}
	for i, t := range g.types {
		for k, nf := 0, 1+g.r.Intn(3); k < nf; k++ {
			var f *gatt
			switch g.r.Intn(6) {
			case 0:
				j := g.r.Intn(n)
				f = &gatt{kind: "U", ref: g.types[j].name}
				f.req = j < i && g.r.Intn(2) == 0
			case 1:
				f = &gatt{kind: "A", elem: &gatt{kind: "U", ref: g.types[g.r.Intn(n)].name}}
				g.rules(f)
				f.req = g.r.Intn(2) == 0
			case 2:
				key := &gatt{kind: "s"}
				g.rules(key)
				f = &gatt{kind: "M", key: key, elem: g.prim()}
				g.rules(f)
				f.req = g.r.Intn(2) == 0
			default:
				f = g.prim()
				if g.r.Intn(3) == 0 {
					f.rules, f.enum = map[string]string{}, nil // types without any validation exist too
				}
				f.req = g.r.Intn(3) == 0
			}
			f.name = fmt.Sprintf("g%d", k)
			t.fields = append(t.fields, f)
		}
	}
}

// bodyWithTypes: a body object whose fields use the named types directly, in arrays and as map values.
func (g *g) bodyWithTypes() *gatt {
	a := &gatt{kind: "O"}
	for i, n := 0, 1+g.r.Intn(4); i < n; i++ {
		var f *gatt
		ref := &gatt{kind: "U", ref: lp.Pick(g.r, g.types).name}
		switch g.r.Intn(5) {
		case 0, 1:
			f = ref
		case 2:
			f = &gatt{kind: "A", elem: ref}
			g.rules(f)
		case 3:
			key := &gatt{kind: "s"}
			g.rules(key)
			f = &gatt{kind: "M", key: key, elem: ref}
			g.rules(f)
		default:
			f = g.prim()
		}
		f.name, f.req = fmt.Sprintf("f%d", i), g.r.Intn(2) == 0
		a.fields = append(a.fields, f)
	}
	return a
}

func gen(seed uint64, tier string) {
	n, per := 400, 6
	if tier == "thorough" {
		n, per = 6000, 12
	}
	rv := lp.NewRng(seed*31337 + 5)
	for i := 0; i < n; i++ {
		fmt.Println("vmerge " + genV(rv) + " " + genV(rv))
	}
	gg := &g{r: lp.NewRng(seed*7919 + 41)}
	for i := 0; i < n; i++ {
		a := gg.obj(1 + gg.r.Intn(3))
		fmt.Println("compile " + a.toks())
		fmt.Println("hasval " + a.toks())
		for k := 0; k < per; k++ {
			fmt.Println("judge " + a.toks() + " " + gg.val(a))
		}
	}
	// attribute trees with named (user) types: the emitted code calls Validate<Type>; judged against the
	// specification of the attribute with its references resolved
	gu := &g{r: lp.NewRng(seed*104729 + 7)}
	for i := 0; i < n/2; i++ {
		gu.userTypes()
		a := gu.bodyWithTypes()
		var env []string
		for _, t := range gu.types {
			env = append(env, lp.Enc(t.name), t.toks())
		}
		for k := 0; k < per; k++ {
			depth := 2 + gu.r.Intn(4)
			v, _ := gu.valD(a, depth)
			fmt.Println("judgeu " + a.resolved(gu, depth+1) + " " + v + " ENV " + strconv.Itoa(len(gu.types)) + " " + strings.Join(env, " ") + " " + a.toks())
		}
	}
}

// ---------------------------------------------------------------- attribute construction

// trickyPattern is the pattern every generated Pattern validation uses: characters that are special to Go string
// literals, to fmt verbs and to text/template.
const trickyPattern = `^[0-9]{1,3}%$|"q"\\d%s{{x}}`

type toks struct {
	t []string
	i int
	// named types of a judgeu line
	types map[string]*expr.UserTypeExpr
}

func (t *toks) next() string {
	if t.i >= len(t.t) {
		panic("short input")
	}
	s := t.t[t.i]
	t.i++
	return s
}

func ratFloat(s string) float64 {
	r, ok := new(big.Rat).SetString(s)
	if !ok {
		panic("bad rat " + s)
	}
	f, _ := r.Float64()
	return f
}

func (t *toks) rules(isInt bool) *expr.ValidationExpr {
	if t.next() != "R" {
		panic("R expected")
	}
	k, _ := strconv.Atoi(t.next())
	if k == 0 {
		return nil
	}
	v := &expr.ValidationExpr{}
	for ; k > 0; k-- {
		switch kw := t.next(); kw {
		case "en":
			n, _ := strconv.Atoi(t.next())
			for ; n > 0; n-- {
				f := ratFloat(t.next())
				if isInt {
					v.Values = append(v.Values, int(f))
				} else {
					v.Values = append(v.Values, f)
				}
			}
		case "es":
			n, _ := strconv.Atoi(t.next())
			for ; n > 0; n-- {
				v.Values = append(v.Values, lp.MustDec(t.next()))
			}
		case "fmt":
			v.Format = expr.FormatUUID
		case "pat":
			v.Pattern = trickyPattern
		case "min":
			f := ratFloat(t.next())
			v.Minimum = &f
		case "max":
			f := ratFloat(t.next())
			v.Maximum = &f
		case "xmin":
			f := ratFloat(t.next())
			v.ExclusiveMinimum = &f
		case "xmax":
			f := ratFloat(t.next())
			v.ExclusiveMaximum = &f
		case "minlen":
			n, _ := strconv.Atoi(t.next())
			v.MinLength = &n
		case "maxlen":
			n, _ := strconv.Atoi(t.next())
			v.MaxLength = &n
		default:
			panic("rule " + kw)
		}
	}
	return v
}

func (t *toks) att() *expr.AttributeExpr {
	switch k := t.next(); k {
	case "U":
		ut, ok := t.types[lp.MustDec(t.next())]
		if !ok {
			panic("unknown type")
		}
		return &expr.AttributeExpr{Type: ut}
	case "P":
		switch p := t.next(); p {
		case "b":
			return &expr.AttributeExpr{Type: expr.Boolean, Validation: t.rules(false)}
		case "s":
			return &expr.AttributeExpr{Type: expr.String, Validation: t.rules(false)}
		case "y":
			return &expr.AttributeExpr{Type: expr.Bytes, Validation: t.rules(false)}
		case "n":
			isInt := t.next() == "1"
			t.next()
			t.next()
			if isInt {
				return &expr.AttributeExpr{Type: expr.Int, Validation: t.rules(true)}
			}
			return &expr.AttributeExpr{Type: expr.Float64, Validation: t.rules(false)}
		default:
			panic("prim " + p)
		}
	case "A":
		v := t.rules(false)
		return &expr.AttributeExpr{Type: &expr.Array{ElemType: t.att()}, Validation: v}
	case "M":
		v := t.rules(false)
		key := t.att()
		return &expr.AttributeExpr{Type: &expr.Map{KeyType: key, ElemType: t.att()}, Validation: v}
	case "O":
		n, _ := strconv.Atoi(t.next())
		obj := expr.Object{}
		var req []string
		for ; n > 0; n-- {
			name := lp.MustDec(t.next())
			if t.next() == "1" {
				req = append(req, name)
			}
			obj = append(obj, &expr.NamedAttributeExpr{Name: name, Attribute: t.att()})
		}
		a := &expr.AttributeExpr{Type: &obj}
		if len(req) > 0 {
			a.Validation = &expr.ValidationExpr{Required: req}
		}
		return a
	default:
		panic("att " + k)
	}
}

// ---------------------------------------------------------------- run: real generator, parsed code

// node is one statement of the emitted validation code.
type node struct {
	kind   string // chk nn miss each kv
	target string // the expression the statement works on, without dereferences
	viol   string // chk: error name
	cond   string // chk: enumn enums fmt pat lt gt le ge runeslt runesgt lenlt lengt
	nums   []*big.Rat
	strs   []string
	n      int
	body   []*node // nn, each; kv: key statements
	body2  []*node // kv: value statements
}

func emitted(att *expr.AttributeExpr) ([]*node, string, error) {
	ctx := codegen.NewAttributeContext(true, false, true, "", codegen.NewNameScope())
	code := codegen.ValidationCode(att, nil, ctx, true, false, false, "body")
	out, err := parseCode(code)
	return out, code, err
}

// ---- ValidationExpr.Merge (vmerge <V> <V>)

func genV(r *lp.Rng) string {
	b := func() string {
		if r.Intn(3) == 0 {
			return "~"
		}
		return strconv.Itoa(r.Intn(9) - 3)
	}
	names := []string{"a", "b", "c", "dd"}
	var sb strings.Builder
	sb.WriteString("F " + lp.Enc(lp.Pick(r, []string{"", "", "date", "uuid"})) + " P " + lp.Enc(lp.Pick(r, []string{"", "", "^20", "[a-z]+"})) + " E")
	if r.Intn(3) != 0 {
		sb.WriteString(" ~")
	} else {
		n := r.Intn(3)
		sb.WriteString(" " + strconv.Itoa(n))
		for i := 0; i < n; i++ {
			sb.WriteString(" " + lp.Enc(lp.Pick(r, names)))
		}
	}
	sb.WriteString(" xm " + b() + " m " + b() + " xM " + b() + " M " + b() + " l " + b() + " L " + b())
	n := r.Intn(4)
	sb.WriteString(" R " + strconv.Itoa(n))
	for i := 0; i < n; i++ {
		sb.WriteString(" " + lp.Enc(lp.Pick(r, names)))
	}
	return sb.String()
}

func parseV(ts []string) (*expr.ValidationExpr, []string, bool) {
	if len(ts) < 19 || ts[0] != "F" || ts[2] != "P" || ts[4] != "E" {
		return nil, nil, false
	}
	v := &expr.ValidationExpr{Format: expr.ValidationFormat(lp.MustDec(ts[1])), Pattern: lp.MustDec(ts[3])}
	ts = ts[5:]
	if ts[0] == "~" {
		ts = ts[1:]
	} else {
		n, _ := strconv.Atoi(ts[0])
		v.Values = []any{}
		for _, x := range ts[1 : 1+n] {
			v.Values = append(v.Values, lp.MustDec(x))
		}
		ts = ts[1+n:]
	}
	fl := func(s string) *float64 {
		if s == "~" {
			return nil
		}
		f, _ := strconv.ParseFloat(s, 64)
		return &f
	}
	in := func(s string) *int {
		if s == "~" {
			return nil
		}
		i, _ := strconv.Atoi(s)
		return &i
	}
	if len(ts) < 14 || ts[0] != "xm" || ts[12] != "R" {
		return nil, nil, false
	}
	v.ExclusiveMinimum, v.Minimum, v.ExclusiveMaximum, v.Maximum, v.MinLength, v.MaxLength = fl(ts[1]), fl(ts[3]), fl(ts[5]), fl(ts[7]), in(ts[9]), in(ts[11])
	n, _ := strconv.Atoi(ts[13])
	for _, x := range ts[14 : 14+n] {
		v.Required = append(v.Required, lp.MustDec(x))
	}
	return v, ts[14+n:], true
}

func showV(v *expr.ValidationExpr) string {
	fl := func(f *float64) string {
		if f == nil {
			return "~"
		}
		return strconv.FormatFloat(*f, 'f', -1, 64)
	}
	in := func(i *int) string {
		if i == nil {
			return "~"
		}
		return strconv.Itoa(*i)
	}
	out := []string{"F", lp.Enc(string(v.Format)), "P", lp.Enc(v.Pattern), "E"}
	if v.Values == nil {
		out = append(out, "~")
	} else {
		out = append(out, strconv.Itoa(len(v.Values)))
		for _, x := range v.Values {
			out = append(out, lp.Enc(x.(string)))
		}
	}
	out = append(out, "xm", fl(v.ExclusiveMinimum), "m", fl(v.Minimum), "xM", fl(v.ExclusiveMaximum), "M", fl(v.Maximum), "l", in(v.MinLength), "L", in(v.MaxLength),
		"R", strconv.Itoa(len(v.Required)))
	for _, r := range v.Required {
		out = append(out, lp.Enc(r))
	}
	return strings.Join(out, " ")
}

func run(ts []string) string {
	if len(ts) < 2 {
		return "bad-op"
	}
	if ts[0] == "vmerge" {
		v, rest, ok := parseV(ts[1:])
		if !ok {
			return "bad-op"
		}
		o, rest, ok := parseV(rest)
		if !ok || len(rest) != 0 {
			return "bad-op"
		}
		before := showV(o)
		v.Merge(o)
		if showV(o) != before {
			return "merged-argument-changed " + showV(o)
		}
		return "merged " + showV(v)
	}
	t := &toks{t: ts[1:]}
	att := t.att()
	switch ts[0] {
	case "hasval":
		// does the generator call Validate<Type> for a field of this (object) type? — hasValidations
		if t.i != len(t.t) {
			return "bad-op"
		}
		ut := &expr.UserTypeExpr{TypeName: "T", AttributeExpr: att}
		body := &expr.AttributeExpr{Type: &expr.Object{{Name: "f", Attribute: &expr.AttributeExpr{Type: ut}}}}
		nodes, code, err := emitted(body)
		if err != nil {
			return "unrecognised " + lp.Enc(err.Error()+"\n"+code)
		}
		if len(nodes) == 0 {
			return "hasval=0"
		}
		if len(nodes) == 1 && nodes[0].kind == "nn" && len(nodes[0].body) == 1 && nodes[0].body[0].kind == "call" {
			return "hasval=1"
		}
		return "unrecognised " + lp.Enc("code for a field of user type: "+show(nodes))
	case "compile":
		if t.i != len(t.t) {
			return "bad-op"
		}
		nodes, code, err := emitted(att)
		if err != nil {
			return "unrecognised " + lp.Enc(err.Error()+"\n"+code)
		}
		return "code " + show(nodes)
	case "judgeu":
		// judgeu <resolved att> <val> ENV <k> (<hexname> <att>)*k <att>: the Lean side judges the resolved
		// attribute; here the attribute with its named types goes through the real generator
		v := t.val()
		if t.next() != "ENV" {
			return "bad-op"
		}
		k, _ := strconv.Atoi(t.next())
		t.types = map[string]*expr.UserTypeExpr{}
		start := t.i
		// first pass: the names (types may refer to each other)
		for i := 0; i < k; i++ {
			name := lp.MustDec(t.next())
			t.types[name] = &expr.UserTypeExpr{TypeName: name, AttributeExpr: &expr.AttributeExpr{Type: &expr.Object{}}}
			t.skipAtt()
		}
		t.i = start
		var order []string
		for i := 0; i < k; i++ {
			name := lp.MustDec(t.next())
			order = append(order, name)
			t.types[name].AttributeExpr = t.att()
		}
		body := t.att()
		if t.i != len(t.t) {
			return "bad-op"
		}
		nodes, code, err := emitted(body)
		if err != nil {
			return "unrecognised " + lp.Enc(err.Error()+"\n"+code)
		}
		fns := map[string][]*node{}
		for _, name := range order {
			ut := t.types[name]
			ctx := codegen.NewAttributeContext(true, false, true, "", codegen.NewNameScope())
			src := codegen.ValidationCode(ut.Attribute(), ut, ctx, true, false, false, "body")
			fn, err := parseCode(src)
			if err != nil {
				return "unrecognised " + lp.Enc(err.Error()+"\n"+src)
			}
			fns[codegen.Goify(name, true)] = fn
		}
		viols := map[string]bool{}
		execF(nodes, map[string]*value{"body": v}, viols, fns, 0)
		return verdict(viols)
	case "judge":
		v := t.val()
		if t.i != len(t.t) {
			return "bad-op"
		}
		nodes, code, err := emitted(att)
		if err != nil {
			return "unrecognised " + lp.Enc(err.Error()+"\n"+code)
		}
		viols := map[string]bool{}
		execF(nodes, map[string]*value{"body": v}, viols, nil, 0)
		return verdict(viols)
	}
	return "bad-op"
}

func verdict(viols map[string]bool) string {
	if len(viols) == 0 {
		return "code=called"
	}
	var names []string
	for n := range viols {
		names = append(names, n)
	}
	sort.Strings(names)
	return "code=rejected:" + strings.Join(names, ",")
}

// skipAtt skips one attribute in the token stream.
func (t *toks) skipAtt() {
	switch k := t.next(); k {
	case "U":
		t.next()
	case "P":
		if t.next() == "n" {
			t.i += 3
		}
		t.skipRules()
	case "A":
		t.skipRules()
		t.skipAtt()
	case "M":
		t.skipRules()
		t.skipAtt()
		t.skipAtt()
	case "O":
		n, _ := strconv.Atoi(t.next())
		for ; n > 0; n-- {
			t.i += 2
			t.skipAtt()
		}
	default:
		panic("skip " + k)
	}
}

func (t *toks) skipRules() {
	t.next()
	k, _ := strconv.Atoi(t.next())
	for ; k > 0; k-- {
		switch kw := t.next(); kw {
		case "en", "es":
			n, _ := strconv.Atoi(t.next())
			t.i += n
		case "fmt", "pat":
		default:
			t.i++
		}
	}
}

func parseCode(code string) ([]*node, error) {
	src := "package p\nfunc f() {\n" + code + "\n}\n"
	file, err := parser.ParseFile(token.NewFileSet(), "x.go", src, 0)
	if err != nil {
		return nil, fmt.Errorf("unparsable: %v", err)
	}
	return stmts(file.Decls[0].(*ast.FuncDecl).Body.List)
}

func ratStr(r *big.Rat) string { return r.Num().String() + "/" + r.Denom().String() }

func show(list []*node) string {
	var b strings.Builder
	for _, n := range list {
		switch n.kind {
		case "chk":
			c := n.cond
			switch n.cond {
			case "enumn":
				var vs []string
				for _, r := range n.nums {
					vs = append(vs, ratStr(r))
				}
				c = "enumn[" + strings.Join(vs, ",") + "]"
			case "enums":
				var vs []string
				for _, x := range n.strs {
					vs = append(vs, lp.Enc(x))
				}
				c = "enums[" + strings.Join(vs, ",") + "]"
			case "lt", "gt", "le", "ge":
				c = n.cond + ":" + ratStr(n.nums[0])
			case "runeslt", "runesgt", "lenlt", "lengt":
				c = n.cond + ":" + strconv.Itoa(n.n)
			}
			b.WriteString("chk(" + n.viol + "," + c + "," + n.target + ");")
		case "nn":
			b.WriteString("nn(" + n.target + "){" + show(n.body) + "};")
		case "miss":
			b.WriteString("miss(" + n.target + ");")
		case "call":
			b.WriteString("call(" + n.viol + "," + n.target + ");")
		case "each":
			b.WriteString("each(" + n.target + "){" + show(n.body) + "};")
		case "kv":
			b.WriteString("kv(" + n.target + "){" + show(n.body) + "}{" + show(n.body2) + "};")
		}
	}
	return b.String()
}

// ---------------------------------------------------------------- values and the reading of the emitted code

// value is a decoded value: nil pointer = absent.
type value struct {
	kind   string // absent bool num str bytes arr map obj
	num    *big.Rat
	str    string
	fmtOK  bool
	patOK  bool
	n      int
	elems  []*value
	keys   []*value
	fields map[string]*value
}

func (t *toks) val() *value {
	switch k := t.next(); k {
	case "_":
		return &value{kind: "absent"}
	case "t", "f":
		return &value{kind: "bool"}
	case "n":
		r, ok := new(big.Rat).SetString(t.next())
		if !ok {
			panic("rat")
		}
		return &value{kind: "num", num: r}
	case "s":
		s := lp.MustDec(t.next())
		fo := t.next() == "1"
		return &value{kind: "str", str: s, fmtOK: fo, patOK: t.next() == "1"}
	case "y":
		n, _ := strconv.Atoi(t.next())
		return &value{kind: "bytes", n: n}
	case "a":
		n, _ := strconv.Atoi(t.next())
		v := &value{kind: "arr"}
		for ; n > 0; n-- {
			v.elems = append(v.elems, t.val())
		}
		return v
	case "m":
		n, _ := strconv.Atoi(t.next())
		v := &value{kind: "map"}
		for ; n > 0; n-- {
			v.keys = append(v.keys, t.val())
			v.elems = append(v.elems, t.val())
		}
		return v
	case "o":
		n, _ := strconv.Atoi(t.next())
		v := &value{kind: "obj", fields: map[string]*value{}}
		for ; n > 0; n-- {
			name := codegen.Goify(lp.MustDec(t.next()), true)
			fv := t.val()
			if _, dup := v.fields[name]; !dup {
				v.fields[name] = fv
			}
		}
		return v
	default:
		panic("val " + k)
	}
}

// resolve evaluates a target expression (`body.F0.F1`, `e`, `k`, `v`) in the environment.
func resolve(target string, env map[string]*value) *value {
	parts := strings.Split(target, ".")
	v := env[parts[0]]
	for _, f := range parts[1:] {
		if v == nil || v.kind != "obj" {
			return &value{kind: "absent"}
		}
		nv, ok := v.fields[f]
		if !ok {
			return &value{kind: "absent"}
		}
		v = nv
	}
	if v == nil {
		return &value{kind: "absent"}
	}
	return v
}

func goLen(v *value) int {
	switch v.kind {
	case "arr", "map":
		return len(v.elems)
	case "bytes":
		return v.n
	}
	return 0
}

func with(env map[string]*value, k string, v *value) map[string]*value {
	out := map[string]*value{}
	for a, b := range env {
		out[a] = b
	}
	out[k] = v
	return out
}

// exec reads the emitted statements the way Go runs them; dereferencing a nil pointer is reported.
func execF(list []*node, env map[string]*value, viols map[string]bool, fns map[string][]*node, depth int) {
	for _, n := range list {
		v := resolve(n.target, env)
		switch n.kind {
		case "nn":
			if v.kind != "absent" {
				execF(n.body, env, viols, fns, depth)
			}
		case "miss":
			if v.kind == "absent" {
				viols["missing_field"] = true
			}
		case "call":
			// if err2 := Validate<Type>(target); err2 != nil { err = goa.MergeErrors(err, err2) }
			fn, ok := fns[n.viol]
			if !ok {
				viols["CALL-of-unknown-function-"+n.viol] = true
			} else if v.kind == "absent" {
				viols["PANIC-nil-dereference"] = true // the generated Validate functions dereference their argument
			} else if depth > 64 {
				viols["RUNAWAY-recursion"] = true
			} else {
				execF(fn, map[string]*value{"body": v}, viols, fns, depth+1)
			}
		case "each":
			if v.kind == "arr" {
				for _, e := range v.elems {
					execF(n.body, with(env, "e", e), viols, fns, depth)
				}
			}
		case "kv":
			if v.kind == "map" {
				for i := range v.elems {
					execF(n.body, with(env, "k", v.keys[i]), viols, fns, depth)
					execF(n.body2, with(env, "v", v.elems[i]), viols, fns, depth)
				}
			}
		case "chk":
			fires := false
			switch n.cond {
			case "lenlt":
				fires = goLen(v) < n.n
			case "lengt":
				fires = goLen(v) > n.n
			default:
				if v.kind == "absent" {
					viols["PANIC-nil-dereference"] = true
					continue
				}
				switch n.cond {
				case "enumn":
					fires = true
					for _, r := range n.nums {
						if v.kind == "num" && r.Cmp(v.num) == 0 {
							fires = false
						}
					}
				case "enums":
					fires = true
					for _, x := range n.strs {
						if v.kind == "str" && x == v.str {
							fires = false
						}
					}
				case "fmt":
					fires = !v.fmtOK
				case "pat":
					fires = !v.patOK
				case "lt":
					fires = v.kind == "num" && v.num.Cmp(n.nums[0]) < 0
				case "gt":
					fires = v.kind == "num" && v.num.Cmp(n.nums[0]) > 0
				case "le":
					fires = v.kind == "num" && v.num.Cmp(n.nums[0]) <= 0
				case "ge":
					fires = v.kind == "num" && v.num.Cmp(n.nums[0]) >= 0
				case "runeslt":
					fires = len([]rune(v.str)) < n.n
				case "runesgt":
					fires = len([]rune(v.str)) > n.n
				}
			}
			if fires {
				viols[n.viol] = true
			}
		}
	}
}

// ---------------------------------------------------------------- parsing the emitted Go

func stmts(list []ast.Stmt) ([]*node, error) {
	var out []*node
	for _, s := range list {
		o, err := stmt(s)
		if err != nil {
			return nil, err
		}
		out = append(out, o)
	}
	return out, nil
}

// target renders the expression a statement works on, without dereferences and conversions.
func target(e ast.Expr) string {
	switch x := e.(type) {
	case *ast.Ident:
		return x.Name
	case *ast.SelectorExpr:
		return target(x.X) + "." + x.Sel.Name
	case *ast.StarExpr:
		return target(x.X)
	case *ast.ParenExpr:
		return target(x.X)
	}
	return fmt.Sprintf("?%T", e)
}

func ratOf(e ast.Expr) (*big.Rat, error) {
	neg := false
	if u, ok := e.(*ast.UnaryExpr); ok && u.Op == token.SUB {
		neg = true
		e = u.X
	}
	lit, ok := e.(*ast.BasicLit)
	if !ok {
		return nil, fmt.Errorf("bound is %T", e)
	}
	r, ok2 := new(big.Rat).SetString(lit.Value)
	if !ok2 {
		return nil, fmt.Errorf("bound %q", lit.Value)
	}
	if neg {
		r.Neg(r)
	}
	return r, nil
}

func errCall(s ast.Stmt) (fn string, args []ast.Expr, ok bool) {
	as, isAs := s.(*ast.AssignStmt)
	if !isAs || len(as.Rhs) != 1 || len(as.Lhs) != 1 || target(as.Lhs[0]) != "err" {
		return
	}
	call, isCall := as.Rhs[0].(*ast.CallExpr)
	if !isCall || exprName(call.Fun) != "goa.MergeErrors" || len(call.Args) != 2 {
		return
	}
	inner, isCall := call.Args[1].(*ast.CallExpr)
	if !isCall {
		return
	}
	return exprName(inner.Fun), inner.Args, true
}

func exprName(e ast.Expr) string {
	switch x := e.(type) {
	case *ast.Ident:
		return x.Name
	case *ast.SelectorExpr:
		return exprName(x.X) + "." + x.Sel.Name
	}
	return ""
}

func rootOf(t string) string {
	if i := strings.IndexByte(t, '.'); i >= 0 {
		return t[:i]
	}
	return t
}

// stmtTarget is the root variable a statement works on (to split a map loop into key and value code).
func stmtTarget(s ast.Stmt) string {
	switch x := s.(type) {
	case *ast.IfStmt:
		if as, ok := x.Init.(*ast.AssignStmt); ok && len(as.Rhs) == 1 {
			if c, ok := as.Rhs[0].(*ast.CallExpr); ok && len(c.Args) == 1 {
				return rootOf(target(c.Args[0]))
			}
		}
		if be, ok := x.Cond.(*ast.BinaryExpr); ok {
			if c, ok := be.X.(*ast.CallExpr); ok && len(c.Args) == 1 {
				return rootOf(target(c.Args[0]))
			}
			return rootOf(target(be.X))
		}
		if u, ok := x.Cond.(*ast.UnaryExpr); ok {
			if p, ok := u.X.(*ast.ParenExpr); ok {
				e := p.X
				for {
					be, ok := e.(*ast.BinaryExpr)
					if !ok {
						break
					}
					if be.Op == token.LOR {
						e = be.X
						continue
					}
					return rootOf(target(be.X))
				}
			}
		}
	case *ast.AssignStmt:
		if _, args, ok := errCall(s); ok && len(args) >= 2 {
			return rootOf(target(args[1]))
		}
	case *ast.RangeStmt:
		return rootOf(target(x.X))
	}
	return "?"
}

func stmt(s ast.Stmt) (*node, error) {
	switch x := s.(type) {
	case *ast.AssignStmt:
		fn, args, ok := errCall(s)
		if !ok || len(args) < 2 {
			return nil, fmt.Errorf("assignment that is not an error merge")
		}
		switch fn {
		case "goa.ValidatePattern":
			// the pattern must reach the runtime exactly as designed
			if lit, ok := args[2].(*ast.BasicLit); !ok || lit.Kind != token.STRING {
				return nil, fmt.Errorf("pattern argument is not a string literal")
			} else if p, err := strconv.Unquote(lit.Value); err != nil || p != trickyPattern {
				return nil, fmt.Errorf("the emitted pattern is %s, the design says %q", lit.Value, trickyPattern)
			}
			return &node{kind: "chk", viol: "invalid_pattern", cond: "pat", target: target(args[1])}, nil
		case "goa.ValidateFormat":
			if exprName(args[2]) != "goa.FormatUUID" {
				return nil, fmt.Errorf("the emitted format is %s, the design says uuid", exprName(args[2]))
			}
			return &node{kind: "chk", viol: "invalid_format", cond: "fmt", target: target(args[1])}, nil
		}
		return nil, fmt.Errorf("bare %s", fn)
	case *ast.RangeStmt:
		key, val := "_", "_"
		if x.Key != nil {
			key = target(x.Key)
		}
		if x.Value != nil {
			val = target(x.Value)
		}
		if key == "_" && val == "e" {
			body, err := stmts(x.Body.List)
			if err != nil {
				return nil, err
			}
			return &node{kind: "each", target: target(x.X), body: body}, nil
		}
		var ks, vs []ast.Stmt
		for _, st := range x.Body.List {
			switch stmtTarget(st) {
			case "k":
				ks = append(ks, st)
			case "v":
				vs = append(vs, st)
			default:
				return nil, fmt.Errorf("statement of a map loop works on %q", stmtTarget(st))
			}
		}
		if (key == "k") != (len(ks) > 0) || (val == "v") != (len(vs) > 0) {
			return nil, fmt.Errorf("map loop binds %s,%s but has %d key and %d value statements", key, val, len(ks), len(vs))
		}
		kb, err := stmts(ks)
		if err != nil {
			return nil, err
		}
		vb, err := stmts(vs)
		if err != nil {
			return nil, err
		}
		return &node{kind: "kv", target: target(x.X), body: kb, body2: vb}, nil
	case *ast.IfStmt:
		if x.Else == nil && x.Init != nil {
			// if err2 := Validate<Type>(target); err2 != nil { err = goa.MergeErrors(err, err2) }
			as, ok := x.Init.(*ast.AssignStmt)
			if !ok || len(as.Lhs) != 1 || len(as.Rhs) != 1 || target(as.Lhs[0]) != "err2" {
				return nil, fmt.Errorf("if with an init of unknown shape")
			}
			call, ok := as.Rhs[0].(*ast.CallExpr)
			fn := ""
			if ok {
				fn = exprName(call.Fun)
			}
			be, ok2 := x.Cond.(*ast.BinaryExpr)
			if !ok || !strings.HasPrefix(fn, "Validate") || len(call.Args) != 1 || !ok2 || be.Op != token.NEQ || target(be.X) != "err2" || len(x.Body.List) != 1 {
				return nil, fmt.Errorf("call of unknown shape")
			}
			m, ok := x.Body.List[0].(*ast.AssignStmt)
			if !ok || len(m.Rhs) != 1 {
				return nil, fmt.Errorf("call result not merged")
			}
			mc, ok := m.Rhs[0].(*ast.CallExpr)
			if !ok || exprName(mc.Fun) != "goa.MergeErrors" || len(mc.Args) != 2 || target(mc.Args[1]) != "err2" {
				return nil, fmt.Errorf("call result not merged into err")
			}
			return &node{kind: "call", viol: strings.TrimPrefix(fn, "Validate"), target: target(call.Args[0])}, nil
		}
		if x.Else != nil || x.Init != nil {
			return nil, fmt.Errorf("if with else/init")
		}
		// !(t == a || t == b): enum
		if u, ok := x.Cond.(*ast.UnaryExpr); ok && u.Op == token.NOT {
			p, ok := u.X.(*ast.ParenExpr)
			if !ok {
				return nil, fmt.Errorf("negation of %T", u.X)
			}
			var alts []*ast.BinaryExpr
			var walk func(e ast.Expr) error
			walk = func(e ast.Expr) error {
				be, ok := e.(*ast.BinaryExpr)
				if !ok {
					return fmt.Errorf("enum alternative %T", e)
				}
				if be.Op == token.LOR {
					if err := walk(be.X); err != nil {
						return err
					}
					return walk(be.Y)
				}
				if be.Op != token.EQL {
					return fmt.Errorf("enum alternative with %s", be.Op)
				}
				alts = append(alts, be)
				return nil
			}
			if err := walk(p.X); err != nil {
				return nil, err
			}
			out := &node{kind: "chk", viol: "invalid_enum_value", cond: "enumn", target: target(alts[0].X)}
			for _, a := range alts {
				if target(a.X) != out.target {
					return nil, fmt.Errorf("enum compares different targets")
				}
				if lit, ok := a.Y.(*ast.BasicLit); ok && lit.Kind == token.STRING {
					sv, _ := strconv.Unquote(lit.Value)
					out.strs = append(out.strs, sv)
					out.cond = "enums"
					continue
				}
				rv, err := ratOf(a.Y)
				if err != nil {
					return nil, err
				}
				out.nums = append(out.nums, rv)
			}
			fn, args, ok := bodyErr(x)
			if !ok || fn != "goa.InvalidEnumValueError" || len(args) < 2 || target(args[1]) != out.target {
				return nil, fmt.Errorf("enum check without InvalidEnumValueError on its target")
			}
			return out, nil
		}
		be, ok := x.Cond.(*ast.BinaryExpr)
		if !ok {
			return nil, fmt.Errorf("condition %T", x.Cond)
		}
		if id, ok := be.Y.(*ast.Ident); ok && id.Name == "nil" {
			switch be.Op {
			case token.NEQ:
				body, err := stmts(x.Body.List)
				if err != nil {
					return nil, err
				}
				return &node{kind: "nn", target: target(be.X), body: body}, nil
			case token.EQL:
				fn, _, ok := bodyErr(x)
				if !ok || fn != "goa.MissingFieldError" {
					return nil, fmt.Errorf("== nil without MissingFieldError")
				}
				return &node{kind: "miss", target: target(be.X)}, nil
			}
		}
		op := map[token.Token]string{token.LSS: "lt", token.GTR: "gt", token.LEQ: "le", token.GEQ: "ge"}[be.Op]
		if op == "" {
			return nil, fmt.Errorf("comparison %s", be.Op)
		}
		fn, args, ok := bodyErr(x)
		if !ok || len(args) < 2 {
			return nil, fmt.Errorf("comparison without error constructor")
		}
		if call, ok := be.X.(*ast.CallExpr); ok && len(call.Args) == 1 {
			lit, ok := be.Y.(*ast.BasicLit)
			if !ok || lit.Kind != token.INT {
				return nil, fmt.Errorf("length bound %T", be.Y)
			}
			m := map[string]string{"len": "len", "utf8.RuneCountInString": "runes"}[exprName(call.Fun)]
			if m == "" || (op != "lt" && op != "gt") || fn != "goa.InvalidLengthError" || target(args[1]) != target(call.Args[0]) {
				return nil, fmt.Errorf("length check of unknown shape (%s %s %s)", exprName(call.Fun), op, fn)
			}
			// the boolean argument says which bound the message names
			if last, ok := args[len(args)-1].(*ast.Ident); !ok || (last.Name == "true") != (op == "lt") {
				return nil, fmt.Errorf("length check reports the wrong bound")
			}
			n, _ := strconv.Atoi(lit.Value)
			return &node{kind: "chk", viol: "invalid_length", cond: m + op, n: n, target: target(call.Args[0])}, nil
		}
		bound, err := ratOf(be.Y)
		if err != nil {
			return nil, err
		}
		if fn != "goa.InvalidRangeError" || target(args[1]) != target(be.X) {
			return nil, fmt.Errorf("range check without InvalidRangeError on its target")
		}
		return &node{kind: "chk", viol: "invalid_range", cond: op, nums: []*big.Rat{bound}, target: target(be.X)}, nil
	}
	return nil, fmt.Errorf("statement %T", s)
}

func bodyErr(x *ast.IfStmt) (string, []ast.Expr, bool) {
	if len(x.Body.List) != 1 {
		return "", nil, false
	}
	return errCall(x.Body.List[0])
}
