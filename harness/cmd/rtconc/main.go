// Command rtconc (C20) uses the shared runtime helpers of goa from many goroutines at once —
// the way one mounted server does — and checks, per call, that the answer is the function of the
// call's own input. It is meant to be built with -race: the race detector reports on stderr and
// makes the process exit with status 66; mismatches are reported as JSON lines on stdout.
//
//	rtconc -n 32 -rounds 200 -seed 1
package main

import (
	"bytes"
	"context"
	"encoding/json"
	"errors"
	"flag"
	"fmt"
	"io"
	"net/http"
	"net/http/httptest"
	"os"
	"regexp"
	"strconv"
	"strings"
	"sync"

	goahttp "goa.design/goa/v3/http"
	httpmw "goa.design/goa/v3/http/middleware"
	"goa.design/goa/v3/middleware"
	goa "goa.design/goa/v3/pkg"
)

type result struct {
	Scenario   string `json:"scenario"`
	Calls      int    `json:"calls"`
	Mismatches int    `json:"mismatches"`
	First      string `json:"first,omitempty"`
	Panic      string `json:"panic,omitempty"`
}

// together runs f(i) for i < n from n goroutines released at the same moment.
func together(n int, f func(i int)) {
	var wg sync.WaitGroup
	start := make(chan struct{})
	for i := 0; i < n; i++ {
		wg.Add(1)
		go func(i int) {
			defer wg.Done()
			<-start
			f(i)
		}(i)
	}
	close(start)
	wg.Wait()
}

type tally struct {
	mu    sync.Mutex
	res   result
	limit int
}

func (t *tally) call() {
	t.mu.Lock()
	t.res.Calls++
	t.mu.Unlock()
}

func (t *tally) bad(format string, a ...any) {
	t.mu.Lock()
	t.res.Mismatches++
	if t.res.First == "" {
		t.res.First = fmt.Sprintf(format, a...)
	}
	t.mu.Unlock()
}

func scenario(name string, f func(t *tally)) result {
	t := &tally{res: result{Scenario: name}}
	func() {
		defer func() {
			if r := recover(); r != nil {
				t.res.Panic = fmt.Sprint(r)
			}
		}()
		f(t)
	}()
	return t.res
}

func main() {
	n := flag.Int("n", 32, "goroutines")
	rounds := flag.Int("rounds", 100, "rounds per scenario")
	seed := flag.Int("seed", 1, "seed (varies the inputs)")
	flag.Parse()
	N, R, S := *n, *rounds, *seed
	out := json.NewEncoder(os.Stdout)

	// ---- one error encoder shared by all requests of a handler (http/encoding.go ErrorEncoder)
	out.Encode(scenario("error-encoder", func(t *tally) {
		for _, withFormatter := range []bool{false, true} {
			var formatter func(ctx context.Context, err error) goahttp.Statuser
			if withFormatter {
				formatter = func(ctx context.Context, err error) goahttp.Statuser { return goahttp.NewErrorResponse(ctx, err) }
			}
			enc := goahttp.ErrorEncoder(goahttp.ResponseEncoder, formatter)
			for r := 0; r < R; r++ {
				together(N, func(i int) {
					t.call()
					msg := fmt.Sprintf("failure-%d-%d-%d", S, r, i)
					var err error = errors.New(msg)
					want := 500
					if i%3 == 1 {
						err = &goa.ServiceError{Name: "busy", ID: "x", Message: msg, Temporary: true}
						want = 503
					} else if i%3 == 2 {
						err = &goa.ServiceError{Name: "bad", ID: "x", Message: msg}
						want = 400
					}
					rec := httptest.NewRecorder()
					ctx := context.WithValue(context.Background(), goahttp.AcceptTypeKey, "application/json")
					if e := enc(ctx, rec, err); e != nil {
						t.bad("encode error: %v", e)
						return
					}
					if rec.Code != want || !strings.Contains(rec.Body.String(), msg) {
						t.bad("request %d: status %d body %q, want %d with %q", i, rec.Code, rec.Body.String(), want, msg)
					}
				})
			}
		}
	}))

	// ---- an error VALUE shared by all requests (a package-level sentinel built as a literal, without an ID): encoding it for one request
	// leaves it as it was, and nothing of one response (its ID) shows up in another
	out.Encode(scenario("shared-error-value", func(t *tally) {
		for _, name := range []string{"undeclared", "busy"} {
			sentinel := &goa.ServiceError{Name: name, Message: "shared sentinel", Temporary: name == "busy"}
			before := fmt.Sprintf("%+v", *sentinel)
			enc := goahttp.ErrorEncoder(goahttp.ResponseEncoder, nil)
			var mu sync.Mutex
			ids := map[string]int{}
			for r := 0; r < R; r++ {
				together(N, func(i int) {
					t.call()
					rec := httptest.NewRecorder()
					ctx := context.WithValue(context.Background(), goahttp.AcceptTypeKey, "application/json")
					if e := enc(ctx, rec, sentinel); e != nil {
						t.bad("encode error: %v", e)
						return
					}
					var body struct {
						ID string `json:"id"`
					}
					if err := json.Unmarshal(rec.Body.Bytes(), &body); err != nil {
						t.bad("request %d: body %q", i, rec.Body.String())
						return
					}
					if body.ID != "" {
						mu.Lock()
						ids[body.ID]++
						mu.Unlock()
					}
				})
			}
			if after := fmt.Sprintf("%+v", *sentinel); after != before {
				t.bad("the error value returned by the service was modified by the encoder: %s -> %s", before, after)
			}
			for id, n := range ids {
				if n > 1 {
					t.bad("the id %q of one response appears in %d responses", id, n)
					break
				}
			}
		}
	}))

	// ---- one debug doer (what the generated command line tools install for --verbose) shared by concurrent calls: each request body
	// reaches the server as it was written
	out.Encode(scenario("shared-debug-doer", func(t *tally) {
		srv := httptest.NewServer(http.HandlerFunc(func(w http.ResponseWriter, r *http.Request) {
			b, _ := io.ReadAll(r.Body)
			w.Write(b) // nolint: errcheck
		}))
		defer srv.Close()
		stderr := os.Stderr
		if null, err := os.OpenFile(os.DevNull, os.O_WRONLY, 0); err == nil {
			os.Stderr = null
			defer func() { os.Stderr = stderr; null.Close() }()
		}
		doer := goahttp.NewDebugDoer(srv.Client())
		for r := 0; r < R; r++ {
			together(N, func(i int) {
				t.call()
				body := strings.Repeat(fmt.Sprintf("body-%d-%d-%d;", S, r, i), 40+i)
				req, _ := http.NewRequest("POST", srv.URL, strings.NewReader(body))
				resp, err := doer.Do(req)
				if err != nil {
					t.bad("request %d: %v", i, err)
					return
				}
				got, _ := io.ReadAll(resp.Body)
				resp.Body.Close()
				if string(got) != body {
					t.bad("request %d: the server received %d bytes that are not the %d bytes written", i, len(got), len(body))
				}
			})
		}
	}))

	// ---- response encoder / request decoder negotiation is a function of the request's own headers
	out.Encode(scenario("content-negotiation", func(t *tally) {
		accepts := []struct{ accept, ct string }{{"application/json", "application/json"}, {"application/xml", "application/xml"},
			{"application/gob", "application/gob"}, {"", "application/json"}, {"text/html", "text/html"}, {"*/*", "application/json"}}
		for r := 0; r < R; r++ {
			together(N, func(i int) {
				t.call()
				a := accepts[(i+r)%len(accepts)]
				rec := httptest.NewRecorder()
				ctx := context.WithValue(context.Background(), goahttp.AcceptTypeKey, a.accept)
				val := fmt.Sprintf("v-%d-%d", r, i)
				if err := goahttp.ResponseEncoder(ctx, rec).Encode(val); err != nil {
					t.bad("encode: %v", err)
					return
				}
				if got := rec.Header().Get("Content-Type"); got != a.ct {
					t.bad("Accept %q answered with Content-Type %q, want %q", a.accept, got, a.ct)
				}
				if a.ct == "application/json" {
					var back string
					if json.Unmarshal(rec.Body.Bytes(), &back) != nil || back != val {
						t.bad("body %q does not carry %q", rec.Body.String(), val)
					}
				}
				req := httptest.NewRequest("POST", "/", strings.NewReader(fmt.Sprintf("%q", val)))
				req.Header.Set("Content-Type", "application/json")
				var got string
				if err := goahttp.RequestDecoder(req).Decode(&got); err != nil || got != val {
					t.bad("request decoder returned %q, %v; want %q", got, err, val)
				}
			})
		}
	}))

	// ---- the muxer: path variables and patterns seen by a middleware and by the handler
	out.Encode(scenario("muxer-vars", func(t *tally) {
		mux := goahttp.NewMuxer()
		mux.Use(func(h http.Handler) http.Handler {
			return http.HandlerFunc(func(w http.ResponseWriter, r *http.Request) {
				w.Header().Set("X-Mw-Pattern", mux.ResolvePattern(r))
				vars := mux.Vars(r)
				w.Header().Set("X-Mw-Id", vars["id"]+vars["rest"])
				h.ServeHTTP(w, r)
			})
		})
		reply := func(w http.ResponseWriter, r *http.Request) {
			vars := mux.Vars(r)
			w.Header().Set("X-Pattern", mux.ResolvePattern(r))
			fmt.Fprint(w, vars["id"]+vars["rest"])
		}
		mux.Handle("GET", "/items/{id}", reply)
		mux.Handle("GET", "/files/{*rest}", reply)
		mux.Handle("POST", "/items/{id}/sub/{*rest}", func(w http.ResponseWriter, r *http.Request) {
			vars := mux.Vars(r)
			w.Header().Set("X-Pattern", mux.ResolvePattern(r))
			fmt.Fprint(w, vars["id"]+"|"+vars["rest"])
		})
		for r := 0; r < R; r++ {
			together(N, func(i int) {
				t.call()
				id := fmt.Sprintf("w%d-%d-%d", S, r, i)
				var req *http.Request
				var wantBody, wantPattern string
				switch i % 3 {
				case 0:
					req, wantBody, wantPattern = httptest.NewRequest("GET", "/items/"+id, nil), id, "/items/{id}"
				case 1:
					req, wantBody, wantPattern = httptest.NewRequest("GET", "/files/a/"+id, nil), "a/"+id, "/files/{*rest}"
				default:
					req, wantBody, wantPattern = httptest.NewRequest("POST", "/items/"+id+"/sub/x/"+id, nil), id+"|x/"+id, "/items/{id}/sub/{*rest}"
				}
				rec := httptest.NewRecorder()
				mux.ServeHTTP(rec, req)
				if rec.Body.String() != wantBody {
					t.bad("request for %s: handler saw %q", wantBody, rec.Body.String())
				}
				if got := rec.Header().Get("X-Pattern"); got != wantPattern {
					t.bad("request for %s: handler resolved pattern %q, want %q", wantBody, got, wantPattern)
				}
				if got := rec.Header().Get("X-Mw-Pattern"); got != wantPattern {
					t.bad("request for %s: middleware resolved pattern %q, want %q", wantBody, got, wantPattern)
				}
				if got := rec.Header().Get("X-Mw-Id"); i%3 != 2 && got != wantBody {
					t.bad("request for %s: middleware saw variables %q", wantBody, got)
				}
			})
		}
	}))

	// ---- pattern validation with a cold cache (fresh patterns every round) and a warm one
	out.Encode(scenario("validate-pattern", func(t *tally) {
		for r := 0; r < R; r++ {
			together(N, func(i int) {
				t.call()
				p := fmt.Sprintf("^s%d-r%d-(a|b)%d[0-9]+$", S, r, i%4) // shared by several goroutines, never seen before
				for _, v := range []string{fmt.Sprintf("s%d-r%d-a%d77", S, r, i%4), "nope", fmt.Sprintf("s%d-r%d-b%d", S, r, i%4)} {
					want := regexp.MustCompile(p).MatchString(v)
					got := goa.ValidatePattern("att", v, p) == nil
					if got != want {
						t.bad("ValidatePattern(%q, %q) = %v, regexp says %v", v, p, got, want)
					}
				}
				if (goa.ValidatePattern("att", "abc", "^[a-z]+$") == nil) != true {
					t.bad("warm pattern rejected abc")
				}
			})
		}
	}))

	// ---- format validation (stateless, but the hostname/ipv4 regexps are package-level values)
	out.Encode(scenario("validate-format", func(t *tally) {
		cases := []struct {
			f  goa.Format
			v  string
			ok bool
		}{{goa.FormatDate, "2024-02-29", true}, {goa.FormatDate, "2023-02-29", false}, {goa.FormatIPv4, "10.0.0.1", true},
			{goa.FormatIPv4, "10.0.0", false}, {goa.FormatUUID, "6ba7b810-9dad-11d1-80b4-00c04fd430c8", true}, {goa.FormatHostname, "goa.design", true},
			{goa.FormatRegexp, "^a(b$", false}, {goa.FormatJSON, "{\"a\":1}", true}, {goa.FormatMAC, "00:00:5e:00:53:01", true}, {goa.FormatCIDR, "10.0.0.0/33", false}}
		for r := 0; r < R; r++ {
			together(N, func(i int) {
				t.call()
				c := cases[(i+r)%len(cases)]
				if got := goa.ValidateFormat("att", c.v, c.f) == nil; got != c.ok {
					t.bad("ValidateFormat(%q, %s) = %v", c.v, c.f, got)
				}
			})
		}
	}))

	// ---- samplers
	out.Encode(scenario("samplers", func(t *tally) {
		all, none := middleware.NewFixedSampler(100), middleware.NewFixedSampler(0)
		ad := middleware.NewAdaptiveSampler(1000000, 7)
		half := middleware.NewFixedSampler(50)
		for r := 0; r < R; r++ {
			together(N, func(i int) {
				t.call()
				if !all.Sample() {
					t.bad("100%% sampler said no")
				}
				if none.Sample() {
					t.bad("0%% sampler said yes")
				}
				ad.Sample()
				half.Sample()
			})
		}
	}))

	// ---- request id and trace middlewares in front of one handler
	out.Encode(scenario("http-middlewares", func(t *tally) {
		h := httpmw.RequestID(httpmw.UseXRequestIDHeaderOption(true))(
			httpmw.PopulateRequestContext()(http.HandlerFunc(func(w http.ResponseWriter, r *http.Request) {
				id, _ := r.Context().Value(middleware.RequestIDKey).(string)
				fmt.Fprint(w, id)
			})))
		for r := 0; r < R; r++ {
			together(N, func(i int) {
				t.call()
				id := fmt.Sprintf("rid-%d-%d-%d", S, r, i)
				req := httptest.NewRequest("GET", "/x", nil)
				req.Header.Set("X-Request-Id", id)
				rec := httptest.NewRecorder()
				h.ServeHTTP(rec, req)
				if rec.Body.String() != id {
					t.bad("request %s saw request id %q", id, rec.Body.String())
				}
			})
		}
	}))

	// ---- identifiers the middlewares generate themselves: every request gets its own request, trace and span id
	out.Encode(scenario("generated-ids", func(t *tally) {
		const per = 100 // requests per goroutine and round: the generator is only shared state under load
		rounds := R
		if rounds > 20 {
			rounds = 20
		}
		ids := make([][3]string, N*rounds*per)
		h := httpmw.RequestID()(httpmw.Trace()(http.HandlerFunc(func(w http.ResponseWriter, r *http.Request) {
			k, _ := strconv.Atoi(r.Header.Get("X-K"))
			rid, _ := r.Context().Value(middleware.RequestIDKey).(string)
			tid, _ := r.Context().Value(middleware.TraceIDKey).(string)
			sid, _ := r.Context().Value(middleware.TraceSpanIDKey).(string)
			ids[k] = [3]string{rid, tid, sid}
		})))
		for r := 0; r < rounds; r++ {
			together(N, func(i int) {
				for j := 0; j < per; j++ {
					t.call()
					req := httptest.NewRequest("GET", "/x", nil)
					req.Header.Set("X-K", strconv.Itoa((r*N+i)*per+j))
					h.ServeHTTP(httptest.NewRecorder(), req)
				}
			})
		}
		seen := map[string]int{}
		for k, x := range ids {
			for j, id := range x {
				if id == "" {
					t.bad("request %d has no %s id", k, []string{"request", "trace", "span"}[j])
					continue
				}
				if prev, dup := seen[id]; dup {
					t.bad("requests %d and %d share the generated id %q", prev, k, id)
				}
				seen[id] = k
			}
		}
	}))

	// ---- error merging on per-request errors (no shared state expected)
	out.Encode(scenario("merge-errors", func(t *tally) {
		for r := 0; r < R; r++ {
			together(N, func(i int) {
				t.call()
				a := goa.MissingFieldError(fmt.Sprintf("f%d", i), "body")
				b := goa.InvalidLengthError(fmt.Sprintf("g%d", i), "x", 1, 2, true)
				m := goa.MergeErrors(a, b)
				if !strings.Contains(m.Error(), fmt.Sprintf("f%d", i)) || !strings.Contains(m.Error(), fmt.Sprintf("g%d", i)) {
					t.bad("merged error %q lost a part", m.Error())
				}
			})
		}
	}))

	// ---- the client side request encoder / response decoder
	out.Encode(scenario("client-encoding", func(t *tally) {
		for r := 0; r < R; r++ {
			together(N, func(i int) {
				t.call()
				val := fmt.Sprintf("c-%d-%d", r, i)
				req, _ := http.NewRequest("POST", "http://example.com/", nil)
				if err := goahttp.RequestEncoder(req).Encode(val); err != nil {
					t.bad("request encoder: %v", err)
					return
				}
				var buf bytes.Buffer
				buf.ReadFrom(req.Body)
				if strings.TrimSpace(buf.String()) != fmt.Sprintf("%q", val) {
					t.bad("request body %q does not carry %q", buf.String(), val)
				}
				resp := &http.Response{Header: http.Header{"Content-Type": []string{"application/json"}}, Body: httptestBody(fmt.Sprintf("%q", val))}
				var got string
				if err := goahttp.ResponseDecoder(resp).Decode(&got); err != nil || got != val {
					t.bad("response decoder returned %q, %v", got, err)
				}
			})
		}
	}))
}

type nopCloser struct{ *strings.Reader }

func (nopCloser) Close() error { return nil }

func httptestBody(s string) nopCloser { return nopCloser{strings.NewReader(s)} }
