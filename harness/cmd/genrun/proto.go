package main

import (
	"bytes"
	"fmt"
	"runtime/debug"

	"goa.design/goa/v3/codegen/service"
	"goa.design/goa/v3/expr"
	grpccodegen "goa.design/goa/v3/grpc/codegen"

	"verifharness/internal/design"
)

type protoReport struct {
	Accepted bool              `json:"accepted"`
	Errors   []string          `json:"errors,omitempty"`
	Panic    string            `json:"panic,omitempty"`
	Protos   map[string]string `json:"protos,omitempty"` // service -> .proto text
}

// protoAll evaluates the design and renders the .proto file of every gRPC service.
func protoAll(d *design.Design) (rep protoReport) {
	defer func() {
		if r := recover(); r != nil {
			rep.Panic = fmt.Sprintf("%v\n%s", r, firstLines(string(debug.Stack()), 25))
		}
	}()
	service.Services = make(service.ServicesData)
	grpccodegen.GRPCServices = make(grpccodegen.ServicesData)
	err := design.Run(d)
	rep.Errors = design.ErrorStrings(err)
	rep.Accepted = err == nil
	if !rep.Accepted || expr.Root.API.GRPC == nil {
		return
	}
	rep.Protos = map[string]string{}
	for _, f := range grpccodegen.ProtoFiles("gentest/gen", expr.Root) {
		var buf bytes.Buffer
		for _, s := range f.SectionTemplates {
			if err := s.Write(&buf); err != nil {
				rep.Panic = "rendering " + f.Path + ": " + err.Error()
				return
			}
		}
		rep.Protos[f.Path] = buf.String()
	}
	return
}
