package main

import (
	"encoding/hex"
	"fmt"
	"runtime/debug"
	"sort"
	"strings"

	"goa.design/goa/v3/expr"

	"verifharness/internal/design"
)

func hx(s string) string {
	if s == "" {
		return "-"
	}
	return hex.EncodeToString([]byte(s))
}

// projectAll evaluates the design and returns, for every result type and every view name it
// defines (plus an undefined one and the empty name), the tree of the type expr.Project builds,
// in the encoding of the Lean driver drv_views (op projt).
func projectAll(d *design.Design) map[string]string {
	out := map[string]string{}
	if err := design.Run(d); err != nil {
		out["error"] = err.Error()
		return out
	}
	for _, td := range d.Types {
		if td.Kind != "result" {
			continue
		}
		var rt *expr.ResultTypeExpr
		for _, r := range expr.Root.ResultTypes {
			if r.TypeName == td.Name {
				rt = r
			}
		}
		if rt == nil {
			out[td.Name] = "missing"
			continue
		}
		views := []string{"nope"}
		for _, v := range td.Views {
			views = append(views, v.Name)
		}
		for _, v := range views {
			func() {
				defer func() {
					if r := recover(); r != nil {
						out[td.Name+"/"+v] = fmt.Sprintf("panic: %v %s", r, firstLines(string(debug.Stack()), 12))
					}
				}()
				p, err := expr.Project(rt, v)
				if err != nil {
					out[td.Name+"/"+v] = "X"
					return
				}
				out[td.Name+"/"+v] = tree(p, nil, 0)
			}()
		}
	}
	return out
}

func tree(rt *expr.ResultTypeExpr, path []string, depth int) string {
	if depth > 14 {
		return "X"
	}
	if ar, ok := rt.Type.(*expr.Array); ok {
		if e, ok := ar.ElemType.Type.(*expr.ResultTypeExpr); ok {
			return "C " + tree(e, path, depth+1)
		}
		return "P"
	}
	for _, p := range path {
		if p == rt.TypeName {
			return "R " + hx(rt.TypeName)
		}
	}
	obj := expr.AsObject(rt.Type)
	if obj == nil {
		return "P"
	}
	type kv struct{ k, v string }
	var kvs []kv
	for _, nat := range *obj {
		sub := "P"
		if nrt, ok := nat.Attribute.Type.(*expr.ResultTypeExpr); ok {
			sub = tree(nrt, append(append([]string{}, path...), rt.TypeName), depth+1)
		}
		kvs = append(kvs, kv{nat.Name, sub})
	}
	sort.Slice(kvs, func(i, j int) bool { return kvs[i].k < kvs[j].k })
	var b strings.Builder
	fmt.Fprintf(&b, "N %s %d", hx(rt.TypeName), len(kvs))
	for _, e := range kvs {
		fmt.Fprintf(&b, " %s %s", hx(e.k), e.v)
	}
	return b.String()
}
