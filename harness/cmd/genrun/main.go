// Command genrun pushes ONE design through goa's real pipeline in a fresh process, exactly as
// the goa command does: DSL -> eval.RunDSL -> generator.Generate(dir, "gen" | "example").
//
//	genrun make -seed N -index I [-security] [-errors] [-views]   prints a design (JSON)
//	genrun run -design d.json -out dir [-example] [-twice]          runs it, prints a JSON report
//
// The output directory becomes a Go module (replace goa => /repo) so that the generated tree
// can be type-checked and built.
package main

import (
	"crypto/sha256"
	"encoding/hex"
	"encoding/json"
	"flag"
	"fmt"
	"goa.design/goa/v3/expr"
	"io/fs"
	"os"
	"path/filepath"
	"runtime/debug"
	"sort"
	"strconv"
	"strings"

	"goa.design/goa/v3/codegen/generator"
	"goa.design/goa/v3/codegen/service"
	grpccodegen "goa.design/goa/v3/grpc/codegen"
	httpcodegen "goa.design/goa/v3/http/codegen"
	"goa.design/goa/v3/http/codegen/openapi"

	"verifharness/internal/design"
	"verifharness/internal/lp"
)

type fileInfo struct {
	Path string `json:"path"`
	Sum  string `json:"sha256"`
}

type stage struct {
	Ran   bool       `json:"ran"`
	Error string     `json:"error,omitempty"`
	Panic string     `json:"panic,omitempty"`
	Files []fileInfo `json:"files,omitempty"`
}

type report struct {
	Accepted bool     `json:"accepted"`
	Errors   []string `json:"errors,omitempty"`
	Panic    string   `json:"panic,omitempty"`
	Gen      stage    `json:"gen"`
	Gen2     *stage   `json:"gen2,omitempty"` // second in-process generation (same process)
	Example  stage    `json:"example"`
	Glue     string   `json:"glue_error,omitempty"`
}

func main() {
	if len(os.Args) < 2 {
		os.Exit(2)
	}
	fl := flag.NewFlagSet(os.Args[1], flag.ExitOnError)
	seed := fl.Uint64("seed", 1, "seed")
	index := fl.Int("index", 0, "systematic index")
	security := fl.Bool("security", false, "with security schemes")
	errs := fl.Bool("errors", false, "with errors")
	views := fl.Bool("views", false, "with result types and views")
	nested := fl.Bool("nested-inline", false, "allow nested inline objects")
	risky := fl.Bool("risky-names", false, "use one attribute name that generated code may collide with")
	viewsDesign := fl.Bool("views-design", false, "a design of result types with views (C08)")
	grpcDesign := fl.Bool("grpc-design", false, "a design with gRPC endpoints (C10)")
	aliasDesign := fl.Bool("alias-design", false, "primitive alias types with validations, attributes with their own Enum (C02-C04)")
	anyDesign := fl.Bool("any-design", false, "the type Any as payload, result, element, attribute, parameter and header; odd designs without examples (C01, C07)")
	statusDesign := fl.Bool("status-design", false, "one response per final HTTP status code, named by net/http or not (C05, C07)")
	soloDesign := fl.Bool("solo-design", false, "methods with exactly one payload attribute: type x presence x validation x location (C01)")
	multipartDesign := fl.Bool("multipart-design", false, "multipart requests with one parameter or header of every kind (C01; generated and compiled only)")
	twinDesign := fl.Bool("twin-design", false, "two services whose only method has the same name and a different body (C14)")
	mapkeyDesign := fl.Bool("mapkey-design", false, "every primitive as a map key, in request body / response body / query string (C01)")
	loose := fl.Bool("loose-defaults", false, "with -matrix-design: collection defaults given as []any / map[string]any")
	matrixDesign := fl.Bool("matrix-design", false, "the systematic transport table: primitive x location x required/optional/default (C02-C04)")
	meta := fl.Bool("meta", false, "decorate the design with openapi:* / struct:* metadata (post-pass, C09)")
	metaBoth := fl.Bool("meta-both-summaries", false, "with -meta: openapi:summary and swagger:summary on the same expressions")
	designFile := fl.String("design", "", "design JSON")
	out := fl.String("out", "", "output directory (module root)")
	example := fl.Bool("example", false, "also run the example generator")
	twice := fl.Bool("twice", false, "generate gen twice in this process")
	glue := fl.Bool("glue", false, "also write the end-to-end glue program cmd/e2e/main.go")
	fl.Parse(os.Args[2:])
	switch os.Args[1] {
	case "make":
		if *grpcDesign {
			d := design.GenerateGRPC(lp.NewRng(*seed*1000003+uint64(*index)+11), *index)
			b, _ := json.Marshal(d)
			fmt.Println(string(b))
			return
		}
		if *aliasDesign {
			d := design.GenerateAlias(lp.NewRng(*seed*1000003+uint64(*index)+29), *index)
			b, _ := json.Marshal(d)
			fmt.Println(string(b))
			return
		}
		if *anyDesign {
			d := design.GenerateAny(lp.NewRng(*seed*1000003+uint64(*index)+37), *index)
			b, _ := json.Marshal(d)
			fmt.Println(string(b))
			return
		}
		if *statusDesign {
			d := design.GenerateStatus(lp.NewRng(*seed*1000003+uint64(*index)+41), *index)
			b, _ := json.Marshal(d)
			fmt.Println(string(b))
			return
		}
		if *soloDesign {
			d := design.GenerateSolo(lp.NewRng(*seed*1000003+uint64(*index)+43), *index)
			b, _ := json.Marshal(d)
			fmt.Println(string(b))
			return
		}
		if *multipartDesign {
			d := design.GenerateMultipart(lp.NewRng(*seed*1000003+uint64(*index)+47), *index)
			b, _ := json.Marshal(d)
			fmt.Println(string(b))
			return
		}
		if *twinDesign {
			d := design.GenerateTwin(lp.NewRng(*seed*1000003+uint64(*index)+53), *index)
			b, _ := json.Marshal(d)
			fmt.Println(string(b))
			return
		}
		if *mapkeyDesign {
			d := design.GenerateMapKey(lp.NewRng(*seed*1000003+uint64(*index)+31), *index)
			b, _ := json.Marshal(d)
			fmt.Println(string(b))
			return
		}
		if *matrixDesign {
			d := design.GenerateMatrix(lp.NewRng(*seed*1000003+uint64(*index)+23), *index)
			d.LooseDefaults = *loose
			b, _ := json.Marshal(d)
			fmt.Println(string(b))
			return
		}
		if *viewsDesign {
			d := design.GenerateViews(lp.NewRng(*seed*1000003+uint64(*index)+5), *index)
			b, _ := json.Marshal(d)
			fmt.Println(string(b))
			return
		}
		d := design.Generate(lp.NewRng(*seed*1000003+uint64(*index)), design.Opts{Index: *index, Security: *security, Errors: *errs, Views: *views, NestedInline: *nested, Risky: *risky})
		if *meta || *metaBoth {
			design.AddMeta(d, lp.NewRng(*seed*7919+uint64(*index)+17), *metaBoth)
		}
		b, _ := json.Marshal(d)
		fmt.Println(string(b))
	case "schemes":
		// the security schemes of every transport endpoint after evaluation: where each transport takes the credential from, and
		// whether two endpoints share a scheme expression (each endpoint owns its copies: what one finalizes is not seen by another)
		raw, err := os.ReadFile(*designFile)
		if err != nil {
			fatal(err)
		}
		var d design.Design
		if err := json.Unmarshal(raw, &d); err != nil {
			fatal(err)
		}
		if err := design.Run(&d); err != nil {
			fmt.Println(`{"error":` + strconv.Quote(err.Error()) + `}`)
			return
		}
		type row struct {
			Transport, Service, Method, Scheme, Kind, In, Name, Ptr string
		}
		var rows []row
		for _, hs := range expr.Root.API.HTTP.Services {
			for _, e := range hs.HTTPEndpoints {
				for _, rq := range e.Requirements {
					for _, sc := range rq.Schemes {
						rows = append(rows, row{"http", hs.Name(), e.Name(), sc.SchemeName, sc.Kind.String(), sc.In, sc.Name, fmt.Sprintf("%p", sc)})
					}
				}
			}
		}
		if expr.Root.API.GRPC != nil {
			for _, gs := range expr.Root.API.GRPC.Services {
				for _, e := range gs.GRPCEndpoints {
					for _, rq := range e.Requirements {
						for _, sc := range rq.Schemes {
							rows = append(rows, row{"grpc", gs.Name(), e.Name(), sc.SchemeName, sc.Kind.String(), sc.In, sc.Name, fmt.Sprintf("%p", sc)})
						}
					}
				}
			}
		}
		b, _ := json.Marshal(map[string]any{"schemes": rows})
		fmt.Println(string(b))
	case "run":
		raw, err := os.ReadFile(*designFile)
		if err != nil {
			fatal(err)
		}
		var d design.Design
		if err := json.Unmarshal(raw, &d); err != nil {
			fatal(err)
		}
		rep := run(&d, *out, *example, *twice)
		if *glue && rep.Accepted && rep.Gen.Error == "" && rep.Gen.Panic == "" {
			if err := writeGlue(&d, raw, *out); err != nil {
				rep.Glue = err.Error()
			}
		}
		b, _ := json.Marshal(rep)
		fmt.Println(string(b))
	case "proto":
		// the .proto text goa emits for every gRPC service of the design, rendered in-process (no protoc)
		raw, err := os.ReadFile(*designFile)
		if err != nil {
			fatal(err)
		}
		var d design.Design
		if err := json.Unmarshal(raw, &d); err != nil {
			fatal(err)
		}
		b, _ := json.Marshal(protoAll(&d))
		fmt.Println(string(b))
	case "project":
		// the real expr.Project of every (result type, view) of the design, as trees
		raw, err := os.ReadFile(*designFile)
		if err != nil {
			fatal(err)
		}
		var d design.Design
		if err := json.Unmarshal(raw, &d); err != nil {
			fatal(err)
		}
		b, _ := json.Marshal(projectAll(&d))
		fmt.Println(string(b))
	default:
		os.Exit(2)
	}
}

func fatal(err error) {
	fmt.Fprintln(os.Stderr, "genrun:", err)
	os.Exit(2)
}

func run(d *design.Design, out string, example, twice bool) (rep report) {
	func() {
		defer func() {
			if r := recover(); r != nil {
				rep.Panic = fmt.Sprintf("%v\n%s", r, firstLines(string(debug.Stack()), 30))
			}
		}()
		err := design.Run(d)
		rep.Errors = design.ErrorStrings(err)
		rep.Accepted = err == nil
	}()
	if !rep.Accepted || rep.Panic != "" || out == "" {
		return
	}
	if err := prepareModule(out); err != nil {
		fatal(err)
	}
	rep.Gen = generate(out, "gen")
	if twice && rep.Gen.Error == "" && rep.Gen.Panic == "" {
		// the goa command removes the sub-directories of gen/ before writing (files are opened in append mode)
		if keep := os.Getenv("VERIF_KEEP_FIRST"); keep != "" {
			os.CopyFS(keep, os.DirFS(filepath.Join(out, "gen")))
		}
		cleanGen(out)
		// a second generation in the same process, the way goa's own tests and plugins do it: the DSL is
		// evaluated again (fresh expr.Root) and the generators' package-level caches are emptied
		service.Services = make(service.ServicesData)
		httpcodegen.HTTPServices = make(httpcodegen.ServicesData)
		grpccodegen.GRPCServices = make(grpccodegen.ServicesData)
		openapi.Definitions = make(map[string]*openapi.Schema)
		if err := design.Run(d); err != nil {
			rep.Gen2 = &stage{Ran: true, Error: "second evaluation: " + err.Error()}
			return
		}
		s := generate(out, "gen")
		rep.Gen2 = &s
	}
	if example {
		rep.Example = generate(out, "example")
	}
	return
}

func cleanGen(out string) {
	entries, _ := os.ReadDir(filepath.Join(out, "gen"))
	for _, e := range entries {
		if e.IsDir() {
			os.RemoveAll(filepath.Join(out, "gen", e.Name()))
		}
	}
}

func generate(out, cmd string) (s stage) {
	s.Ran = true
	defer func() {
		if r := recover(); r != nil {
			s.Panic = fmt.Sprintf("%v\n%s", r, firstLines(string(debug.Stack()), 40))
		}
	}()
	cwd, _ := os.Getwd()
	os.Chdir(out)
	defer os.Chdir(cwd)
	files, err := generator.Generate(out, cmd)
	if err != nil {
		s.Error = err.Error()
		return
	}
	sort.Strings(files)
	for _, f := range files {
		p := f
		if !filepath.IsAbs(p) {
			p = filepath.Join(out, f)
		}
		b, err := os.ReadFile(p)
		if err != nil {
			s.Error = "generated file missing: " + f
			return
		}
		sum := sha256.Sum256(b)
		rel, _ := filepath.Rel(out, p)
		s.Files = append(s.Files, fileInfo{rel, hex.EncodeToString(sum[:])})
	}
	return
}

func firstLines(s string, n int) string {
	l := strings.Split(s, "\n")
	if len(l) > n {
		l = l[:n]
	}
	return strings.Join(l, "\n")
}

// prepareModule makes out a Go module that resolves goa to /repo (and clue to the stub).
func prepareModule(out string) error {
	if err := os.MkdirAll(out, 0o755); err != nil {
		return err
	}
	if _, err := os.Stat(filepath.Join(out, "go.mod")); err == nil {
		return nil
	}
	mod := `module gentest

go 1.22.0

require (
	goa.design/goa/v3 v3.0.0
	goa.design/clue v0.0.0
)

replace goa.design/goa/v3 => /repo

replace goa.design/clue => /verif/harness/stubs/clue

require verifharness v0.0.0

replace verifharness => /verif/harness
`
	if err := os.WriteFile(filepath.Join(out, "go.mod"), []byte(mod), 0o644); err != nil {
		return err
	}
	sum, err := os.ReadFile("/repo/go.sum")
	if err == nil {
		os.WriteFile(filepath.Join(out, "go.sum"), sum, 0o644)
	}
	return nil
}

// listFiles is used by callers that want the whole tree.
func listFiles(root string) []string {
	var out []string
	filepath.WalkDir(root, func(p string, d fs.DirEntry, err error) error {
		if err == nil && !d.IsDir() {
			out = append(out, p)
		}
		return nil
	})
	return out
}
