// Command rtmw is the C19 correspondence driver (tie T3): request-ID and trace
// middlewares (HTTP and gRPC unary/stream), traced clients in chains, ResponseCapture.
//
//	rtmw gen -seed N -tier quick|thorough
//	rtmw run
package main

import (
	"context"
	"flag"
	"fmt"
	"io"
	"net/http"
	"net/http/httptest"
	"os"
	"regexp"
	"strconv"
	"strings"

	"google.golang.org/grpc"
	"google.golang.org/grpc/metadata"

	grpcmw "goa.design/goa/v3/grpc/middleware"
	httpmw "goa.design/goa/v3/http/middleware"
	"goa.design/goa/v3/middleware"

	"verifharness/internal/lp"
)

func main() {
	if len(os.Args) < 2 {
		os.Exit(2)
	}
	switch os.Args[1] {
	case "gen":
		fs := flag.NewFlagSet("gen", flag.ExitOnError)
		seed := fs.Uint64("seed", 1, "seed")
		tier := fs.String("tier", "quick", "tier")
		fs.Parse(os.Args[2:])
		gen(*seed, *tier)
	case "run":
		lp.Lines(run)
	default:
		os.Exit(2)
	}
}

// ------------------------------------------------------------------ generation

var variants = []string{"http", "grpcu", "grpcs"}
var hdrNames = []string{"X-Request-Id", "x-request-id", "Custom-Id", "custom-id", "CUSTOM-ID", "X-Correlation-ID", "Other", ""}
var idVals = []string{"", "a", "abc", "abcdefgh", "0123456789abcdef", "idé✓x", "with space", "x"}

func randOpts(r *lp.Rng) []string {
	n := r.Intn(4)
	var out []string
	for i := 0; i < n; i++ {
		switch r.Intn(3) {
		case 0:
			out = append(out, "U"+strconv.Itoa(r.Intn(2)))
		case 1:
			out = append(out, "H"+lp.Enc(lp.Pick(r, hdrNames)))
		default:
			out = append(out, "L"+strconv.Itoa(r.Intn(12)-1))
		}
	}
	return out
}

func emitRid(variant string, opts []string, ctx string, hasCtx bool, kv [][2]string) {
	c := "~"
	if hasCtx {
		c = lp.Enc(ctx)
	}
	var b strings.Builder
	fmt.Fprintf(&b, "rid %s O %d", variant, len(opts))
	for _, o := range opts {
		b.WriteString(" " + o)
	}
	fmt.Fprintf(&b, " %s K %d", c, len(kv))
	for _, p := range kv {
		fmt.Fprintf(&b, " %s %s", lp.Enc(p[0]), lp.Enc(p[1]))
	}
	fmt.Println(b.String())
}

func gen(seed uint64, tier string) {
	r := lp.NewRng(seed)
	// systematic: trust on/off x custom header x limit around the value length x variants
	for _, v := range variants {
		for _, val := range idVals {
			for lim := -1; lim <= len(val)+1; lim++ {
				for _, trust := range []string{"U1", "U0", "HCustom", "none"} {
					var opts []string
					name := "X-Request-Id"
					switch trust {
					case "U1", "U0":
						opts = append(opts, trust)
					case "HCustom":
						opts = append(opts, "H"+lp.Enc("Custom-Id"))
						name = "custom-id"
					}
					opts = append(opts, "L"+strconv.Itoa(lim))
					if v != "http" {
						name = "x-request-id"
					}
					emitRid(v, opts, "", false, [][2]string{{name, val}})
				}
			}
		}
	}
	n := 3000
	if tier == "thorough" {
		n = 200000
	}
	for i := 0; i < n; i++ {
		v := lp.Pick(r, variants)
		var kv [][2]string
		for k := r.Intn(3); k > 0; k-- {
			name := lp.Pick(r, hdrNames[:7])
			if v != "http" {
				name = strings.ToLower(name)
			}
			dup := false
			for _, p := range kv {
				if strings.EqualFold(p[0], name) {
					dup = true
				}
			}
			if !dup {
				kv = append(kv, [2]string{name, lp.Pick(r, idVals)})
			}
		}
		emitRid(v, randOpts(r), lp.Pick(r, idVals), r.Intn(4) == 0, kv)
	}
	// trace: single requests
	for _, v := range variants {
		for _, t := range []string{"", "tr-1", "T"} {
			for _, p := range []string{"", "sp-0"} {
				for _, pct := range []int{0, 100} {
					for _, d := range []int{0, 1} {
						fmt.Printf("trace %s %s %s %d %d\n", v, lp.Enc(t), lp.Enc(p), pct, d)
					}
				}
			}
		}
	}
	// chains of depth 1..4 (thorough: up to 6) for every sampling pattern
	maxD := 4
	if tier == "thorough" {
		maxD = 6
	}
	for _, v := range []string{"http", "grpcu", "grpcs"} {
		for d := 1; d <= maxD; d++ {
			for bits := 0; bits < 1<<d; bits++ {
				bs := fmt.Sprintf("%0*b", d, bits)
				for _, t := range []string{"", "inbound"} {
					for _, p := range []string{"", "caller-span"} {
						fmt.Printf("chain %s %d %s %s %s\n", v, d, lp.Enc(t), lp.Enc(p), bs)
					}
				}
			}
		}
	}
	// response capture: every sequence of up to 4 operations over a small alphabet, then random ones
	// s<n>:<a>: the underlying writer takes only a of the n bytes offered (as net/http does after 204/304 or past Content-Length)
	alpha := []string{"h200", "h404", "h500", "h204", "w0", "w5", "w17", "s20:0", "s11:5"}
	var rec func(prefix []string, depth int)
	rec = func(prefix []string, depth int) {
		if len(prefix) > 0 {
			fmt.Println("capture " + strings.Join(prefix, " "))
		}
		if depth == 0 {
			return
		}
		for _, a := range alpha {
			rec(append(append([]string{}, prefix...), a), depth-1)
		}
	}
	cd := 3
	if tier == "thorough" {
		cd = 5
	}
	rec(nil, cd)
	for i := 0; i < n/4; i++ {
		k := 1 + r.Intn(8)
		var ops []string
		for j := 0; j < k; j++ {
			if r.Intn(3) == 0 {
				ops = append(ops, "h"+strconv.Itoa(200+r.Intn(400)))
			} else if r.Intn(4) == 0 {
				n := r.Intn(2000)
				ops = append(ops, fmt.Sprintf("s%d:%d", n, r.Intn(n+1)))
			} else {
				ops = append(ops, "w"+strconv.Itoa(r.Intn(2000)))
			}
		}
		fmt.Println("capture " + strings.Join(ops, " "))
	}
}

// ------------------------------------------------------------------ execution

func parseOpts(variant string, toks []string) ([]middleware.RequestIDOption, []string) {
	n, _ := strconv.Atoi(toks[0])
	var opts []middleware.RequestIDOption
	// the options are built with the constructors of the transport's own middleware package: those are what a service calls
	for _, t := range toks[1 : 1+n] {
		switch t[0] {
		case 'U':
			if variant == "http" {
				opts = append(opts, httpmw.UseXRequestIDHeaderOption(t[1] == '1'))
			} else {
				opts = append(opts, grpcmw.UseXRequestIDMetadataOption(t[1] == '1'))
			}
		case 'H':
			if variant == "http" {
				opts = append(opts, httpmw.RequestIDHeaderOption(lp.MustDec(t[1:])))
			} else {
				opts = append(opts, middleware.RequestIDHeaderOption(lp.MustDec(t[1:])))
			}
		case 'L':
			l, _ := strconv.Atoi(t[1:])
			if variant == "http" {
				opts = append(opts, httpmw.XRequestHeaderLimitOption(l))
			} else {
				opts = append(opts, grpcmw.XRequestMetadataLimitOption(l))
			}
		}
	}
	return opts, toks[1+n:]
}

type fakeStream struct {
	grpc.ServerStream
	ctx context.Context
}

func (f *fakeStream) Context() context.Context { return f.ctx }

func run(toks []string) string {
	switch toks[0] {
	case "rid":
		variant := toks[1]
		opts, rest := parseOpts(variant, toks[3:])
		ctx := context.Background()
		var inbound []string
		if rest[0] != "~" {
			v := lp.MustDec(rest[0])
			ctx = context.WithValue(ctx, middleware.RequestIDKey, v) // nolint: staticcheck
			inbound = append(inbound, v)
		}
		n, _ := strconv.Atoi(rest[2])
		kv := rest[3:]
		var got string
		seen := func(c context.Context) {
			if v := c.Value(middleware.RequestIDKey); v != nil {
				got = v.(string)
			}
		}
		switch variant {
		case "http":
			req := httptest.NewRequest("GET", "/", nil).WithContext(ctx)
			for i := 0; i < n; i++ {
				k, v := lp.MustDec(kv[2*i]), lp.MustDec(kv[2*i+1])
				req.Header.Set(k, v)
				inbound = append(inbound, v)
			}
			h := httpmw.RequestID(opts...)(http.HandlerFunc(func(w http.ResponseWriter, r *http.Request) { seen(r.Context()) }))
			h.ServeHTTP(httptest.NewRecorder(), req)
		default:
			md := metadata.MD{}
			for i := 0; i < n; i++ {
				k, v := lp.MustDec(kv[2*i]), lp.MustDec(kv[2*i+1])
				md.Set(k, v)
				inbound = append(inbound, v)
			}
			ctx = metadata.NewIncomingContext(ctx, md)
			if variant == "grpcu" {
				_, _ = grpcmw.UnaryRequestID(opts...)(ctx, nil, &grpc.UnaryServerInfo{FullMethod: "/svc/m"},
					func(c context.Context, req any) (any, error) { seen(c); return nil, nil })
			} else {
				_ = grpcmw.StreamRequestID(opts...)(nil, &fakeStream{ctx: ctx}, &grpc.StreamServerInfo{FullMethod: "/svc/m"},
					func(srv any, ss grpc.ServerStream) error { seen(ss.Context()); return nil })
			}
		}
		if got == "" {
			return "id=EMPTY"
		}
		for _, in := range inbound {
			if strings.HasPrefix(in, got) {
				return "id=" + lp.Enc(got)
			}
		}
		return "id=FRESH"
	case "trace":
		hT, hP := lp.MustDec(toks[2]), lp.MustDec(toks[3])
		pct, _ := strconv.Atoi(toks[4])
		opts := []middleware.TraceOption{
			middleware.TraceIDFunc(func() string { return "T" }), middleware.SpanIDFunc(func() string { return "S" }),
			middleware.SamplingPercent(pct),
		}
		if (len(hT)+pct)%2 == 0 {
			// a sample size without a maximum sampling rate: the percentage still decides (the adaptive sampler is not chosen)
			opts = append(opts, middleware.SampleSize(50))
		}
		if toks[5] == "1" {
			opts = append(opts, middleware.DiscardFromTrace(regexp.MustCompile(`^/health|^/svc/health`)))
		} else {
			opts = append(opts, middleware.DiscardFromTrace(regexp.MustCompile(`^/never$`)))
		}
		return showCtx(serveTrace(toks[1], opts, hT, hP, context.Background(), nil))
	case "chain":
		depth, _ := strconv.Atoi(toks[2])
		hT, hP := lp.MustDec(toks[3]), lp.MustDec(toks[4])
		bits := toks[5]
		var out []string
		variant := toks[1]
		var hop func(k int, hT, hP string)
		hop = func(k int, hT, hP string) {
			if k == depth {
				return
			}
			pct := 0
			if bits[k] == '1' {
				pct = 100
			}
			kk := k
			opts := []middleware.TraceOption{
				middleware.TraceIDFunc(func() string { return "t" + strconv.Itoa(kk) }),
				middleware.SpanIDFunc(func() string { return "s" + strconv.Itoa(kk) }),
				middleware.SamplingPercent(pct),
			}
			serveTrace(variant, opts, hT, hP, context.Background(), func(c context.Context) {
				out = append(out, showCtxC(c))
				// the handler calls the next service through the traced client
				nT, nP := outgoing(variant, c)
				hop(k+1, nT, nP)
			})
		}
		hop(0, hT, hP)
		return strings.Join(out, ";")
	case "capture":
		rec := httptest.NewRecorder()
		// the recorder's Code defaults to 200 before anything is written; track "written" ourselves
		under := &shortWriter{ResponseWriter: rec, limit: -1}
		w := httpmw.CaptureResponse(under)
		wrote := false
		for _, t := range toks[1:] {
			switch t[0] {
			case 'h':
				n, _ := strconv.Atoi(t[1:])
				w.WriteHeader(n)
			case 's':
				var n, acc int
				fmt.Sscanf(t[1:], "%d:%d", &n, &acc)
				under.limit = acc
				_, _ = w.Write(make([]byte, n))
				under.limit = -1
			default:
				n, _ := strconv.Atoi(t[1:])
				_, _ = w.Write(make([]byte, n))
			}
			wrote = true
		}
		code := 0
		if wrote {
			code = rec.Code
		}
		return fmt.Sprintf("cap=%d/%d wire=%d/%d", w.StatusCode, w.ContentLength, code, rec.Body.Len())
	}
	return "bad-op"
}

// shortWriter accepts at most `limit` bytes of the next Write (limit < 0: everything) and reports the count it took,
// as net/http's response writer does when a body is not allowed or exceeds the declared Content-Length.
type shortWriter struct {
	http.ResponseWriter
	limit int
}

func (s *shortWriter) Write(b []byte) (int, error) {
	if s.limit >= 0 && s.limit < len(b) {
		n, _ := s.ResponseWriter.Write(b[:s.limit])
		return n, io.ErrShortWrite
	}
	return s.ResponseWriter.Write(b)
}

// serveTrace runs one request through the real server-side trace middleware of the variant
// and returns the context seen by the handler (also passed to inside, when given).
func serveTrace(variant string, opts []middleware.TraceOption, hT, hP string, base context.Context, inside func(context.Context)) context.Context {
	var got context.Context
	handler := func(c context.Context) {
		got = c
		if inside != nil {
			inside(c)
		}
	}
	switch variant {
	case "http":
		req := httptest.NewRequest("GET", "/health", nil).WithContext(base)
		if hT != "" {
			req.Header.Set(httpmw.TraceIDHeader, hT)
		}
		if hP != "" {
			req.Header.Set(httpmw.ParentSpanIDHeader, hP)
		}
		h := httpmw.Trace(opts...)(http.HandlerFunc(func(w http.ResponseWriter, r *http.Request) { handler(r.Context()) }))
		h.ServeHTTP(httptest.NewRecorder(), req)
	default:
		md := metadata.MD{}
		if hT != "" {
			md.Set(grpcmw.TraceIDMetadataKey, hT)
		}
		if hP != "" {
			md.Set(grpcmw.ParentSpanIDMetadataKey, hP)
		}
		ctx := metadata.NewIncomingContext(base, md)
		if variant == "grpcu" {
			_, _ = grpcmw.UnaryServerTrace(opts...)(ctx, nil, &grpc.UnaryServerInfo{FullMethod: "/svc/health"},
				func(c context.Context, req any) (any, error) { handler(c); return nil, nil })
		} else {
			_ = grpcmw.StreamServerTrace(opts...)(nil, &fakeStream{ctx: ctx}, &grpc.StreamServerInfo{FullMethod: "/svc/health"},
				func(srv any, ss grpc.ServerStream) error { handler(ss.Context()); return nil })
		}
	}
	return got
}

var staleCalls int

type captureDoer struct{ req *http.Request }

func (d *captureDoer) Do(r *http.Request) (*http.Response, error) {
	d.req = r
	return &http.Response{StatusCode: 200, Body: http.NoBody}, nil
}

// outgoing returns the trace headers/metadata the real traced client adds to a call made under ctx.
func outgoing(variant string, ctx context.Context) (string, string) {
	switch variant {
	case "http":
		d := &captureDoer{}
		req, _ := http.NewRequestWithContext(ctx, "GET", "http://next/health", nil)
		// a gateway that copied the headers of ITS inbound request onto the outbound one: the traced client states the
		// current trace and span all the same
		// (only when the current request is traced: an untraced hop leaves the request alone)
		if tid, ok := ctx.Value(middleware.TraceIDKey).(string); ok {
			// (every other time the copied trace id is the current one — same trace, earlier hop — and only the span is stale)
			staleCalls++
			if staleCalls%2 == 0 {
				req.Header.Set(httpmw.TraceIDHeader, tid)
			} else {
				req.Header.Set(httpmw.TraceIDHeader, "stale-trace")
			}
			req.Header.Set(httpmw.ParentSpanIDHeader, "stale-span")
		}
		_, _ = httpmw.WrapDoer(d).Do(req)
		return d.req.Header.Get(httpmw.TraceIDHeader), d.req.Header.Get(httpmw.ParentSpanIDHeader)
	case "grpcu":
		var out context.Context
		// a fresh outgoing context, as a client call made from the handler has
		_ = grpcmw.UnaryClientTrace()(ctx, "/svc/next", nil, nil, nil,
			func(c context.Context, method string, req, reply any, cc *grpc.ClientConn, opts ...grpc.CallOption) error {
				out = c
				return nil
			})
		md, _ := metadata.FromOutgoingContext(out)
		return grpcmw.MetadataValue(md, grpcmw.TraceIDMetadataKey), grpcmw.MetadataValue(md, grpcmw.ParentSpanIDMetadataKey)
	default:
		var out context.Context
		_, _ = grpcmw.StreamClientTrace()(ctx, &grpc.StreamDesc{}, nil, "/svc/next",
			func(c context.Context, desc *grpc.StreamDesc, cc *grpc.ClientConn, method string, opts ...grpc.CallOption) (grpc.ClientStream, error) {
				out = c
				return nil, nil
			})
		md, _ := metadata.FromOutgoingContext(out)
		return grpcmw.MetadataValue(md, grpcmw.TraceIDMetadataKey), grpcmw.MetadataValue(md, grpcmw.ParentSpanIDMetadataKey)
	}
}

func ctxVals(c context.Context) (string, string, string, bool, bool) {
	if c == nil {
		return "", "", "", false, false
	}
	t, ok := c.Value(middleware.TraceIDKey).(string)
	s, _ := c.Value(middleware.TraceSpanIDKey).(string)
	p, hasP := c.Value(middleware.TraceParentSpanIDKey).(string)
	return t, s, p, ok, hasP
}

func showCtx(c context.Context) string {
	t, s, p, ok, hasP := ctxVals(c)
	if !ok {
		return "none"
	}
	ps := "~"
	if hasP {
		ps = lp.Enc(p)
	}
	return fmt.Sprintf("trace=%s span=%s parent=%s", lp.Enc(t), lp.Enc(s), ps)
}

func showCtxC(c context.Context) string {
	t, s, p, ok, hasP := ctxVals(c)
	if !ok {
		return "none"
	}
	ps := "~"
	if hasP {
		ps = lp.Enc(p)
	}
	return fmt.Sprintf("%s/%s/%s", lp.Enc(t), lp.Enc(s), ps)
}
