// Package lp holds the helpers shared by the correspondence drivers: the
// hex transport of strings, a deterministic PRNG and line I/O.
package lp

import (
	"bufio"
	"encoding/hex"
	"fmt"
	"os"
	"strings"
)

// Enc hex-encodes s ("-" for the empty string) like GoaVerif.encString.
func Enc(s string) string {
	if s == "" {
		return "-"
	}
	return hex.EncodeToString([]byte(s))
}

// Dec is the inverse of Enc.
func Dec(tok string) (string, error) {
	if tok == "-" {
		return "", nil
	}
	b, err := hex.DecodeString(tok)
	return string(b), err
}

// MustDec panics on malformed input (driver input is produced by our own generators).
func MustDec(tok string) string {
	s, err := Dec(tok)
	if err != nil {
		panic(fmt.Sprintf("bad hex token %q", tok))
	}
	return s
}

// Rng is splitmix64: every random choice of a run derives from one seed.
type Rng struct{ s uint64 }

func NewRng(seed uint64) *Rng { return &Rng{s: seed*0x9E3779B97F4A7C15 + 0x1234567} }

func (r *Rng) Next() uint64 {
	r.s += 0x9E3779B97F4A7C15
	z := r.s
	z = (z ^ (z >> 30)) * 0xBF58476D1CE4E5B9
	z = (z ^ (z >> 27)) * 0x94D049BB133111EB
	return z ^ (z >> 31)
}

func (r *Rng) Intn(n int) int {
	if n <= 0 {
		return 0
	}
	return int(r.Next() % uint64(n))
}

func (r *Rng) Bool() bool { return r.Next()&1 == 1 }

// Pick returns a random element.
func Pick[T any](r *Rng, xs []T) T { return xs[r.Intn(len(xs))] }

// Lines calls f for every non-empty input line of stdin and flushes one output line per input.
func Lines(f func(toks []string) string) {
	in := bufio.NewScanner(os.Stdin)
	in.Buffer(make([]byte, 1<<20), 1<<26)
	out := bufio.NewWriter(os.Stdout)
	defer out.Flush()
	for in.Scan() {
		line := strings.TrimSpace(in.Text())
		if line == "" {
			continue
		}
		res := safe(f, strings.Fields(line))
		fmt.Fprintln(out, res)
	}
}

func safe(f func([]string) string, toks []string) (res string) {
	defer func() {
		if r := recover(); r != nil {
			res = "panic " + Enc(fmt.Sprint(r))
		}
	}()
	return f(toks)
}
