package design

import (
	"fmt"
	"strings"

	"goa.design/goa/v3/dsl"
	"goa.design/goa/v3/eval"
	"goa.design/goa/v3/expr"
)

var fresh = true

// Reset prepares the eval engine for a new design. The first design of a process is evaluated with the roots exactly as goa's own
// packages registered them at start-up (what the goa command evaluates with: registration order and dependencies are goa's);
// later designs of the same process start from a reset engine, the way goa's tests do.
func Reset() {
	if fresh {
		fresh = false
		return
	}
	eval.Reset()
	expr.Root = new(expr.RootExpr)
	expr.GeneratedResultTypes = new(expr.ResultTypesRoot)
	if err := eval.Register(expr.Root); err != nil {
		panic(err)
	}
	if err := eval.Register(expr.GeneratedResultTypes); err != nil {
		panic(err)
	}
}

// Run executes the design's DSL and evaluates it; it returns the evaluation error, if any.
func Run(d *Design) error {
	Reset()
	if !eval.Execute(Build(d), nil) {
		return eval.Context.Errors
	}
	return eval.RunDSL()
}

type interp struct {
	d       *Design
	types   map[string]expr.UserType
	schemes map[string]*expr.SchemeExpr
	// creds maps payload attribute names to the credential they carry while a payload is emitted:
	// username | password | apikey:<scheme> | jwt | oauth2
	creds map[string]string
}

var prims = map[string]expr.DataType{
	"Boolean": expr.Boolean, "Int": expr.Int, "Int32": expr.Int32, "Int64": expr.Int64,
	"UInt": expr.UInt, "UInt32": expr.UInt32, "UInt64": expr.UInt64,
	"Float32": expr.Float32, "Float64": expr.Float64, "String": expr.String, "Bytes": expr.Bytes, "Any": expr.Any,
}

// Build returns the top-level DSL function of the design.
func Build(d *Design) func() {
	in := &interp{d: d, types: map[string]expr.UserType{}, schemes: map[string]*expr.SchemeExpr{}}
	return func() {
		in.raw("top")
		for _, s := range d.Schemes {
			in.scheme(s)
		}
		dsl.API(d.API, func() {
			dsl.Title("verification design " + d.API)
			for _, r := range d.Security {
				in.security(r)
			}
			for _, e := range d.Errors {
				in.errDef(e)
			}
			if len(d.APIHTTP) > 0 || d.Path != "" {
				dsl.HTTP(func() {
					if d.Path != "" {
						dsl.Path(d.Path)
					}
					for _, er := range d.APIHTTP {
						in.errResp(er)
					}
				})
			}
			metas(d.Meta)
			in.raw("api")
		})
		for _, t := range d.Types {
			in.typeDef(t)
		}
		for _, s := range d.Services {
			in.service(s)
		}
	}
}

func (in *interp) raw(where string) {
	for _, r := range in.d.Raw {
		if r.Where == where {
			rawCall(in, r)
		}
	}
}

func (in *interp) scheme(s *Scheme) {
	switch s.Kind {
	case "basic":
		in.schemes[s.Name] = dsl.BasicAuthSecurity(s.Name)
	case "apikey":
		in.schemes[s.Name] = dsl.APIKeySecurity(s.Name)
	case "jwt":
		in.schemes[s.Name] = dsl.JWTSecurity(s.Name, func() {
			for _, sc := range s.Scopes {
				dsl.Scope(sc, "scope "+sc)
			}
		})
	case "oauth2":
		in.schemes[s.Name] = dsl.OAuth2Security(s.Name, func() {
			dsl.ClientCredentialsFlow("/token", "/refresh")
			for _, sc := range s.Scopes {
				dsl.Scope(sc, "scope "+sc)
			}
		})
	}
}

func (in *interp) security(r Req) {
	var args []any
	for _, n := range r.Schemes {
		if s, ok := in.schemes[n]; ok {
			args = append(args, s)
		} else {
			args = append(args, n) // dangling name: let goa judge it
		}
	}
	if len(r.Scopes) > 0 {
		args = append(args, func() {
			for _, sc := range r.Scopes {
				dsl.Scope(sc)
			}
		})
	}
	dsl.Security(args...)
}

func (in *interp) errDef(e *ErrDef) {
	var args []any
	if e.Type != nil {
		args = append(args, in.typeArg(e.Type))
	}
	if e.Temporary || e.Timeout || e.Fault {
		args = append(args, func() {
			if e.Temporary {
				dsl.Temporary()
			}
			if e.Timeout {
				dsl.Timeout()
			}
			if e.Fault {
				dsl.Fault()
			}
		})
	}
	dsl.Error(e.Name, args...)
}

func (in *interp) errResp(er *ErrResp) {
	if er.FuncCode {
		dsl.Response(er.Name, func() {
			dsl.Code(er.Code)
			for _, h := range er.Headers {
				dsl.Header(mapped(h))
			}
			in.body(er.Body)
		})
		return
	}
	if len(er.Headers) == 0 && er.Body == nil && er.ContentType == "" {
		dsl.Response(er.Name, er.Code)
		return
	}
	dsl.Response(er.Name, er.Code, func() {
		if er.ContentType != "" {
			dsl.ContentType(er.ContentType)
		}
		for _, h := range er.Headers {
			dsl.Header(mapped(h))
		}
		in.body(er.Body)
	})
}

func mapped(m Mapped) string {
	if m.Wire == "" {
		return m.Attr
	}
	return m.Attr + ":" + m.Wire
}

// typeArg returns the value the DSL expects where a type is named.
func (in *interp) typeArg(a *Att) any {
	t := a.Type
	switch {
	case t == nil:
		return expr.String
	case t.Prim != "":
		if p, ok := prims[t.Prim]; ok {
			return p
		}
		return t.Prim // unknown name: dangling reference
	case t.Ref != "":
		if ut, ok := in.types[t.Ref]; ok {
			return ut
		}
		return t.Ref
	case t.Collection != "":
		if ut, ok := in.types[t.Collection]; ok {
			return dsl.CollectionOf(ut)
		}
		return dsl.CollectionOf(t.Collection)
	case t.Array != nil:
		if fn := in.attFunc(t.Array, false); fn != nil {
			return dsl.ArrayOf(in.typeArg(t.Array), fn)
		}
		return dsl.ArrayOf(in.typeArg(t.Array))
	case t.MapKey != nil:
		kf, ef := in.attFunc(t.MapKey, false), in.attFunc(t.MapElem, false)
		if kf != nil || ef != nil {
			return dsl.MapOf(in.typeArg(t.MapKey), in.typeArg(t.MapElem), func() {
				if kf != nil {
					dsl.Key(kf)
				}
				if ef != nil {
					dsl.Elem(ef)
				}
			})
		}
		return dsl.MapOf(in.typeArg(t.MapKey), in.typeArg(t.MapElem))
	}
	return nil // inline object / union: handled by the caller through a DSL function
}

// attFunc returns the DSL function describing the attribute (nil when there is nothing to say).
// withFields says whether object fields are emitted (inline objects).
func (in *interp) attFunc(a *Att, withFields bool) func() {
	hasVal := a.Val != nil
	fields := withFields && a.Type != nil && (a.Type.IsObject || len(a.Type.Object) > 0)
	if !hasVal && !a.HasDef && !fields && len(a.Required) == 0 && len(a.Meta) == 0 && a.View == "" {
		return nil
	}
	return func() {
		if fields {
			for _, f := range a.Type.Object {
				in.attribute(f)
			}
		}
		if v := a.Val; v != nil {
			if len(v.Enum) > 0 {
				vals := make([]any, len(v.Enum))
				for i, e := range v.Enum {
					vals[i] = typedValue(in.underlying(a), e)
				}
				dsl.Enum(vals...)
			}
			if v.Format != "" {
				dsl.Format(expr.ValidationFormat(v.Format))
			}
			if v.Pattern != "" {
				dsl.Pattern(v.Pattern)
			}
			if v.Min != nil {
				dsl.Minimum(*v.Min)
			}
			if v.Max != nil {
				dsl.Maximum(*v.Max)
			}
			if v.ExMin != nil {
				dsl.ExclusiveMinimum(*v.ExMin)
			}
			if v.ExMax != nil {
				dsl.ExclusiveMaximum(*v.ExMax)
			}
			if v.MinLen != nil {
				dsl.MinLength(*v.MinLen)
			}
			if v.MaxLen != nil {
				dsl.MaxLength(*v.MaxLen)
			}
		}
		if a.HasDef {
			dsl.Default(in.typedCollection(in.underlying(a), typedValue(in.underlying(a), a.Default)))
		}
		if a.View != "" {
			dsl.View(a.View)
		}
		for _, m := range a.Meta {
			dsl.Meta(m[0], m[1:]...)
		}
		if len(a.Required) > 0 {
			dsl.Required(a.Required...)
		}
	}
}

// typedValue converts a JSON-decoded number to the Go type goa expects for the attribute's
// primitive type (a design written by hand would contain typed literals).
// underlying follows references to alias types down to the attribute that names a primitive.
func (in *interp) underlying(a *Att) *Att {
	for n := 0; n < 10 && a != nil && a.Type != nil && a.Type.Ref != ""; n++ {
		var next *Att
		for _, t := range in.d.Types {
			if t.Name == a.Type.Ref {
				next = t.Att
			}
		}
		if next == nil {
			break
		}
		a = next
	}
	return a
}

// typedCollection gives array and map defaults of string elements the Go type a user would write
// ([]string, map[string]string); with Design.LooseDefaults they stay []any / map[string]any, which
// goa accepts as compatible too.
func (in *interp) typedCollection(a *Att, v any) any {
	if in.d.LooseDefaults || a == nil || a.Type == nil {
		return v
	}
	switch x := v.(type) {
	case []any:
		if a.Type.Array != nil && in.underlying(a.Type.Array).Type.Prim == "String" {
			out := make([]string, len(x))
			for i, e := range x {
				out[i], _ = e.(string)
			}
			return out
		}
	case map[string]any:
		if a.Type.MapElem != nil && in.underlying(a.Type.MapElem).Type.Prim == "String" {
			out := map[string]string{}
			for k, e := range x {
				out[k], _ = e.(string)
			}
			return out
		}
	}
	return v
}

func typedValue(a *Att, v any) any {
	f, ok := v.(float64)
	if !ok || a.Type == nil {
		if i, ok := v.(int); ok {
			f = float64(i)
		} else {
			return v
		}
	}
	switch a.Type.Prim {
	case "Int":
		return int(f)
	case "Int32":
		return int32(f)
	case "Int64":
		return int64(f)
	case "UInt":
		return uint(f)
	case "UInt32":
		return uint32(f)
	case "UInt64":
		return uint64(f)
	case "Float32":
		return float32(f)
	case "Float64":
		return f
	}
	return v
}

func isInlineObject(a *Att) bool {
	return a.Type != nil && (a.Type.IsObject || len(a.Type.Object) > 0)
}

func (in *interp) attribute(f *Field) {
	a := f.Att
	if a.Type != nil && len(a.Type.OneOf) > 0 {
		dsl.OneOf(f.Name, func() {
			for _, alt := range a.Type.OneOf {
				in.attribute(alt)
			}
		})
		return
	}
	if kind, ok := in.creds[f.Name]; ok {
		// credentials are declared with the dedicated DSL functions, which binds them to the schemes
		switch {
		case kind == "username":
			dsl.Username(f.Name, expr.String)
		case kind == "password":
			dsl.Password(f.Name, expr.String)
		case kind == "jwt":
			dsl.Token(f.Name, expr.String)
		case kind == "oauth2":
			dsl.AccessToken(f.Name, expr.String)
		case strings.HasPrefix(kind, "apikey:"):
			dsl.APIKey(strings.TrimPrefix(kind, "apikey:"), f.Name, expr.String)
		}
		return
	}
	var args []any
	if isInlineObject(a) {
		if a.Desc != "" {
			args = append(args, a.Desc)
		}
		args = append(args, in.attFunc(a, true))
		dsl.Attribute(f.Name, args...)
		return
	}
	if a.Type != nil {
		args = append(args, in.typeArg(a))
	} // else: the type is inherited from the type named by Reference / Extend
	if a.Desc != "" {
		args = append(args, a.Desc)
	}
	if fn := in.attFunc(a, false); fn != nil {
		args = append(args, fn)
	}
	dsl.Attribute(f.Name, args...)
}

func (in *interp) typeDef(t *TypeDef) {
	body := func() {
		if t.Extend != "" {
			if ut, ok := in.types[t.Extend]; ok {
				dsl.Extend(ut)
			} else {
				dsl.Extend(expr.DataType(nil))
			}
		}
		if t.Reference != "" {
			if ut, ok := in.types[t.Reference]; ok {
				dsl.Reference(ut)
			}
		}
		if fn := in.attFunc(t.Att, true); fn != nil {
			fn()
		}
		in.raw("type:" + t.Name)
	}
	switch t.Kind {
	case "result":
		in.types[t.Name] = dsl.ResultType(t.Identifier, func() {
			dsl.TypeName(t.Name)
			dsl.Attributes(body)
			if t.RenderView != "" {
				dsl.View(t.RenderView)
			}
			for _, v := range t.Views {
				dsl.View(v.Name, func() {
					for _, f := range v.Attrs {
						if f.View != "" {
							dsl.Attribute(f.Name, func() { dsl.View(f.View) })
						} else {
							dsl.Attribute(f.Name)
						}
					}
				})
			}
		})
	default:
		if isInlineObject(t.Att) || t.Att.Type == nil {
			in.types[t.Name] = dsl.Type(t.Name, body)
		} else {
			// alias of a primitive / array / map, possibly with validations
			if fn := in.attFunc(t.Att, false); fn != nil {
				in.types[t.Name] = dsl.Type(t.Name, in.typeArg(t.Att), fn)
			} else {
				in.types[t.Name] = dsl.Type(t.Name, in.typeArg(t.Att))
			}
		}
	}
}

// methodAtt calls Payload/Result/… with the right argument forms.
func (in *interp) methodAtt(call func(val any, args ...any), a *Att) {
	if a == nil {
		return
	}
	if isInlineObject(a) {
		call(in.attFunc(a, true))
		return
	}
	val := in.typeArg(a)
	fn := in.attFunc(a, false)
	switch {
	case a.Desc != "" && fn != nil:
		call(val, a.Desc, fn)
	case fn != nil:
		call(val, fn)
	case a.Desc != "":
		call(val, a.Desc)
	default:
		call(val)
	}
}

// metas emits Meta(key, values...) calls.
func metas(ms [][]string) {
	for _, m := range ms {
		if len(m) > 0 {
			dsl.Meta(m[0], m[1:]...)
		}
	}
}

func (in *interp) service(s *Service) {
	dsl.Service(s.Name, func() {
		for _, r := range s.Security {
			in.security(r)
		}
		if s.NoSecurity {
			dsl.NoSecurity()
		}
		for _, e := range s.Errors {
			in.errDef(e)
		}
		if s.Path != "" || len(s.HTTPErrors) > 0 || s.Parent != "" {
			dsl.HTTP(func() {
				if s.Parent != "" {
					dsl.Parent(s.Parent)
				}
				if s.Path != "" {
					dsl.Path(s.Path)
				}
				for _, er := range s.HTTPErrors {
					in.errResp(er)
				}
			})
		}
		for _, f := range s.Files {
			if len(f) == 2 {
				dsl.Files(f[0], f[1])
			}
		}
		metas(s.Meta)
		in.raw("service:" + s.Name)
		for _, m := range s.Methods {
			in.method(s, m)
		}
	})
}

func (in *interp) method(s *Service, m *Method) {
	dsl.Method(m.Name, func() {
		for _, r := range m.Security {
			in.security(r)
		}
		if m.NoSecurity {
			dsl.NoSecurity()
		}
		in.creds = m.Creds
		payloadFn, resultFn := dsl.Payload, dsl.Result
		if m.Stream == "payload" || m.Stream == "both" {
			payloadFn = dsl.StreamingPayload
		}
		if m.Stream == "result" || m.Stream == "both" {
			resultFn = dsl.StreamingResult
		}
		in.methodAtt(payloadFn, m.Payload)
		in.creds = nil
		if m.Result != nil {
			if m.ResultView != "" {
				in.methodAtt(resultFn, &Att{Type: m.Result.Type, Desc: m.Result.Desc, Val: m.Result.Val, View: m.ResultView})
			} else {
				in.methodAtt(resultFn, m.Result)
			}
		}
		for _, e := range m.Errors {
			in.errDef(e)
		}
		metas(m.Meta)
		in.raw("method:" + s.Name + "." + m.Name)
		if m.HTTP != nil {
			in.http(s, m)
		}
		if m.GRPC != nil {
			dsl.GRPC(func() {
				if len(m.GRPC.Metadata) > 0 {
					dsl.Metadata(func() {
						for _, md := range m.GRPC.Metadata {
							dsl.Attribute(mapped(md))
						}
					})
				}
				if len(m.GRPC.Message) > 0 {
					dsl.Message(func() {
						for _, a := range m.GRPC.Message {
							dsl.Attribute(a)
						}
					})
				}
				if m.GRPC.Code != 0 || len(m.GRPC.Headers) > 0 || len(m.GRPC.Trailers) > 0 {
					dsl.Response(func() {
						if m.GRPC.Code != 0 {
							dsl.Code(m.GRPC.Code)
						}
						if len(m.GRPC.Headers) > 0 {
							dsl.Headers(func() {
								for _, h := range m.GRPC.Headers {
									dsl.Attribute(mapped(h))
								}
							})
						}
						if len(m.GRPC.Trailers) > 0 {
							dsl.Trailers(func() {
								for _, h := range m.GRPC.Trailers {
									dsl.Attribute(mapped(h))
								}
							})
						}
					})
				}
			})
		}
	})
}

func (in *interp) body(b *BodySpec) {
	switch {
	case b == nil:
	case b.Empty:
		dsl.Body(dsl.Empty)
	case b.Attr != "":
		dsl.Body(b.Attr)
	case len(b.Attrs) > 0:
		dsl.Body(func() {
			for _, a := range b.Attrs {
				dsl.Attribute(a)
			}
		})
	}
}

func (in *interp) http(s *Service, m *Method) {
	h := m.HTTP
	dsl.HTTP(func() {
		if m.SkipRequestBody {
			dsl.SkipRequestBodyEncodeDecode()
		}
		if m.Multipart {
			dsl.MultipartRequest()
		}
		verb := map[string]func(string) *expr.RouteExpr{
			"GET": dsl.GET, "POST": dsl.POST, "PUT": dsl.PUT, "DELETE": dsl.DELETE, "PATCH": dsl.PATCH,
			"HEAD": dsl.HEAD, "OPTIONS": dsl.OPTIONS,
		}[h.Verb]
		if verb == nil {
			verb = dsl.POST
		}
		verb(h.Path)
		for _, p := range h.MorePaths {
			verb(p)
		}
		for _, vr := range h.MoreRoutes {
			if len(vr) == 2 {
				switch vr[0] {
				case "GET":
					dsl.GET(vr[1])
				case "POST":
					dsl.POST(vr[1])
				case "PUT":
					dsl.PUT(vr[1])
				case "DELETE":
					dsl.DELETE(vr[1])
				case "PATCH":
					dsl.PATCH(vr[1])
				}
			}
		}
		for _, p := range h.Params {
			if p.Val != nil {
				dsl.Param(mapped(p), in.attFunc(&Att{Val: p.Val}, false))
			} else {
				dsl.Param(mapped(p))
			}
		}
		for _, p := range h.Headers {
			if p.Val != nil {
				dsl.Header(mapped(p), in.attFunc(&Att{Val: p.Val}, false))
				continue
			}
			dsl.Header(mapped(p))
		}
		for _, p := range h.Cookies {
			dsl.Cookie(mapped(p))
		}
		in.body(h.Body)
		for _, r := range h.Responses {
			r := r
			body := func() {
				if r.FuncCode {
					dsl.Code(r.Code)
				}
				if r.ContentType != "" {
					dsl.ContentType(r.ContentType)
				}
				for _, p := range r.Headers {
					dsl.Header(mapped(p))
				}
				for _, p := range r.Cookies {
					dsl.Cookie(mapped(p))
				}
				in.body(r.Body)
				if len(r.Tag) == 2 {
					dsl.Tag(r.Tag[0], r.Tag[1])
				}
			}
			if r.FuncCode {
				dsl.Response(body)
			} else {
				dsl.Response(r.Code, body)
			}
		}
		for _, er := range h.Errors {
			in.errResp(er)
		}
		in.raw("http:" + s.Name + "." + m.Name)
	})
}

// rawCall performs one DSL call in whatever context the interpreter happens to be (C12).
func rawCall(in *interp, r *RawCall) {
	arg := func(i int) string {
		if i < len(r.Args) {
			return r.Args[i]
		}
		return ""
	}
	switch r.Func {
	case "Attribute":
		dsl.Attribute(arg(0), expr.String)
	case "AttributeRef":
		dsl.Attribute(arg(0), arg(1))
	case "Required":
		dsl.Required(r.Args...)
	case "Payload":
		dsl.Payload(expr.String)
	case "Result":
		dsl.Result(expr.Int)
	case "Method":
		dsl.Method(arg(0), func() {})
	case "Service":
		dsl.Service(arg(0), func() {})
	case "GET":
		dsl.GET(arg(0))
	case "Param":
		dsl.Param(arg(0))
	case "Header":
		dsl.Header(arg(0))
	case "Body":
		dsl.Body(arg(0))
	case "Response":
		dsl.Response(arg(0), 400)
	case "ResponseCode":
		dsl.Response(200)
	case "Error":
		dsl.Error(arg(0))
	case "Security":
		dsl.Security(arg(0))
	case "View":
		dsl.View(arg(0))
	case "Enum":
		dsl.Enum(1, "two")
	case "Minimum":
		dsl.Minimum(3)
	case "MaxLength":
		dsl.MaxLength(-1)
	case "Pattern":
		dsl.Pattern(arg(0))
	case "Format":
		dsl.Format(expr.ValidationFormat(arg(0)))
	case "Default":
		dsl.Default(arg(0))
	case "Type":
		dsl.Type(arg(0), func() {})
	case "TypeDup":
		dsl.Type(arg(0), func() { dsl.Attribute("a") })
	case "ResultType":
		dsl.ResultType(arg(0), func() {})
	case "ArrayOfNil":
		dsl.Attribute(arg(0), dsl.ArrayOf(nil))
	case "MapOfBad":
		dsl.Attribute(arg(0), dsl.MapOf(dsl.ArrayOf(expr.String), expr.String))
	case "Tag":
		dsl.Tag(arg(0), arg(1))
	case "Path":
		dsl.Path(arg(0))
	case "HTTP":
		dsl.HTTP(func() {})
	case "GRPC":
		dsl.GRPC(func() {})
	case "Extend":
		dsl.Extend(expr.String)
	case "Meta":
		dsl.Meta(arg(0), arg(1))
	case "Files":
		dsl.Files(arg(0), arg(1))
	case "Code":
		dsl.Code(99)
	case "Temporary":
		dsl.Temporary()
	case "NoSecurity":
		dsl.NoSecurity()
	case "Scope":
		dsl.Scope(arg(0))
	case "CollectionOfMissing":
		dsl.Attribute(arg(0), dsl.CollectionOf(arg(1)))
	case "Elem":
		dsl.Elem(func() {})
	case "Key":
		dsl.Key(func() {})
	default:
		panic(fmt.Sprintf("design: unknown raw call %q", r.Func))
	}
}

// ErrorStrings splits an evaluation error into its individual messages.
func ErrorStrings(err error) []string {
	if err == nil {
		return nil
	}
	var out []string
	for _, l := range strings.Split(err.Error(), "\n") {
		if strings.TrimSpace(l) != "" {
			out = append(out, l)
		}
	}
	return out
}
