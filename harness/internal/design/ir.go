// Package design defines the abstract design description ("design IR") shared by the
// verification machinery: the generator emits it as JSON, the interpreter turns it into calls
// of goa's public DSL (so the real path DSL -> eval -> expr -> codegen is exercised), the
// Python oracles and the Lean models read the same JSON.
package design

// Design is one goa design.
type Design struct {
	API  string `json:"api"`
	Path string `json:"path,omitempty"` // API level HTTP base path
	// LooseDefaults hands array and map defaults to the DSL as []any / map[string]any instead of []string / map[string]string
	LooseDefaults bool       `json:"loose_defaults,omitempty"`
	Types         []*TypeDef `json:"types,omitempty"`
	Schemes       []*Scheme  `json:"schemes,omitempty"`
	Security      []Req      `json:"security,omitempty"` // API level requirements
	Errors        []*ErrDef  `json:"errors,omitempty"`   // API level errors
	APIHTTP       []*ErrResp `json:"api_http_errors,omitempty"`
	Services      []*Service `json:"services"`
	Meta          [][]string `json:"meta,omitempty"` // API level metadata: key, values...
	// Raw lists deliberately misplaced / dangling DSL calls (malformed stream, C12).
	Raw []*RawCall `json:"raw,omitempty"`
}

// TypeDef is a named type: Type (object or alias) or ResultType.
type TypeDef struct {
	Name       string  `json:"name"`
	Kind       string  `json:"kind"` // type | result
	Att        *Att    `json:"att"`
	Identifier string  `json:"identifier,omitempty"`
	Views      []*View `json:"views,omitempty"`
	// RenderView: View("name") without DSL inside the result type (the view it is rendered with by default)
	RenderView string `json:"render_view,omitempty"`
	Extend     string `json:"extend,omitempty"`
	Reference  string `json:"reference,omitempty"`
}

// View of a result type.
type View struct {
	Name  string      `json:"name"`
	Attrs []ViewField `json:"attrs"`
}

// ViewField names an attribute of a view and optionally the view used to render it.
type ViewField struct {
	Name string `json:"name"`
	View string `json:"view,omitempty"`
}

// Att is an attribute: a type plus what the DSL can say about it.
type Att struct {
	Type     *Type       `json:"type"`
	Desc     string      `json:"desc,omitempty"`
	Val      *Validation `json:"val,omitempty"`
	Default  any         `json:"default,omitempty"`
	HasDef   bool        `json:"has_default,omitempty"`
	Required []string    `json:"required,omitempty"` // for objects
	Meta     [][]string  `json:"meta,omitempty"`
	View     string      `json:"view,omitempty"` // for attributes of result type
}

// Type is a data type.
type Type struct {
	Prim       string   `json:"prim,omitempty"` // Boolean Int Int32 Int64 UInt UInt32 UInt64 Float32 Float64 String Bytes Any
	Array      *Att     `json:"array,omitempty"`
	MapKey     *Att     `json:"map_key,omitempty"`
	MapElem    *Att     `json:"map_elem,omitempty"`
	Object     []*Field `json:"object,omitempty"`
	IsObject   bool     `json:"is_object,omitempty"` // distinguishes the empty object
	Ref        string   `json:"ref,omitempty"`       // named type
	Collection string   `json:"collection,omitempty"`
	OneOf      []*Field `json:"one_of,omitempty"`
}

// Field is a named attribute.
type Field struct {
	Name string `json:"name"`
	Att  *Att   `json:"att"`
}

// Validation keywords.
type Validation struct {
	Enum    []any    `json:"enum,omitempty"`
	Format  string   `json:"format,omitempty"`
	Pattern string   `json:"pattern,omitempty"`
	Min     *float64 `json:"min,omitempty"`
	Max     *float64 `json:"max,omitempty"`
	ExMin   *float64 `json:"exmin,omitempty"`
	ExMax   *float64 `json:"exmax,omitempty"`
	MinLen  *int     `json:"minlen,omitempty"`
	MaxLen  *int     `json:"maxlen,omitempty"`
}

// Scheme is a security scheme.
type Scheme struct {
	Name   string   `json:"name"`
	Kind   string   `json:"kind"` // basic apikey jwt oauth2
	Scopes []string `json:"scopes,omitempty"`
}

// Req is one security requirement: all its schemes must accept.
type Req struct {
	Schemes []string `json:"schemes"`
	Scopes  []string `json:"scopes,omitempty"`
}

// ErrDef declares an error.
type ErrDef struct {
	Name      string `json:"name"`
	Type      *Att   `json:"type,omitempty"` // nil: default ErrorResult
	Temporary bool   `json:"temporary,omitempty"`
	Timeout   bool   `json:"timeout,omitempty"`
	Fault     bool   `json:"fault,omitempty"`
}

// Service groups methods.
type Service struct {
	Name   string `json:"name"`
	Path   string `json:"path,omitempty"`
	Parent string `json:"parent,omitempty"` // HTTP parent service (Parent DSL)
	// Files are file servers: [request path, file or directory]
	Files      [][]string `json:"files,omitempty"`
	Errors     []*ErrDef  `json:"errors,omitempty"`
	HTTPErrors []*ErrResp `json:"http_errors,omitempty"`
	Security   []Req      `json:"security,omitempty"`
	NoSecurity bool       `json:"no_security,omitempty"`
	Methods    []*Method  `json:"methods"`
	GRPC       bool       `json:"grpc,omitempty"`
	Meta       [][]string `json:"meta,omitempty"`
}

// Method is one service method.
type Method struct {
	Name       string    `json:"name"`
	Payload    *Att      `json:"payload,omitempty"`
	Result     *Att      `json:"result,omitempty"`
	ResultView string    `json:"result_view,omitempty"`
	Errors     []*ErrDef `json:"errors,omitempty"`
	Security   []Req     `json:"security,omitempty"`
	NoSecurity bool      `json:"no_security,omitempty"`
	// payload attribute name -> username | password | apikey:<scheme> | jwt | oauth2
	Creds map[string]string `json:"creds,omitempty"`
	HTTP  *HTTPMap          `json:"http,omitempty"`
	GRPC  *GRPCMap          `json:"grpc,omitempty"`
	Meta  [][]string        `json:"meta,omitempty"`
	// Stream: "" | payload (client streaming) | result (server streaming) | both
	Stream string `json:"stream,omitempty"`
	// SkipRequestBody: the HTTP request body is handed to the service as an io.ReadCloser (SkipRequestBodyEncodeDecode)
	SkipRequestBody bool `json:"skip_request_body,omitempty"`
	// Multipart: the HTTP request is multipart (MultipartRequest); designs with it are generated and compiled only (C01)
	Multipart bool `json:"multipart,omitempty"`
}

// Mapped is "attribute[:wire name]".
type Mapped struct {
	Attr string `json:"attr"`
	Wire string `json:"wire,omitempty"`
	// Val: validations given in the mapping itself (Param("id", func() { Pattern(...) })), on top of the attribute's own
	Val *Validation `json:"val,omitempty"`
}

// HTTPMap is the HTTP transport mapping of a method.
type HTTPMap struct {
	Verb      string   `json:"verb"`
	Path      string   `json:"path"`
	MorePaths []string `json:"more_paths,omitempty"`
	// MoreRoutes are further routes of the same endpoint with their own verb: [verb, path]
	MoreRoutes [][]string `json:"more_routes,omitempty"`
	Params     []Mapped   `json:"params,omitempty"`
	Headers    []Mapped   `json:"headers,omitempty"`
	Cookies    []Mapped   `json:"cookies,omitempty"`
	Body       *BodySpec  `json:"body,omitempty"`
	Responses  []*Resp    `json:"responses,omitempty"`
	Errors     []*ErrResp `json:"errors,omitempty"`
}

// BodySpec selects the body: a single attribute, a list of attributes, or Empty.
type BodySpec struct {
	Attr  string   `json:"attr,omitempty"`
	Attrs []string `json:"attrs,omitempty"`
	Empty bool     `json:"empty,omitempty"`
}

// Resp is a success response.
type Resp struct {
	Code        int       `json:"code"`
	Headers     []Mapped  `json:"headers,omitempty"`
	Cookies     []Mapped  `json:"cookies,omitempty"`
	Body        *BodySpec `json:"body,omitempty"`
	Tag         []string  `json:"tag,omitempty"` // attribute, value
	ContentType string    `json:"content_type,omitempty"`
	// FuncCode: the status is given inside the response DSL (Response(func() { Code(202) }))
	FuncCode bool `json:"func_code,omitempty"`
}

// ErrResp maps an error to a status code.
type ErrResp struct {
	Name    string    `json:"name"`
	Code    int       `json:"code"`
	Headers []Mapped  `json:"headers,omitempty"`
	Body    *BodySpec `json:"body,omitempty"`
	// FuncCode: the status is given inside the response DSL (Response("name", func() { Code(409) }))
	FuncCode bool `json:"func_code,omitempty"`
	// ContentType designed for this error response (ContentType("application/xml"))
	ContentType string `json:"content_type,omitempty"`
}

// GRPCMap is the gRPC mapping.
type GRPCMap struct {
	Metadata []Mapped `json:"metadata,omitempty"`
	Code     int      `json:"code,omitempty"`
	// Message lists the payload attributes explicitly (Message(func(){ Attribute(...) }))
	Message []string `json:"message,omitempty"`
	// Headers / Trailers of the response (result attributes)
	Headers  []Mapped `json:"headers,omitempty"`
	Trailers []Mapped `json:"trailers,omitempty"`
}

// RawCall is a DSL call placed somewhere it may not belong (C12).
type RawCall struct {
	Where string   `json:"where"` // top | api | service:<name> | method:<svc>.<name> | type:<name> | http:<svc>.<name>
	Func  string   `json:"func"`
	Args  []string `json:"args,omitempty"`
}
