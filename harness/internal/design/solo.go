package design

import (
	"fmt"

	"verifharness/internal/lp"
)

// soloCell is one cell of the solo table.
type soloCell struct {
	typ      string // primitive name, or "[]<prim>" / "map" for collections
	presence int    // 0 required, 1 optional, 2 default
	valid    bool   // with a validation
	loc      string // query header cookie path body
}

func soloCells() []soloCell {
	var out []soloCell
	types := []string{"Boolean", "Int", "Int32", "Int64", "UInt", "UInt32", "UInt64", "Float32", "Float64", "String", "Bytes", "[]Int", "[]String", "[]Float64", "map"}
	for _, loc := range []string{"query", "header", "cookie", "path", "body"} {
		for _, t := range types {
			for presence := 0; presence < 3; presence++ {
				for _, valid := range []bool{false, true} {
					if loc == "path" && (presence != 0 || t == "map" || t == "Bytes") {
						continue
					}
					if loc == "cookie" && (t[0] == '[' || t == "map") {
						continue
					}
					if loc == "header" && t == "map" {
						continue
					}
					if valid && (t == "Boolean" || t == "Bytes" && loc != "body") {
						continue
					}
					out = append(out, soloCell{t, presence, valid, loc})
				}
			}
		}
	}
	return out
}

// SoloDesigns is the number of designs the solo table is spread over.
const SoloDesigns = 12

// GenerateSolo builds the solo table: every method has a payload of exactly ONE attribute, so that whatever the
// generators declare for one kind of attribute (error variables, conversion temporaries, imports) is used by
// that attribute alone or not at all. Cell k of the table (type x required/optional/default x validated x location)
// goes to design k mod SoloDesigns.
func GenerateSolo(r *lp.Rng, index int) *Design {
	d := &Design{API: "solo" + fmt.Sprint(index)}
	s := &Service{Name: "one"}
	// two services with a method of the same name whose bodies differ (their body types want the same name in the documents);
	// the first of them is the first thing of the design and has nothing but that one body
	same := func(svc, attr, prim string) *Service {
		return &Service{Name: svc, Methods: []*Method{{Name: "add", HTTP: &HTTPMap{Verb: "POST", Path: "/" + svc + "/add"},
			Payload: &Att{Type: &Type{IsObject: true, Object: []*Field{{Name: attr, Att: &Att{Type: &Type{Prim: prim}}}}}, Required: []string{attr}}}}}
	}
	d.Services = append(d.Services, same("alpha", "name", "String"), s, same("beta", "count", "Int"))
	for k, c := range soloCells() {
		if k%SoloDesigns != index%SoloDesigns {
			continue
		}
		a := &Att{}
		prim := c.typ
		switch {
		case c.typ == "map":
			a.Type = &Type{MapKey: &Att{Type: &Type{Prim: "String"}}, MapElem: &Att{Type: &Type{Array: &Att{Type: &Type{Prim: "Int"}}}}}
			prim = ""
		case c.typ[0] == '[':
			a.Type = &Type{Array: &Att{Type: &Type{Prim: c.typ[2:]}}}
			prim = ""
		default:
			a.Type = &Type{Prim: c.typ}
		}
		if c.valid {
			switch {
			case prim == "String" && c.presence == 1 && c.loc != "path":
				// a format AND a pattern on one attribute: both have to hold ("1999-12-31" is a date and does not start with 20)
				a.Val = &Validation{Format: "date", Pattern: "^20"}
			case prim == "String":
				a.Val = &Validation{MinLen: ip(1), MaxLen: ip(40)}
			case prim == "Bytes":
				a.Val = &Validation{MaxLen: ip(40)}
			case prim == "":
				a.Val = &Validation{MaxLen: ip(5)}
			case prim == "Float32" || prim == "Float64":
				a.Val = &Validation{Min: fp(0.5), Max: fp(99.5)}
			default:
				a.Val = &Validation{Min: fp(1), Max: fp(100)}
			}
		}
		if c.presence == 2 {
			a.HasDef = true
			switch {
			case c.typ == "map":
				a.Default = map[string]any{"a": []any{1, 2}}
				d.LooseDefaults = true
			case c.typ == "[]String":
				a.Default = []any{"a", "b"}
				d.LooseDefaults = true
			case c.typ == "[]Int":
				a.Default = []any{1, 2}
				d.LooseDefaults = true
			case c.typ == "[]Float64":
				a.Default = []any{1.5, 2.5}
				d.LooseDefaults = true
			case prim == "Boolean":
				a.Default = true
			case prim == "String":
				a.Default = "dflt"
			case prim == "Bytes":
				a.Default = "dflt"
			case prim == "Float32" || prim == "Float64":
				a.Default = 1.5
			default:
				a.Default = 3
			}
		}
		name := fmt.Sprintf("m%d", k)
		p := &Att{Type: &Type{IsObject: true, Object: []*Field{{Name: "qty", Att: a}}}}
		if c.presence == 0 {
			p.Required = []string{"qty"}
		}
		m := &Method{Name: name, Payload: p, HTTP: &HTTPMap{Verb: "GET", Path: "/" + name}}
		switch c.loc {
		case "query":
			m.HTTP.Params = []Mapped{{Attr: "qty"}}
		case "header":
			m.HTTP.Headers = []Mapped{{Attr: "qty", Wire: "X-V"}}
		case "cookie":
			m.HTTP.Cookies = []Mapped{{Attr: "qty", Wire: "vck"}}
		case "path":
			m.HTTP.Path += "/{qty}"
		case "body":
			m.HTTP.Verb = "POST"
		}
		// odd cells answer with the same single attribute (response decoders and encoders of the same shapes)
		if k%2 == 1 && c.loc != "path" {
			m.Result = &Att{Type: &Type{IsObject: true, Object: []*Field{{Name: "qty", Att: a}}}, Required: p.Required}
			switch c.loc {
			case "header":
				m.HTTP.Responses = []*Resp{{Code: 200, Headers: []Mapped{{Attr: "qty", Wire: "X-V"}}}}
			case "cookie":
				m.HTTP.Responses = []*Resp{{Code: 200, Cookies: []Mapped{{Attr: "qty", Wire: "vck"}}}}
			}
		}
		s.Methods = append(s.Methods, m)
	}
	// two routes that agree up to a wildcard they name differently, under different verbs: each method gets the rest of the
	// path under ITS name
	wild := func(name, verb, v string) *Method {
		return &Method{Name: name, Payload: &Att{Type: &Type{IsObject: true, Object: []*Field{{Name: v, Att: &Att{Type: &Type{Prim: "String"}}}}}, Required: []string{v}},
			Result: &Att{Type: &Type{Prim: "String"}}, HTTP: &HTTPMap{Verb: verb, Path: "/wild/{*" + v + "}"}}
	}
	s.Methods = append(s.Methods, wild("wild_get", "GET", "path"), wild("wild_put", "PUT", "rest"))
	// required arrays of a NAMED array type, of an inline array type and an optional one: a service that leaves them nil still
	// answers with empty lists
	d.Types = append(d.Types, &TypeDef{Name: "NameList", Kind: "type", Att: &Att{Type: &Type{Array: &Att{Type: &Type{Prim: "String"}}}}})
	s.Methods = append(s.Methods, &Method{Name: "lists", HTTP: &HTTPMap{Verb: "GET", Path: "/lists"},
		Result: &Att{Type: &Type{IsObject: true, Object: []*Field{
			{Name: "names", Att: &Att{Type: &Type{Ref: "NameList"}}},
			{Name: "items", Att: &Att{Type: &Type{Array: &Att{Type: &Type{Prim: "Int"}}}}},
			{Name: "plain", Att: &Att{Type: &Type{Array: &Att{Type: &Type{Prim: "String"}}}}},
			// required AND defaulted: a zero value is still sent
			{Name: "count", Att: &Att{Type: &Type{Prim: "Int"}, HasDef: true, Default: 3}},
			{Name: "flag", Att: &Att{Type: &Type{Prim: "Boolean"}, HasDef: true, Default: true}},
			{Name: "label", Att: &Att{Type: &Type{Prim: "String"}, HasDef: true, Default: "dflt"}}}},
			Required: []string{"names", "items", "count", "flag", "label"}}})
	// Reference: types that re-declare inherited attributes with validations of their own next to the base type and to each other;
	// each type keeps ITS bounds
	d.Types = append(d.Types,
		&TypeDef{Name: "RefBase", Kind: "type", Att: &Att{Type: &Type{IsObject: true, Object: []*Field{
			{Name: "level", Att: &Att{Type: &Type{Prim: "Int"}, Val: &Validation{Min: fp(10), Max: fp(50)}}},
			{Name: "tag", Att: &Att{Type: &Type{Prim: "String"}, Val: &Validation{MaxLen: ip(8)}}},
			{Name: "marks", Att: &Att{Type: &Type{Array: &Att{Type: &Type{Prim: "Int"}, Val: &Validation{Min: fp(1)}}}, Val: &Validation{MaxLen: ip(4)}}}}}}},
		&TypeDef{Name: "RefRelaxed", Kind: "type", Reference: "RefBase", Att: &Att{Type: &Type{IsObject: true, Object: []*Field{
			{Name: "level", Att: &Att{Val: &Validation{Min: fp(0)}}},
			{Name: "tag", Att: &Att{}},
			{Name: "marks", Att: &Att{Val: &Validation{MaxLen: ip(6)}}}}}}},
		&TypeDef{Name: "RefStrict", Kind: "type", Reference: "RefBase", Att: &Att{Type: &Type{IsObject: true, Object: []*Field{
			{Name: "level", Att: &Att{Val: &Validation{Max: fp(20)}}},
			{Name: "tag", Att: &Att{Val: &Validation{MaxLen: ip(3)}}},
			{Name: "marks", Att: &Att{}}}}}})
	for _, tn := range []string{"RefRelaxed", "RefBase", "RefStrict"} {
		s.Methods = append(s.Methods, &Method{Name: "put_" + lower(tn), Payload: &Att{Type: &Type{Ref: tn}}, HTTP: &HTTPMap{Verb: "POST", Path: "/" + lower(tn)}})
	}
	_ = r
	return d
}

// GenerateMultipart builds designs whose requests are multipart (MultipartRequest): the parts come from the body
// attributes, the other payload attributes travel in the query string and in headers, one kind per method.
func GenerateMultipart(r *lp.Rng, index int) *Design {
	d := &Design{API: "multipart" + fmt.Sprint(index)}
	s := &Service{Name: "up"}
	d.Services = append(d.Services, s)
	prims := []string{"Boolean", "Int", "Int32", "Int64", "UInt", "UInt32", "UInt64", "Float32", "Float64", "String", "Bytes"}
	k := 0
	add := func(name string, a *Att, loc string, required bool) {
		k++
		if (k-1)%4 != index%4 {
			return
		}
		p := &Att{Type: &Type{IsObject: true, Object: []*Field{
			{Name: "file", Att: &Att{Type: &Type{Prim: "Bytes"}}},
			{Name: "title", Att: &Att{Type: &Type{Prim: "String"}}},
			{Name: "qty", Att: a}}}, Required: []string{"file"}}
		if required {
			p.Required = append(p.Required, "qty")
		}
		m := &Method{Name: name, Payload: p, Multipart: true, HTTP: &HTTPMap{Verb: "POST", Path: "/" + name}}
		if loc == "query" {
			m.HTTP.Params = []Mapped{{Attr: "qty"}}
		} else {
			m.HTTP.Headers = []Mapped{{Attr: "qty", Wire: "X-V"}}
		}
		s.Methods = append(s.Methods, m)
	}
	for _, loc := range []string{"query", "header"} {
		for i, p := range prims {
			add(fmt.Sprintf("%s_%s", loc, lower(p)), &Att{Type: &Type{Prim: p}}, loc, i%2 == 0)
			if p != "Bytes" {
				add(fmt.Sprintf("%s_arr_%s", loc, lower(p)), &Att{Type: &Type{Array: &Att{Type: &Type{Prim: p}}}}, loc, i%2 == 1)
			}
		}
	}
	for _, p := range []string{"String", "Int", "Float64", "Boolean"} {
		add("query_map_"+lower(p), &Att{Type: &Type{MapKey: &Att{Type: &Type{Prim: "String"}}, MapElem: &Att{Type: &Type{Prim: p}}}}, "query", false)
		add("query_maparr_"+lower(p), &Att{Type: &Type{MapKey: &Att{Type: &Type{Prim: "String"}}, MapElem: &Att{Type: &Type{Array: &Att{Type: &Type{Prim: p}}}}}}, "query", false)
	}
	if index%2 == 1 {
		// a second service with a multipart endpoint: both services contribute to the example's multipart.go
		d.Services = append(d.Services, &Service{Name: "down", Methods: []*Method{{Name: "send", Multipart: true,
			Payload: &Att{Type: &Type{IsObject: true, Object: []*Field{{Name: "file", Att: &Att{Type: &Type{Prim: "Bytes"}}}}}, Required: []string{"file"}},
			HTTP:    &HTTPMap{Verb: "POST", Path: "/send"}}}})
	}
	_ = r
	return d
}

// GenerateTwin builds the smallest design in which two body types want one name in the documents: two services, each with nothing
// but a method `add` whose body differs from the other's (index: which attribute kinds; odd indices add a third service).
func GenerateTwin(r *lp.Rng, index int) *Design {
	d := &Design{API: "twin" + fmt.Sprint(index)}
	same := func(svc, attr, prim string, v *Validation) *Service {
		return &Service{Name: svc, Methods: []*Method{{Name: "add", HTTP: &HTTPMap{Verb: "POST", Path: "/" + svc},
			Payload: &Att{Type: &Type{IsObject: true, Object: []*Field{{Name: attr, Att: &Att{Type: &Type{Prim: prim}, Val: v}}}}, Required: []string{attr}}}}}
	}
	d.Services = append(d.Services, same("alpha", "name", "String", &Validation{MaxLen: ip(8)}), same("beta", "count", "Int", &Validation{Min: fp(1)}))
	if index%2 == 1 {
		d.Services = append(d.Services, same("gamma", "flag", "Boolean", nil))
	}
	_ = r
	return d
}
