package design

import (
	"fmt"

	"verifharness/internal/lp"
)

// AddMeta decorates a design with metadata the generators read from Go maps (openapi tags,
// summaries, operation ids, extensions, struct tags): the place where the iteration order of a
// map could leak into generated files (C09). It is a post-pass with its own random stream so
// that the underlying design is the one the other checks see.
//
// both: also place openapi:summary and swagger:summary on the same expression (two keys that
// the OpenAPI builders treat as aliases).
func AddMeta(d *Design, r *lp.Rng, both bool) {
	tagNames := []string{"alpha", "beta", "gamma", "delta"}
	expr := func(kind string, i int) [][]string {
		var m [][]string
		nt := r.Intn(4)
		for t := 0; t < nt; t++ {
			n := tagNames[(i+t)%len(tagNames)]
			m = append(m, []string{"openapi:tag:" + n})
			if r.Intn(2) == 0 {
				m = append(m, []string{"openapi:tag:" + n + ":desc", "about " + n})
			}
			if r.Intn(3) == 0 {
				m = append(m, []string{"openapi:tag:" + n + ":url", "http://example.com/" + n})
			}
		}
		switch r.Intn(4) {
		case 0:
			m = append(m, []string{"openapi:summary", fmt.Sprintf("%s %d summary", kind, i)})
		case 1:
			m = append(m, []string{"swagger:summary", fmt.Sprintf("%s %d old summary", kind, i)})
		}
		if both {
			m = append(m, []string{"openapi:summary", fmt.Sprintf("%s %d new", kind, i)}, []string{"swagger:summary", fmt.Sprintf("%s %d old", kind, i)})
		}
		if kind == "method" && r.Intn(3) == 0 {
			m = append(m, []string{"openapi:operationId", "{service}.{method}#{routeIndex}"})
		}
		if kind == "method" && i%3 == 1 {
			// an extension whose value is the JSON literal null
			m = append(m, []string{"openapi:extension:x-nothing", "null"})
		}
		ne := r.Intn(3)
		for e := 0; e < ne; e++ {
			m = append(m, []string{fmt.Sprintf("openapi:extension:x-%s-%d", kind, e), fmt.Sprintf(`{"n":%d,"k":"%s"}`, e, kind)})
		}
		return m
	}
	d.Meta = append(d.Meta, expr("api", 0)...)
	for i, s := range d.Services {
		s.Meta = append(s.Meta, expr("service", i)...)
		for j, m := range s.Methods {
			m.Meta = append(m.Meta, expr("method", i*5+j)...)
		}
	}
	// extensions on the expression that IS a request body: an attribute used as the whole body (Body("note")) and a payload
	// that is not an object. Chosen by a draw of this pass's own stream; the methods are added, nothing else changes.
	if len(d.Services) > 0 && r.Intn(2) == 0 {
		s := d.Services[0]
		ext := func(k string) [][]string {
			return [][]string{{"openapi:extension:x-body-" + k, `{"body":"` + k + `"}`}, {"swagger:extension:x-old-" + k, `[1]`}}
		}
		s.Methods = append(s.Methods,
			&Method{Name: "meta_body_attr", Payload: &Att{Type: &Type{IsObject: true, Object: []*Field{
				{Name: "note", Att: &Att{Type: &Type{Prim: "String"}, Meta: ext("attr")}},
				{Name: "extra", Att: &Att{Type: &Type{Prim: "Int"}}}}}},
				HTTP: &HTTPMap{Verb: "POST", Path: "/meta_body_attr", Params: []Mapped{{Attr: "extra"}}, Body: &BodySpec{Attr: "note"}}},
			&Method{Name: "meta_body_array", Payload: &Att{Type: &Type{Array: &Att{Type: &Type{Prim: "String"}}}, Meta: ext("array")},
				HTTP: &HTTPMap{Verb: "POST", Path: "/meta_body_array"}})
	}
	// one result attribute whose example has to be searched for: a format whose random values rarely match the pattern
	// (the example generator retries; the output must still be a function of the design alone)
	for _, s := range d.Services {
		for _, m := range s.Methods {
			if m.Result != nil && m.Result.Type != nil && (m.Result.Type.IsObject || len(m.Result.Type.Object) > 0) {
				m.Result.Type.Object = append(m.Result.Type.Object, &Field{Name: "stamp",
					Att: &Att{Type: &Type{Prim: "String"}, Val: &Validation{Format: "date", Pattern: "^20[2-9][0-9]-"}}})
				goto done
			}
		}
	}
done:
	// attributes of named object types: struct tags and extensions
	for _, t := range d.Types {
		if t.Att == nil || t.Att.Type == nil {
			continue
		}
		for k, f := range t.Att.Type.Object {
			if r.Intn(2) == 0 {
				continue
			}
			f.Att.Meta = append(f.Att.Meta, []string{"struct:tag:xml", f.Name + ",omitempty"}, []string{"struct:tag:form", f.Name})
			if r.Intn(2) == 0 {
				f.Att.Meta = append(f.Att.Meta, []string{"struct:tag:yaml", f.Name})
			}
			if r.Intn(2) == 0 {
				f.Att.Meta = append(f.Att.Meta, []string{fmt.Sprintf("openapi:extension:x-att-%d", k), `"v"`}, []string{"openapi:extension:x-b", `[1,2]`})
			}
		}
	}
}
