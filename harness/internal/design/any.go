package design

import (
	"fmt"

	"verifharness/internal/lp"
)

// GenerateAny builds designs around the type Any: as the whole payload or result, as array element,
// map value, object attribute, query parameter and response header; the odd designs switch example
// generation off (Meta("openapi:example", "false") on the API), so that the schemas of bare Any values
// are empty objects.
func GenerateAny(r *lp.Rng, index int) *Design {
	d := &Design{API: "any" + fmt.Sprint(index)}
	if index%2 == 1 {
		d.Meta = append(d.Meta, []string{"openapi:example", "false"})
	}
	anyA := func() *Att { return &Att{Type: &Type{Prim: "Any"}} }
	s := &Service{Name: "box"}
	d.Services = append(d.Services, s)
	// bare Any in both directions
	s.Methods = append(s.Methods,
		&Method{Name: "echo", Payload: anyA(), Result: anyA(), HTTP: &HTTPMap{Verb: "POST", Path: "/echo"}},
		&Method{Name: "peek", Result: anyA(), HTTP: &HTTPMap{Verb: "GET", Path: "/peek"}})
	// Any inside collections and objects
	obj := &Att{Type: &Type{IsObject: true, Object: []*Field{
		{Name: "values", Att: &Att{Type: &Type{Array: anyA()}}},
		{Name: "table", Att: &Att{Type: &Type{MapKey: &Att{Type: &Type{Prim: "String"}}, MapElem: anyA()}}},
		{Name: "blob", Att: anyA()},
		{Name: "note", Att: &Att{Type: &Type{Prim: "String"}}}}}}
	if (index/2)%2 == 1 {
		obj.Required = []string{"values"}
	}
	s.Methods = append(s.Methods, &Method{Name: "store", Payload: obj, Result: obj, HTTP: &HTTPMap{Verb: "PUT", Path: "/store"}})
	if (index/4)%2 == 1 {
		// Any as a query parameter and as a response header
		q := &Att{Type: &Type{IsObject: true, Object: []*Field{{Name: "q", Att: anyA()}, {Name: "note", Att: &Att{Type: &Type{Prim: "String"}}}}}}
		res := &Att{Type: &Type{IsObject: true, Object: []*Field{{Name: "tag", Att: anyA()}, {Name: "note", Att: &Att{Type: &Type{Prim: "String"}}}}}}
		s.Methods = append(s.Methods, &Method{Name: "find", Payload: q, Result: res,
			HTTP: &HTTPMap{Verb: "GET", Path: "/find", Params: []Mapped{{Attr: "q"}},
				Responses: []*Resp{{Code: 200, Headers: []Mapped{{Attr: "tag", Wire: "X-Tag"}}}}}})
	}
	_ = r
	return d
}
