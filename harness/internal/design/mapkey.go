package design

import (
	"fmt"

	"verifharness/internal/lp"
)

// MapKeyPrims are the primitives tried as map keys, in index order.
var MapKeyPrims = []string{"String", "Int", "Int32", "Int64", "UInt", "UInt32", "UInt64", "Boolean", "Float32", "Float64", "Bytes", "Any"}

// GenerateMapKey builds the table "every primitive as a map key": the key type is chosen by
// index%12, the place of the map by (index/12)%3 (request body, response body, query string) and
// the element type by (index/36)%3. The DSL accepts MapOf(<any primitive>, ...).
func GenerateMapKey(r *lp.Rng, index int) *Design {
	d := &Design{API: "mk" + fmt.Sprint(index)}
	key := MapKeyPrims[index%len(MapKeyPrims)]
	place := (index / len(MapKeyPrims)) % 3
	elem := []string{"String", "Int", "Boolean"}[(index/(3*len(MapKeyPrims)))%3]
	m := &Att{Type: &Type{MapKey: &Att{Type: &Type{Prim: key}}, MapElem: &Att{Type: &Type{Prim: elem}}}}
	obj := &Att{Type: &Type{IsObject: true, Object: []*Field{{Name: "entries", Att: m}, {Name: "note", Att: &Att{Type: &Type{Prim: "String"}}}}}}
	s := &Service{Name: "mk"}
	d.Services = append(d.Services, s)
	me := &Method{Name: "put", HTTP: &HTTPMap{Verb: "POST", Path: "/put"}}
	switch place {
	case 0:
		me.Payload = obj
	case 1:
		me.Result = obj
	case 2:
		me.Payload = obj
		me.HTTP.Params = append(me.HTTP.Params, Mapped{Attr: "entries"})
	}
	s.Methods = append(s.Methods, me)
	if k := index % len(MapKeyPrims); k == 2 || k == 3 {
		// a streaming (WebSocket) endpoint with two routes
		s.Methods = append(s.Methods, &Method{Name: "watch", Stream: "result",
			Result: &Att{Type: &Type{IsObject: true, Object: []*Field{{Name: "tick", Att: &Att{Type: &Type{Prim: "Int"}}}}}},
			HTTP:   &HTTPMap{Verb: "GET", Path: "/watch", MorePaths: []string{"/watch2"}}})
	}
	if index%len(MapKeyPrims) < 2 {
		// next to the HTTP service, a service without any transport mapping (the example generator walks all services)
		d.Services = append(d.Services, &Service{Name: "plain", Methods: []*Method{{Name: "run", Payload: &Att{Type: &Type{Prim: "String"}}}}})
	}
	_ = r
	return d
}
