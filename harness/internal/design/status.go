package design

import (
	"fmt"

	"verifharness/internal/lp"
)

// SuccessStatuses and ErrorStatuses are the status codes of the status design: every final status net/http names
// (the generators write those as http.Status* constants) and a few it does not name (written as numbers).
var (
	SuccessStatuses = []int{200, 201, 202, 203, 204, 205, 206, 207, 208, 226, 299, 300, 301, 302, 303, 304, 305, 307, 308}
	ErrorStatuses   = []int{400, 401, 402, 403, 404, 405, 406, 407, 408, 409, 410, 411, 412, 413, 414, 415, 416, 417, 418, 419, 421, 422, 423, 424, 425, 426,
		428, 429, 430, 431, 451, 499, 500, 501, 502, 503, 504, 505, 506, 507, 508, 510, 511, 520, 599}
)

// GenerateStatus builds the status design: one method without result per success status, and methods
// whose errors are mapped to every error status (index%3 picks which of three services' worth of
// error statuses get their code inside the response DSL). The server has to answer exactly the designed
// status and the documents have to list it (C05, C07).
func GenerateStatus(r *lp.Rng, index int) *Design {
	d := &Design{API: "status" + fmt.Sprint(index)}
	s := &Service{Name: "st"}
	d.Services = append(d.Services, s)
	for _, code := range SuccessStatuses {
		s.Methods = append(s.Methods, &Method{Name: fmt.Sprintf("ok_%d", code),
			// every third success status is given inside the response DSL: Response(func() { Code(202) })
			HTTP: &HTTPMap{Verb: "GET", Path: fmt.Sprintf("/ok/%d", code), Responses: []*Resp{{Code: code, FuncCode: (code+index)%3 == 0}}}})
	}
	// the error statuses in groups of nine: a method may not map two errors of one type onto one status with different shapes, and
	// long chains of cases are what the generated encoders look like in practice
	for i := 0; i < len(ErrorStatuses); i += 9 {
		m := &Method{Name: fmt.Sprintf("fail_%d", i/9), HTTP: &HTTPMap{Verb: "GET", Path: fmt.Sprintf("/fail/%d", i/9)}}
		for j := i; j < i+9 && j < len(ErrorStatuses); j++ {
			code := ErrorStatuses[j]
			name := fmt.Sprintf("e%d", code)
			m.Errors = append(m.Errors, &ErrDef{Name: name})
			m.HTTP.Errors = append(m.HTTP.Errors, &ErrResp{Name: name, Code: code, FuncCode: (j+index)%3 == 0})
		}
		s.Methods = append(s.Methods, m)
	}
	_ = r
	return d
}
