package design

import (
	"fmt"
	"strings"

	"verifharness/internal/lp"
)

// GenerateMatrix builds the systematic part of the transport feature table: design j carries
// every primitive kind in ONE request location (query, header, cookie, body — j%4) and ONE
// response location (header, body, cookie — j%3), each attribute required, optional or defaulted
// in rotation ((k + j/4) % 3), without validations (j/12 even) or with the validation kinds in
// rotation (j/12 odd). 24 consecutive designs visit every cell
// primitive x location x required/optional/default x validated/unvalidated, independent of the seed;
// the seed only chooses the validation constants.
func GenerateMatrix(r *lp.Rng, index int) *Design {
	g := &gen{r: r, o: Opts{Index: index}, d: &Design{API: "mx" + fmt.Sprint(index)}}
	loc := []string{"query", "header", "cookie", "body"}[index%4]
	rloc := []string{"header", "body", "cookie"}[index%3]
	modeOff := (index / 4) % 3
	validated := (index/12)%2 == 1
	s := &Service{Name: "mx"}
	g.d.Services = append(g.d.Services, s)

	mode := func(parent *Att, name string, a *Att, k int) {
		switch (k + modeOff) % 3 {
		case 0:
			parent.Required = append(parent.Required, name)
		case 2:
			if d, ok := g.defaultFor(a.Type.Prim, a.Val); ok {
				a.Default, a.HasDef = d, true
			}
		}
	}
	att := func(prim string, k int) *Att {
		a := &Att{Type: &Type{Prim: prim}}
		if validated {
			a.Val = g.validation(prim, index/24+k)
			if a.Val != nil && a.Val.Format != "" && a.Val.MinLen == nil {
				// formats are C17's subject: keep one format per design, on the first string only
				if k != 9 {
					a.Val = &Validation{MinLen: ip(1), MaxLen: ip(8)}
				}
			}
		}
		return a
	}

	// request: POST /put
	put := &Method{Name: "put", HTTP: &HTTPMap{Verb: "POST", Path: "/put"}}
	payload := &Att{Type: &Type{IsObject: true}}
	for k, prim := range primNames {
		if loc == "cookie" && prim == "Bytes" {
			continue
		}
		name := "p_" + strings.ToLower(prim)
		a := att(prim, k)
		mode(payload, name, a, k)
		payload.Type.Object = append(payload.Type.Object, &Field{Name: name, Att: a})
		mp := Mapped{Attr: name}
		if k%2 == 1 {
			mp.Wire = map[string]string{"query": "q-" + name, "header": "X-" + strings.ReplaceAll(name, "_", "-"), "cookie": "C-" + name}[loc]
		}
		switch loc {
		case "query":
			put.HTTP.Params = append(put.HTTP.Params, mp)
		case "header":
			put.HTTP.Headers = append(put.HTTP.Headers, mp)
		case "cookie":
			put.HTTP.Cookies = append(put.HTTP.Cookies, mp)
		}
	}
	if loc == "body" && (index/4)%2 == 0 {
		// a map whose elements are arrays (maps) of a user type that nothing else refers to
		d := g.d
		d.Types = append(d.Types,
			&TypeDef{Name: "MxItem", Kind: "type", Att: &Att{Type: &Type{IsObject: true, Object: []*Field{
				{Name: "id", Att: &Att{Type: &Type{Prim: "Int"}}}, {Name: "tag", Att: &Att{Type: &Type{Prim: "String"}}}}}}},
			&TypeDef{Name: "MxTag", Kind: "type", Att: &Att{Type: &Type{IsObject: true, Object: []*Field{
				{Name: "label", Att: &Att{Type: &Type{Prim: "String"}}}}}}})
		str := func() *Att { return &Att{Type: &Type{Prim: "String"}} }
		payload.Type.Object = append(payload.Type.Object,
			&Field{Name: "m_items", Att: &Att{Type: &Type{MapKey: str(), MapElem: &Att{Type: &Type{Array: &Att{Type: &Type{Ref: "MxItem"}}}}}}},
			&Field{Name: "m_tags", Att: &Att{Type: &Type{MapKey: str(), MapElem: &Att{Type: &Type{MapKey: str(), MapElem: &Att{Type: &Type{Ref: "MxTag"}}}}}}})
	}
	if loc == "body" && (index/4)%2 == 1 {
		// a map (and an array) whose values are a user type with nothing to validate but a required primitive
		g.d.Types = append(g.d.Types, &TypeDef{Name: "MxPlain", Kind: "type", Att: &Att{Type: &Type{IsObject: true, Object: []*Field{
			{Name: "id", Att: &Att{Type: &Type{Prim: "Int"}}}, {Name: "note", Att: &Att{Type: &Type{Prim: "String"}}}}}, Required: []string{"id"}}})
		payload.Type.Object = append(payload.Type.Object,
			&Field{Name: "m_plain", Att: &Att{Type: &Type{MapKey: &Att{Type: &Type{Prim: "String"}}, MapElem: &Att{Type: &Type{Ref: "MxPlain"}}}}},
			&Field{Name: "a_plain", Att: &Att{Type: &Type{Array: &Att{Type: &Type{Ref: "MxPlain"}}}}})
	}
	if index%12 == 7 {
		// file servers: two single files whose request paths end in the same element, and a directory
		s.Files = [][]string{{"/v2/swagger.json", "gen/http/openapi.json"}, {"/v3/swagger.json", "gen/http/openapi3.json"}, {"/static/{*path}", "public"}}
	}
	if loc == "body" {
		// collections with default values (every mode: optional with default, required with default)
		tags := &Att{Type: &Type{Array: &Att{Type: &Type{Prim: "String"}}}, Default: []any{"new", "unsorted"}, HasDef: true}
		labels := &Att{Type: &Type{MapKey: &Att{Type: &Type{Prim: "String"}}, MapElem: &Att{Type: &Type{Prim: "String"}}}, Default: map[string]any{"tier": "free"}, HasDef: true}
		payload.Type.Object = append(payload.Type.Object, &Field{Name: "tags", Att: tags}, &Field{Name: "labels", Att: labels})
		if modeOff == 1 {
			payload.Required = append(payload.Required, "tags")
		}
	}
	put.Payload = payload
	s.Methods = append(s.Methods, put)

	// response: GET /get
	get := &Method{Name: "get", HTTP: &HTTPMap{Verb: "GET", Path: "/get"}}
	res := &Att{Type: &Type{IsObject: true}}
	resp := &Resp{Code: 200}
	for k, prim := range primNames {
		where := rloc
		if prim == "Bytes" && where != "body" {
			where = "body"
		}
		if where == "cookie" && prim != "String" {
			// every fourth time the non-string attributes travel in cookies too; otherwise in the body, or in
			// headers, so that one response has headers and cookies
			switch {
			case (index/3)%4 == 3 && prim != "Bytes":
				where = "cookie"
			case (index/3)%2 == 1 && prim != "Bytes":
				where = "header"
			default:
				where = "body"
			}
		}
		name := "r_" + strings.ToLower(prim)
		a := att(prim, k+4)
		mode(res, name, a, k)
		if (k+modeOff)%3 == 0 && where != "body" && prim != "String" && prim != "Bytes" && (index/3)%2 == 1 {
			// required AND defaulted, outside the body (the decoders of headers and cookies treat the two together)
			if d, ok := g.defaultFor(a.Type.Prim, a.Val); ok {
				a.Default, a.HasDef = d, true
			}
		}
		res.Type.Object = append(res.Type.Object, &Field{Name: name, Att: a})
		switch where {
		case "header":
			resp.Headers = append(resp.Headers, Mapped{Attr: name, Wire: "X-Res-" + strings.ReplaceAll(name, "_", "-")})
		case "cookie":
			resp.Cookies = append(resp.Cookies, Mapped{Attr: name, Wire: "RC-" + name})
		}
	}
	if rloc == "cookie" {
		// two more strings so that the three modes occur in cookies too
		for k, name := range []string{"r_sid", "r_tok"} {
			a := att("String", k)
			mode(res, name, a, 10+k) // the two modes r_string (k = 9) does not have
			res.Type.Object = append(res.Type.Object, &Field{Name: name, Att: a})
			resp.Cookies = append(resp.Cookies, Mapped{Attr: name, Wire: "RC-" + name})
		}
	}
	if rloc == "body" {
		// collections with default values in the response body
		res.Type.Object = append(res.Type.Object,
			&Field{Name: "r_tags", Att: &Att{Type: &Type{Array: &Att{Type: &Type{Prim: "String"}}}, Default: []any{"a", "b"}, HasDef: true}},
			&Field{Name: "r_labels", Att: &Att{Type: &Type{MapKey: &Att{Type: &Type{Prim: "String"}}, MapElem: &Att{Type: &Type{Prim: "String"}}}, Default: map[string]any{"x": "1"}, HasDef: true}})
	}
	get.Result = res
	if len(resp.Headers) > 0 || len(resp.Cookies) > 0 {
		get.HTTP.Responses = append(get.HTTP.Responses, resp)
	}
	s.Methods = append(s.Methods, get)
	return g.d
}
