package design

import (
	"fmt"

	"verifharness/internal/lp"
)

// GenerateGRPC builds a design with gRPC endpoints (C10): primitives of every kind, arrays, maps,
// nested and recursive user types, OneOf unions, metadata / header / trailer mappings, explicit
// messages and the four streaming kinds. Every attribute carries the field number chosen in the
// design ("rpc:tag" metadata, what dsl.Field records).
func GenerateGRPC(r *lp.Rng, index int) *Design {
	d := &Design{API: "grpc" + fmt.Sprint(index)}
	prims := []string{"Boolean", "Int", "Int32", "Int64", "UInt", "UInt32", "UInt64", "Float32", "Float64", "String", "Bytes"}
	tag := func(a *Att, n int) *Att {
		a.Meta = append(a.Meta, []string{"rpc:tag", fmt.Sprint(n)})
		return a
	}
	names := []string{"id", "name", "count", "flag", "ratio", "data", "tags", "labels", "item", "items", "kind", "note", "choice", "extra"}
	tnum := 0
	var userType func(depth int) string
	fieldAtt := func(k int, depth int) *Att {
		switch c := (k + index + r.Intn(3)) % 9; {
		case c < 4:
			p := prims[(k*3+index+r.Intn(4))%len(prims)]
			a := &Att{Type: &Type{Prim: p}}
			switch {
			case p == "String" && r.Intn(3) == 0:
				a.Val = &Validation{MinLen: ip(1), MaxLen: ip(6)}
			case p == "Int" && r.Intn(3) == 0:
				a.Val = &Validation{Min: fp(0), Max: fp(9)}
			case p == "String" && r.Intn(4) == 0:
				a.Val = &Validation{Enum: []any{"one", "two"}}
			}
			return a
		case c == 4:
			return &Att{Type: &Type{Array: &Att{Type: &Type{Prim: prims[(k+index)%len(prims)]}}}}
		case c == 5:
			return &Att{Type: &Type{MapKey: &Att{Type: &Type{Prim: "String"}}, MapElem: &Att{Type: &Type{Prim: lp.Pick(r, []string{"Int", "String", "Boolean", "Float64"})}}}}
		case c == 6 && depth > 0:
			return &Att{Type: &Type{Ref: userType(depth - 1)}}
		case c == 7 && depth > 0:
			return &Att{Type: &Type{Array: &Att{Type: &Type{Ref: userType(depth - 1)}}}}
		}
		return &Att{Type: &Type{Prim: "String"}}
	}
	object := func(depth, n int, unionOK bool) *Att {
		a := &Att{Type: &Type{IsObject: true}}
		used := map[string]bool{}
		num := 1
		for k := 0; k < n; k++ {
			name := names[(k+r.Intn(3))%len(names)]
			for used[name] {
				name += "x"
			}
			used[name] = true
			fa := fieldAtt(k, depth)
			if unionOK && k == n-1 && r.Intn(3) == 0 {
				// a union of two alternatives
				fa = &Att{Type: &Type{OneOf: []*Field{
					{Name: "as_text", Att: tag(&Att{Type: &Type{Prim: "String"}}, num+20)},
					{Name: "as_num", Att: tag(&Att{Type: &Type{Prim: "Int"}}, num+21)},
				}}}
			}
			tag(fa, num)
			num += 1 + r.Intn(3) // field numbers need not be dense
			a.Type.Object = append(a.Type.Object, &Field{Name: name, Att: fa})
			if fa.Type.Prim != "" && r.Intn(3) == 0 {
				a.Required = append(a.Required, name)
			}
		}
		return a
	}
	building := map[string]bool{} // types whose attributes are being generated: not referred to (recursion is added on purpose below)
	userType = func(depth int) string {
		if len(d.Types) >= 3 {
			for try := 0; try < 8; try++ {
				if t := d.Types[r.Intn(len(d.Types))]; !building[t.Name] {
					return t.Name
				}
			}
		}
		tnum++
		name := lp.Pick(r, typeNames) + fmt.Sprint(tnum)
		td := &TypeDef{Name: name, Kind: "type"}
		d.Types = append(d.Types, td)
		building[name] = true
		td.Att = object(depth, 1+r.Intn(3), false)
		building[name] = false
		if index%6 == 5 && r.Intn(2) == 0 {
			// recursive (optional) reference, directly or — in one design out of twelve — through an array
			// (goa's gRPC generator does not terminate on those: known finding of C10)
			ref := &Att{Type: &Type{Ref: name}}
			if index%12 == 11 {
				ref = &Att{Type: &Type{Array: &Att{Type: &Type{Ref: name}}}}
			}
			td.Att.Type.Object = append(td.Att.Type.Object, &Field{Name: "children", Att: tag(ref, 15)})
		}
		return name
	}
	ns := 1 + r.Intn(2)
	for si := 0; si < ns; si++ {
		s := &Service{Name: []string{"store", "calc"}[si], GRPC: true}
		nm := 1 + r.Intn(3)
		for mi := 0; mi < nm; mi++ {
			m := &Method{Name: methodNames[(mi+index)%len(methodNames)], GRPC: &GRPCMap{}}
			m.Stream = []string{"", "", "result", "payload", "both"}[(index+mi+si)%5]
			switch (index/5 + mi) % 4 {
			case 0, 1:
				m.Payload = object(2, 2+r.Intn(4), true)
			case 2:
				m.Payload = &Att{Type: &Type{Ref: userType(1)}}
			default:
				if m.Stream == "" {
					m.Payload = nil // no payload
				} else {
					m.Payload = &Att{Type: &Type{Prim: lp.Pick(r, []string{"String", "Int"})}}
				}
			}
			switch (index/7 + mi) % 4 {
			case 0:
				m.Result = object(1, 1+r.Intn(4), false)
			case 1:
				m.Result = &Att{Type: &Type{Ref: userType(1)}}
			case 2:
				m.Result = &Att{Type: &Type{Prim: lp.Pick(r, []string{"String", "Int64", "Boolean"})}}
			default:
				if m.Stream == "" || m.Stream == "payload" {
					m.Result = nil
				} else {
					m.Result = &Att{Type: &Type{Prim: "String"}}
				}
			}
			// every fifth design: the payload is a type that refers to a base type (Reference) and re-declares the
			// inherited attributes with field numbers of its own (the design's numbers are the ones that count)
			if index%5 == 2 && mi == 0 && (m.Stream == "" || m.Stream == "result") {
				base := fmt.Sprintf("Base%d", si)
				derived := fmt.Sprintf("Derived%d", si)
				d.Types = append(d.Types, &TypeDef{Name: base, Kind: "type", Att: &Att{Type: &Type{IsObject: true, Object: []*Field{
					{Name: "kind", Att: tag(&Att{Type: &Type{Prim: "String"}}, 1)},
					{Name: "id", Att: tag(&Att{Type: &Type{Prim: "Int32"}}, 2)},
					{Name: "label", Att: tag(&Att{Type: &Type{Prim: "String"}}, 3)}}}}})
				d.Types = append(d.Types, &TypeDef{Name: derived, Kind: "type", Reference: base, Att: &Att{Type: &Type{IsObject: true, Object: []*Field{
					{Name: "kind", Att: tag(&Att{}, 1)},
					{Name: "id", Att: tag(&Att{}, 3)},
					{Name: "label", Att: tag(&Att{}, 2)},
					{Name: "extra", Att: tag(&Att{Type: &Type{Prim: "Boolean"}}, 4)}}}}})
				m.Payload = &Att{Type: &Type{Ref: derived}}
				m.GRPC.Metadata, m.GRPC.Message = nil, nil
			}
			// metadata: one primitive payload attribute travels outside the message
			if m.Payload != nil && isInlineObject(m.Payload) && m.Stream != "payload" && m.Stream != "both" && r.Intn(2) == 0 {
				for _, f := range m.Payload.Type.Object {
					if f.Att.Type.Prim == "String" || f.Att.Type.Prim == "Int" {
						m.GRPC.Metadata = append(m.GRPC.Metadata, Mapped{Attr: f.Name})
						break
					}
				}
			}
			// every fourth design: the request message is spelt out with Message(...) (all attributes that do not travel
			// as metadata), and the attributes of user type are required — requiredness comes from the payload only
			if index%4 == 1 && m.Payload != nil && isInlineObject(m.Payload) && m.Stream != "payload" && m.Stream != "both" {
				md := map[string]bool{}
				for _, x := range m.GRPC.Metadata {
					md[x.Attr] = true
				}
				for _, f := range m.Payload.Type.Object {
					if md[f.Name] || len(f.Att.Type.OneOf) > 0 {
						continue
					}
					m.GRPC.Message = append(m.GRPC.Message, f.Name)
					if f.Att.Type.Ref != "" {
						already := false
						for _, rq := range m.Payload.Required {
							already = already || rq == f.Name
						}
						if !already {
							m.Payload.Required = append(m.Payload.Required, f.Name)
						}
					}
				}
			}
			// response headers / trailers: primitive result attributes
			if m.Result != nil && isInlineObject(m.Result) && m.Stream == "" && r.Intn(2) == 0 {
				for k, f := range m.Result.Type.Object {
					if f.Att.Type.Prim == "String" || f.Att.Type.Prim == "Int" {
						if k%2 == 0 {
							m.GRPC.Headers = append(m.GRPC.Headers, Mapped{Attr: f.Name})
						} else {
							m.GRPC.Trailers = append(m.GRPC.Trailers, Mapped{Attr: f.Name})
						}
					}
				}
			}
			s.Methods = append(s.Methods, m)
		}
		if si == 0 && index%6 == 3 {
			// a client-streaming method whose streamed payload carries constraints and whose result is a result
			// type with views (the streamed messages are validated by Recv on the server, whatever the result is)
			d.Types = append(d.Types, &TypeDef{Name: "Report", Kind: "result", Identifier: "application/vnd.report",
				Att: &Att{Type: &Type{IsObject: true, Object: []*Field{
					{Name: "total", Att: tag(&Att{Type: &Type{Prim: "Int"}}, 1)},
					{Name: "note", Att: tag(&Att{Type: &Type{Prim: "String"}}, 2)}}}, Required: []string{"total"}},
				Views: []*View{{Name: "default", Attrs: []ViewField{{Name: "total"}, {Name: "note"}}}, {Name: "tiny", Attrs: []ViewField{{Name: "total"}}}}})
			s.Methods = append(s.Methods, &Method{Name: "watch", Stream: "payload", GRPC: &GRPCMap{},
				Payload: &Att{Type: &Type{IsObject: true, Object: []*Field{
					{Name: "sensor", Att: tag(&Att{Type: &Type{Prim: "String"}, Val: &Validation{MinLen: ip(2), MaxLen: ip(8)}}, 1)},
					{Name: "level", Att: tag(&Att{Type: &Type{Prim: "Int"}, Val: &Validation{Min: fp(0), Max: fp(9)}}, 2)}}}, Required: []string{"sensor"}},
				Result: &Att{Type: &Type{Ref: "Report"}}})
		}
		if si == 0 && index%6 == 4 {
			// the metadata table: every primitive kind and arrays of primitives travel as metadata
			pl := &Att{Type: &Type{IsObject: true}}
			mt := &Method{Name: "meta_table", GRPC: &GRPCMap{}}
			num := 1
			for _, p := range []string{"String", "Int", "Int32", "Int64", "UInt", "UInt32", "UInt64", "Float32", "Float64", "Boolean"} {
				n1, n2 := "m_"+lower(p), "ms_"+lower(p)
				pl.Type.Object = append(pl.Type.Object,
					&Field{Name: n1, Att: tag(&Att{Type: &Type{Prim: p}}, num)},
					&Field{Name: n2, Att: tag(&Att{Type: &Type{Array: &Att{Type: &Type{Prim: p}}}}, num+1)})
				num += 2
				mt.GRPC.Metadata = append(mt.GRPC.Metadata, Mapped{Attr: n1}, Mapped{Attr: n2})
			}
			pl.Type.Object = append(pl.Type.Object, &Field{Name: "note", Att: tag(&Att{Type: &Type{Prim: "String"}}, num)})
			// the string and the boolean are required: their zero values ("" and false) are sent, not left out
			pl.Required = []string{"m_string", "m_boolean"}
			mt.Payload = pl
			mt.Result = &Att{Type: &Type{Prim: "String"}}
			s.Methods = append(s.Methods, mt)
		}
		d.Services = append(d.Services, s)
	}
	if index >= 1000 {
		// (built on its own, index 1000+) attributes of alias types (with validations of their own) carried in gRPC metadata:
		// optional, required and defaulted; a String and an Int alias
		d.Types = append(d.Types,
			&TypeDef{Name: "Slug", Kind: "type", Att: &Att{Type: &Type{Prim: "String"}, Val: &Validation{Pattern: "^[a-z]+$"}}},
			&TypeDef{Name: "Level", Kind: "type", Att: &Att{Type: &Type{Prim: "Int"}, Val: &Validation{Min: fp(1), Max: fp(9)}}})
		slug := func() *Att {
			return &Att{Type: &Type{Ref: "Slug"}, Val: &Validation{Enum: []any{"abc", "xyz"}}}
		}
		method := func(name string, required []string, slugAtt, levelAtt *Att) *Method {
			return &Method{Name: name, GRPC: &GRPCMap{Metadata: []Mapped{{Attr: "slug"}, {Attr: "level"}}},
				Payload: &Att{Type: &Type{IsObject: true, Object: []*Field{
					{Name: "slug", Att: tag(slugAtt, 1)},
					{Name: "note", Att: tag(&Att{Type: &Type{Prim: "String"}}, 2)},
					{Name: "level", Att: tag(levelAtt, 3)}}}, Required: required},
				Result: &Att{Type: &Type{Prim: "String"}}}
		}
		defSlug := slug()
		defSlug.Default, defSlug.HasDef = "abc", true
		d.Services = append(d.Services, &Service{Name: "aliasmd", GRPC: true, Methods: []*Method{
			method("tagged", nil, slug(), &Att{Type: &Type{Ref: "Level"}}),
			method("tagged_req", []string{"slug", "level"}, slug(), &Att{Type: &Type{Ref: "Level"}}),
			method("tagged_def", nil, defSlug, &Att{Type: &Type{Ref: "Level"}, Default: 3, HasDef: true}),
		}})
	}
	return d
}
