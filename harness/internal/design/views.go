package design

import (
	"fmt"

	"verifharness/internal/lp"
)

// GenerateViews builds a design whose methods return result types with views (C08): 1-3 result
// types with 1-3 views each, nested result types with per-attribute view overrides (on the
// declaration, inside a view, or both), collections, optional self references; methods return a
// result type, a collection, or a result type with the view fixed in the design.
func GenerateViews(r *lp.Rng, index int) *Design {
	d := &Design{API: "views" + fmt.Sprint(index)}
	names := []string{"Item", "Owner", "Part"}
	nT := 1 + (index % 3)
	viewPool := []string{"default", "tiny", "full"}
	type tinfo struct {
		td    *TypeDef
		views []string
	}
	infos := make([]*tinfo, nT)
	// views first (nested attributes need to know which views their target has)
	for i := 0; i < nT; i++ {
		nv := 1 + r.Intn(3)
		if i == 0 && index%2 == 0 {
			nv = 3
		}
		infos[i] = &tinfo{views: viewPool[:nv]}
	}
	prims := []string{"String", "Int", "Boolean", "Float64", "Int64", "UInt32"}
	for i := nT - 1; i >= 0; i-- {
		name := names[i]
		att := &Att{Type: &Type{IsObject: true}}
		add := func(n string, a *Att, required bool) {
			att.Type.Object = append(att.Type.Object, &Field{Name: n, Att: a})
			if required {
				att.Required = append(att.Required, n)
			}
		}
		add("id", &Att{Type: &Type{Prim: "Int"}}, true)
		np := 2 + r.Intn(3)
		pnames := []string{"name", "note", "count", "flag", "ratio"}
		for k := 0; k < np; k++ {
			a := &Att{Type: &Type{Prim: prims[(i+k+index)%len(prims)]}}
			if a.Type.Prim == "String" && r.Intn(3) == 0 {
				a.Val = &Validation{MinLen: ip(1)}
			}
			if a.Type.Prim == "Int" && r.Intn(3) == 0 {
				a.Val = &Validation{Min: fp(0)}
			}
			req := r.Intn(3) == 0
			if req && index%4 == 2 {
				// required AND defaulted: the client must still refuse a response that lacks it
				a.HasDef = true
				a.Default = map[string]any{"String": "dflt", "Int": 3, "Boolean": true, "Float64": 1.5, "Int64": 5, "UInt32": 2}[a.Type.Prim]
			}
			add(pnames[k], a, req)
		}
		if r.Intn(2) == 0 || index%3 == 1 {
			// in every third design the array is required (a service may still return it nil)
			add("tags", &Att{Type: &Type{Array: &Att{Type: &Type{Prim: "String"}}}}, index%3 == 1)
		}
		// nested result types: only towards higher indices (no mutual recursion), plus an optional self reference
		nestedNames := []string{"owner", "main_part", "other"}
		nn := 0
		for j := i + 1; j < nT; j++ {
			cnt := 1
			if r.Intn(3) == 0 {
				cnt = 2 // two attributes of the same nested type (with possibly different views)
			}
			for c := 0; c < cnt && nn < len(nestedNames); c++ {
				a := &Att{Type: &Type{Ref: names[j]}}
				if r.Intn(3) == 0 {
					a.View = lp.Pick(r, infos[j].views) // view set on the declaration
				}
				add(nestedNames[nn], a, false)
				nn++
			}
			if r.Intn(2) == 0 {
				add("list_"+names[j], &Att{Type: &Type{Collection: names[j]}}, false)
			}
		}
		if r.Intn(3) == 0 {
			a := &Att{Type: &Type{Ref: name}}
			if len(infos[i].views) > 1 && r.Intn(2) == 0 {
				a.View = infos[i].views[1]
			}
			add("parent", a, false)
		}
		td := &TypeDef{Name: name, Kind: "result", Identifier: "application/vnd.verif." + lower(name), Att: att}
		infos[i].td = td
		// the views
		for vi, vn := range infos[i].views {
			v := &View{Name: vn}
			for k, f := range att.Type.Object {
				include := true
				switch vn {
				case "tiny":
					include = k == 0 || (f.Att.Type.Ref != "" && r.Intn(2) == 0) || (f.Att.Type.Prim != "" && k%2 == 1)
				case "default":
					include = k == 0 || r.Intn(4) != 0
				}
				if !include {
					continue
				}
				vf := ViewField{Name: f.Name}
				target := f.Att.Type.Ref
				if target == "" {
					target = f.Att.Type.Collection
				}
				if target != "" {
					// which views does the target have?
					var tv []string
					for j := 0; j < nT; j++ {
						if names[j] == target {
							tv = infos[j].views
						}
					}
					if target == name {
						// self reference: mostly rendered with the enclosing view (the projection is then a plain cycle),
						// sometimes with another one (views that select each other: known finding of the generators)
						if r.Intn(4) == 0 && len(tv) > 1 {
							vf.View = lp.Pick(r, tv)
						} else {
							vf.View = vn
						}
					} else if r.Intn(2) == 0 && len(tv) > 0 {
						vf.View = lp.Pick(r, tv) // override inside the view
					}
				}
				v.Attrs = append(v.Attrs, vf)
			}
			_ = vi
			td.Views = append(td.Views, v)
		}
		if index%4 == 3 && len(td.Views) > 1 {
			// the default view is not the one declared first
			td.Views = append(td.Views[1:], td.Views[0])
		}
	}
	for i := 0; i < nT; i++ {
		d.Types = append(d.Types, infos[i].td)
	}
	svc := &Service{Name: "viewsvc"}
	nm := 1 + r.Intn(3)
	for k := 0; k < nm; k++ {
		ti := (k + index) % nT
		m := &Method{Name: fmt.Sprintf("get%d", k), HTTP: &HTTPMap{Verb: "GET", Path: fmt.Sprintf("/get%d", k)}}
		switch (k + index/3) % 4 {
		case 0:
			m.Result = &Att{Type: &Type{Ref: names[ti]}}
			if index%2 == 1 {
				// the identifier travels in a response header: the body type is then derived separately per view
				m.HTTP.Responses = []*Resp{{Code: 200, Headers: []Mapped{{Attr: "id", Wire: "X-Id"}}}}
			}
		case 1:
			m.Result = &Att{Type: &Type{Collection: names[ti]}}
		case 2:
			m.Result = &Att{Type: &Type{Ref: names[ti]}}
			m.ResultView = lp.Pick(r, infos[ti].views)
		default:
			// a collection with the view fixed in the design
			m.Result = &Att{Type: &Type{Collection: names[ti]}}
			m.ResultView = lp.Pick(r, infos[ti].views)
		}
		svc.Methods = append(svc.Methods, m)
	}
	if index%3 == 2 && len(infos[0].views) > 1 {
		// the request body is streamed to the service (SkipRequestBodyEncodeDecode), the result is viewed
		svc.Methods = append(svc.Methods, &Method{Name: "upload", SkipRequestBody: true,
			Payload: &Att{Type: &Type{IsObject: true, Object: []*Field{{Name: "tag", Att: &Att{Type: &Type{Prim: "String"}}}}}},
			Result:  &Att{Type: &Type{Ref: names[0]}},
			HTTP:    &HTTPMap{Verb: "POST", Path: "/upload", Params: []Mapped{{Attr: "tag"}}}})
	}
	d.Services = []*Service{svc}
	return d
}

func lower(s string) string {
	b := []byte(s)
	for i, c := range b {
		if c >= 'A' && c <= 'Z' {
			b[i] = c + 32
		}
	}
	return string(b)
}
