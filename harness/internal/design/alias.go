package design

import (
	"fmt"

	"verifharness/internal/lp"
)

// GenerateAlias builds designs around primitive alias types that carry validations
// (Type("Slug", String, func() { Pattern(...) })): attributes of those types in every request
// location and in response headers and bodies, as array elements and map values, and — in the odd
// designs — with an Enum of their own whose members partly violate the alias's rules (the only
// validation the DSL accepts on an attribute of an alias type). Some optional attributes carry a
// default value of their own.
func GenerateAlias(r *lp.Rng, index int) *Design {
	d := &Design{API: "al" + fmt.Sprint(index)}
	type alias struct {
		name string
		att  *Att
		enum []any // members: valid, and violating the alias rule
		path bool
	}
	aliases := []alias{
		{"Slug", &Att{Type: &Type{Prim: "String"}, Val: &Validation{Pattern: "^[a-z]+$", MaxLen: ip(6)}}, []any{"abc", "ABC", "toolongvalue"}, true},
		{"Percent", &Att{Type: &Type{Prim: "Int"}, Val: &Validation{Min: fp(0), Max: fp(100)}}, []any{0, 50, 100, 150}, true},
		{"Ratio", &Att{Type: &Type{Prim: "Float64"}, Val: &Validation{Min: fp(0), Max: fp(1)}}, []any{0.5, 1.5}, false},
		{"Code", &Att{Type: &Type{Prim: "String"}, Val: &Validation{MinLen: ip(2), MaxLen: ip(4)}}, []any{"ab", "a", "abcde"}, true},
		{"Small", &Att{Type: &Type{Prim: "UInt32"}, Val: &Validation{Max: fp(9)}}, []any{3, 12}, true},
	}
	for _, a := range aliases {
		d.Types = append(d.Types, &TypeDef{Name: a.name, Kind: "type", Att: a.att})
	}
	withEnum := index%2 == 1
	s := &Service{Name: "al"}
	d.Services = append(d.Services, s)
	put := &Method{Name: "put", HTTP: &HTTPMap{Verb: "POST", Path: "/put"}}
	payload := &Att{Type: &Type{IsObject: true}}
	locs := []string{"path", "query", "header", "cookie", "body"}
	for k, a := range aliases {
		loc := locs[(index/2+k)%len(locs)]
		if loc == "path" && !a.path {
			loc = "body"
		}
		name := "f_" + string(rune('a'+k))
		att := &Att{Type: &Type{Ref: a.name}}
		if withEnum {
			att.Val = &Validation{Enum: a.enum}
		}
		required := (index/10+k)%2 == 0 || loc == "path"
		if required {
			payload.Required = append(payload.Required, name)
		} else if (index+k/2)%2 == 0 {
			// a default of the attribute's own (the alias type has none)
			att.Default, att.HasDef = a.enum[0], true
		}
		payload.Type.Object = append(payload.Type.Object, &Field{Name: name, Att: att})
		switch loc {
		case "path":
			put.HTTP.Path += "/{" + name + "}"
		case "query":
			put.HTTP.Params = append(put.HTTP.Params, Mapped{Attr: name})
		case "header":
			put.HTTP.Headers = append(put.HTTP.Headers, Mapped{Attr: name, Wire: "X-F-" + string(rune('A'+k))})
		case "cookie":
			put.HTTP.Cookies = append(put.HTTP.Cookies, Mapped{Attr: name})
		}
	}
	// collections of alias values, in the body
	ea := aliases[index%len(aliases)]
	payload.Type.Object = append(payload.Type.Object,
		&Field{Name: "list", Att: &Att{Type: &Type{Array: &Att{Type: &Type{Ref: ea.name}}}}},
		&Field{Name: "dict", Att: &Att{Type: &Type{MapKey: &Att{Type: &Type{Prim: "String"}}, MapElem: &Att{Type: &Type{Ref: aliases[(index+1)%len(aliases)].name}}}}})
	put.Payload = payload
	s.Methods = append(s.Methods, put)
	// an alias type with a FORMAT whose attribute gets a PATTERN in the HTTP mapping (and the other way round): both hold
	d.Types = append(d.Types,
		&TypeDef{Name: "Day", Kind: "type", Att: &Att{Type: &Type{Prim: "String"}, Val: &Validation{Format: "date"}}},
		&TypeDef{Name: "Recent", Kind: "type", Att: &Att{Type: &Type{Prim: "String"}, Val: &Validation{Pattern: "^20"}}})
	s.Methods = append(s.Methods, &Method{Name: "days", HTTP: &HTTPMap{Verb: "GET", Path: "/days",
		Params:  []Mapped{{Attr: "day", Val: &Validation{Pattern: "^20"}}},
		Headers: []Mapped{{Attr: "recent", Wire: "X-Recent", Val: &Validation{Format: "date"}}}},
		Payload: &Att{Type: &Type{IsObject: true, Object: []*Field{
			{Name: "day", Att: &Att{Type: &Type{Ref: "Day"}}}, {Name: "recent", Att: &Att{Type: &Type{Ref: "Recent"}}}}}}})

	get := &Method{Name: "get", HTTP: &HTTPMap{Verb: "GET", Path: "/get"}}
	res := &Att{Type: &Type{IsObject: true}}
	resp := &Resp{Code: 200}
	for k, a := range aliases {
		name := "r_" + string(rune('a'+k))
		att := &Att{Type: &Type{Ref: a.name}}
		if withEnum {
			att.Val = &Validation{Enum: a.enum}
		}
		if (index/10+k)%2 == 1 {
			res.Required = append(res.Required, name)
		}
		res.Type.Object = append(res.Type.Object, &Field{Name: name, Att: att})
		if (index/2+k)%2 == 0 {
			resp.Headers = append(resp.Headers, Mapped{Attr: name, Wire: "X-R-" + string(rune('A'+k))})
		}
	}
	get.Result = res
	if len(resp.Headers) > 0 {
		get.HTTP.Responses = append(get.HTTP.Responses, resp)
	}
	s.Methods = append(s.Methods, get)
	_ = r
	return d
}
