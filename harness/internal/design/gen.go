package design

import (
	"fmt"
	"regexp"
	"sort"
	"strings"

	"verifharness/internal/lp"
)

// Opts steers the design generator.
type Opts struct {
	// Index drives the systematic part of the stream: design number i visits cell i of the
	// first-order feature table before random choices take over.
	Index     int
	Security  bool
	Views     bool
	Errors    bool
	MaxSvc    int
	MaxMethod int
	// NestedInline allows inline objects nested inside other objects (goa generates
	// uncompilable transport code for some of them: known finding of C01).
	NestedInline bool
	// Risky places one attribute name that generated code may collide with (see RiskyNames).
	Risky bool
}

var primNames = []string{"Boolean", "Int", "Int32", "Int64", "UInt", "UInt32", "UInt64", "Float32", "Float64", "String", "Bytes"}
var attrNames = []string{"id", "name", "a_b", "value", "count", "type", "kind", "x", "tags", "data", "flag", "num", "ratio", "go", "len", "Q", "item_id", "created_at"}

// RiskyNames are attribute names that generated code also uses for its own locals, parameters,
// imports, or that are Go keywords / predeclared identifiers. Each design gets exactly one of
// them (chosen by its index), so that a compile failure can be attributed.
var RiskyNames = []string{"v", "c", "p", "err", "body", "res", "ctx", "req", "resp", "w", "r", "e", "ok", "s", "mux", "enc", "dec", "val", "key", "i",
	"strconv", "fmt", "http", "goa", "view", "result", "payload", "string", "int", "error", "nil", "true", "new", "make", "range", "func", "map", "var",
	"package", "select", "default", "interface"}

var typeNames = []string{"Account", "Item", "Node", "Thing", "Detail", "Info"}
var methodNames = []string{"list", "show", "add", "remove", "update", "run", "do_it", "get2"}
var svcNames = []string{"store", "calc", "front", "svc"}
var formats = []string{"date", "date-time", "uuid", "email", "hostname", "ipv4", "ipv6", "ip", "uri", "mac", "cidr", "regexp", "json", "rfc1123"}

type gen struct {
	routes    map[string]bool
	lastCred  string
	risky     string
	riskyUsed bool
	r         *lp.Rng
	d         *Design
	o         Opts
	tnum      int
	depth     int
}

func fp(f float64) *float64 { return &f }
func ip(i int) *int         { return &i }

// Generate builds a design inside the verifier's envelope.
func Generate(r *lp.Rng, o Opts) *Design {
	if o.MaxSvc == 0 {
		o.MaxSvc = 2
	}
	if o.MaxMethod == 0 {
		o.MaxMethod = 3
	}
	g := &gen{r: r, o: o, d: &Design{API: "api" + fmt.Sprint(o.Index)}}
	if o.Risky {
		g.risky = RiskyNames[(o.Index/7)%len(RiskyNames)]
	}
	if o.Security {
		g.schemes()
		if r.Intn(3) == 0 {
			g.d.Security = []Req{g.requirement()} // API level requirement
		}
	}
	if o.Errors && r.Intn(2) == 0 {
		// API level: an error definition methods may refer to by name, and status mappings by name
		g.d.Errors = append(g.d.Errors, &ErrDef{Name: "api_down", Fault: true}, &ErrDef{Name: "svc_err"})
		g.d.APIHTTP = append(g.d.APIHTTP, &ErrResp{Name: "api_down", Code: 502}, &ErrResp{Name: "svc_err", Code: 500})
	}
	ns := 1 + r.Intn(o.MaxSvc)
	for i := 0; i < ns; i++ {
		g.service(i)
	}
	// chosen by the index, so that the random stream of the other designs is unchanged:
	if o.Index%3 == 2 {
		g.d.Path = "/api" // an API level base path in front of every route
	}
	if o.Index%5 == 3 {
		g.sharedTemplate() // a second verb on the path template of an existing method
	}
	if o.Index%7 == 5 {
		// ONE endpoint with two routes on the same path template and different verbs
		m0 := g.d.Services[len(g.d.Services)-1].Methods[0]
		alt := map[string]string{"GET": "DELETE", "DELETE": "GET", "POST": "PUT", "PUT": "PATCH", "PATCH": "PUT"}[m0.HTTP.Verb]
		free := true
		for _, s := range g.d.Services {
			for _, m := range s.Methods {
				if m != m0 && m.HTTP != nil && m.HTTP.Verb == alt &&
					wildcardName.ReplaceAllString(s.Path+m.HTTP.Path, "{}") == wildcardName.ReplaceAllString(g.d.Services[len(g.d.Services)-1].Path+m0.HTTP.Path, "{}") {
					free = false
				}
				for _, vr := range m.HTTP.MoreRoutes {
					if len(vr) == 2 && vr[0] == alt && wildcardName.ReplaceAllString(s.Path+vr[1], "{}") == wildcardName.ReplaceAllString(g.d.Services[len(g.d.Services)-1].Path+m0.HTTP.Path, "{}") {
						free = false
					}
				}
			}
		}
		if alt != "" && free && !g.routes[alt+" "+m0.HTTP.Path] {
			m0.HTTP.MoreRoutes = append(m0.HTTP.MoreRoutes, []string{alt, m0.HTTP.Path})
		}
	}
	if o.Index%3 == 0 {
		// one endpoint with two routes whose wildcards come in different orders
		s := g.d.Services[0]
		id := func() *Att { return &Att{Type: &Type{Prim: "String"}, Val: &Validation{Pattern: "^[a-z]+$"}} }
		m := &Method{Name: "locate", NoSecurity: o.Security,
			Payload: &Att{Type: &Type{IsObject: true, Object: []*Field{{Name: "warehouse", Att: id()}, {Name: "item", Att: id()},
				// a query parameter whose name starts with the name of a path parameter
				{Name: "item_kind", Att: &Att{Type: &Type{Prim: "String"}}}}}, Required: []string{"warehouse", "item", "item_kind"}},
			HTTP: &HTTPMap{Verb: "GET", Path: "/warehouses/{warehouse}/items/{item}", MorePaths: []string{"/items/{item}/in/{warehouse}"},
				Params: []Mapped{{Attr: "item_kind"}}}}
		s.Methods = append(s.Methods, m)
	}
	if o.Index%6 == 1 {
		// two request bodies of one shape with different validations (the documents must not merge their schemas)
		s := g.d.Services[0]
		for k, pat := range []string{"^[a-z]+$", "[0-9]"} {
			s.Methods = append(s.Methods, &Method{Name: "twin_" + string(rune('a'+k)), NoSecurity: o.Security,
				HTTP: &HTTPMap{Verb: "POST", Path: "/twin_" + string(rune('a'+k))},
				Payload: &Att{Type: &Type{IsObject: true, Object: []*Field{
					{Name: "code", Att: &Att{Type: &Type{Prim: "String"}, Val: &Validation{Pattern: pat}}},
					{Name: "qty", Att: &Att{Type: &Type{Prim: "Int"}, Val: &Validation{Min: fp(float64(k)), Max: fp(float64(5 + 5*k))}}}}}, Required: []string{"code"}}})
		}
	}
	if o.Index%8 == 7 {
		// a user type named like the type goa derives for the inline payload of an EARLIER method, used only
		// inside the payload of a later one
		s := g.d.Services[0]
		g.d.Types = append(g.d.Types, &TypeDef{Name: "FooPayload", Kind: "type", Att: &Att{Type: &Type{IsObject: true, Object: []*Field{
			{Name: "label", Att: &Att{Type: &Type{Prim: "String"}}}, {Name: "weight", Att: &Att{Type: &Type{Prim: "Int"}}}}}}})
		foo := &Method{Name: "foo", NoSecurity: o.Security, HTTP: &HTTPMap{Verb: "POST", Path: "/foo"},
			Payload: &Att{Type: &Type{IsObject: true, Object: []*Field{{Name: "note", Att: &Att{Type: &Type{Prim: "String"}}}}}}}
		bar := &Method{Name: "bar", NoSecurity: o.Security, HTTP: &HTTPMap{Verb: "POST", Path: "/bar"},
			Payload: &Att{Type: &Type{IsObject: true, Object: []*Field{{Name: "inner", Att: &Att{Type: &Type{Ref: "FooPayload"}}}, {Name: "count", Att: &Att{Type: &Type{Prim: "Int"}}}}}}}
		s.Methods = append([]*Method{foo}, append(s.Methods, bar)...)
	}
	if o.Index%10 == 5 || o.Index%10 == 8 {
		// file servers: one on a path of its own, one with a wildcard, and one sharing its request path with an
		// endpoint of the same service that answers another verb
		s := g.d.Services[0]
		s.Files = append(s.Files, []string{"/assets/doc.json", "public/doc.json"}, []string{"/static/{*filepath}", "public"})
		up := g.plainMethod(s, "upload_shared")
		up.HTTP.Verb = "POST"
		up.NoSecurity = o.Security
		s.Files = append(s.Files, []string{up.HTTP.Path, "public/shared.json"})
	}
	if o.Security && len(g.d.Schemes) > 0 {
		g.securityShapes()
	}
	return g.d
}

func (g *gen) pickName(used map[string]bool, pool []string) string {
	if g.risky != "" && !g.riskyUsed && len(pool) == len(attrNames) && g.r.Intn(3) == 0 && !used[g.risky] {
		g.riskyUsed = true
		used[g.risky] = true
		return g.risky
	}
	for i := 0; i < 50; i++ {
		n := lp.Pick(g.r, pool)
		if !used[n] {
			used[n] = true
			return n
		}
	}
	n := fmt.Sprintf("n%d", len(used))
	used[n] = true
	return n
}

func (g *gen) schemes() {
	kinds := []string{"basic", "apikey", "jwt", "oauth2"}
	n := 1 + g.r.Intn(3)
	used := map[string]bool{}
	for i := 0; i < n; i++ {
		k := kinds[(g.o.Index+i)%4]
		if used[k] {
			continue
		}
		used[k] = true
		s := &Scheme{Name: k + "_sch", Kind: k}
		if k == "jwt" || k == "oauth2" {
			s.Scopes = []string{"api:read", "api:write"}
		}
		g.d.Schemes = append(g.d.Schemes, s)
	}
}

// validation for a primitive, systematically chosen by idx when idx >= 0.
func (g *gen) validation(prim string, idx int) *Validation {
	r := g.r
	pick := idx
	if idx < 0 {
		if r.Intn(3) != 0 {
			return nil
		}
		pick = r.Intn(8)
	}
	isNum := prim != "String" && prim != "Boolean" && prim != "Bytes" && prim != "Any"
	isInt := strings.HasPrefix(prim, "Int") || strings.HasPrefix(prim, "UInt")
	unsigned := strings.HasPrefix(prim, "UInt")
	switch prim {
	case "Boolean":
		return nil
	case "Bytes":
		switch pick % 3 {
		case 0:
			return &Validation{MinLen: ip(1 + r.Intn(3))}
		case 1:
			return &Validation{MaxLen: ip(2 + r.Intn(6))}
		}
		return nil
	}
	if isNum {
		lo := float64(r.Intn(10)) - 3
		if unsigned {
			lo = float64(r.Intn(5))
		}
		hi := lo + float64(1+r.Intn(10))
		if !isInt && r.Intn(2) == 0 {
			lo += 0.5
			hi += 0.25
		}
		switch pick % 7 {
		case 6:
			return &Validation{ExMin: fp(lo), ExMax: fp(hi + 1)} // both exclusive bounds on one attribute
		case 0:
			return &Validation{Min: fp(lo)}
		case 1:
			return &Validation{Max: fp(hi)}
		case 2:
			return &Validation{Min: fp(lo), Max: fp(hi)}
		case 3:
			return &Validation{ExMin: fp(lo)}
		case 4:
			return &Validation{ExMax: fp(hi)}
		default:
			if isInt {
				return &Validation{Enum: []any{int(lo), int(lo) + 2, int(hi)}}
			}
			return &Validation{Enum: []any{lo, hi}}
		}
	}
	// String
	switch pick % 8 {
	case 0:
		return &Validation{MinLen: ip(1 + r.Intn(3))}
	case 1:
		return &Validation{MaxLen: ip(3 + r.Intn(6))}
	case 2:
		if r.Intn(2) == 0 {
			n := 1 + r.Intn(3)
			return &Validation{MinLen: ip(n), MaxLen: ip(n)} // equal bounds
		}
		return &Validation{MinLen: ip(2), MaxLen: ip(5)}
	case 3:
		return &Validation{Pattern: lp.Pick(r, []string{"^[a-z]+$", "^x", "[0-9]", "^(a|b)c?$"})}
	case 4:
		return &Validation{Enum: []any{"one", "two", "t h r e e"}}
	case 5:
		if idx >= 0 {
			return &Validation{Format: formats[(idx/8)%len(formats)]} // every format in turn
		}
		return &Validation{Format: lp.Pick(r, formats)}
	case 6:
		// a format AND a pattern on one attribute: both have to hold ("1999-12-31" is a date and does not start with 20)
		return &Validation{Format: "date", Pattern: "^20", MinLen: ip(1)}
	default:
		return &Validation{Pattern: "^[a-zé]*$", MaxLen: ip(4)}
	}
}

func (g *gen) defaultFor(prim string, v *Validation) (any, bool) {
	if v != nil && len(v.Enum) > 0 {
		return v.Enum[0], true
	}
	if v != nil && (v.Format != "" || v.Pattern != "") {
		return nil, false
	}
	isInt := strings.HasPrefix(prim, "Int") || strings.HasPrefix(prim, "UInt")
	switch {
	case prim == "Boolean":
		return true, true
	case prim == "String":
		s := "dflt"
		if v != nil && v.MaxLen != nil && *v.MaxLen < 4 {
			s = "dfl"[:*v.MaxLen]
		}
		if v != nil && v.MinLen != nil && len(s) < *v.MinLen {
			return nil, false
		}
		return s, true
	case prim == "Bytes":
		return nil, false
	case isInt:
		n := 3
		if v != nil {
			if v.Min != nil {
				n = int(*v.Min)
			}
			if v.ExMin != nil {
				n = int(*v.ExMin) + 1
			}
			if v.Max != nil && float64(n) > *v.Max {
				n = int(*v.Max)
			}
			if v.ExMax != nil && float64(n) >= *v.ExMax {
				n = int(*v.ExMax) - 1
			}
			if (v.Min != nil && float64(n) < *v.Min) || (v.ExMin != nil && float64(n) <= *v.ExMin) {
				return nil, false
			}
		}
		return n, true
	default:
		f := 1.5
		if v != nil {
			if v.Min != nil {
				f = *v.Min
			}
			if v.ExMin != nil {
				f = *v.ExMin + 0.5
			}
			if v.Max != nil && f > *v.Max {
				f = *v.Max
			}
			if v.ExMax != nil && f >= *v.ExMax {
				f = *v.ExMax - 0.5
			}
			if (v.Min != nil && f < *v.Min) || (v.ExMin != nil && f <= *v.ExMin) {
				return nil, false
			}
		}
		return f, true
	}
}

func (g *gen) primAtt(prim string, validate bool, idx int) *Att {
	a := &Att{Type: &Type{Prim: prim}}
	if validate {
		a.Val = g.validation(prim, idx)
	}
	return a
}

// bodyType builds a (possibly nested) type that lives in a JSON body.
func (g *gen) bodyType(depth int) *Att {
	r := g.r
	switch k := r.Intn(10); {
	case depth <= 0 || k < 4:
		return g.primAtt(lp.Pick(r, primNames), true, -1)
	case k < 6:
		el := g.named(g.bodyType(depth - 1))
		a := &Att{Type: &Type{Array: el}}
		switch r.Intn(6) {
		case 0:
			a.Val = &Validation{MinLen: ip(r.Intn(2)), MaxLen: ip(2 + r.Intn(3))}
		case 3:
			n := r.Intn(3)
			a.Val = &Validation{MinLen: ip(n), MaxLen: ip(n)} // equal bounds
		case 1:
			a.Val = &Validation{MaxLen: ip(1 + r.Intn(2))}
		case 2:
			a.Val = &Validation{MinLen: ip(1 + r.Intn(3))}
		}
		return a
	case k < 7:
		key := g.primAtt(lp.Pick(r, []string{"String", "String", "Int"}), r.Intn(2) == 0, -1)
		if key.Val != nil && (key.Val.Format != "" || len(key.Val.Enum) > 0) {
			key.Val = nil
		}
		return &Att{Type: &Type{MapKey: key, MapElem: g.named(g.bodyType(depth - 1))}}
	case k < 9:
		if !g.o.NestedInline {
			return &Att{Type: &Type{Ref: g.userType(depth - 1)}}
		}
		return g.objectAtt(depth-1, 1+r.Intn(3), true)
	default:
		return &Att{Type: &Type{Ref: g.userType(depth - 1)}}
	}
}

// named replaces an inline object by a reference to a new user type (array and map elements
// cannot be inline objects in the DSL).
func (g *gen) named(a *Att) *Att {
	if a.Type == nil || !(a.Type.IsObject || len(a.Type.Object) > 0) {
		return a
	}
	g.tnum++
	name := lp.Pick(g.r, typeNames) + fmt.Sprint(g.tnum)
	g.d.Types = append(g.d.Types, &TypeDef{Name: name, Kind: "type", Att: a})
	return &Att{Type: &Type{Ref: name}}
}

func (g *gen) objectAtt(depth, n int, nested bool) *Att {
	used := map[string]bool{}
	a := &Att{Type: &Type{IsObject: true}}
	for i := 0; i < n; i++ {
		name := g.pickName(used, attrNames)
		var f *Att
		if nested {
			f = g.bodyType(depth)
		} else {
			f = g.primAtt(lp.Pick(g.r, primNames), true, -1)
		}
		g.requiredOrDefault(a, name, f)
		a.Type.Object = append(a.Type.Object, &Field{Name: name, Att: f})
	}
	return a
}

func (g *gen) requiredOrDefault(parent *Att, name string, f *Att) {
	switch g.r.Intn(3) {
	case 0:
		parent.Required = append(parent.Required, name)
	case 1:
		if f.Type.Prim != "" {
			if d, ok := g.defaultFor(f.Type.Prim, f.Val); ok {
				f.Default, f.HasDef = d, true
				if g.r.Intn(5) == 0 {
					parent.Required = append(parent.Required, name) // required and defaulted
				}
			}
		}
	}
}

// userType creates a named object type (possibly recursive) and returns its name.
func (g *gen) userType(depth int) string {
	if len(g.d.Types) >= 4 {
		return g.d.Types[g.r.Intn(len(g.d.Types))].Name
	}
	g.tnum++
	name := lp.Pick(g.r, typeNames) + fmt.Sprint(g.tnum)
	td := &TypeDef{Name: name, Kind: "type"}
	g.d.Types = append(g.d.Types, td)
	if g.r.Intn(6) == 0 {
		// the only validation of this type sits on a map key
		key := &Att{Type: &Type{Prim: "String"}, Val: lp.Pick(g.r, []*Validation{{Pattern: "^[a-z]+$"}, {MaxLen: ip(3)}, {MinLen: ip(2)}, {Enum: []any{"one", "two"}}})}
		td.Att = &Att{Type: &Type{IsObject: true, Object: []*Field{{Name: "labels", Att: &Att{Type: &Type{MapKey: key, MapElem: g.primAtt(lp.Pick(g.r, []string{"String", "Int", "Boolean"}), false, -1)}}}}}}
		return name
	}
	td.Att = g.objectAtt(depth, 1+g.r.Intn(3), true)
	if g.r.Intn(4) == 0 {
		// recursive reference (optional, or it could never be built)
		used := map[string]bool{}
		for _, f := range td.Att.Type.Object {
			used[f.Name] = true
		}
		td.Att.Type.Object = append(td.Att.Type.Object, &Field{Name: g.pickName(used, []string{"child", "next", "parent"}), Att: &Att{Type: &Type{Ref: name}}})
	}
	return name
}

func (g *gen) service(i int) {
	used := map[string]bool{}
	for _, s := range g.d.Services {
		used[s.Name] = true
	}
	s := &Service{Name: g.pickName(used, svcNames)}
	if i == 0 && g.o.Index%8 == 6 {
		// a service whose package directory starts like the generator's own temporary directory ("goa…")
		s.Name = "goals"
	}
	if g.r.Intn(3) == 0 {
		s.Path = "/" + s.Name
	}
	if g.o.Errors && g.r.Intn(2) == 0 {
		s.Errors = append(s.Errors, &ErrDef{Name: "svc_err", Temporary: g.r.Intn(2) == 0})
		if len(g.d.APIHTTP) == 0 || g.r.Intn(3) != 0 {
			s.HTTPErrors = append(s.HTTPErrors, &ErrResp{Name: "svc_err", Code: 503})
		} // else: only the API level maps svc_err
		if g.r.Intn(2) == 0 {
			s.Errors = append(s.Errors, &ErrDef{Name: "svc_busy", Temporary: true, Timeout: g.r.Intn(2) == 0})
			s.HTTPErrors = append(s.HTTPErrors, &ErrResp{Name: "svc_busy", Code: 429})
		}
	}
	if g.o.Security && len(g.d.Schemes) > 0 && g.r.Intn(2) == 0 {
		// service level requirement; methods need the credentials in their payloads
		s.Security = []Req{g.requirement()}
	}
	g.d.Services = append(g.d.Services, s)
	nm := 1 + g.r.Intn(g.o.MaxMethod)
	mused := map[string]bool{}
	for j := 0; j < nm; j++ {
		g.method(s, g.pickName(mused, methodNames), i*7+j)
	}
}

// sharedTemplate adds a method mounted on the path template of the first method of the first service
// with another verb: its payload consists of the path attributes of that method (same names and types).
func (g *gen) sharedTemplate() {
	s := g.d.Services[0]
	m0 := s.Methods[0]
	verb := "DELETE"
	if m0.HTTP.Verb == "DELETE" {
		verb = "GET"
	}
	// no other route of the design may have the same verb and the same template shape (wildcard names aside):
	// services without a path prefix share one route space
	shape := func(prefix, p string) string {
		return wildcardName.ReplaceAllString(prefix+p, "{}")
	}
	want := shape(s.Path, m0.HTTP.Path)
	for _, os := range g.d.Services {
		for _, m := range os.Methods {
			if m.HTTP == nil || m.HTTP.Verb != verb {
				continue
			}
			for _, p := range append([]string{m.HTTP.Path}, m.HTTP.MorePaths...) {
				if shape(os.Path, p) == want {
					return
				}
			}
		}
		for _, m := range os.Methods {
			if m.HTTP == nil {
				continue
			}
			for _, vr := range m.HTTP.MoreRoutes {
				if len(vr) == 2 && vr[0] == verb && shape(os.Path, vr[1]) == want {
					return
				}
			}
		}
	}
	alt := &Method{Name: m0.Name + "_alt", HTTP: &HTTPMap{Verb: verb, Path: m0.HTTP.Path}, NoSecurity: g.o.Security}
	payload := &Att{Type: &Type{IsObject: true}}
	if m0.Payload != nil {
		for _, f := range m0.Payload.Type.Object {
			if strings.Contains(m0.HTTP.Path, "{"+f.Name+"}") {
				payload.Type.Object = append(payload.Type.Object, f)
				payload.Required = append(payload.Required, f.Name)
			}
		}
	}
	if len(payload.Type.Object) > 0 {
		alt.Payload = payload
	}
	s.Methods = append(s.Methods, alt)
}

// securityShapes adds, chosen by the index, two requirement shapes the random choices rarely produce:
// the same scheme required at API level (without scopes) and at service level (with a scope) with a
// method that declares nothing; and a requirement that lists Basic first and a header scheme second.
func (g *gen) securityShapes() {
	var scoped, basic, hdr *Scheme
	for _, sc := range g.d.Schemes {
		if len(sc.Scopes) > 0 && scoped == nil {
			scoped = sc
		}
		if sc.Kind == "basic" {
			basic = sc
		}
		if sc.Kind == "jwt" || sc.Kind == "apikey" {
			hdr = sc
		}
	}
	s := g.d.Services[0]
	ensure := func(kind string) *Scheme {
		sc := &Scheme{Name: kind + "_sch", Kind: kind}
		if kind == "jwt" || kind == "oauth2" {
			sc.Scopes = []string{"api:read", "api:write"}
		}
		g.d.Schemes = append(g.d.Schemes, sc)
		return sc
	}
	if g.o.Index%5 == 2 {
		// two schemes whose names differ in one character that is not an identifier character: they stay two schemes everywhere
		// (generated code, documents), each method under its own
		ak := &Scheme{Name: "partner key", Kind: "apikey"}
		jw := &Scheme{Name: "partner_key", Kind: "jwt", Scopes: []string{"api:read", "api:write"}}
		g.d.Schemes = append(g.d.Schemes, ak, jw)
		for _, sc := range []*Scheme{ak, jw} {
			m := g.plainMethod(s, "pk_"+sc.Kind)
			m.Security = []Req{{Schemes: []string{sc.Name}}}
			g.credentials(m, m.Security)
		}
	}
	switch g.o.Index % 6 {
	case 0, 1:
		// an explicit request body that does not list the credential: the credential still travels in the
		// implicit Authorization header (Body(func() { Attribute("note") }) / Body("note"))
		if hdr == nil {
			hdr = ensure("jwt")
		}
		m := g.plainMethod(s, "explicit_body")
		m.HTTP.Verb = "POST"
		m.Security = []Req{{Schemes: []string{hdr.Name}}}
		g.credentials(m, m.Security)
		m.Payload.Type.Object = append(m.Payload.Type.Object, &Field{Name: "note", Att: &Att{Type: &Type{Prim: "String"}}},
			&Field{Name: "extra", Att: &Att{Type: &Type{Prim: "Int"}}})
		if g.o.Index%6 == 0 {
			m.HTTP.Body = &BodySpec{Attrs: []string{"note", "extra"}}
		} else {
			m.HTTP.Body = &BodySpec{Attr: "note"}
			m.HTTP.Params = append(m.HTTP.Params, Mapped{Attr: "extra"})
		}
	case 2, 3:
		// two schemes of ONE kind in a service: the Auther interface has one function per kind,
		// the requirement chains name both schemes
		kind := "jwt"
		if g.o.Index%6 == 3 {
			kind = "apikey"
		}
		var first *Scheme
		for _, sc := range g.d.Schemes {
			if sc.Kind == kind {
				first = sc
			}
		}
		if first == nil {
			first = ensure(kind)
		}
		second := &Scheme{Name: kind + "_two", Kind: kind}
		if kind == "jwt" {
			second.Scopes = []string{"two:read", "two:write"}
		}
		g.d.Schemes = append(g.d.Schemes, second)
		m := g.plainMethod(s, "either")
		m.Security = []Req{{Schemes: []string{first.Name}}, {Schemes: []string{second.Name}}}
		if kind == "jwt" {
			m.Security[1].Scopes = []string{"two:write"}
		}
		g.credentials(m, m.Security)
		if kind == "jwt" {
			// both schemes in ONE requirement: they read the same token, both callbacks must accept
			both := g.plainMethod(s, "both")
			both.Security = []Req{{Schemes: []string{first.Name, second.Name}, Scopes: []string{"two:read"}}}
			g.credentials(both, both.Security)
		}
		if kind == "apikey" {
			// the two keys travel in headers of their own
			for attr := range m.Creds {
				m.HTTP.Headers = append(m.HTTP.Headers, Mapped{Attr: attr, Wire: "X-" + strings.ReplaceAll(attr, "_", "-")})
			}
			sort.Slice(m.HTTP.Headers, func(i, j int) bool { return m.HTTP.Headers[i].Attr < m.HTTP.Headers[j].Attr })
			both := g.plainMethod(s, "both")
			both.Security = []Req{{Schemes: []string{first.Name, second.Name}}}
			g.credentials(both, both.Security)
			for attr := range both.Creds {
				both.HTTP.Headers = append(both.HTTP.Headers, Mapped{Attr: attr, Wire: "X-" + strings.ReplaceAll(attr, "_", "-")})
			}
			sort.Slice(both.HTTP.Headers, func(i, j int) bool { return both.HTTP.Headers[i].Attr < both.HTTP.Headers[j].Attr })
		}
	case 4:
		if scoped == nil {
			scoped = ensure("jwt")
		}
		if scoped != nil {
			g.d.Security = []Req{{Schemes: []string{scoped.Name}}}
			s.Security = []Req{{Schemes: []string{scoped.Name}, Scopes: []string{scoped.Scopes[1]}}}
			s.NoSecurity = false
			m := g.plainMethod(s, "inherit")
			g.credentials(m, s.Security)
		}
	case 5:
		if basic == nil {
			basic = ensure("basic")
		}
		if hdr == nil {
			hdr = ensure("jwt")
		}
		if basic != nil && hdr != nil {
			m := g.plainMethod(s, "basic_first")
			m.Security = []Req{{Schemes: []string{basic.Name, hdr.Name}}}
			g.credentials(m, m.Security)
			// the second credential travels in a header of its own
			for attr, kind := range m.Creds {
				if kind == "jwt" || strings.HasPrefix(kind, "apikey:") {
					m.HTTP.Headers = append(m.HTTP.Headers, Mapped{Attr: attr, Wire: "X-Authorization"})
				}
			}
		}
	}
}

// plainMethod adds a GET method without payload attributes of its own.
func (g *gen) plainMethod(s *Service, name string) *Method {
	m := &Method{Name: name, HTTP: &HTTPMap{Verb: "GET", Path: "/" + name}}
	s.Methods = append(s.Methods, m)
	return m
}

// credentials gives the method the (required) credential attributes of the schemes of reqs.
func (g *gen) credentials(m *Method, reqs []Req) {
	if m.Payload == nil {
		m.Payload = &Att{Type: &Type{IsObject: true}}
	}
	if m.Creds == nil {
		m.Creds = map[string]string{}
	}
	have := map[string]bool{}
	add := func(attr, cred string) {
		if _, dup := m.Creds[attr]; dup {
			if !strings.HasPrefix(cred, "apikey:") {
				return // one token / basic pair serves every scheme of that kind
			}
			attr = attr + "_" + strings.TrimPrefix(cred, "apikey:")
		}
		m.Creds[attr] = cred
		m.Payload.Type.Object = append(m.Payload.Type.Object, &Field{Name: attr, Att: &Att{Type: &Type{Prim: "String"}}})
		m.Payload.Required = append(m.Payload.Required, attr)
	}
	for _, rq := range reqs {
		for _, sn := range rq.Schemes {
			if have[sn] {
				continue
			}
			have[sn] = true
			for _, sc := range g.d.Schemes {
				if sc.Name != sn {
					continue
				}
				switch sc.Kind {
				case "basic":
					add("user", "username")
					add("pass", "password")
				case "apikey":
					add("key", "apikey:"+sn)
				case "jwt":
					add("token", "jwt")
				case "oauth2":
					add("access", "oauth2")
				}
			}
		}
	}
}

func (g *gen) requirement() Req {
	n := 1
	if len(g.d.Schemes) > 1 && g.r.Intn(3) == 0 {
		n = 2
	}
	var req Req
	seen := map[string]bool{}
	for len(req.Schemes) < n {
		s := lp.Pick(g.r, g.d.Schemes)
		if seen[s.Name] {
			continue
		}
		seen[s.Name] = true
		req.Schemes = append(req.Schemes, s.Name)
		if len(s.Scopes) > 0 && g.r.Intn(2) == 0 {
			req.Scopes = append(req.Scopes, s.Scopes[0])
		}
	}
	return req
}

var verbs = []string{"GET", "POST", "PUT", "DELETE", "PATCH"}

var wildcardName = regexp.MustCompile(`\{\*?\w+\}`)

// method builds a method whose payload attributes are spread over the HTTP locations.
func (g *gen) method(s *Service, name string, cell int) {
	r := g.r
	m := &Method{Name: name}
	s.Methods = append(s.Methods, m)
	verb := verbs[(g.o.Index+cell)%len(verbs)]
	h := &HTTPMap{Verb: verb, Path: "/" + name}
	if s.Path == "" {
		// services without a path prefix share one route space: keep the routes distinct
		if g.routes == nil {
			g.routes = map[string]bool{}
		}
		for g.routes[verb+" "+h.Path] {
			h.Path += "-" + s.Name
		}
		g.routes[verb+" "+h.Path] = true
	}
	m.HTTP = h
	// DELETE requests may carry a body too (every second design)
	hasBody := verb == "POST" || verb == "PUT" || verb == "PATCH" || (verb == "DELETE" && g.o.Index%2 == 0)

	// security first: it adds credential attributes
	var reqs []Req
	if g.o.Security && len(g.d.Schemes) > 0 {
		switch r.Intn(4) {
		case 0:
			m.NoSecurity = true
		case 1, 2:
			k := 1 + r.Intn(2)
			for i := 0; i < k; i++ {
				reqs = append(reqs, g.requirement())
			}
			m.Security = reqs
		}
		if !m.NoSecurity && len(reqs) == 0 {
			reqs = s.Security
		}
		if !m.NoSecurity && len(reqs) == 0 {
			reqs = g.d.Security
		}
	}

	used := map[string]bool{}
	payload := &Att{Type: &Type{IsObject: true}}
	// the systematic cell: one attribute of primitive `cell`-th kind in location `cell`-th location
	locs := []string{"path", "query", "header", "cookie"}
	if hasBody {
		locs = append(locs, "body")
	}
	na := r.Intn(5)
	if g.o.Index >= 0 {
		na = 1 + r.Intn(4)
	}
	for i := 0; i < na; i++ {
		an := g.pickName(used, attrNames)
		loc := locs[(g.o.Index/len(primNames)+cell+i)%len(locs)]
		prim := primNames[(g.o.Index+i)%len(primNames)]
		if i > 0 {
			prim = lp.Pick(r, primNames)
			loc = lp.Pick(r, locs)
		}
		var a *Att
		switch loc {
		case "path":
			if prim == "Bytes" {
				prim = "String"
			}
			a = g.primAtt(prim, true, g.o.Index/7+i)
			h.Path += "/{" + an + "}"
			payload.Required = append(payload.Required, an)
		case "query", "header":
			if r.Intn(4) == 0 && prim != "Bytes" {
				a = &Att{Type: &Type{Array: g.primAtt(prim, r.Intn(2) == 0, -1)}}
				if r.Intn(3) == 0 {
					a.Val = &Validation{MinLen: ip(1), MaxLen: ip(3)}
				}
			} else {
				a = g.primAtt(prim, true, g.o.Index/5+i)
			}
			g.requiredOrDefault(payload, an, a)
			mp := Mapped{Attr: an}
			if r.Intn(3) == 0 {
				mp.Wire = lp.Pick(r, []string{"X-" + strings.ToUpper(an[:1]) + an[1:], an + "_w", "q-" + an})
				if loc == "header" {
					mp.Wire = "X-" + strings.ReplaceAll(an, "_", "-") + "-H"
				}
			}
			if loc == "query" {
				h.Params = append(h.Params, mp)
			} else {
				h.Headers = append(h.Headers, mp)
			}
		case "cookie":
			if prim == "Bytes" {
				prim = "String"
			}
			a = g.primAtt(prim, true, -1)
			g.requiredOrDefault(payload, an, a)
			ck := Mapped{Attr: an}
			if r.Intn(3) == 0 {
				ck.Wire = "SID-" + an
			}
			h.Cookies = append(h.Cookies, ck)
		default:
			a = g.bodyType(2)
			g.requiredOrDefault(payload, an, a)
		}
		payload.Type.Object = append(payload.Type.Object, &Field{Name: an, Att: a})
	}
	// credentials
	if len(reqs) > 0 {
		m.Creds = map[string]string{}
		have := map[string]bool{}
		for _, rq := range reqs {
			for _, sn := range rq.Schemes {
				if have[sn] {
					continue
				}
				have[sn] = true
				var kind string
				for _, sc := range g.d.Schemes {
					if sc.Name == sn {
						kind = sc.Kind
					}
				}
				add := func(attr, cred string) {
					attr = g.uniq(used, attr)
					g.lastCred = attr
					m.Creds[attr] = cred
					payload.Type.Object = append(payload.Type.Object, &Field{Name: attr, Att: &Att{Type: &Type{Prim: "String"}}})
					// one design in three leaves the credentials optional (pointer fields in the payload);
					// chosen by the index so that the random stream of the other designs is unchanged
					if g.o.Index%3 != 2 {
						payload.Required = append(payload.Required, attr)
					}
				}
				switch kind {
				case "basic":
					add("user", "username")
					add("pass", "password")
				case "apikey":
					add("key", "apikey:"+sn)
					switch r.Intn(3) { // explicit location of the key, or goa's default
					case 0:
						h.Headers = append(h.Headers, Mapped{Attr: g.lastCred, Wire: "X-API-Key"})
					case 1:
						h.Params = append(h.Params, Mapped{Attr: g.lastCred, Wire: "api_key"})
					}
				case "jwt":
					add("token", "jwt")
					switch r.Intn(3) {
					case 0:
						h.Headers = append(h.Headers, Mapped{Attr: g.lastCred, Wire: lp.Pick(r, []string{"Authorization", "X-Token"})})
					case 1:
						if g.o.Index%2 == 0 {
							// a bearer token carried in the query string: no scheme prefix is removed there
							h.Params = append(h.Params, Mapped{Attr: g.lastCred, Wire: "jwt"})
						}
					}
				case "oauth2":
					add("access", "oauth2")
					if g.o.Index%2 == 1 {
						// an explicit header of its own (otherwise goa's implicit Authorization header, possibly shared with JWT)
						h.Headers = append(h.Headers, Mapped{Attr: g.lastCred, Wire: "X-Access-Token"})
					} else if g.o.Index%4 == 2 {
						h.Params = append(h.Params, Mapped{Attr: g.lastCred, Wire: "access_token"})
					}
				}
			}
		}
	}
	if len(payload.Type.Object) > 0 {
		m.Payload = payload
	}
	if !strings.Contains(h.Path, "{") && r.Intn(8) == 0 {
		h.Path += "/" // a route ending in a slash
	}

	// result
	switch shape := r.Intn(9); {
	case shape == 0:
	case shape == 1:
		m.Result = g.primAtt(lp.Pick(r, primNames), false, -1)
	case shape == 2:
		// every result attribute travels in a response cookie (no body)
		res := &Att{Type: &Type{IsObject: true}}
		resp := &Resp{Code: lp.Pick(r, []int{200, 202})}
		for i, an := range []string{"session", "token"}[:1+r.Intn(2)] {
			a := g.primAtt("String", false, -1)
			if i == 0 || r.Intn(2) == 0 {
				res.Required = append(res.Required, an)
			}
			res.Type.Object = append(res.Type.Object, &Field{Name: an, Att: a})
			resp.Cookies = append(resp.Cookies, Mapped{Attr: an, Wire: []string{"SID", "XSRF-TOKEN"}[i]})
		}
		m.Result = res
		h.Responses = append(h.Responses, resp)
	case shape == 3:
		// responses selected by the value of a tag attribute
		res := &Att{Type: &Type{IsObject: true}}
		tag := "outcome"
		ta := &Att{Type: &Type{Prim: "String"}, Val: &Validation{Enum: []any{"created", "accepted", "other"}}}
		if r.Intn(3) == 0 {
			res.Required = append(res.Required, tag)
		}
		res.Type.Object = append(res.Type.Object, &Field{Name: tag, Att: ta})
		rused := map[string]bool{tag: true}
		for i := r.Intn(3); i > 0; i-- {
			an := g.pickName(rused, attrNames)
			a := g.bodyType(1)
			g.requiredOrDefault(res, an, a)
			res.Type.Object = append(res.Type.Object, &Field{Name: an, Att: a})
		}
		m.Result = res
		h.Responses = append(h.Responses,
			&Resp{Code: 201, Tag: []string{tag, "created"}},
			&Resp{Code: 202, Tag: []string{tag, "accepted"}},
			&Resp{Code: 200})
	default:
		res := &Att{Type: &Type{IsObject: true}}
		rused := map[string]bool{}
		resp := &Resp{Code: lp.Pick(r, []int{200, 200, 201, 202})}
		nr := 1 + r.Intn(4)
		for i := 0; i < nr; i++ {
			an := g.pickName(rused, attrNames)
			var a *Att
			if r.Intn(4) == 0 {
				prim := lp.Pick(r, primNames)
				if prim == "Bytes" {
					prim = "String"
				}
				a = g.primAtt(prim, false, -1)
				if prim == "String" && r.Intn(3) == 0 {
					resp.Cookies = append(resp.Cookies, Mapped{Attr: an, Wire: "RC-" + an})
				} else {
					resp.Headers = append(resp.Headers, Mapped{Attr: an, Wire: "X-Res-" + strings.ReplaceAll(an, "_", "-")})
				}
			} else {
				a = g.bodyType(2)
			}
			g.requiredOrDefault(res, an, a)
			res.Type.Object = append(res.Type.Object, &Field{Name: an, Att: a})
		}
		m.Result = res
		if len(resp.Headers) > 0 || len(resp.Cookies) > 0 || resp.Code != 200 {
			h.Responses = append(h.Responses, resp)
		}
	}
	// errors
	if g.o.Errors {
		ne := r.Intn(3)
		if len(s.Errors) > 0 && r.Intn(3) == 0 {
			h.Errors = append(h.Errors, &ErrResp{Name: s.Errors[0].Name, Code: 403}) // the method remaps a service-level error
		}
		if len(g.d.APIHTTP) > 0 && r.Intn(2) == 0 {
			m.Errors = append(m.Errors, &ErrDef{Name: "api_down", Fault: true}) // status from the API level mapping
		}
		if r.Intn(4) == 0 {
			// an error of primitive type sharing a status with other errors
			m.Errors = append(m.Errors, &ErrDef{Name: "text_err", Type: &Att{Type: &Type{Prim: "String"}}})
			h.Errors = append(h.Errors, &ErrResp{Name: "text_err", Code: 409})
		}
		if g.o.Index%4 == 1 {
			// two errors of the default type on one status code whose responses differ: the second one
			// carries its message in a header (chosen by the index: the random stream is unchanged)
			m.Errors = append(m.Errors, &ErrDef{Name: "alpha"}, &ErrDef{Name: "beta", Temporary: true})
			h.Errors = append(h.Errors, &ErrResp{Name: "alpha", Code: 422},
				&ErrResp{Name: "beta", Code: 422, Headers: []Mapped{{Attr: "message", Wire: "X-Error-Message"}}})
		}
		switch g.o.Index % 4 {
		case 0:
			// an error with a designed content type declared BEFORE one without: the second negotiates as usual
			m.Errors = append(m.Errors, &ErrDef{Name: "in_xml"}, &ErrDef{Name: "after_xml", Temporary: true})
			h.Errors = append(h.Errors, &ErrResp{Name: "in_xml", Code: 417, ContentType: "application/xml"}, &ErrResp{Name: "after_xml", Code: 421})
		case 2:
			// an error of the default type answered without a body: its attributes travel in goa-attribute-* headers
			m.Errors = append(m.Errors, &ErrDef{Name: "gone", Temporary: true})
			h.Errors = append(h.Errors, &ErrResp{Name: "gone", Code: 410, Body: &BodySpec{Empty: true}})
		case 3:
			// the status given inside the response DSL: Response("teapot", func() { Code(418) })
			m.Errors = append(m.Errors, &ErrDef{Name: "teapot"})
			h.Errors = append(h.Errors, &ErrResp{Name: "teapot", Code: 418, FuncCode: true})
		}
		for i := 0; i < ne; i++ {
			en := []string{"not_found", "bad_thing", "busy"}[i]
			ed := &ErrDef{Name: en, Temporary: i == 2, Timeout: i == 2 && r.Intn(2) == 0}
			if i == 1 && r.Intn(2) == 0 {
				// custom error type
				ed.Type = g.objectAtt(0, 1+r.Intn(2), false)
				ed.Type.Required = nil
				for _, f := range ed.Type.Type.Object {
					f.Att.Val, f.Att.HasDef, f.Att.Default = nil, false, nil
				}
				ed.Type = g.named(ed.Type)
			}
			m.Errors = append(m.Errors, ed)
			h.Errors = append(h.Errors, &ErrResp{Name: en, Code: []int{404, 409, 409}[i]})
		}
	}
}

func (g *gen) uniq(used map[string]bool, n string) string {
	for used[n] {
		n += "2"
	}
	used[n] = true
	return n
}
