// Package declare lets a design package of a scratch module declare a design of the
// verification stream at init time, the way a hand-written design package does with
// `var _ = API(...)`: the real goa command (cmd/goa) can then be run on that package.
package declare

import (
	"encoding/json"
	"os"

	"verifharness/internal/design"
)

// FromEnv reads the design IR named by $VERIF_DESIGN and executes its top-level DSL calls.
func FromEnv() {
	raw, err := os.ReadFile(os.Getenv("VERIF_DESIGN"))
	if err != nil {
		panic(err)
	}
	var d design.Design
	if err := json.Unmarshal(raw, &d); err != nil {
		panic(err)
	}
	design.Build(&d)()
}
