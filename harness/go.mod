module verifharness

go 1.23

require (
	github.com/getkin/kin-openapi v0.128.0
	goa.design/goa/v3 v3.0.0
	golang.org/x/tools v0.26.0
	google.golang.org/grpc v1.67.1
	google.golang.org/protobuf v1.35.1
	gopkg.in/yaml.v3 v3.0.1
)

require (
	github.com/davecgh/go-spew v1.1.1 // indirect
	github.com/dimfeld/httppath v0.0.0-20170720192232-ee938bf73598 // indirect
	github.com/go-chi/chi/v5 v5.1.0 // indirect
	github.com/go-openapi/jsonpointer v0.21.0 // indirect
	github.com/go-openapi/swag v0.23.0 // indirect
	github.com/google/uuid v1.6.0 // indirect
	github.com/gorilla/websocket v1.5.3 // indirect
	github.com/invopop/yaml v0.3.1 // indirect
	github.com/josharian/intern v1.0.0 // indirect
	github.com/mailru/easyjson v0.7.7 // indirect
	github.com/manveru/faker v0.0.0-20171103152722-9fbc68a78c4d // indirect
	github.com/mohae/deepcopy v0.0.0-20170929034955-c48cc78d4826 // indirect
	github.com/perimeterx/marshmallow v1.1.5 // indirect
	github.com/pmezard/go-difflib v1.0.0 // indirect
	github.com/stretchr/testify v1.9.0 // indirect
	golang.org/x/mod v0.21.0 // indirect
	golang.org/x/net v0.30.0 // indirect
	golang.org/x/sync v0.8.0 // indirect
	golang.org/x/sys v0.26.0 // indirect
	golang.org/x/text v0.19.0 // indirect
	google.golang.org/genproto/googleapis/rpc v0.0.0-20240903143218-8af14fe29dc1 // indirect
)

replace goa.design/goa/v3 => /repo
