//go:build grpcglue

package e2ert

import (
	"context"
	"encoding/binary"
	"encoding/json"
	"errors"
	"fmt"
	"io"
	"net"
	"reflect"
	"sync"
	"sync/atomic"
	"time"

	"verifharness/internal/design"

	"goa.design/goa/v3/codegen"
	goa "goa.design/goa/v3/pkg"
	"google.golang.org/grpc"
	"google.golang.org/grpc/credentials/insecure"
	"google.golang.org/grpc/encoding"
	"google.golang.org/grpc/metadata"
	"google.golang.org/grpc/status"
	"google.golang.org/grpc/test/bufconn"
)

// GRPCServiceInfo registers the generated gRPC constructors of one service.
type GRPCServiceInfo struct {
	Name         string
	Stub         any // implements the generated Service interface
	NewEndpoints any // func(Service) *Endpoints
	NewServer    any // generated grpc server.New(e, uh[, sh])
	Register     any // pb.Register<Svc>Server
	NewClient    any // generated grpc client.NewClient(cc, opts...)
	Methods      map[string]*MethodInfo
	MakeError    map[string]any
	ErrorTypes   map[string]reflect.Type
	client       reflect.Value
}

// tableCodec stands in for protobuf marshalling: the stand-in message structs written by
// miniprotoc carry no protobuf reflection, so a message crosses the (real) gRPC transport as the
// key of a deep copy kept in a table. The copy normalises what protobuf cannot tell apart
// (empty and nil repeated fields / maps).
type tableCodec struct{}

var (
	tableMu  sync.Mutex
	table    = map[uint64]reflect.Value{}
	tableSeq uint64
)

func (tableCodec) Name() string { return "proto" }

func (tableCodec) Marshal(v any) ([]byte, error) {
	id := atomic.AddUint64(&tableSeq, 1)
	cp := deepCopy(reflect.ValueOf(v))
	tableMu.Lock()
	table[id] = cp
	tableMu.Unlock()
	b := make([]byte, 8)
	binary.BigEndian.PutUint64(b, id)
	return b, nil
}

func (tableCodec) Unmarshal(data []byte, v any) error {
	if len(data) != 8 {
		return fmt.Errorf("tableCodec: %d bytes", len(data))
	}
	id := binary.BigEndian.Uint64(data)
	tableMu.Lock()
	cp, ok := table[id]
	delete(table, id)
	tableMu.Unlock()
	if !ok {
		return fmt.Errorf("tableCodec: unknown message %d", id)
	}
	dst := reflect.ValueOf(v)
	if dst.Kind() != reflect.Ptr || cp.Kind() != reflect.Ptr || dst.Type() != cp.Type() {
		return fmt.Errorf("tableCodec: cannot store %s into %s", cp.Type(), dst.Type())
	}
	if cp.IsNil() {
		return nil
	}
	dst.Elem().Set(cp.Elem())
	return nil
}

func deepCopy(v reflect.Value) reflect.Value {
	switch v.Kind() {
	case reflect.Ptr:
		if v.IsNil() {
			return v
		}
		n := reflect.New(v.Type().Elem())
		n.Elem().Set(deepCopy(v.Elem()))
		return n
	case reflect.Interface:
		if v.IsNil() {
			return v
		}
		n := reflect.New(v.Type()).Elem()
		n.Set(deepCopy(v.Elem()))
		return n
	case reflect.Struct:
		n := reflect.New(v.Type()).Elem()
		for i := 0; i < v.NumField(); i++ {
			if v.Type().Field(i).PkgPath != "" {
				continue // unexported (real protobuf messages such as emptypb.Empty): nothing to carry
			}
			n.Field(i).Set(deepCopy(v.Field(i)))
		}
		return n
	case reflect.Slice:
		if v.Len() == 0 {
			return reflect.Zero(v.Type()) // protobuf: an empty repeated field / bytes is an absent one
		}
		n := reflect.MakeSlice(v.Type(), v.Len(), v.Len())
		for i := 0; i < v.Len(); i++ {
			n.Index(i).Set(deepCopy(v.Index(i)))
		}
		return n
	case reflect.Map:
		if v.Len() == 0 {
			return reflect.Zero(v.Type())
		}
		n := reflect.MakeMapWithSize(v.Type(), v.Len())
		for _, k := range v.MapKeys() {
			n.SetMapIndex(k, deepCopy(v.MapIndex(k)))
		}
		return n
	}
	return v
}

type grpcWire struct {
	Method    string              `json:"method"`
	ReqMD     map[string][]string `json:"req_md,omitempty"`
	ReqMsg    any                 `json:"req_msg,omitempty"`
	Code      string              `json:"code"`
	Message   string              `json:"message,omitempty"`
	RespMsg   any                 `json:"resp_msg,omitempty"`
	Header    map[string][]string `json:"header,omitempty"`
	Trailer   map[string][]string `json:"trailer,omitempty"`
	ServerMD  map[string][]string `json:"server_md,omitempty"`
	SentCount int                 `json:"sent,omitempty"`
}

type grpcState struct {
	rt       *Runtime
	services map[string]*GRPCServiceInfo
	conn     *grpc.ClientConn
	wires    sync.Map // call id -> *grpcWire
}

const idKey = "verif-call-id"

// RegisterGRPC adds a gRPC service; the server is started by Start.
func (rt *Runtime) RegisterGRPC(s *GRPCServiceInfo) {
	if rt.grpc == nil {
		gs := &grpcState{rt: rt, services: map[string]*GRPCServiceInfo{}}
		rt.grpc = gs
		rt.starters = append(rt.starters, gs.start)
		rt.extraOps = append(rt.extraOps, gs.exec)
	}
	rt.grpc.(*grpcState).services[s.Name] = s
	// the stub looks the design method up through the common table
	rt.Register(&ServiceInfo{Name: s.Name, Stub: s.Stub, Methods: s.Methods, MakeError: s.MakeError, ErrorTypes: s.ErrorTypes})
}

func dump(v any) any {
	b, err := json.Marshal(v)
	if err != nil {
		return fmt.Sprintf("%+v", v)
	}
	var out any
	_ = json.Unmarshal(b, &out)
	return out
}

func mdMap(md metadata.MD) map[string][]string {
	out := map[string][]string{}
	for k, v := range md {
		if k == idKey || k == "x-caller" || k == "content-type" || k == "user-agent" || k == ":authority" || k == "grpc-accept-encoding" {
			continue
		}
		out[k] = v
	}
	if len(out) == 0 {
		return nil
	}
	return out
}

func (gs *grpcState) start() {
	encoding.RegisterCodec(tableCodec{})
	lis := bufconn.Listen(1 << 20)
	unary := func(ctx context.Context, req any, info *grpc.UnaryServerInfo, handler grpc.UnaryHandler) (any, error) {
		md, _ := metadata.FromIncomingContext(ctx)
		id := "seq"
		if v := md.Get(idKey); len(v) > 0 {
			id = v[0]
		}
		if w, ok := gs.wires.Load(id); ok {
			w.(*grpcWire).ServerMD = mdMap(md)
		}
		return handler(context.WithValue(ctx, stateKey, id), req)
	}
	streamI := func(srv any, ss grpc.ServerStream, info *grpc.StreamServerInfo, handler grpc.StreamHandler) error {
		md, _ := metadata.FromIncomingContext(ss.Context())
		id := "seq"
		if v := md.Get(idKey); len(v) > 0 {
			id = v[0]
		}
		if w, ok := gs.wires.Load(id); ok {
			w.(*grpcWire).ServerMD = mdMap(md)
		}
		return handler(srv, &ctxStream{ss, context.WithValue(ss.Context(), stateKey, id)})
	}
	srv := grpc.NewServer(grpc.UnaryInterceptor(unary), grpc.StreamInterceptor(streamI))
	for _, s := range gs.services {
		eps := reflect.ValueOf(s.NewEndpoints).Call([]reflect.Value{reflect.ValueOf(s.Stub)})[0]
		ns := reflect.ValueOf(s.NewServer)
		args := []reflect.Value{eps}
		for i := 1; i < ns.Type().NumIn(); i++ {
			args = append(args, reflect.Zero(ns.Type().In(i)))
		}
		server := ns.Call(args)[0]
		reg := reflect.ValueOf(s.Register)
		reg.Call([]reflect.Value{reflect.ValueOf(srv).Convert(reg.Type().In(0)), server})
	}
	go func() { _ = srv.Serve(lis) }()
	cliUnary := func(ctx context.Context, method string, req, reply any, cc *grpc.ClientConn, invoker grpc.UnaryInvoker, opts ...grpc.CallOption) error {
		id, _ := ctx.Value(stateKey).(string)
		var w *grpcWire
		if x, ok := gs.wires.Load(id); ok {
			w = x.(*grpcWire)
		} else {
			w = &grpcWire{}
		}
		w.Method = method
		omd, _ := metadata.FromOutgoingContext(ctx)
		w.ReqMD = mdMap(omd)
		w.ReqMsg = dump(req)
		w.SentCount++
		var h, t metadata.MD
		opts = append(opts, grpc.Header(&h), grpc.Trailer(&t))
		err := invoker(metadata.AppendToOutgoingContext(ctx, idKey, id), method, req, reply, cc, opts...)
		st, _ := status.FromError(err)
		w.Code = st.Code().String()
		w.Message = st.Message()
		if err == nil {
			w.RespMsg = dump(reply)
		}
		w.Header, w.Trailer = mdMap(h), mdMap(t)
		return err
	}
	cliStream := func(ctx context.Context, desc *grpc.StreamDesc, cc *grpc.ClientConn, method string, streamer grpc.Streamer, opts ...grpc.CallOption) (grpc.ClientStream, error) {
		id, _ := ctx.Value(stateKey).(string)
		if x, ok := gs.wires.Load(id); ok {
			w := x.(*grpcWire)
			w.Method = method
			omd, _ := metadata.FromOutgoingContext(ctx)
			w.ReqMD = mdMap(omd)
		}
		return streamer(metadata.AppendToOutgoingContext(ctx, idKey, id), desc, cc, method, opts...)
	}
	conn, err := grpc.NewClient("passthrough:///bufnet",
		grpc.WithContextDialer(func(ctx context.Context, _ string) (net.Conn, error) { return lis.DialContext(ctx) }),
		grpc.WithTransportCredentials(insecure.NewCredentials()), grpc.WithUnaryInterceptor(cliUnary), grpc.WithStreamInterceptor(cliStream))
	if err != nil {
		panic(err)
	}
	gs.conn = conn
	for _, s := range gs.services {
		nc := reflect.ValueOf(s.NewClient)
		args := []reflect.Value{reflect.ValueOf(conn).Convert(nc.Type().In(0))}
		s.client = nc.Call(args)[0]
	}
}

type ctxStream struct {
	grpc.ServerStream
	ctx context.Context
}

func (s *ctxStream) Context() context.Context { return s.ctx }

func (gs *grpcState) clientError(err error) *errInfo {
	ei := &errInfo{GoType: fmt.Sprintf("%T", err), Message: err.Error()}
	if n, ok := err.(goa.GoaErrorNamer); ok {
		ei.Name = n.GoaErrorName()
	}
	var se *goa.ServiceError
	if errors.As(err, &se) {
		ei.Timeout, ei.Temporary, ei.Fault = &se.Timeout, &se.Temporary, &se.Fault
		if ei.Name == "" {
			ei.Name = se.Name
		}
	}
	if st, ok := status.FromError(err); ok {
		ei.Name = "grpc:" + st.Code().String()
	}
	return ei
}

// stream drives one streaming method: the client sends c.Messages (if the method streams its
// payload), closes its side, and reads what the server sends until the end of the stream.
func (gs *grpcState) stream(c *command, obs *observation, id string, s *GRPCServiceInfo, m *design.Method, ep reflect.Value, payload any) {
	endpoint := ep.Call(nil)[0].Interface().(goa.Endpoint)
	ctx, cancel := context.WithTimeout(context.WithValue(context.Background(), stateKey, id), 20*time.Second)
	defer cancel()
	res, err := endpoint(ctx, payload)
	if err != nil {
		obs.ClientError = gs.clientError(err)
		return
	}
	sv := reflect.ValueOf(res)
	if send := sv.MethodByName("Send"); send.IsValid() {
		for _, msg := range c.Messages {
			v, err := gs.rt.FromJSON(m.Payload, msg, send.Type().In(0))
			if err != nil {
				obs.Harness = "cannot build streamed message: " + err.Error()
				return
			}
			if e, _ := send.Call([]reflect.Value{v})[0].Interface().(error); e != nil {
				obs.ClientError = gs.clientError(e)
				obs.ClientError.Message = "send: " + obs.ClientError.Message
				break
			}
		}
	}
	if car := sv.MethodByName("CloseAndRecv"); car.IsValid() {
		out := car.Call(nil)
		if e, _ := out[1].Interface().(error); e != nil {
			obs.ClientError = gs.clientError(e)
			return
		}
		obs.ClientResult = gs.rt.ToJSON(m.Result, out[0])
		return
	}
	recv := sv.MethodByName("Recv")
	if cl := sv.MethodByName("Close"); cl.IsValid() {
		if e, _ := cl.Call(nil)[0].Interface().(error); e != nil && !recv.IsValid() {
			obs.ClientError = gs.clientError(e)
			return
		}
	}
	if recv.IsValid() {
		for {
			out := recv.Call(nil)
			if e, _ := out[1].Interface().(error); e != nil {
				if e != io.EOF {
					obs.ClientError = gs.clientError(e)
				}
				break
			}
			j := gs.rt.ToJSON(m.Result, out[0])
			if j == nil {
				j = "<nil>"
			}
			obs.ClientStreamed = append(obs.ClientStreamed, j)
		}
	}
}

// exec handles the ops "gcall" (one unary call) and "gstream" (one streaming call) through the
// generated gRPC client and server.
func (gs *grpcState) exec(c *command, obs *observation, id string) bool {
	if c.Op != "gcall" && c.Op != "gstream" {
		return false
	}
	s := gs.services[c.Service]
	if s == nil {
		obs.Harness = "unknown gRPC service " + c.Service
		return true
	}
	cs := gs.rt.services[c.Service]
	mi, m := s.Methods[c.Method], cs.methodAtt[c.Method]
	if mi == nil || m == nil {
		obs.Harness = "unknown method " + c.Method
		return true
	}
	var payload any
	if mi.PayloadType != nil {
		pv, err := gs.rt.FromJSON(m.Payload, c.Payload, mi.PayloadType)
		if err != nil {
			obs.Harness = "cannot build payload: " + err.Error()
			return true
		}
		payload = pv.Interface()
	}
	ep := s.client.MethodByName(codegen.Goify(c.Method, true))
	if !ep.IsValid() {
		obs.Harness = "generated gRPC client has no method " + codegen.Goify(c.Method, true)
		return true
	}
	w := &grpcWire{}
	gs.wires.Store(id, w)
	defer gs.wires.Delete(id)
	obs.Wire = nil
	obs.GRPC = w
	if c.Op == "gstream" {
		gs.stream(c, obs, id, s, m, ep, payload)
		return true
	}
	endpoint := ep.Call(nil)[0].Interface().(goa.Endpoint)
	cctx := context.WithValue(context.Background(), stateKey, id)
	if c.CallerMD {
		cctx = metadata.AppendToOutgoingContext(cctx, "x-caller", "harness")
	}
	res, err := endpoint(cctx, payload)
	if err != nil {
		ei := &errInfo{GoType: fmt.Sprintf("%T", err), Message: err.Error()}
		if n, ok := err.(goa.GoaErrorNamer); ok {
			ei.Name = n.GoaErrorName()
		}
		var se *goa.ServiceError
		if errors.As(err, &se) {
			ei.Timeout, ei.Temporary, ei.Fault = &se.Timeout, &se.Temporary, &se.Fault
			if ei.Name == "" {
				ei.Name = se.Name
			}
		}
		if st, ok := status.FromError(err); ok {
			ei.Name = "grpc:" + st.Code().String()
		}
		obs.ClientError = ei
	} else if res != nil {
		obs.ClientResult = gs.rt.ToJSON(m.Result, reflect.ValueOf(res))
	}
	return true
}
