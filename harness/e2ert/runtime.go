package e2ert

import (
	"bufio"
	"bytes"
	"context"
	"encoding/json"
	"errors"
	"fmt"
	"io"
	"net/http"
	"net/http/httptest"
	"os"
	"reflect"
	"runtime/debug"
	"strings"
	"sync"

	"goa.design/goa/v3/codegen"
	goahttp "goa.design/goa/v3/http"
	goa "goa.design/goa/v3/pkg"

	"verifharness/internal/design"
)

// MethodInfo is what the glue knows statically about a method.
type MethodInfo struct {
	Name        string
	PayloadType reflect.Type // nil when the method has no payload
	ResultType  reflect.Type // nil when the method has no result
	HasView     bool
	// RequestDataType is the generated <Method>RequestData struct (Payload + Body io.ReadCloser) of a method that
	// receives the raw HTTP request body (SkipRequestBodyEncodeDecode)
	RequestDataType reflect.Type
}

// ServiceInfo registers the generated constructors of one service.
type ServiceInfo struct {
	Name         string
	Stub         any                       // implements the generated Service (and Auther) interface
	NewEndpoints any                       // func(Service) *Endpoints
	NewServer    any                       // generated server.New
	Mount        any                       // generated server.Mount
	NewClient    any                       // generated client.NewClient
	Methods      map[string]*MethodInfo    // by design name
	MakeError    map[string]any            // default-typed errors: func(error) *goa.ServiceError
	ErrorTypes   map[string]reflect.Type   // custom error types (pointer to struct / named primitive)
	client       reflect.Value             // *client.Client
	methodAtt    map[string]*design.Method // design side
}

// script is what the stub does on the next invocation.
type script struct {
	Result any             `json:"result"`
	View   string          `json:"view"`
	Error  *scriptedError  `json:"error"`
	Auth   map[string]bool `json:"auth"` // scheme callback -> accept; missing = accept
	// TamperView, when set, replaces the goa-view header of the response before the client sees it (C08)
	TamperView *string `json:"tamper_view"`
	// TamperDrop removes these top-level keys from a JSON object response body before the client sees it:
	// a response of a non-conforming server (C08: required attributes of the labelled view)
	TamperDrop []string `json:"tamper_drop"`
	// Results are the messages a streaming method sends (server streaming, bidirectional)
	Results []any `json:"results"`
}

type scriptedError struct {
	Kind      string `json:"kind"` // declared | plain | service | wrapped-service
	Name      string `json:"name"`
	Message   string `json:"message"`
	Value     any    `json:"value"` // custom error type value
	Timeout   bool   `json:"timeout"`
	Temporary bool   `json:"temporary"`
	Fault     bool   `json:"fault"`
}

type authCall struct {
	Callback string   `json:"callback"`
	Creds    []string `json:"creds"`
	Scheme   string   `json:"scheme"`
	Scopes   []string `json:"scopes"`
	Required []string `json:"required_scopes"`
	Accepted bool     `json:"accepted"`
}

type callState struct {
	script        script
	serverCalled  bool
	serverPayload any
	serverBody    *string
	auth          []authCall
	writeHeaders  int
	streamed      []any  // messages the service method received from the stream
	recvError     string // error the stream's Recv returned to the service method
	sendError     string
}

// Runtime holds the design and the registered services.
type Runtime struct {
	Design   *design.Design
	services map[string]*ServiceInfo
	mux      goahttp.ResolverMuxer
	mu       sync.Mutex
	// per goroutine-less call state: the command loop is sequential; the concurrent mode keys states by a request header
	states map[string]*callState
	routes [][2]string
	// the generated client endpoints the sequential calls share, and the wire record of the call in progress
	seqEndpoints map[string]goa.Endpoint
	seqWire      *wire
	// UnionTypes are the alternative types of the OneOf unions of the generated service packages (registered by the glue)
	UnionTypes []reflect.Type
	// extension points of the gRPC part (grpc.go, build tag grpcglue)
	grpc     any
	starters []func()
	extraOps []func(c *command, obs *observation, id string) bool
}

// New parses the embedded design.
func New(designJSON string) *Runtime {
	var d design.Design
	dec := json.NewDecoder(strings.NewReader(designJSON))
	dec.UseNumber()
	if err := dec.Decode(&d); err != nil {
		panic(err)
	}
	return &Runtime{Design: &d, services: map[string]*ServiceInfo{}, states: map[string]*callState{}}
}

type ctxKey string

const stateKey ctxKey = "verif-call-id"

// Register adds a service and mounts its generated server.
func (rt *Runtime) Register(s *ServiceInfo) {
	rt.services[s.Name] = s
	s.methodAtt = map[string]*design.Method{}
	for _, ds := range rt.Design.Services {
		if ds.Name == s.Name {
			for _, m := range ds.Methods {
				s.methodAtt[m.Name] = m
			}
		}
	}
}

func (rt *Runtime) state(ctx context.Context) *callState {
	id, _ := ctx.Value(stateKey).(string)
	rt.mu.Lock()
	defer rt.mu.Unlock()
	st := rt.states[id]
	if st == nil {
		st = &callState{}
		rt.states[id] = st
	}
	return st
}

// Invoke is called by the generated-interface stub: it records the payload and plays the script.
func (rt *Runtime) Invoke(ctx context.Context, svc, method string, payload any) (any, string, error) {
	st := rt.state(ctx)
	s := rt.services[svc]
	m := s.methodAtt[method]
	rt.mu.Lock()
	st.serverCalled = true
	if payload != nil && m != nil {
		st.serverPayload = rt.ToJSON(m.Payload, reflect.ValueOf(payload))
	}
	sc := st.script
	rt.mu.Unlock()
	if e := sc.Error; e != nil {
		return nil, "", rt.buildError(s, method, e)
	}
	mi := s.Methods[method]
	if mi == nil || mi.ResultType == nil {
		return nil, sc.View, nil
	}
	rv, err := rt.FromJSON(m.Result, sc.Result, mi.ResultType)
	if err != nil {
		return nil, "", fmt.Errorf("harness: cannot build scripted result: %w", err)
	}
	return rv.Interface(), sc.View, nil
}

// NoteBody records the raw request body a stub read from the io.ReadCloser the generated server handed it.
func (rt *Runtime) NoteBody(ctx context.Context, data []byte) {
	st := rt.state(ctx)
	rt.mu.Lock()
	s := string(data)
	st.serverBody = &s
	rt.mu.Unlock()
}

// InvokeStream is called by the stub of a streaming method: it reads the client's messages until
// the end of the stream (recording them), then plays the script: every scripted result is sent
// (Send), or the single result with SendAndClose, and the stream is closed.
func (rt *Runtime) InvokeStream(ctx context.Context, svc, method string, payload any, stream any) error {
	st := rt.state(ctx)
	s := rt.services[svc]
	m := s.methodAtt[method]
	rt.mu.Lock()
	st.serverCalled = true
	if payload != nil && m != nil {
		st.serverPayload = rt.ToJSON(m.Payload, reflect.ValueOf(payload))
	}
	sc := st.script
	rt.mu.Unlock()
	sv := reflect.ValueOf(stream)
	if recv := sv.MethodByName("Recv"); recv.IsValid() {
		for {
			out := recv.Call(nil)
			if e, _ := out[1].Interface().(error); e != nil {
				if e == io.EOF {
					break
				}
				rt.mu.Lock()
				st.recvError = e.Error()
				rt.mu.Unlock()
				return e
			}
			j := rt.ToJSON(m.Payload, out[0])
			rt.mu.Lock()
			st.streamed = append(st.streamed, j)
			rt.mu.Unlock()
		}
	}
	if e := sc.Error; e != nil {
		return rt.buildError(s, method, e)
	}
	closeFn := sv.MethodByName("Close")
	if send := sv.MethodByName("Send"); send.IsValid() {
		for _, r := range sc.Results {
			v, err := rt.FromJSON(m.Result, r, send.Type().In(0))
			if err != nil {
				return fmt.Errorf("harness: cannot build scripted result: %w", err)
			}
			if e, _ := send.Call([]reflect.Value{v})[0].Interface().(error); e != nil {
				rt.mu.Lock()
				st.sendError = e.Error()
				rt.mu.Unlock()
				return e
			}
		}
	} else if sac := sv.MethodByName("SendAndClose"); sac.IsValid() {
		v, err := rt.FromJSON(m.Result, sc.Result, sac.Type().In(0))
		if err != nil {
			return fmt.Errorf("harness: cannot build scripted result: %w", err)
		}
		if e, _ := sac.Call([]reflect.Value{v})[0].Interface().(error); e != nil {
			return e
		}
		return nil
	}
	if closeFn.IsValid() {
		if e, _ := closeFn.Call(nil)[0].Interface().(error); e != nil {
			return e
		}
	}
	return nil
}

func (rt *Runtime) buildError(s *ServiceInfo, method string, e *scriptedError) error {
	switch e.Kind {
	case "plain":
		return errors.New(e.Message)
	case "service":
		return &goa.ServiceError{Name: e.Name, ID: "verifid", Message: e.Message, Timeout: e.Timeout, Temporary: e.Temporary, Fault: e.Fault}
	case "wrapped-service":
		return fmt.Errorf("wrapped: %w", &goa.ServiceError{Name: e.Name, ID: "verifid", Message: e.Message, Timeout: e.Timeout, Temporary: e.Temporary, Fault: e.Fault})
	case "declared":
		key := method + ":" + e.Name
		if _, ok := s.MakeError[key]; !ok {
			if _, ok := s.ErrorTypes[key]; !ok {
				key = e.Name // service or API level
			}
		}
		if mk, ok := s.MakeError[key]; ok {
			out := reflect.ValueOf(mk).Call([]reflect.Value{reflect.ValueOf(errors.New(e.Message))})
			return out[0].Interface().(error)
		}
		if t, ok := s.ErrorTypes[key]; ok {
			var att *design.Att
			for _, ds := range rt.Design.Services {
				if ds.Name != s.Name {
					continue
				}
				for _, ed := range ds.Errors {
					if ed.Name == e.Name {
						att = ed.Type
					}
				}
				for _, m := range ds.Methods {
					if m.Name != method {
						continue
					}
					for _, ed := range m.Errors {
						if ed.Name == e.Name {
							att = ed.Type
						}
					}
				}
			}
			v, err := rt.FromJSON(att, e.Value, t)
			if err != nil {
				return fmt.Errorf("harness: cannot build scripted error: %w", err)
			}
			if er, ok := v.Interface().(error); ok {
				return er
			}
			return fmt.Errorf("harness: %s does not implement error", t)
		}
		return fmt.Errorf("harness: unknown declared error %q", e.Name)
	}
	return errors.New("harness: bad error script")
}

// Auth is called by the stub's Auther methods.
func (rt *Runtime) Auth(ctx context.Context, callback string, creds []string, scheme any) (context.Context, error) {
	st := rt.state(ctx)
	ac := authCall{Callback: callback, Creds: creds, Accepted: true}
	sv := reflect.ValueOf(scheme)
	if sv.Kind() == reflect.Ptr && !sv.IsNil() {
		sv = sv.Elem()
		if f := sv.FieldByName("Name"); f.IsValid() {
			ac.Scheme = f.String()
		}
		if f := sv.FieldByName("Scopes"); f.IsValid() {
			ac.Scopes, _ = f.Interface().([]string)
		}
		if f := sv.FieldByName("RequiredScopes"); f.IsValid() {
			ac.Required, _ = f.Interface().([]string)
		}
	}
	rt.mu.Lock()
	if acc, ok := st.script.Auth[ac.Scheme]; ok {
		ac.Accepted = acc
	}
	st.auth = append(st.auth, ac)
	rt.mu.Unlock()
	if !ac.Accepted {
		return ctx, &goa.ServiceError{Name: "unauthorized", ID: "verifid", Message: "rejected by " + ac.Scheme}
	}
	return ctx, nil
}

// ---------------------------------------------------------------- wiring

type wire struct {
	Method      string              `json:"method"`
	Path        string              `json:"path"`
	RawQuery    string              `json:"raw_query"`
	Headers     map[string][]string `json:"headers"`
	Body        string              `json:"body"`
	Status      int                 `json:"status"`
	RespHeaders map[string][]string `json:"resp_headers"`
	RespBody    string              `json:"resp_body"`
	ParseError  string              `json:"parse_error,omitempty"`
}

// countingWriter counts WriteHeader calls (C05: exactly one response).
type countingWriter struct {
	http.ResponseWriter
	st *callState
}

func (w *countingWriter) WriteHeader(code int) {
	w.st.writeHeaders++
	w.ResponseWriter.WriteHeader(code)
}

// doer sends the client's request to the generated server in-process, re-parsing it the way a
// server would, and records both directions.
type doer struct {
	rt   *Runtime
	id   string
	wire *wire
}

// seqDoer serves the sequential calls: the wire record of the call in progress is the runtime's.
type seqDoer struct{ rt *Runtime }

func (d *seqDoer) Do(req *http.Request) (*http.Response, error) {
	return (&doer{rt: d.rt, id: "seq", wire: d.rt.seqWire}).Do(req)
}

func (d *doer) Do(req *http.Request) (*http.Response, error) {
	var buf bytes.Buffer
	if req.Host == "" {
		req.Host = "example.com"
	}
	if err := req.Write(&buf); err != nil {
		return nil, err
	}
	return d.rt.roundTrip(d.id, buf.Bytes(), d.wire)
}

func (rt *Runtime) roundTrip(id string, raw []byte, w *wire) (*http.Response, error) {
	sreq, err := http.ReadRequest(bufio.NewReader(bytes.NewReader(raw)))
	if err != nil {
		w.ParseError = err.Error()
		w.Status = 400
		return nil, fmt.Errorf("server could not parse request: %w", err)
	}
	body, _ := io.ReadAll(sreq.Body)
	sreq.Body = io.NopCloser(bytes.NewReader(body))
	w.Method, w.Path, w.RawQuery, w.Body = sreq.Method, sreq.URL.EscapedPath(), sreq.URL.RawQuery, string(body)
	w.Headers = map[string][]string{}
	for k, v := range sreq.Header {
		w.Headers[k] = v
	}
	sreq = sreq.WithContext(context.WithValue(sreq.Context(), stateKey, id))
	rec := httptest.NewRecorder()
	st := rt.state(sreq.Context())
	rt.mux.ServeHTTP(&countingWriter{rec, st}, sreq)
	res := rec.Result()
	rb, _ := io.ReadAll(res.Body)
	res.Body = io.NopCloser(bytes.NewReader(rb))
	w.Status, w.RespBody = res.StatusCode, string(rb)
	w.RespHeaders = map[string][]string{}
	for k, v := range res.Header {
		w.RespHeaders[k] = v
	}
	rt.mu.Lock()
	tv := st.script.TamperView
	drop := st.script.TamperDrop
	rt.mu.Unlock()
	if tv != nil && *tv == "" {
		res.Header.Del("goa-view") // an unlabelled response
	} else if tv != nil {
		res.Header.Set("goa-view", *tv)
	}
	if len(drop) > 0 {
		var obj map[string]json.RawMessage
		if json.Unmarshal(rb, &obj) == nil && obj != nil {
			for _, k := range drop {
				delete(obj, k)
			}
			nb, _ := json.Marshal(obj)
			res.Body = io.NopCloser(bytes.NewReader(nb))
			res.ContentLength = int64(len(nb))
			res.Header.Set("Content-Length", fmt.Sprint(len(nb)))
		}
	}
	return res, nil
}

// recordingMux records the (method, pattern) pairs the generated Mount functions register (C07).
type recordingMux struct {
	goahttp.ResolverMuxer
	rt *Runtime
}

func (m *recordingMux) Handle(method, pattern string, handler http.HandlerFunc) {
	m.rt.routes = append(m.rt.routes, [2]string{method, pattern})
	m.ResolverMuxer.Handle(method, pattern, handler)
}

// Start mounts every registered service on one muxer and creates the clients.
func (rt *Runtime) Start() {
	rt.mux = &recordingMux{ResolverMuxer: goahttp.NewMuxer(), rt: rt}
	for _, f := range rt.starters {
		f()
	}
	for _, s := range rt.services {
		if s.NewServer == nil {
			continue // not an HTTP service
		}
		eps := reflect.ValueOf(s.NewEndpoints).Call([]reflect.Value{reflect.ValueOf(s.Stub)})[0]
		dec := reflect.ValueOf(goahttp.RequestDecoder)
		enc := reflect.ValueOf(goahttp.ResponseEncoder)
		newServer := reflect.ValueOf(s.NewServer)
		nt := newServer.Type()
		args := []reflect.Value{eps, reflect.ValueOf(rt.mux).Convert(nt.In(1)), dec, enc}
		for i := 4; i < nt.NumIn(); i++ {
			args = append(args, reflect.Zero(nt.In(i)))
		}
		srv := newServer.Call(args)[0]
		reflect.ValueOf(s.Mount).Call([]reflect.Value{reflect.ValueOf(rt.mux).Convert(reflect.ValueOf(s.Mount).Type().In(0)), srv})
	}
}

func (rt *Runtime) clientFor(s *ServiceInfo, d goahttp.Doer) reflect.Value {
	nc := reflect.ValueOf(s.NewClient)
	ct := nc.Type()
	args := []reflect.Value{reflect.ValueOf("http"), reflect.ValueOf("example.com"), reflect.ValueOf(d).Convert(ct.In(2)),
		reflect.ValueOf(goahttp.RequestEncoder), reflect.ValueOf(goahttp.ResponseDecoder), reflect.ValueOf(false)}
	for i := 6; i < ct.NumIn(); i++ {
		args = append(args, reflect.Zero(ct.In(i)))
	}
	return nc.Call(args)[0]
}

// ---------------------------------------------------------------- command loop

type command struct {
	Op       string            `json:"op"` // call | raw
	ID       string            `json:"id"`
	Service  string            `json:"service"`
	Method   string            `json:"method"`
	Payload  any               `json:"payload"`
	RawBody  string            `json:"raw_body"`  // request body of a method that takes it as a stream (SkipRequestBodyEncodeDecode)
	Messages []any             `json:"messages"`  // streamed by the client (client streaming, bidirectional)
	CallerMD bool              `json:"caller_md"` // gRPC: the caller context already carries outgoing metadata
	Script   script            `json:"script"`
	Raw      *rawRequest       `json:"raw"`
	Many     []json.RawMessage `json:"many"` // concurrent batch (C20)
}

type rawRequest struct {
	Method  string              `json:"method"`
	Target  string              `json:"target"`
	Headers map[string][]string `json:"headers"`
	Body    string              `json:"body"`
}

type observation struct {
	ID             string      `json:"id,omitempty"`
	ServerCalled   bool        `json:"server_called"`
	ServerPayload  any         `json:"server_payload,omitempty"`
	ServerBody     *string     `json:"server_body,omitempty"`
	ClientResult   any         `json:"client_result,omitempty"`
	ClientView     string      `json:"client_view,omitempty"`
	ClientError    *errInfo    `json:"client_error,omitempty"`
	ServerStreamed []any       `json:"server_streamed,omitempty"`
	ClientStreamed []any       `json:"client_streamed,omitempty"`
	RecvError      string      `json:"recv_error,omitempty"`
	Auth           []authCall  `json:"auth,omitempty"`
	WriteHeaders   int         `json:"write_headers"`
	Wire           *wire       `json:"wire,omitempty"`
	GRPC           any         `json:"grpc,omitempty"`
	Panic          string      `json:"panic,omitempty"`
	Routes         [][2]string `json:"routes,omitempty"`
	Harness        string      `json:"harness_error,omitempty"`
}

type errInfo struct {
	GoType    string `json:"go_type"`
	Name      string `json:"name"`
	Message   string `json:"message"`
	Value     any    `json:"value,omitempty"`
	Timeout   *bool  `json:"timeout,omitempty"`
	Temporary *bool  `json:"temporary,omitempty"`
	Fault     *bool  `json:"fault,omitempty"`
}

func (rt *Runtime) describeError(s *ServiceInfo, method string, err error) *errInfo {
	ei := &errInfo{GoType: fmt.Sprintf("%T", err), Message: err.Error()}
	if n, ok := err.(goa.GoaErrorNamer); ok {
		ei.Name = n.GoaErrorName()
	}
	var se *goa.ServiceError
	if errors.As(err, &se) {
		ei.Timeout, ei.Temporary, ei.Fault = &se.Timeout, &se.Temporary, &se.Fault
		if ei.Name == "" {
			ei.Name = se.Name
		}
	} else if s != nil {
		for key, t := range s.ErrorTypes {
			if reflect.TypeOf(err) != t {
				continue
			}
			name := key
			if i := strings.LastIndex(key, ":"); i >= 0 {
				if key[:i] != method {
					continue
				}
				name = key[i+1:]
			}
			var att *design.Att
			if m := s.methodAtt[method]; m != nil {
				for _, ed := range m.Errors {
					if ed.Name == name {
						att = ed.Type
					}
				}
			}
			if att == nil {
				for _, ds := range rt.Design.Services {
					if ds.Name == s.Name {
						for _, ed := range ds.Errors {
							if ed.Name == name {
								att = ed.Type
							}
						}
					}
				}
			}
			ei.Value = rt.ToJSON(att, reflect.ValueOf(err))
		}
	}
	return ei
}

func (rt *Runtime) exec(c *command) (obs observation) {
	obs.ID = c.ID
	defer func() {
		if r := recover(); r != nil {
			obs.Panic = fmt.Sprintf("%v\n%s", r, firstLines(string(debug.Stack()), 25))
		}
	}()
	id := c.ID
	if id == "" {
		id = "seq"
	}
	rt.mu.Lock()
	st := &callState{script: c.Script}
	rt.states[id] = st
	rt.mu.Unlock()
	w := &wire{}
	obs.Wire = w
	switch c.Op {
	case "routes":
		obs.Routes = rt.routes
		obs.Wire = nil
		return
	case "raw":
		var b bytes.Buffer
		fmt.Fprintf(&b, "%s %s HTTP/1.1\r\nHost: example.com\r\n", c.Raw.Method, c.Raw.Target)
		for k, vs := range c.Raw.Headers {
			for _, v := range vs {
				fmt.Fprintf(&b, "%s: %s\r\n", k, v)
			}
		}
		if c.Raw.Body != "" {
			fmt.Fprintf(&b, "Content-Length: %d\r\n", len(c.Raw.Body))
		}
		b.WriteString("\r\n" + c.Raw.Body)
		_, _ = rt.roundTrip(id, b.Bytes(), w)
	case "call":
		s := rt.services[c.Service]
		if s == nil {
			obs.Harness = "unknown service " + c.Service
			return
		}
		mi, m := s.Methods[c.Method], s.methodAtt[c.Method]
		if mi == nil || m == nil {
			obs.Harness = "unknown method " + c.Method
			return
		}
		var payload any
		if mi.PayloadType != nil {
			pv, err := rt.FromJSON(m.Payload, c.Payload, mi.PayloadType)
			if err != nil {
				obs.Harness = "cannot build payload: " + err.Error()
				return
			}
			payload = pv.Interface()
		}
		var endpoint goa.Endpoint
		if c.ID == "" {
			// sequential calls go through ONE generated client endpoint per method, as an application's do: whatever a call leaves
			// behind in the endpoint (or in the client) is there for the next one
			rt.seqWire = w
			endpoint = rt.seqEndpoints[c.Service+"."+c.Method]
		}
		if endpoint == nil {
			var cl reflect.Value
			if c.ID == "" {
				cl = rt.clientFor(s, &seqDoer{rt})
			} else {
				cl = rt.clientFor(s, &doer{rt: rt, id: id, wire: w})
			}
			ep := cl.MethodByName(codegen.Goify(c.Method, true))
			if !ep.IsValid() {
				obs.Harness = "generated client has no method " + codegen.Goify(c.Method, true)
				return
			}
			endpoint = ep.Call(nil)[0].Interface().(goa.Endpoint)
			if c.ID == "" {
				if rt.seqEndpoints == nil {
					rt.seqEndpoints = map[string]goa.Endpoint{}
				}
				rt.seqEndpoints[c.Service+"."+c.Method] = endpoint
			}
		}
		if mi.RequestDataType != nil {
			// the endpoint takes <Method>RequestData{Payload, Body}
			rd := reflect.New(mi.RequestDataType)
			if f := rd.Elem().FieldByName("Payload"); f.IsValid() && payload != nil {
				f.Set(reflect.ValueOf(payload))
			}
			rd.Elem().FieldByName("Body").Set(reflect.ValueOf(io.NopCloser(strings.NewReader(c.RawBody))))
			payload = rd.Interface()
		}
		res, err := endpoint(context.Background(), payload)
		if err != nil {
			obs.ClientError = rt.describeError(s, c.Method, err)
		} else if res != nil {
			rv := reflect.ValueOf(res)
			obs.ClientResult = rt.ToJSON(m.Result, rv)
		}
	default:
		handled := false
		for _, f := range rt.extraOps {
			if f(c, &obs, id) {
				handled = true
				break
			}
		}
		if !handled {
			obs.Harness = "unknown op " + c.Op
		}
	}
	rt.mu.Lock()
	obs.ServerCalled, obs.ServerPayload, obs.Auth, obs.WriteHeaders = st.serverCalled, st.serverPayload, st.auth, st.writeHeaders
	obs.ServerStreamed, obs.RecvError = st.streamed, st.recvError
	obs.ServerBody = st.serverBody
	delete(rt.states, id)
	rt.mu.Unlock()
	return
}

func firstLines(s string, n int) string {
	l := strings.Split(s, "\n")
	if len(l) > n {
		l = l[:n]
	}
	return strings.Join(l, "\n")
}

// Main runs the command loop: one JSON command per line on stdin, one JSON observation per line.
func (rt *Runtime) Main() {
	rt.Start()
	in := bufio.NewScanner(os.Stdin)
	in.Buffer(make([]byte, 1<<20), 1<<26)
	out := bufio.NewWriter(os.Stdout)
	defer out.Flush()
	for in.Scan() {
		line := strings.TrimSpace(in.Text())
		if line == "" {
			continue
		}
		var c command
		dec := json.NewDecoder(strings.NewReader(line))
		dec.UseNumber()
		if err := dec.Decode(&c); err != nil {
			fmt.Fprintf(out, "{\"harness_error\":%q}\n", err.Error())
			out.Flush()
			continue
		}
		if c.Op == "many" {
			// concurrent batch: every command carries its own id; answers come back as one array
			cmds := make([]*command, len(c.Many))
			for i, raw := range c.Many {
				var cc command
				d := json.NewDecoder(bytes.NewReader(raw))
				d.UseNumber()
				_ = d.Decode(&cc)
				cmds[i] = &cc
			}
			res := make([]observation, len(cmds))
			var wg sync.WaitGroup
			start := make(chan struct{})
			for i := range cmds {
				wg.Add(1)
				go func(i int) {
					defer wg.Done()
					<-start
					res[i] = rt.exec(cmds[i])
				}(i)
			}
			close(start)
			wg.Wait()
			b, _ := json.Marshal(res)
			out.Write(b)
			out.WriteByte('\n')
			out.Flush()
			continue
		}
		obs := rt.exec(&c)
		b, err := json.Marshal(obs)
		if err != nil {
			b, _ = json.Marshal(observation{Harness: "cannot marshal observation: " + err.Error()})
		}
		out.Write(b)
		out.WriteByte('\n')
		out.Flush()
	}
}
