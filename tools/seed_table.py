#!/usr/bin/env python3
"""Rewrites the seed table of DESIGN.md (section 7) from seeded/*/meta.json."""
import glob
import json
import os
import re

ROOT = os.path.dirname(os.path.dirname(os.path.abspath(__file__)))
rows = []
dirs = [d for d in glob.glob(os.path.join(ROOT, "seeded", "C*-*")) if os.path.isdir(d)]
missed = 0
for d in sorted(dirs, key=lambda p: (os.path.basename(p).split("-")[0], int(os.path.basename(p).split("-")[1]))):
    mf = os.path.join(d, "meta.json")
    if not os.path.exists(mf):
        continue
    m = json.load(open(mf))
    files = [f for f in re.findall(r"^\+\+\+ b/(\S+)", open(os.path.join(d, "patch.diff")).read(), re.M) if not f.endswith("_test.go")]
    det = m.get("detected_by_check", {})
    other = m.get("detected_by_other_check")
    if det.get("check_exit") == 1 and det.get("violation_line"):
        sig = det.get("signature")
        how = "%s `%s`" % (m["property"], sig) if sig else "%s: broken obligation %s, reported `no-failing-input-found`" % (
            m["property"], ", ".join("`%s`" % x for x in det.get("broken_obligations", [])))
    elif other:
        how = "not by %s — caught by %s `%s` (%s)" % (m["property"], other["check"], other["signature"], other.get("note", ""))
    else:
        how = "**missed**"
        missed += 1
    rows.append("| %s | %s | %s |" % (m["name"], ", ".join("`%s`" % (os.path.basename(f) if len(f) > 40 else f) for f in files), how))
table = "| Seed | File changed | Caught by (signature of the reported violation) |\n|---|---|---|\n" + "\n".join(rows) + "\n"
p = os.path.join(ROOT, "DESIGN.md")
s = open(p).read()
a = s.index("| Seed | File changed |")
b = s.index("\n\n", a)
s = s[:a] + table.rstrip("\n") + s[b:]
open(p, "w").write(s)
print(len(rows), "seeds,", missed, "missed")
