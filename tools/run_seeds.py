#!/usr/bin/env python3
"""Runs the registered quick check of every seeded change's property against the change
(applied to /repo, undone straight afterwards) and records the outcome in its meta.json."""
import glob
import json
import os
import re
import subprocess
import sys

ROOT = os.path.dirname(os.path.dirname(os.path.abspath(__file__)))
only = sys.argv[1:]
for meta_path in sorted(glob.glob(os.path.join(ROOT, "seeded", "*", "meta.json"))):
    d = os.path.dirname(meta_path)
    meta = json.load(open(meta_path))
    if only and meta["name"] not in only and meta["property"] not in only:
        continue
    patch = os.path.join(d, "patch.diff")
    if subprocess.run(["git", "-C", "/repo", "apply", "--check", patch]).returncode != 0:
        print(meta["name"], "patch no longer applies")
        continue
    subprocess.run(["git", "-C", "/repo", "apply", patch], check=True)
    try:
        p = subprocess.run(["./check", meta["property"], "--tier", "quick"], cwd=ROOT, capture_output=True, text=True)
    finally:
        subprocess.run(["git", "-C", "/repo", "checkout", "--", "."], check=True)
    m = re.search(r"VIOLATION property=(\S+) replay=(\S+)( no-failing-input-found)?", p.stdout)
    res = {"check_exit": p.returncode, "violation_line": m.group(0) if m else None}
    if m and os.path.exists(m.group(2)):
        r = json.load(open(m.group(2)))
        f = r.get("failure") or {}
        res["signature"] = f.get("signature")
        res["what"] = (f.get("what") or "")[:300]
        res["broken_obligations"] = [b["name"] for b in r.get("broken_obligations", [])]
        os.remove(m.group(2))
    meta["detected_by_check"] = res
    json.dump(meta, open(meta_path, "w"), indent=1)
    print(meta["name"], "DETECTED" if p.returncode == 1 and m else "MISSED", res.get("signature"))
