#!/usr/bin/env python3
"""Regenerates MANIFEST.json from the table below (run after adding a check)."""
import json
import os

ROOT = os.path.dirname(os.path.dirname(os.path.abspath(__file__)))
props = [json.loads(l) for l in open(os.path.join(ROOT, "properties.jsonl"))]

TECH = "Lean 4 proof over regenerated (T1/T2) and hand-written models + differential correspondence with the real code"

CHECKS = {
    "C18": dict(
        category="proof",
        text="Lean theorems: MergeErrors is associative with nil as unit (merge_assoc, assoc_obs: every parenthesisation of a sequence gives the same result) with closed forms for message, name, flags, history and causes; the HTTP/gRPC status tables and the gRPC struct round trip are proved over definitions regenerated from /repo on every run (gotolean). The MergeErrors model is hand-written and tied by a differential run of the real function against the compiled Lean model on exhaustive small and random merge trees; the property is also evaluated directly on the implementation's observations.",
        note="Trusted: Lean kernel; gotolean translator (cross-checked against the real functions each run); value-level model of MergeErrors (pointer identity erased, ownership argument in DESIGN.md) validated by correspondence; errors.As/Join/Is and protobuf status details are library behaviour, exercised not proved.",
        ref="DESIGN.md §3 C18"),
    "C15": dict(
        category="proof",
        text="Lean theorems over a model of RequestDecoder/ResponseEncoder/ResponseDecoder/SetContentType with mime.ParseMediaType as an oracle: the encoder is never nil, JSON fallback, response round trip for every Accept x designed content type without a pre-set header (resp_roundtrip, under two explicit parser hypotheses checked on the real mime package in every run), a partial theorem plus kernel-checked negation witnesses for pre-set headers (two known findings), request table, 415 for unsupported media types (over the regenerated StatusCode). Tie: differential run of the real functions, with real codecs and a real encode/decode round trip, against the compiled model.",
        note="Trusted: Lean kernel; hand-written selection model validated by correspondence (0 disagreements required); stdlib codecs and mime parser are exercised, not proved; request-side pre-set Content-Type outside the quantifier.",
        ref="DESIGN.md §3 C15"),
    "C19": dict(
        category="proof",
        text="Lean theorems over a model of the request-ID options/selection/truncation, the trace middleware, the traced client and chains of calls, and ResponseCapture: non-empty ID, trusted value truncated to the byte limit, fresh otherwise; an inbound trace ID is kept regardless of sampling and discards; by induction over chain depth every hop shares the trace ID and has the previous hop's span as parent; sampling 0/100 exact for every RNG (over fixedSampler.Sample regenerated from /repo); capture_exact: captured status/length equal what the underlying writer sent for every WriteHeader/Write sequence. Tie: the real HTTP middleware and both gRPC interceptors (unary, stream), real WrapDoer/UnaryClientTrace/StreamClientTrace in chains, real ResponseCapture over a recorder, all compared line by line with the compiled model.",
        note="Trusted: Lean kernel; hand-written model validated by correspondence; gotolean for the sampler; adaptive sampler arithmetic (floats, clock) and 1xx informational codes not modelled; crypto/rand IDs canonicalised as FRESH.",
        ref="DESIGN.md §3 C19"),
    "C17": dict(
        category="proof",
        text="Lean theorems: the ip/ipv4/ipv6 relations hold for every behaviour of the library parsers; the dispatch covers exactly the 14 named formats and rejects every other name (table regenerated from /repo); exact characterisation of goa's hostname regex as written and a kernel-checked witness that it is not the host name format (known finding); spec dotted quads match goa's IPv4 regex; the pattern cache as an interleaving transition system: under every schedule of the atomic steps the cache maps a pattern only to its own compiled form and every verdict is match(compile p) v of the call's own arguments (history- and schedule-independence), with the lock/key discipline the model assumes decided over facts extracted from the real ValidatePattern. Tie: real ValidateFormat verdicts vs Lean specification recognisers (date, ipv4, uuid, mac, cidr, hostname) and vs validity-by-construction for the other formats; ValidatePattern vs regexp.MatchString over long sequential histories and under the race detector.",
        note="Partial on schedules: the Go memory model is not modelled (race detector explores, theorem covers interleavings of modelled atomic steps). Library parsers are exercised, not proved; spec recognisers are hand-written specifications.",
        ref="DESIGN.md §3 C17"),
    "C11": dict(
        category="proof",
        text="Lean theorems over a statement-by-statement model of Context.Roots/sortDependencies and RunDSL: phases_barrier (for every world, registration order and DSL behaviour the callback trace is D* P* V* F*), exec_errors_gate and validation_errors_together (all errors of a phase returned together, nothing later runs), finalize_only_if_ok, roots_nodup, roots_complete, and kernel-checked witnesses for the two known findings (self-dependency not reported; DSL of an expression appended during execution never runs). The topological-order claim of Roots is decided by exhaustive enumeration of every irreflexive digraph on <=4 roots x every registration order on the real engine plus correspondence with the model (theorem roots_topo: see DESIGN.md for status). Tie: real eval engine with instrumented roots/expressions vs the compiled model, 0 disagreements required.",
        note="Trusted: Lean kernel; hand-written model (fuel-bounded recursion) validated by correspondence; DependsOn returning never-registered roots is outside the envelope (characterised by correspondence only).",
        ref="DESIGN.md §3 C11"),
    "C16": dict(
        category="proof",
        text="Lean theorems over a byte-level model of url.PathEscape/PathUnescape, the server's Path/RawPath split, chi's choice of routing path and goa's Vars: unescape(pathEscape v) = v and 'an escaped value is one segment' for every byte string; vars_roundtrip_param / vars_roundtrip_catchall: a URL built by substituting the escaped value into /l/{name} or /l/{*name} yields exactly the original bytes in Vars for every value (both the RawPath and the decoded-path branch, the latter via 'if the two escaping modes agree the value contains no slash'); the wildcard table keeps names per method. Tie: real muxer behind http.ReadRequest and real net/url vs the compiled model on built URLs (expected route and values known independently) and arbitrary paths; 404 body decoded.",
        note="chi's radix tree is not modelled: a specification matcher stands for it (trusted, validated by the run; ambiguous requests not compared). Theorems are stated for one literal segment followed by one wildcard; multi-wildcard patterns are covered by the correspondence and the direct oracle.",
        ref="DESIGN.md §3 C16"),
    "C13": dict(
        category="proof",
        text="Lean theorems over a model of expr.Hash that reproduces the exact hash strings (separators regenerated from /repo): hash_congr (graphs that agree on sorted attribute lists, types, field tags and effective names hash identically from every node and seen-table), hence hash_perm_object / hash_perm_union (declaration order of attributes/alternatives with distinct names is irrelevant, all flags, cyclic graphs included) and hash_order_indep (any reordering of a metadata map is irrelevant); hash_not_complete: kernel-checked witness that equal hash does not imply equality (known finding). Copy independence (Dup/DupAtt) is decided on the implementation: structural equality of the copy, reflective scan for shared mutable cells, mutation scripts; six defects were repaired (fix: commits), shared result-type views remain a known finding.",
        note="Partial: no Lean heap model of Dup yet (independence is an implementation-side oracle over generated graphs, not a theorem); termination of Hash on object-free cycles (not DSL-reachable) not covered.",
        ref="DESIGN.md §3 C13"),
    "C01": dict(
        category="translation_validation",
        text="Translation validation per design: every design of the stream goes through goa's real DSL, eval and the gen + example generators in a fresh process (panic, error, timeout captured) and every emitted package is type-checked and built with `go build ./...` against /repo; the stream visits every cell of the first-order feature table systematically and then combines features at random. Proved core in Lean: codegen.NameScope.Unique/HashedUnique (hand model, differential correspondence): the probing loop always terminates with a fresh name (pigeonhole over the finitely many reserved names), every history of Unique calls returns pairwise distinct names, HashedUnique is a stable injective function of the hash.",
        note="The universal claim 'all accepted designs compile' is not a Lean theorem: it is decided per program by the Go type checker. Streaming, multipart, file servers and gRPC are not generated yet; goa.design/clue is replaced by a stub module (example mains are checked against its signatures only).",
        ref="DESIGN.md §3 C01", technique="translation validation (Go type checker per generated program) + Lean 4 proof of the identifier-allocation core with differential correspondence"),
    "C02": dict(
        category="proof",
        text="Lean theorems (Props/C02.lean): for every integer kind and every value in its range parse(format n) = n, booleans likewise, out-of-range text is refused (no wrap-around), formatting is injective, and the location partition is exact (an attribute is in the body iff no path/query/header/cookie mapping names it); the wire strings the real generated clients produce are compared with the model's format and parsed back. End to end: per design goa generates client and server, the glue links them, and valid payloads from a type-directed boundary generator are sent through the generated client; the value the service method received must equal the value sent (seven classes of genuine deviations are recorded as known findings: unescaped path values, cookie octets, zero values of defaulted attributes, empty strings outside bodies).",
        note="The end-to-end claim for all designs is decided by executing the generated code (per design and value), not by a Lean theorem about the generators; JSON codec, net/http header/cookie sanitising are library code; streaming not generated yet; floats restricted to dyadic rationals.",
        ref="DESIGN.md §3 C02/C03", technique="Lean 4 proof of the string transport and location partition + execution of generated client/server pairs (translation validation by round trip)"),
    "C04": dict(
        category="proof",
        text="Specification of the design's validations as a Lean function (Model/Validation.lean: violations, handle) with theorems in Props/C04.lean: the method is invoked iff no rule is broken, a rejection names a broken rule, inclusive vs exclusive bounds at the boundary, lengths in runes, recursion through arrays, map keys and values, nested objects, required vs optional. Tie T5: per design the generated server and client are built and boundary values, wrong JSON types, nulls, out-of-type-range numbers, dropped parameters and invalid results are sent; drv_valid judges each (attribute, value) pair and verdicts are compared with 'service invoked / 400 + error name / client error'.",
        note="The theorems are about the specification; that the code generator implements it is decided per design and value by execution, not by a Lean theorem about codegen/validation.go (gen_correct is future work). Format and pattern verdicts are oracle bits (C17 owns the validators). Unions, views, Extend/Reference, multipart and streaming are not generated yet.",
        ref="DESIGN.md §3 C04", technique="Lean 4 specification + proved gate/boundary/recursion theorems, tied to the generated code by differential execution of generated servers and clients against the Lean driver"),
    "C05": dict(
        category="proof",
        text="Model/ErrorMap.lean: the error-name -> response table of an endpoint after inheritance (method, service, API level), the generated error encoder's dispatch on GoaErrorName with the default encoder (status function translated from http/error.go by gotolean, tie T1), and the generated client's dispatch by status code and goa-error header. Props/C05.lean: a declared error is written with its designed status and name header; the method's mapping wins over the service's, the service's over the API's; a plain error becomes the 500 fault; an undeclared ServiceError gets the status of its flags (full table); the client attributes a declared error to the same name also when several errors share a status; unknown statuses are never attributed to a declared error. Tie T5: scripted errors (declared incl. inherited, custom and primitive types, ServiceErrors with declared names, plain, undeclared/wrapped with all flag combinations) through generated servers and clients, wire and client error compared with drv_errmap, WriteHeader counted.",
        note="table/encode/clientName are hand-written from expr/http_endpoint.go and the templates (only the status function is translated); their agreement with generated code is established per design by execution. Error types shared by several errors, views on errors, and the goa-attribute-* headers of unmapped ErrorResult attributes are not generated yet; request-decoding error names are covered under C04.",
        ref="DESIGN.md §3 C05", technique="Lean 4 proof over a model with a translated core (gotolean) + differential execution of generated servers/clients against the Lean driver"),
    "C06": dict(
        category="proof",
        text="Model/Security.lean: inheritance of requirements (NoSecurity, method, service, API), the generated endpoint's chain (requirements tried in order while the previous one failed; inside a requirement callbacks run until one refuses) with the exact callback order, and the credential a callback receives (prefix before the first space removed for header credentials). Props/C06.lean: the method runs iff unsecured or some requirement has all schemes accept; a refusal is the error of a refusing callback of the last requirement; only schemes of the effective requirements are consulted; inheritance laws; bearer prefix removal. Tie T5: every accept/reject vector x credential strings on generated servers with a recording Auther, callback sequence, credentials, scheme and required scopes, method-ran flag and the caller's error compared with drv_sec.",
        note="The chain and inheritance models are hand-written from the template and expr/method.go; agreement with generated code is by execution per design. Usernames without ':' and printable-ASCII credentials only; methods with two credentials in one header are checked for the gate only; OAuth2 flows and gRPC metadata credentials are not exercised.",
        ref="DESIGN.md §3 C06", technique="Lean 4 proof over the requirement-chain model + differential execution of generated secured endpoints against the Lean driver"),
    "C07": dict(
        category="proof",
        text="Model/OpenAPI.lean gives the meaning of 'the document lists exactly the mounted operations': the rewriting of mounted route patterns into OpenAPI path templates (catch-alls become ordinary variables, literals untouched, variable order kept), the set comparison of documented and mounted (method, template) pairs and the consistency of declared path parameters with the template's variables; Props/C07.lean proves that the comparison reports nothing iff the sets are equal and that everything it reports is a genuine difference. Tie: per design goa generates the four documents and the server; the generated Mount functions run against a recording muxer (what the server really mounts), the documents are loaded and validated by an independent implementation (kin-openapi; v2 also through its conversion to v3; JSON and YAML renderings compared as trees), and parameters (name, location, required), request body presence, response codes and security requirements are compared with what the design maps. drv_oas (compiled from the Lean model) decides the operation-set and path-parameter comparisons.",
        note="Validity of the documents against the OpenAPI specifications is decided by a library (kin-openapi + the extra 2.0 rules of harness/cmd/rtopenapi), not proved. The Lean model covers the operation-set/template/path-parameter part; expected parameters, bodies, codes and security are derived from the design IR by vlib/c07.py. File servers, multiple routes per endpoint and openapi:* metadata are not generated yet.",
        ref="DESIGN.md §3 C07", technique="Lean 4 proof of the operation-set/template comparison + differential check of generated documents (independent OpenAPI loader/validator) against the routes the generated server mounts"),
    "C09": dict(
        category="proof",
        text="Model/FS.lean: the output directory as a transition system (File.Render with O_APPEND, SkipExist and whole-file formatting; the removal of gen's sub-directories before gen; gen, example, user edits and deletions). Props/C09.lean: gen_state_independent (inside gen's sub-directories the result of gen does not depend on the prior state at all), gen_frame, gen_idempotent, gen_content (each file holds exactly its own rendering, nothing appended), example_preserves (content and write count of every existing file), edit_survives (any later sequence of gen/example), history_gen_same (every history ending in gen has the gen/ part of a fresh run), render_twice_appends (why the cleanup is needed). Map iteration order: one order-independence lemma per loop shape (collect-then-sort, keyed store, per-entry, existence test, counters; first-match is proved order-DEPENDENT with a witness and order-free under uniqueness) and sites_accounted, decided by `decide` over the table of every `range` over a map in the generator packages, regenerated from /repo's working tree by gofacts in every run. Tie: the real goa command (cmd/goa built from the working tree) on real directories: 2-4 fresh processes per design, gen over its own output, stale files, example, every example file edited / emptied / deleted, example, gen, example-then-gen, and two generations in one process; sha256, mtime and file lists compared; the final directory of each history compared with drv_fs compiled from the model.",
        note="The map-range shape classifier and the reviewed list are a static analysis with manual review, not a proof that every loop body is order-free; the dynamic runs (Go randomises map iteration per loop and per process) are the search. A second generation in the same process is done the way goa's own tests do it (fresh DSL evaluation, package-level caches service.Services/HTTPServices/GRPCServices/openapi.Definitions emptied); without that reset goa is not repeatable in-process, which is outside its supported use. gofmt/imports.Process is a parameter of the model. Streaming, gRPC and plugins are not generated yet.",
        ref="DESIGN.md §3 C09", technique="Lean 4 proof over a file-system transition model and over a regenerated table of map-range sites + differential runs of the real goa command (histories on real directories) against the Lean driver"),
    "C03": dict(
        category="proof",
        text="Same exchanges as C02, response direction: the result the stub service returns must equal what the generated client hands to the caller, with the designed status code and exactly one WriteHeader; Lean part shared with C02 (string transport of header values, partition).",
        note="The end-to-end claim for all designs is decided by executing the generated code (per design and value), not by a Lean theorem about the generators; JSON codec, net/http header/cookie sanitising are library code; streaming not generated yet; floats restricted to dyadic rationals.",
        ref="DESIGN.md §3 C02/C03", technique="Lean 4 proof of the string transport and location partition + execution of generated client/server pairs (translation validation by round trip)"),
}

m = {
    "version": 1,
    "setup_cmd": "./setup.sh",
    "hooks": {"guard": "verif",
              "enable": "go build -tags verif (harness module /verif/harness replaces goa.design/goa/v3 => /repo)",
              "baseline_off_cmd": "cd /repo && go test -mod=mod -json -vet=off -count=1 -timeout 25m ./...",
              "source_commits": [], "add_only": True},
    "engines": [{"name": "lean-proof+correspondence", "path": "/verif/check", "serves_properties": sorted(CHECKS),
                 "kind_free_text": "Lean 4 theorems over executable models (lean/GoaVerif), tied to /repo by regenerated definitions (gotolean/gofacts) and by differential correspondence runs (harness/cmd/rt*) against line-protocol drivers compiled from the same Lean models"}],
    "checks": [],
    "not_applicable": [],
    "notes": "See DESIGN.md. fix: commits in /repo are listed in known_findings.json (status fixed). Properties are added to 'checks' as their machinery lands; until then they are listed under not_applicable with the reason 'not built yet'.",
}
for pid in sorted(CHECKS):
    c = CHECKS[pid]
    m["checks"].append({
        "property_id": pid, "quick_cmd": "./check %s --tier quick" % pid, "thorough_cmd": "./check %s --tier thorough" % pid,
        "evidence_file": "evidence/%s.json" % pid, "replay_cmd_template": "./check %s --replay {path}" % pid,
        "engine": "lean-proof+correspondence",
        "level_claimed": {"category": c["category"], "text": c["text"], "design_ref": c["ref"]},
        "level_note": c["note"], "technique": c.get("technique", TECH)})
NA = {}
for p in props:
    if p["id"] not in CHECKS:
        m["not_applicable"].append({"property_id": p["id"], "reason": NA.get(
            p["id"], "check not built yet in this session (planned: DESIGN.md §3); not a statement that the technique cannot apply")})
json.dump(m, open(os.path.join(ROOT, "MANIFEST.json"), "w"), indent=1)
print("claimed:", sorted(CHECKS))
