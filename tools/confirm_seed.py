#!/usr/bin/env python3
"""Confirms a candidate seeded change in a scratch worktree and files it under /verif/seeded/<id>/.

usage: confirm_seed.py <property> <name> <patch.diff> <demo_test.go> [--race]
The first line of the demo names the directory it goes into and the go test command."""
import json
import os
import re
import shutil
import subprocess
import sys

ENV = dict(os.environ, GOFLAGS="-mod=mod", GOPROXY="off", GOSUMDB="off", GOTOOLCHAIN="local")
BASE_FAIL = {"TestProtoFiles", "TestMessageDefSection"}


def sh(cmd, cwd):
    p = subprocess.run(cmd, cwd=cwd, env=ENV, shell=True, capture_output=True, text=True)
    return p.returncode, p.stdout + p.stderr


def failing_tests(out):
    return {m.group(1).split("/")[0] for m in re.finditer(r"--- FAIL: (\S+)", out)}


def main():
    prop, name, patch, demo = sys.argv[1:5]
    wt = "/tmp/seedwt-%s" % name
    sh("git -C /repo worktree remove --force %s" % wt, "/")
    rc, out = sh("git -C /repo worktree add --detach %s HEAD" % wt, "/")
    assert rc == 0, out
    meta = {"property": prop, "name": name, "base_commit": sh("git -C /repo rev-parse --short HEAD", "/")[1].strip(), "ran": []}
    try:
        first = " ".join(l.strip().lstrip("/").strip() for l in open(demo).readlines()[:4])
        m = re.search(r"go test.*?(\./[\w/.]+)", first)
        cmd = m.group(0).strip() if m else None
        if "--dir" in sys.argv:
            os.makedirs(os.path.join(wt, sys.argv[sys.argv.index("--dir") + 1]), exist_ok=True)
        d = re.search(r"(?:into|in|to)\s+`?([\w/.-]+)/?`?", first)
        target = None
        for cand in ([sys.argv[sys.argv.index("--dir") + 1]] if "--dir" in sys.argv else []) + re.findall(r"[\w./-]+/", first) + re.findall(r"\./([\w/]+)", cmd or ""):
            c = cand.strip("./")
            if c and os.path.isdir(os.path.join(wt, c)):
                target = c
                break
        assert cmd and target, "cannot parse demo header: " + first
        rc, out = sh("git apply %s" % os.path.abspath(patch), wt)
        assert rc == 0, "patch does not apply: " + out
        rc, out = sh("go build ./...", wt)
        meta["ran"].append({"cmd": "go build ./... (with change)", "rc": rc})
        assert rc == 0, out
        rc, out = sh("go test -vet=off -count=1 ./... 2>&1", wt)
        ft = failing_tests(out)
        if ft - BASE_FAIL and "xray" in out:
            rc, out2 = sh("go test -vet=off -count=1 ./grpc/middleware/xray/ 2>&1", wt)  # port clash with parallel runs
            ft = (ft - failing_tests(out)) | failing_tests(out2) | (failing_tests(out) & BASE_FAIL)
        meta["ran"].append({"cmd": "go test -vet=off -count=1 ./... (with change)", "failing_top_level_tests": sorted(ft)})
        assert ft <= BASE_FAIL, "existing tests fail with the change: %s" % sorted(ft)
        shutil.copy(demo, os.path.join(wt, target, "zz_demo_test.go"))
        rc1, out1 = sh(cmd, wt)
        meta["ran"].append({"cmd": cmd + " (with change)", "rc": rc1})
        sh("git apply -R %s" % os.path.abspath(patch), wt)
        rc2, out2 = sh(cmd, wt)
        meta["ran"].append({"cmd": cmd + " (without change)", "rc": rc2})
        assert rc1 != 0, "demo passes with the change"
        assert rc2 == 0, "demo fails without the change: " + out2[-800:]
        dst = os.path.join("/verif/seeded", name)
        os.makedirs(dst, exist_ok=True)
        shutil.copy(patch, os.path.join(dst, "patch.diff"))
        shutil.copy(demo, os.path.join(dst, os.path.basename(demo) if demo.endswith("_test.go") else "demo_test.go"))
        meta["demo_dir"] = target
        meta["demo_cmd"] = cmd
        meta["confirmed"] = True
        json.dump(meta, open(os.path.join(dst, "meta.json"), "w"), indent=1)
        print("CONFIRMED", name)
    except AssertionError as e:
        print("REJECTED", name, str(e)[:500])
    finally:
        sh("git -C /repo worktree remove --force %s" % wt, "/")


main()
