/-
Lean counterparts of the few Go standard-library functions that translated
code (tie T1) may call. Strings are compared as UTF-8 byte sequences, like Go.
-/
namespace GoaVerif.GoLib

def hasPrefix (s p : String) : Bool := p.toUTF8.toList.isPrefixOf s.toUTF8.toList
def hasSuffix (s p : String) : Bool := p.toUTF8.toList.isSuffixOf s.toUTF8.toList
def strLen (s : String) : Int := s.utf8ByteSize

end GoaVerif.GoLib
