/-
Hex transport of byte strings for the line protocol (core-only).
Strings cross the Go/Lean boundary hex-encoded so arbitrary bytes survive.
-/
namespace GoaVerif

def hexDigit (n : Nat) : Char :=
  if n < 10 then Char.ofNat (48 + n) else Char.ofNat (87 + n)

def hexVal (c : Char) : Option Nat :=
  if '0' ≤ c ∧ c ≤ '9' then some (c.toNat - 48)
  else if 'a' ≤ c ∧ c ≤ 'f' then some (c.toNat - 87)
  else if 'A' ≤ c ∧ c ≤ 'F' then some (c.toNat - 55)
  else none

def bytesToHex (bs : List UInt8) : String :=
  String.ofList (bs.flatMap fun b => [hexDigit (b.toNat / 16), hexDigit (b.toNat % 16)])

def hexToBytesAux : List Char → Option (List UInt8)
  | [] => some []
  | [_] => none
  | a :: b :: rest => do
    let x ← hexVal a
    let y ← hexVal b
    let r ← hexToBytesAux rest
    pure (UInt8.ofNat (x * 16 + y) :: r)

/-- `-` encodes the empty byte string (so every token is non-empty). -/
def hexToBytes (s : String) : Option (List UInt8) :=
  if s == "-" then some [] else hexToBytesAux s.toList

def encBytes (bs : List UInt8) : String :=
  if bs.isEmpty then "-" else bytesToHex bs

def hexToString (s : String) : Option String := do
  let bs ← hexToBytes s
  String.fromUTF8? (ByteArray.mk bs.toArray)

def encString (s : String) : String := encBytes s.toUTF8.toList

def boolTok (b : Bool) : String := if b then "1" else "0"

def words (line : String) : List String :=
  (line.splitOn " ").filter (· ≠ "")

end GoaVerif
