import GoaVerif.Model.PatternCache
namespace GoaVerif.PatternCache

theorem lookup_ok {R} (W : World R) (c : Cache R) (h : CacheOK W c) (p : String) (r : R)
    (hl : lookup c p = some r) : r = W.compile p := by
  unfold lookup at hl
  split at hl
  · rename_i e he
    simp at hl
    have hm := List.mem_of_find?_eq_some he
    have hp := List.find?_some he
    simp at hp
    rw [← hl, h e hm, hp]
  · simp at hl

theorem stepThread_ok {R} (W : World R) (c : Cache R) (t : Thread R)
    (hc : CacheOK W c) (ht : ThreadOK W t) :
    CacheOK W (stepThread W c t).1 ∧ ThreadOK W (stepThread W c t).2 ∧
    (stepThread W c t).2.p = t.p ∧ (stepThread W c t).2.v = t.v := by
  unfold stepThread
  cases hpc : t.pc with
  | start =>
    simp only
    cases hl : lookup c t.p with
    | some r => exact ⟨hc, by simp [ThreadOK, lookup_ok W c hc t.p r hl], rfl, rfl⟩
    | none => exact ⟨hc, by simp [ThreadOK], rfl, rfl⟩
  | haveR r w =>
    have hr : r = W.compile t.p := by simpa [ThreadOK, hpc] using ht
    cases w with
    | true =>
      refine ⟨?_, by simp [ThreadOK, hr], rfl, rfl⟩
      intro e he
      simp only [List.mem_cons] at he
      rcases he with rfl | he
      · exact hr
      · exact hc e he
    | false => exact ⟨hc, by simp [ThreadOK, hr], rfl, rfl⟩
  | done b => exact ⟨hc, by simpa [hpc] using ht, rfl, rfl⟩

theorem step_inv {R} (W : World R) (s : State R) (i : Nat) (h : Inv W s) : Inv W (step W s i) := by
  unfold step
  cases hi : s.threads[i]? with
  | none => exact h
  | some t =>
    have ht : t ∈ s.threads := List.mem_of_getElem? hi
    obtain ⟨h1, h2, _, _⟩ := stepThread_ok W s.cache t h.1 (h.2 t ht)
    refine ⟨h1, ?_⟩
    intro t' ht'
    simp only at ht'
    rcases List.mem_or_eq_of_mem_set ht' with hm | rfl
    · exact h.2 t' hm
    · exact h2

theorem run_inv {R} (W : World R) (s : State R) (sched : List Nat) (h : Inv W s) :
    Inv W (run W s sched) := by
  unfold run
  induction sched generalizing s with
  | nil => exact h
  | cons i rest ih => exact ih _ (step_inv W s i h)

/-- the calls (pattern, value) of each thread never change -/
theorem step_calls {R} (W : World R) (s : State R) (i : Nat) :
    (step W s i).threads.map (fun t => (t.p, t.v)) = s.threads.map (fun t => (t.p, t.v)) := by
  unfold step
  cases hi : s.threads[i]? with
  | none => rfl
  | some t =>
    simp only
    rw [List.map_set]
    have := (stepThread_ok_pv W s.cache t)
    rw [this]
    obtain ⟨hlt, hget⟩ := List.getElem?_eq_some_iff.mp hi
    have hlt' : i < (s.threads.map (fun t => (t.p, t.v))).length := by simpa using hlt
    have : (s.threads.map (fun t => (t.p, t.v)))[i] = (t.p, t.v) := by simp [hget]
    rw [← this]
    exact List.set_getElem_self hlt'
where
  stepThread_ok_pv {R} (W : World R) (c : Cache R) (t : Thread R) :
      ((stepThread W c t).2.p, (stepThread W c t).2.v) = (t.p, t.v) := by
    unfold stepThread
    cases t.pc with
    | start => simp only; cases lookup c t.p <;> rfl
    | haveR r w => cases w <;> rfl
    | done b => rfl

theorem run_calls {R} (W : World R) (s : State R) (sched : List Nat) :
    (run W s sched).threads.map (fun t => (t.p, t.v)) = s.threads.map (fun t => (t.p, t.v)) := by
  unfold run
  induction sched generalizing s with
  | nil => rfl
  | cons i rest ih => rw [List.foldl_cons, ih, step_calls]

end GoaVerif.PatternCache
