import GoaVerif.Model.DupHeap
/-!
C13 — the copy made by `Dup` is EQUAL to the original (`Lemmas/DupHeap.lean` shows it is independent).

`h0` is the heap before the copy. The proof threads a *copy relation* `M` (pairs old address / new
address) through `dup`: every recorded pair is either still being built (a user type whose shallow
copy is allocated and memoised but whose attribute is not copied yet) or its two cells `Match`:
same constructor, same names and contents, pointers related by `M` (or the same shared primitive;
the `views` pointer of a result type is the same pointer — known finding, see `views_shared`).
From that, `obs` (the tree seen from a pointer, to any depth) is the same for the copy.
-/
namespace GoaVerif.DupHeap

variable (h0 : List Cell)

/-- `p'` is the copy of `p`: a recorded pair, or the same shared primitive -/
def Rel (M : List (Nat × Nat)) (p p' : Nat) : Prop :=
  (p, p') ∈ M ∨ (p = p' ∧ ∃ n, h0[p]? = some (.prim n))

def ROpt (R : Nat → Nat → Prop) : Option Nat → Option Nat → Prop
  | none, none => True
  | some p, some p' => R p p'
  | _, _ => False

def RList (R : Nat → Nat → Prop) : List (String × Nat) → List (String × Nat) → Prop
  | [], [] => True
  | (n, a) :: fs, (n', a') :: fs' => n = n' ∧ R a a' ∧ RList R fs fs'
  | _, _ => False

def Match (R : Nat → Nat → Prop) : Cell → Cell → Prop
  | .prim n, .prim n' => n = n'
  | .arr e, .arr e' => R e e'
  | .map k e, .map k' e' => R k k' ∧ R e e'
  | .obj fs, .obj fs' => RList R fs fs'
  | .union n vs, .union n' vs' => n = n' ∧ RList R vs vs'
  | .user id a v, .user id' a' v' => id = id' ∧ R a a' ∧ v = v'
  | .att t m v, .att t' m' v' => R t t' ∧ ROpt R m m' ∧ ROpt R v v'
  | .blob s, .blob s' => s = s'
  | _, _ => False

theorem Rel.mono {M M' : List (Nat × Nat)} (hs : ∀ p ∈ M, p ∈ M') {p p' : Nat} (h : Rel h0 M p p') : Rel h0 M' p p' :=
  h.imp (hs _) id

theorem ROpt.mono {R R' : Nat → Nat → Prop} (hr : ∀ a b, R a b → R' a b) {x y : Option Nat} (h : ROpt R x y) : ROpt R' x y := by
  cases x <;> cases y <;> simp_all [ROpt]

theorem RList.mono {R R' : Nat → Nat → Prop} (hr : ∀ a b, R a b → R' a b) :
    ∀ {x y : List (String × Nat)}, RList R x y → RList R' x y
  | [], [], _ => trivial
  | (_, _) :: _, (_, _) :: _, h => ⟨h.1, hr _ _ h.2.1, RList.mono hr h.2.2⟩
  | [], _ :: _, h => by simp [RList] at h
  | _ :: _, [], h => by simp [RList] at h

theorem Match.mono {R R' : Nat → Nat → Prop} (hr : ∀ a b, R a b → R' a b) {c c' : Cell} (h : Match R c c') : Match R' c c' := by
  cases c <;> cases c' <;> simp only [Match] at h ⊢
  · exact h
  · exact hr _ _ h
  · exact ⟨hr _ _ h.1, hr _ _ h.2⟩
  · exact RList.mono hr h
  · exact ⟨h.1, RList.mono hr h.2⟩
  · exact ⟨h.1, hr _ _ h.2.1, h.2.2⟩
  · exact ⟨hr _ _ h.1, ROpt.mono hr h.2.1, ROpt.mono hr h.2.2⟩
  · exact h

/-- the state of a copy in progress -/
structure Inv (pending : List Nat) (σ : St) (M : List (Nat × Nat)) : Prop where
  size : h0.length ≤ σ.heap.length
  frame0 : ∀ i, i < h0.length → σ.heap[i]? = h0[i]?
  old : ∀ p ∈ M, p.1 < h0.length ∧ h0.length ≤ p.2 ∧ p.2 < σ.heap.length
  pairs : ∀ p ∈ M, ∃ c c', h0[p.1]? = some c ∧ σ.heap[p.2]? = some c' ∧
    ((p.2 ∈ pending ∧ c' = c) ∨ (p.2 ∉ pending ∧ Match (Rel h0 M) c c'))
  pend : ∀ u ∈ pending, u < σ.heap.length
  memo : ∀ q ∈ σ.uts, ∃ a at' v, (a, q.2) ∈ M ∧ h0[a]? = some (.user q.1 at' v)

/-- every pointer stored in the original heap stays inside it -/
def Closed : Prop := ∀ (i : Nat) (c : Cell), h0[i]? = some c → ∀ p ∈ c.ptrs, p < h0.length

/-- a type name identifies one cell of the original (`dupper.uts` is keyed by the type's ID) -/
def UniqueIds : Prop := ∀ (x y : Nat) (id : String) (a : Nat) (v : Option Nat) (a' : Nat) (v' : Option Nat),
  h0[x]? = some (Cell.user id a v) → h0[y]? = some (Cell.user id a' v') → x = y

/-- what one call establishes -/
structure Step (pending : List Nat) (σ σ' : St) (M M' : List (Nat × Nat)) : Prop where
  sub : ∀ p ∈ M, p ∈ M'
  inv : Inv h0 pending σ' M'
  len : σ.heap.length ≤ σ'.heap.length
  keep : ∀ i, i < σ.heap.length → σ'.heap[i]? = σ.heap[i]?

theorem Step.refl {pending : List Nat} {σ : St} {M : List (Nat × Nat)} (h : Inv h0 pending σ M) : Step h0 pending σ σ M M :=
  ⟨fun _ hp => hp, h, Nat.le_refl _, fun _ _ => rfl⟩

theorem Step.trans {pending : List Nat} {a b c : St} {M1 M2 M3 : List (Nat × Nat)}
    (s1 : Step h0 pending a b M1 M2) (s2 : Step h0 pending b c M2 M3) : Step h0 pending a c M1 M3 :=
  ⟨fun p hp => s2.sub p (s1.sub p hp), s2.inv, Nat.le_trans s1.len s2.len,
   fun i hi => (s2.keep i (Nat.lt_of_lt_of_le hi s1.len)).trans (s1.keep i hi)⟩

/-- allocating the finished copy `c'` of the original cell at `x` -/
theorem inv_alloc {pending : List Nat} {σ : St} {M : List (Nat × Nat)} (hi : Inv h0 pending σ M)
    (x : Nat) (c c' : Cell) (hx : h0[x]? = some c) (hxl : x < h0.length)
    (hm : Match (Rel h0 M) c c') :
    Step h0 pending σ (alloc σ c').2 M (M ++ [(x, (alloc σ c').1)]) := by
  have hsub : ∀ p ∈ M, p ∈ M ++ [(x, (alloc σ c').1)] := fun p hp => List.mem_append_left _ hp
  have hkeep : ∀ i, i < σ.heap.length → (alloc σ c').2.heap[i]? = σ.heap[i]? := by
    intro i hi'; simp only [alloc]; exact List.getElem?_append_left hi'
  refine ⟨hsub, ⟨?_, ?_, ?_, ?_, ?_, ?_⟩, by simp [alloc], hkeep⟩
  · simp only [alloc, List.length_append, List.length_singleton]; exact Nat.le_succ_of_le hi.size
  · intro i hi'; rw [hkeep i (Nat.lt_of_lt_of_le hi' hi.size)]; exact hi.frame0 i hi'
  · intro p hp
    rcases List.mem_append.mp hp with hp | hp
    · have := hi.old p hp
      exact ⟨this.1, this.2.1, by simp only [alloc, List.length_append, List.length_singleton]; omega⟩
    · simp only [List.mem_singleton] at hp; subst hp
      exact ⟨hxl, hi.size, by simp [alloc]⟩
  · intro p hp
    rcases List.mem_append.mp hp with hp | hp
    · obtain ⟨c1, c2, h1, h2, h3⟩ := hi.pairs p hp
      refine ⟨c1, c2, h1, ?_, ?_⟩
      · rw [hkeep p.2 (hi.old p hp).2.2]; exact h2
      · exact h3.imp id (fun h => ⟨h.1, Match.mono (fun a b => Rel.mono h0 hsub) h.2⟩)
    · simp only [List.mem_singleton] at hp; subst hp
      refine ⟨c, c', hx, by simp [alloc], Or.inr ⟨?_, Match.mono (fun a b => Rel.mono h0 hsub) hm⟩⟩
      intro hmem
      exact Nat.lt_irrefl _ (hi.pend _ hmem)
  · intro u hu
    simp only [alloc, List.length_append, List.length_singleton]
    exact Nat.lt_succ_of_lt (hi.pend u hu)
  · intro q hq
    obtain ⟨a, at', v, h1, h2⟩ := hi.memo q hq
    exact ⟨a, at', v, hsub _ h1, h2⟩

theorem rel_of_alloc {σ : St} {M : List (Nat × Nat)} (x : Nat) (c' : Cell) :
    Rel h0 (M ++ [(x, (alloc σ c').1)]) x (alloc σ c').1 :=
  Or.inl (List.mem_append_right _ (List.mem_singleton.mpr rfl))

theorem heap_at {pending : List Nat} {σ : St} {M : List (Nat × Nat)} (hi : Inv h0 pending σ M) {x : Nat}
    (hx : x < h0.length) : σ.heap[x]? = h0[x]? := hi.frame0 x hx

theorem dupBlob_eq {pending : List Nat} {σ σ' : St} {M : List (Nat × Nat)} {b b' : Option Nat}
    (hi : Inv h0 pending σ M) (hb : ∀ a ∈ b.toList, a < h0.length) (h : dupBlob σ b = some (b', σ')) :
    ∃ M', Step h0 pending σ σ' M M' ∧ ROpt (Rel h0 M') b b' := by
  cases b with
  | none =>
    simp only [dupBlob, Option.some.injEq, Prod.mk.injEq] at h
    obtain ⟨rfl, rfl⟩ := h
    exact ⟨M, Step.refl h0 hi, trivial⟩
  | some a =>
    have ha : a < h0.length := hb a (by simp)
    simp only [dupBlob] at h
    split at h
    · rename_i s hs
      simp only [Option.some.injEq, Prod.mk.injEq] at h
      obtain ⟨rfl, rfl⟩ := h
      rw [heap_at h0 hi ha] at hs
      exact ⟨_, inv_alloc h0 hi a (.blob s) (.blob s) hs ha rfl, rel_of_alloc h0 a (.blob s)⟩
    · simp at h

theorem dupList_eq {pending : List Nat} (f : Nat → St → Option (Nat × St))
    (hf : ∀ a σ r σ' M, Inv h0 pending σ M → a < h0.length → f a σ = some (r, σ') →
      ∃ M', Step h0 pending σ σ' M M' ∧ Rel h0 M' a r) :
    ∀ (fs : List (String × Nat)) (σ : St) (fs' : List (String × Nat)) (σ' : St) (M : List (Nat × Nat)),
      Inv h0 pending σ M → (∀ q ∈ fs, q.2 < h0.length) → dupList f fs σ = some (fs', σ') →
      ∃ M', Step h0 pending σ σ' M M' ∧ RList (Rel h0 M') fs fs' := by
  intro fs
  induction fs with
  | nil =>
    intro σ fs' σ' M hi _ h
    simp only [dupList, Option.some.injEq, Prod.mk.injEq] at h
    obtain ⟨rfl, rfl⟩ := h
    exact ⟨M, Step.refl h0 hi, trivial⟩
  | cons x fs ih =>
    intro σ fs' σ' M hi hq h
    obtain ⟨n, a⟩ := x
    simp only [dupList] at h
    split at h
    · simp at h
    · rename_i a' σ1 h1
      split at h
      · simp at h
      · rename_i fs2 σ2 h2
        simp only [Option.some.injEq, Prod.mk.injEq] at h
        obtain ⟨rfl, rfl⟩ := h
        obtain ⟨M1, s1, r1⟩ := hf a σ a' σ1 M hi (hq (n, a) (by simp)) h1
        obtain ⟨M2, s2, r2⟩ := ih σ1 fs2 σ2 M1 s1.inv (fun q hq' => hq q (List.mem_cons_of_mem _ hq')) h2
        exact ⟨M2, s1.trans h0 s2, rfl, Rel.mono h0 s2.sub r1, r2⟩

theorem RList_ptrs {R : Nat → Nat → Prop} : ∀ {x y : List (String × Nat)}, RList R x y → True := fun _ => trivial

/-- **the copy relation is built**: every call of `DupType` / `DupAttribute` extends the relation so that its
    result is the copy of its argument -/
theorem dup_eq (hc : Closed h0) (hu : UniqueIds h0) : ∀ (fuel : Nat) (pending : List Nat) (mode : Mode) (x : Nat) (σ : St)
    (r : Nat) (σ' : St) (M : List (Nat × Nat)),
    Inv h0 pending σ M → x < h0.length → dup fuel mode x σ = some (r, σ') →
    ∃ M', Step h0 pending σ σ' M M' ∧ Rel h0 M' x r := by
  intro fuel
  induction fuel with
  | zero => intro _ _ _ _ _ _ _ _ _ h; simp [dup] at h
  | succ fuel ih =>
    intro pending mode x σ r σ' M hi hx h
    have hsx := heap_at h0 hi hx
    cases mode with
    | att =>
      simp only [dup] at h
      split at h
      · rename_i t m v hcell
        rw [hsx] at hcell
        have hcl := hc x _ hcell
        split at h
        · simp at h
        · rename_i v' σ1 hv
          split at h
          · simp at h
          · rename_i m' σ2 hm
            split at h
            · simp at h
            · rename_i t' σ3 ht
              simp only [Option.some.injEq, Prod.mk.injEq] at h
              obtain ⟨M1, s1, rv⟩ := dupBlob_eq h0 hi (fun a ha => hcl a (by simp [Cell.ptrs]; exact Or.inr (Or.inr (by simpa using ha)))) hv
              obtain ⟨M2, s2, rm⟩ := dupBlob_eq h0 s1.inv (fun a ha => hcl a (by simp [Cell.ptrs]; exact Or.inr (Or.inl (by simpa using ha)))) hm
              obtain ⟨M3, s3, rt⟩ := ih pending .typ t σ2 t' σ3 M2 s2.inv (hcl t (by simp [Cell.ptrs])) ht
              have hmatch : Match (Rel h0 M3) (.att t m v) (.att t' m' v') :=
                ⟨rt, ROpt.mono (fun a b => Rel.mono h0 s3.sub) rm,
                 ROpt.mono (fun a b => Rel.mono h0 (fun p hp => s3.sub p (s2.sub p hp))) rv⟩
              have s4 := inv_alloc h0 s3.inv x (.att t m v) (.att t' m' v') hcell hx hmatch
              obtain ⟨rfl, rfl⟩ := h
              exact ⟨_, ((s1.trans h0 s2).trans h0 s3).trans h0 s4, rel_of_alloc h0 x _⟩
      · simp at h
    | typ =>
      simp only [dup] at h
      split at h
      · -- primitive: shared
        rename_i n hcell
        rw [hsx] at hcell
        simp only [Option.some.injEq, Prod.mk.injEq] at h
        obtain ⟨rfl, rfl⟩ := h
        exact ⟨M, Step.refl h0 hi, Or.inr ⟨rfl, n, hcell⟩⟩
      · -- array
        rename_i e hcell
        rw [hsx] at hcell
        have hcl := hc x _ hcell
        split at h
        · simp at h
        · rename_i e' σ1 he
          simp only [Option.some.injEq] at h
          obtain ⟨M1, s1, re⟩ := ih pending .att e σ e' σ1 M hi (hcl e (by simp [Cell.ptrs])) he
          have s2 := inv_alloc h0 s1.inv x (.arr e) (.arr e') hcell hx re
          obtain ⟨rfl, rfl⟩ := h
          exact ⟨_, s1.trans h0 s2, rel_of_alloc h0 x _⟩
      · -- map
        rename_i k e hcell
        rw [hsx] at hcell
        have hcl := hc x _ hcell
        split at h
        · simp at h
        · rename_i k' σ1 hk
          split at h
          · simp at h
          · rename_i e' σ2 he
            simp only [Option.some.injEq, Prod.mk.injEq] at h
            obtain ⟨M1, s1, rk⟩ := ih pending .att k σ k' σ1 M hi (hcl k (by simp [Cell.ptrs])) hk
            obtain ⟨M2, s2, re⟩ := ih pending .att e σ1 e' σ2 M1 s1.inv (hcl e (by simp [Cell.ptrs])) he
            have s3 := inv_alloc h0 s2.inv x (.map k e) (.map k' e') hcell hx ⟨Rel.mono h0 s2.sub rk, re⟩
            obtain ⟨rfl, rfl⟩ := h
            exact ⟨_, (s1.trans h0 s2).trans h0 s3, rel_of_alloc h0 x _⟩
      · -- object
        rename_i fs hcell
        rw [hsx] at hcell
        have hcl := hc x _ hcell
        split at h
        · simp at h
        · rename_i fs' σ1 hl
          simp only [Option.some.injEq, Prod.mk.injEq] at h
          obtain ⟨M1, s1, rl⟩ := dupList_eq h0 (dup fuel .att) (fun a σ r σ' M hi ha h => ih pending .att a σ r σ' M hi ha h)
            fs σ fs' σ1 M hi (fun q hq => hcl q.2 (by simp only [Cell.ptrs, List.mem_map]; exact ⟨q, hq, rfl⟩)) hl
          have s2 := inv_alloc h0 s1.inv x (.obj fs) (.obj fs') hcell hx rl
          obtain ⟨rfl, rfl⟩ := h
          exact ⟨_, s1.trans h0 s2, rel_of_alloc h0 x _⟩
      · -- union
        rename_i nm vs hcell
        rw [hsx] at hcell
        have hcl := hc x _ hcell
        split at h
        · simp at h
        · rename_i vs' σ1 hl
          simp only [Option.some.injEq, Prod.mk.injEq] at h
          obtain ⟨M1, s1, rl⟩ := dupList_eq h0 (dup fuel .att) (fun a σ r σ' M hi ha h => ih pending .att a σ r σ' M hi ha h)
            vs σ vs' σ1 M hi (fun q hq => hcl q.2 (by simp only [Cell.ptrs, List.mem_map]; exact ⟨q, hq, rfl⟩)) hl
          have s2 := inv_alloc h0 s1.inv x (.union nm vs) (.union nm vs') hcell hx ⟨rfl, rl⟩
          obtain ⟨rfl, rfl⟩ := h
          exact ⟨_, s1.trans h0 s2, rel_of_alloc h0 x _⟩
      · -- user type
        rename_i id a views hcell
        rw [hsx] at hcell
        have hcl := hc x _ hcell
        split at h
        · -- already copied in this Dup: the memo names the copy of THIS cell (ids are unique)
          rename_i u hlook
          simp only [Option.some.injEq, Prod.mk.injEq] at h
          obtain ⟨rfl, rfl⟩ := h
          have hmem : (id, u) ∈ σ.uts := by
            obtain ⟨l1, l2, e, _⟩ := List.lookup_eq_some_iff.mp hlook
            rw [e]; simp
          obtain ⟨a0, at0, v0, hM, hcell0⟩ := hi.memo (id, u) hmem
          have : a0 = x := hu a0 x id at0 v0 a views hcell0 hcell
          subst this
          exact ⟨M, Step.refl h0 hi, Or.inl hM⟩
        · rename_i hlook
          simp only [alloc] at h
          split at h
          · simp at h
          · rename_i a' σ2 ha
            simp only [Option.some.injEq, Prod.mk.injEq] at h
            obtain ⟨rfl, rfl⟩ := h
            -- the shallow copy is allocated, memoised and pending while the attribute is copied
            have hxa : a < h0.length := hcl a (by simp [Cell.ptrs])
            have hsubM : ∀ p ∈ M, p ∈ M ++ [(x, σ.heap.length)] := fun p hp => List.mem_append_left _ hp
            have hkeep1 : ∀ i, i < σ.heap.length → (σ.heap ++ [Cell.user id a views])[i]? = σ.heap[i]? :=
              fun i hi' => List.getElem?_append_left hi'
            have hi1 : Inv h0 (σ.heap.length :: pending)
                { heap := σ.heap ++ [.user id a views], uts := (id, σ.heap.length) :: σ.uts } (M ++ [(x, σ.heap.length)]) := by
              refine ⟨?_, ?_, ?_, ?_, ?_, ?_⟩
              · simp only [List.length_append, List.length_singleton]; exact Nat.le_succ_of_le hi.size
              · intro i hi'; simp only; rw [hkeep1 i (Nat.lt_of_lt_of_le hi' hi.size)]; exact hi.frame0 i hi'
              · intro p hp
                rcases List.mem_append.mp hp with hp | hp
                · have := hi.old p hp
                  exact ⟨this.1, this.2.1, by simp only [List.length_append, List.length_singleton]; omega⟩
                · simp only [List.mem_singleton] at hp; subst hp
                  exact ⟨hx, hi.size, by simp⟩
              · intro p hp
                rcases List.mem_append.mp hp with hp | hp
                · obtain ⟨c1, c2, h1, h2, h3⟩ := hi.pairs p hp
                  have hlt := (hi.old p hp).2.2
                  refine ⟨c1, c2, h1, by simp only; rw [hkeep1 p.2 hlt]; exact h2, ?_⟩
                  rcases h3 with h3 | h3
                  · exact Or.inl ⟨List.mem_cons_of_mem _ h3.1, h3.2⟩
                  · refine Or.inr ⟨?_, Match.mono (fun a b => Rel.mono h0 hsubM) h3.2⟩
                    intro hmem
                    rcases List.mem_cons.mp hmem with e | e
                    · omega
                    · exact h3.1 e
                · simp only [List.mem_singleton] at hp; subst hp
                  exact ⟨_, _, hcell, by simp, Or.inl ⟨List.mem_cons_self .., rfl⟩⟩
              · intro w hw
                simp only [List.length_append, List.length_singleton]
                rcases List.mem_cons.mp hw with e | e
                · omega
                · exact Nat.lt_succ_of_lt (hi.pend w e)
              · intro q hq
                rcases List.mem_cons.mp hq with e | e
                · subst e
                  exact ⟨x, a, views, List.mem_append_right _ (List.mem_singleton.mpr rfl), hcell⟩
                · obtain ⟨a1, at1, v1, g1, g2⟩ := hi.memo q e
                  exact ⟨a1, at1, v1, hsubM _ g1, g2⟩
            obtain ⟨M2, s2, ra⟩ := ih (σ.heap.length :: pending) .att a _ a' σ2 _ hi1 hxa ha
            have hlen2 : σ.heap.length < σ2.heap.length :=
              Nat.lt_of_lt_of_le (by simp) s2.len
            have hu2 : σ2.heap[σ.heap.length]? = some (.user id a views) := by
              rw [s2.keep _ (by simp)]; simp
            have hxu : (x, σ.heap.length) ∈ M2 := s2.sub _ (List.mem_append_right _ (List.mem_singleton.mpr rfl))
            refine ⟨M2, ⟨fun p hp => s2.sub p (hsubM p hp), ⟨?_, ?_, ?_, ?_, ?_, ?_⟩, ?_, ?_⟩, Or.inl hxu⟩
            · simp; exact s2.inv.size
            · intro i hi'
              simp only
              rw [List.getElem?_set_ne (by have := hi.size; omega)]
              exact s2.inv.frame0 i hi'
            · intro p hp
              have := s2.inv.old p hp
              exact ⟨this.1, this.2.1, by simpa using this.2.2⟩
            · intro p hp
              obtain ⟨c1, c2, g1, g2, g3⟩ := s2.inv.pairs p hp
              by_cases hpu : p.2 = σ.heap.length
              · -- the pair of the user type just completed
                rw [hpu, hu2] at g2
                simp only [Option.some.injEq] at g2
                subst g2
                rcases g3 with g3 | g3
                · refine ⟨c1, .user id a' views, g1, by simp only; rw [hpu, List.getElem?_set_self hlen2], Or.inr ⟨?_, ?_⟩⟩
                  · rw [hpu]; intro hmem; exact Nat.lt_irrefl _ (hi.pend _ hmem)
                  · rw [← g3.2]; exact ⟨rfl, ra, rfl⟩
                · exact absurd (by rw [hpu]; exact List.mem_cons_self ..) g3.1
              · refine ⟨c1, c2, g1, by simp only; rw [List.getElem?_set_ne (Ne.symm hpu)]; exact g2, ?_⟩
                rcases g3 with g3 | g3
                · rcases List.mem_cons.mp g3.1 with e | e
                  · exact absurd e hpu
                  · exact Or.inl ⟨e, g3.2⟩
                · exact Or.inr ⟨fun hmem => g3.1 (List.mem_cons_of_mem _ hmem), g3.2⟩
            · intro w hw
              simp only [List.length_set]
              exact Nat.lt_trans (hi.pend w hw) hlen2
            · exact s2.inv.memo
            · simp only [List.length_set]; exact Nat.le_of_lt hlen2
            · intro i hi'
              simp only
              rw [List.getElem?_set_ne (by omega), s2.keep i (by simp; omega)]
              exact hkeep1 i hi'
      · simp at h

/-! ### what can be observed from a pointer -/

/-- the tree seen from a pointer to depth `n`: constructors, names and contents, never addresses.
    The `views` of a result type are not observed (the copy shares them: known finding). -/
inductive Tree where
  | cut | bad
  | prim (n : String)
  | arr (e : Tree)
  | map (k e : Tree)
  | obj (fs : List (String × Tree))
  | union (n : String) (vs : List (String × Tree))
  | user (id : String) (att : Tree)
  | att (t : Tree) (m v : Option Tree)
  | blob (s : String)

def obs : Nat → List Cell → Nat → Tree
  | 0, _, _ => .cut
  | n + 1, h, p =>
    match h[p]? with
    | none => .bad
    | some (.prim s) => .prim s
    | some (.arr e) => .arr (obs n h e)
    | some (.map k e) => .map (obs n h k) (obs n h e)
    | some (.obj fs) => .obj (fs.map fun f => (f.1, obs n h f.2))
    | some (.union nm vs) => .union nm (vs.map fun f => (f.1, obs n h f.2))
    | some (.user id a _) => .user id (obs n h a)
    | some (.att t m v) => .att (obs n h t) (m.map (obs n h)) (v.map (obs n h))
    | some (.blob s) => .blob s

theorem obs_list {R : Nat → Nat → Prop} {n : Nat} {h h' : List Cell}
    (ih : ∀ p p', R p p' → obs n h' p' = obs n h p) :
    ∀ {fs fs' : List (String × Nat)}, RList R fs fs' →
      (fs'.map fun f => (f.1, obs n h' f.2)) = (fs.map fun f => (f.1, obs n h f.2))
  | [], [], _ => rfl
  | (_, _) :: _, (_, _) :: _, hr => by
    simp only [List.map_cons]
    rw [obs_list ih hr.2.2, ih _ _ hr.2.1, hr.1]
  | [], _ :: _, hr => by simp [RList] at hr
  | _ :: _, [], hr => by simp [RList] at hr

theorem obs_opt {R : Nat → Nat → Prop} {n : Nat} {h h' : List Cell}
    (ih : ∀ p p', R p p' → obs n h' p' = obs n h p) {x y : Option Nat} (hr : ROpt R x y) :
    y.map (obs n h') = x.map (obs n h) := by
  cases x <;> cases y <;> simp_all [ROpt]
  exact ih _ _ hr

/-- when no cell is pending any more, related pointers show the same tree to every depth -/
theorem obs_eq {σ : St} {M : List (Nat × Nat)} (hi : Inv h0 [] σ M) :
    ∀ (n : Nat) (p p' : Nat), Rel h0 M p p' → obs n σ.heap p' = obs n h0 p := by
  intro n
  induction n with
  | zero => intro _ _ _; rfl
  | succ n ih =>
    intro p p' hr
    rcases hr with hr | ⟨rfl, s, hs⟩
    · obtain ⟨c, c', g1, g2, g3⟩ := hi.pairs (p, p') hr
      have hm : Match (Rel h0 M) c c' := by
        rcases g3 with g3 | g3
        · simp at g3
        · exact g3.2
      simp only at g1 g2
      cases c <;> cases c' <;> simp only [Match] at hm <;> simp only [obs, g1, g2]
      · rw [hm]
      · rw [ih _ _ hm]
      · rw [ih _ _ hm.1, ih _ _ hm.2]
      · rw [obs_list ih hm]
      · rw [obs_list ih hm.2, hm.1]
      · rw [ih _ _ hm.2.1, hm.1]
      · rw [ih _ _ hm.1, obs_opt ih hm.2.1, obs_opt ih hm.2.2]
      · rw [hm]
    · have hlt : p < h0.length := by
        rcases Nat.lt_or_ge p h0.length with h | h
        · exact h
        · rw [List.getElem?_eq_none h] at hs; simp at hs
      simp only [obs, hi.frame0 p hlt, hs]

/-- **`expr.Dup` returns an equal copy**: what can be observed from the root of the copy — to any
    depth — is what can be observed from the original root in the original heap. -/
theorem dupTop_equal (hc : Closed h0) (hu : UniqueIds h0) (fuel root r : Nat) (h' : List Cell)
    (hroot : root < h0.length) (h : dupTop fuel h0 root = some (r, h')) :
    ∀ n, obs n h' r = obs n h0 root := by
  unfold dupTop at h
  split at h
  · rename_i r0 σ hd
    simp only [Option.some.injEq, Prod.mk.injEq] at h
    obtain ⟨rfl, rfl⟩ := h
    have hi0 : Inv h0 [] ⟨h0, []⟩ [] :=
      ⟨Nat.le_refl _, fun _ _ => rfl, by simp, by simp, by simp, by simp⟩
    obtain ⟨M, s, hr⟩ := dup_eq h0 hc hu fuel [] .typ root ⟨h0, []⟩ r0 σ [] hi0 hroot hd
    exact fun n => obs_eq h0 s.inv n root r0 hr
  · simp at h

/-! ### the two hypotheses, decidably -/

def closedB (h : List Cell) : Bool := h.all fun c => c.ptrs.all fun p => decide (p < h.length)

theorem closed_of_closedB {h : List Cell} (hb : closedB h = true) : Closed h := by
  intro i c hic p hp
  simp only [closedB, List.all_eq_true, decide_eq_true_eq] at hb
  exact hb c (List.mem_of_getElem? hic) p hp

def userId : Option Cell → Option String
  | some (.user id _ _) => some id
  | _ => none

def uniqueIdsB (h : List Cell) : Bool :=
  (List.range h.length).all fun x => (List.range h.length).all fun y =>
    match userId h[x]?, userId h[y]? with
    | some a, some b => a != b || x == y
    | _, _ => true

theorem uniqueIds_of_uniqueIdsB {h : List Cell} (hb : uniqueIdsB h = true) : UniqueIds h := by
  intro x y id a v a' v' hx hy
  have hxl : x < h.length := by
    rcases Nat.lt_or_ge x h.length with g | g
    · exact g
    · rw [List.getElem?_eq_none g] at hx; simp at hx
  have hyl : y < h.length := by
    rcases Nat.lt_or_ge y h.length with g | g
    · exact g
    · rw [List.getElem?_eq_none g] at hy; simp at hy
  simp only [uniqueIdsB, List.all_eq_true, List.mem_range] at hb
  have := hb x hxl y hyl
  simp only [hx, hy, userId, bne_self_eq_false, Bool.false_or, beq_iff_eq] at this
  exact this

end GoaVerif.DupHeap
