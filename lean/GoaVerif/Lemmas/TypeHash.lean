import GoaVerif.Model.TypeHash
/-! Helper lemmas for C13: sorting permutations with distinct keys, congruence of the hash. -/
namespace GoaVerif.TypeHash

theorem nodup_key_inj {β : Type} (l : List (String × β)) (hd : (l.map (·.1)).Nodup)
    (a b : String × β) (ha : a ∈ l) (hb : b ∈ l) (hkey : a.1 = b.1) : a = b := by
  induction l with
  | nil => simp at ha
  | cons x xs ih =>
    simp only [List.map_cons, List.nodup_cons, List.mem_map, not_exists, not_and] at hd
    rcases List.mem_cons.mp ha with rfl | ha'
    · rcases List.mem_cons.mp hb with rfl | hb'
      · rfl
      · exact absurd hkey.symm (hd.1 b hb')
    · rcases List.mem_cons.mp hb with rfl | hb'
      · exact absurd hkey (hd.1 a ha')
      · exact ih hd.2 ha' hb'

theorem insertBy_perm {α : Type} (le : α → α → Bool) (x : α) (l : List α) : (insertBy le x l).Perm (x :: l) := by
  induction l with
  | nil => exact List.Perm.refl _
  | cons y ys ih =>
    unfold insertBy
    split
    · exact List.Perm.refl _
    · exact (List.Perm.cons y ih).trans (List.Perm.swap x y ys)

theorem isort_perm {α : Type} (le : α → α → Bool) (l : List α) : (isort le l).Perm l := by
  induction l with
  | nil => exact List.Perm.refl _
  | cons x xs ih =>
    show (insertBy le x (isort le xs)).Perm (x :: xs)
    exact (insertBy_perm le x _).trans (List.Perm.cons x ih)

theorem insertBy_pairwise {α : Type} (le : α → α → Bool)
    (trans : ∀ a b c, le a b = true → le b c = true → le a c = true)
    (total : ∀ a b, le a b = true ∨ le b a = true)
    (x : α) (l : List α) (h : l.Pairwise (fun a b => le a b = true)) :
    (insertBy le x l).Pairwise (fun a b => le a b = true) := by
  induction l with
  | nil => simp [insertBy]
  | cons y ys ih =>
    unfold insertBy
    have hy := List.pairwise_cons.mp h
    split
    · rename_i hxy
      refine List.pairwise_cons.mpr ⟨?_, h⟩
      intro z hz
      rcases List.mem_cons.mp hz with rfl | hz
      · exact hxy
      · exact trans _ _ _ hxy (hy.1 z hz)
    · rename_i hxy
      have hyx : le y x = true := by
        rcases total x y with h1 | h1
        · exact absurd h1 hxy
        · exact h1
      refine List.pairwise_cons.mpr ⟨?_, ih hy.2⟩
      intro z hz
      have := (insertBy_perm le x ys).subset hz
      rcases List.mem_cons.mp this with rfl | hz'
      · exact hyx
      · exact hy.1 z hz'

theorem isort_pairwise {α : Type} (le : α → α → Bool)
    (trans : ∀ a b c, le a b = true → le b c = true → le a c = true)
    (total : ∀ a b, le a b = true ∨ le b a = true) (l : List α) :
    (isort le l).Pairwise (fun a b => le a b = true) := by
  induction l with
  | nil => exact List.Pairwise.nil
  | cons x xs ih => exact insertBy_pairwise le trans total x _ ih

/-- sorting by a string key is insensitive to the input order when the keys are distinct -/
theorem isort_perm_eq {β : Type} (l₁ l₂ : List (String × β)) (hp : l₁.Perm l₂)
    (hd : (l₁.map (·.1)).Nodup) :
    isort (fun a b => decide (a.1 ≤ b.1)) l₁ = isort (fun a b => decide (a.1 ≤ b.1)) l₂ := by
  let le : String × β → String × β → Bool := fun a b => decide (a.1 ≤ b.1)
  have trans : ∀ a b c : String × β, le a b = true → le b c = true → le a c = true := by
    intro a b c h1 h2
    simp only [le, decide_eq_true_eq] at *
    exact Std.le_trans h1 h2
  have total : ∀ a b : String × β, le a b = true ∨ le b a = true := by
    intro a b
    simp only [le, decide_eq_true_eq]
    exact Std.le_total
  have s1 := isort_pairwise le trans total l₁
  have s2 := isort_pairwise le trans total l₂
  have p1 := isort_perm le l₁
  have p2 := isort_perm le l₂
  have pp : (isort le l₁).Perm (isort le l₂) := p1.trans (hp.trans p2.symm)
  apply List.Perm.eq_of_pairwise (le := fun a b => le a b = true) _ s1 s2 pp
  intro a b ha hb hab hba
  simp only [le, decide_eq_true_eq] at hab hba
  have hkey : a.1 = b.1 := Std.le_antisymm hab hba
  have ha1 : a ∈ l₁ := p1.subset ha
  have hb1 : b ∈ l₁ := hp.symm.subset (p2.subset hb)
  exact nodup_key_inj l₁ hd a b ha1 hb1 hkey

theorem sortByName_perm (l₁ l₂ : List (String × Nat)) (hp : l₁.Perm l₂) (hd : (l₁.map (·.1)).Nodup) :
    sortByName l₁ = sortByName l₂ := isort_perm_eq l₁ l₂ hp hd

/-- normal form of a node: attribute / alternative lists sorted by name -/
def Node.norm : Node → Node
  | .obj fields => .obj (sortByName fields)
  | .union name vals => .union name (sortByName vals)
  | n => n

/-- what the hash reads of a graph -/
structure Agree (g g' : Graph) : Prop where
  nodes : ∀ k : Nat, (g.nodes[k]?).map Node.norm = (g'.nodes[k]?).map Node.norm
  ty : ∀ a, g.attTy a = g'.attTy a
  tags : ∀ a, fieldTags (g.attMeta a) = fieldTags (g'.attMeta a)
  name : ∀ nm a, effName nm (g.attMeta a) = effName nm (g'.attMeta a)

/-- **Congruence.** Two graphs that agree on sorted attribute lists, attribute types, field
    tags and effective names hash identically from every node, with every `seen` table. -/
theorem hash_congr (g g' : Graph) (f : Flags) (h : Agree g g') :
    ∀ fuel n seen, hash g f fuel n seen = hash g' f fuel n seen := by
  intro fuel
  induction fuel with
  | zero => intro n seen; rfl
  | succ fuel ih =>
    intro n seen
    have ihf : hash g f fuel = hash g' f fuel := by funext n s; exact ih n s
    have hn := h.nodes n
    unfold hash
    cases hk : g.nodes[n]? with
    | none =>
      cases hk' : g'.nodes[n]? with
      | none => rfl
      | some b => rw [hk, hk'] at hn; simp at hn
    | some a =>
      cases hk' : g'.nodes[n]? with
      | none => rw [hk, hk'] at hn; simp at hn
      | some b =>
        rw [hk, hk'] at hn
        simp only [Option.map_some, Option.some.injEq] at hn
        cases a <;> cases b <;>
          simp only [Node.norm, reduceCtorEq, Node.prim.injEq, Node.arr.injEq, Node.map.injEq,
            Node.obj.injEq, Node.union.injEq, Node.user.injEq] at hn
        · subst hn; rfl
        · subst hn; simp only [ihf, h.ty]
        · obtain ⟨h1, h2⟩ := hn; subst h1; subst h2; simp only [ihf, h.ty]
        · simp only [ihf, h.ty, h.tags, hn]
        · obtain ⟨h1, h2⟩ := hn
          subst h1
          simp only [ihf, h.ty, h2]
        · obtain ⟨h1, h2, h3⟩ := hn; subst h1; subst h2; subst h3
          simp only [ihf, h.ty, h.tags, h.name]

end GoaVerif.TypeHash
