import GoaVerif.Model.Errors
/-! Helper lemmas for C18 (kept apart from the property statements). -/
namespace GoaVerif.Errors

@[simp] theorem asSvc_svc (e : SE) : asSvc (.svc e) = e := rfl

theorem SE.history_ne_nil (e : SE) : e.history ≠ [] := by
  unfold SE.history
  split
  · simp
  · rename_i h; intro h2; simp [h2] at h

theorem mergeSE_history (e o : SE) : (mergeSE e o).history = e.history ++ o.history := by
  have h : (e.history ++ o.history).isEmpty = false := by
    have := SE.history_ne_nil e
    cases he : e.history with
    | nil => exact absurd he this
    | cons a l => simp
  show (if (e.history ++ o.history).isEmpty then _ else e.history ++ o.history) = _
  simp [h]

theorem mergeSE_assoc (a b c : SE) : mergeSE (mergeSE a b) c = mergeSE a (mergeSE b c) := by
  apply SE.ext
  · show (if (mergeSE a b).name == "error" then c.name else (mergeSE a b).name)
        = (if a.name == "error" then (mergeSE b c).name else a.name)
    simp only [mergeSE]
    by_cases ha : a.name = "error" <;> by_cases hb : b.name = "error" <;> simp [ha, hb]
  · rfl
  · show (mergeSE a b).msg ++ "; " ++ c.msg = a.msg ++ "; " ++ (mergeSE b c).msg
    simp only [mergeSE, String.append_assoc]
  · show ((mergeSE a b).timeout && c.timeout) = (a.timeout && (mergeSE b c).timeout)
    simp only [mergeSE, Bool.and_assoc]
  · show ((mergeSE a b).temporary && c.temporary) = (a.temporary && (mergeSE b c).temporary)
    simp only [mergeSE, Bool.and_assoc]
  · show ((mergeSE a b).fault && c.fault) = (a.fault && (mergeSE b c).fault)
    simp only [mergeSE, Bool.and_assoc]
  · show (mergeSE a b).history ++ c.history = a.history ++ (mergeSE b c).history
    rw [mergeSE_history, mergeSE_history, List.append_assoc]
  · show (mergeSE a b).causes ++ c.causes = a.causes ++ (mergeSE b c).causes
    simp only [mergeSE, List.append_assoc]

@[simp] theorem merge_nil_left' (x : GoErr) : merge .nil x = x := by
  cases x <;> rfl

@[simp] theorem merge_nil_right' (x : GoErr) : merge x .nil = x := by
  cases x <;> rfl

theorem merge_nonnil (x y : GoErr) (hx : x ≠ .nil) (hy : y ≠ .nil) :
    merge x y = .svc (mergeSE (asSvc x) (asSvc y)) := by
  cases x <;> cases y <;> first | rfl | (exfalso; first | exact hx rfl | exact hy rfl)

theorem merge_assoc' (x y z : GoErr) : merge (merge x y) z = merge x (merge y z) := by
  by_cases hx : x = .nil
  · subst hx; simp
  by_cases hy : y = .nil
  · subst hy; simp
  by_cases hz : z = .nil
  · subst hz; simp
  rw [merge_nonnil x y hx hy, merge_nonnil y z hy hz]
  rw [merge_nonnil _ z (by simp) hz, merge_nonnil x _ hx (by simp)]
  simp only [asSvc_svc, mergeSE_assoc]

theorem mergeList_append (l₁ l₂ : List GoErr) :
    mergeList (l₁ ++ l₂) = merge (mergeList l₁) (mergeList l₂) := by
  induction l₁ with
  | nil => simp [mergeList]
  | cons a l ih => simp [mergeList, ih, merge_assoc']

theorem mergeList_filter_nil (l : List GoErr) :
    mergeList (l.filter GoErr.nonNil) = mergeList l := by
  induction l with
  | nil => rfl
  | cons a l ih =>
    cases a <;> simp [List.filter_cons, GoErr.nonNil, mergeList, ih]

/-- View of a non-nil result as a service error (what `errors.As` returns). -/
theorem mergeList_cons_cons (a b : GoErr) (l : List GoErr)
    (ha : a ≠ .nil) (hl : ∀ x ∈ b :: l, x ≠ GoErr.nil) :
    mergeList (a :: b :: l) = .svc (mergeSE (asSvc a) (asSvc (mergeList (b :: l)))) := by
  have hne : mergeList (b :: l) ≠ .nil := by
    cases l with
    | nil => simpa [mergeList] using hl b (by simp)
    | cons c l' =>
      have hb := hl b (by simp)
      have : mergeList (c :: l') = .nil ∨ mergeList (c :: l') ≠ .nil := by
        by_cases h : mergeList (c :: l') = .nil <;> simp [h]
      show merge b (mergeList (c :: l')) ≠ .nil
      rcases this with h | h
      · rw [h]; simpa using hb
      · rw [merge_nonnil b _ hb h]; simp
  show merge a (mergeList (b :: l)) = _
  exact merge_nonnil a _ ha hne

end GoaVerif.Errors

namespace GoaVerif.Errors

theorem mergeTree_eq_mergeList (t : Tree) : mergeTree t = mergeList t.leaves := by
  induction t with
  | leaf e => simp [mergeTree, Tree.leaves, mergeList]
  | node l r ihl ihr => simp [mergeTree, Tree.leaves, mergeList_append, ihl, ihr]

theorem mergeList_ne_nil (a : GoErr) (l : List GoErr) (h : ∀ x ∈ a :: l, x ≠ GoErr.nil) :
    mergeList (a :: l) ≠ .nil := by
  have ha := h a (by simp)
  cases l with
  | nil => simpa [mergeList] using ha
  | cons b l' =>
    rw [mergeList_cons_cons a b l' ha (fun x hx => h x (by simp [List.mem_cons] at hx ⊢; right; exact hx))]
    simp

/-- The five closed forms, for a non-empty sequence of non-nil errors. -/
theorem mergeList_view (a : GoErr) (l : List GoErr) (h : ∀ x ∈ a :: l, x ≠ GoErr.nil) :
    let r := asSvc (mergeList (a :: l))
    let vs := (a :: l).map asSvc
    r.name = firstSpecific (vs.map (·.name)) ∧
    r.msg = joinMsgs (vs.map (·.msg)) ∧
    r.timeout = vs.all (·.timeout) ∧
    r.temporary = vs.all (·.temporary) ∧
    r.fault = vs.all (·.fault) ∧
    r.history = vs.flatMap (·.history) ∧
    r.causes = vs.flatMap (·.causes) ∧
    r.field = (asSvc a).field := by
  induction l generalizing a with
  | nil =>
    simp [mergeList, firstSpecific, joinMsgs]
  | cons b l' ih =>
    have ha := h a (by simp)
    have hbl : ∀ x ∈ b :: l', x ≠ GoErr.nil := fun x hx => h x (by
      simp only [List.mem_cons] at hx ⊢; right; exact hx)
    obtain ⟨i1, i2, i3, i4, i5, i6, i7, _⟩ := ih b hbl
    rw [mergeList_cons_cons a b l' ha hbl]
    simp only [asSvc_svc, List.map_cons, List.all_cons, List.flatMap_cons] at *
    refine ⟨?_, ?_, ?_, ?_, ?_, ?_, ?_, ?_⟩
    · show (if (asSvc a).name == "error" then _ else _) = _
      rw [i1]; simp [firstSpecific]
    · show (asSvc a).msg ++ "; " ++ _ = _
      rw [i2]; simp [joinMsgs]
    · show ((asSvc a).timeout && _) = _
      rw [i3]
    · show ((asSvc a).temporary && _) = _
      rw [i4]
    · show ((asSvc a).fault && _) = _
      rw [i5]
    · rw [mergeSE_history, i6]
    · show (asSvc a).causes ++ _ = _
      rw [i7]
    · rfl

end GoaVerif.Errors
