import GoaVerif.Model.Schema
/-! Helper lemmas for `schema_iff_valid` (Props/C14.lean). -/
namespace GoaVerif.Schema
open GoaVerif.Validation

theorem isEmpty_ite {α} (c : Prop) [Decidable c] (x : α) : (if c then [x] else []).isEmpty = !decide c := by
  by_cases h : c <;> simp [h]

theorem isEmpty_app {α} (a b : List α) : (a ++ b).isEmpty = (a.isEmpty && b.isEmpty) := by
  cases a <;> simp

theorem isEmpty_flatMap {α β} (f : α → List β) : ∀ (l : List α), (l.flatMap f).isEmpty = l.all fun a => (f a).isEmpty
  | [] => rfl
  | a :: l => by simp [List.flatMap_cons, isEmpty_app, isEmpty_flatMap f l]

theorem all_congr' {α} (p q : α → Bool) : ∀ (l : List α), (∀ a ∈ l, p a = q a) → l.all p = l.all q
  | [], _ => rfl
  | a :: l, h => by
    simp only [List.all_cons, h a (List.mem_cons_self ..)]
    rw [all_congr' p q l (fun b hb => h b (List.mem_cons_of_mem _ hb))]

theorem any_decide (l : List Rat') (x : Rat') :
    (l.any fun y => y.beq x) = !decide (∀ y ∈ l, y.beq x = false) := by
  cases h : l.any fun y => y.beq x
  · have hall : ∀ y ∈ l, y.beq x = false := fun y hy => by simpa using List.any_eq_false.mp h y hy
    rw [decide_eq_true hall]; rfl
  · obtain ⟨y, hy, hb⟩ := List.any_eq_true.mp h
    have hn : ¬ ∀ y ∈ l, y.beq x = false := fun hall => by rw [hall y hy] at hb; cases hb
    rw [decide_eq_false hn]; rfl

theorem prim_bool (n : Nat) (r : Rules) (v : Val) :
    accepts (n+1) (schemaOf (.prim .boolean r)) v = (violations (n+1) (.prim .boolean r) v).isEmpty := by
  cases v <;> simp [schemaOf, accepts, violations]

theorem prim_str (n : Nat) (r : Rules) (v : Val) :
    accepts (n+1) (schemaOf (.prim .string r)) v = (violations (n+1) (.prim .string r) v).isEmpty := by
  cases v <;> simp [schemaOf, accepts, violations, strOK]
  rename_i s f p
  simp only [isEmpty_app, isEmpty_ite]
  cases r.hasEnum <;> cases r.format <;> cases r.pattern <;> cases f <;> cases p <;> simp

theorem prim_bytes (n : Nat) (r : Rules) (v : Val) (h : agree (.prim .bytes r) = true) :
    accepts (n+1) (schemaOf (.prim .bytes r)) v = (violations (n+1) (.prim .bytes r) v).isEmpty := by
  simp only [agree, Bool.and_eq_true, Option.isNone_iff_eq_none] at h
  cases v <;> simp [schemaOf, accepts, violations, lengthViol, h.1, h.2]

theorem prim_num (n : Nat) (i : Bool) (lo hi : Option Int) (r : Rules) (v : Val)
    (h : agree (.prim (.number i lo hi) r) = true) :
    accepts (n+1) (schemaOf (.prim (.number i lo hi) r)) v = (violations (n+1) (.prim (.number i lo hi) r) v).isEmpty := by
  cases i
  · simp only [agree, Bool.false_eq_true, if_false, Bool.and_eq_true, Option.isNone_iff_eq_none] at h
    obtain ⟨rfl, rfl⟩ := h
    cases v <;> simp [schemaOf, accepts, violations, numOK]
    simp [isEmpty_app, isEmpty_ite, ← any_decide]
  · simp only [agree, if_true, Bool.and_eq_true, beq_iff_eq] at h
    obtain ⟨h1, h2⟩ := h
    cases v <;> try (simp [schemaOf, accepts, violations]; done)
    rename_i x
    simp only [schemaOf, if_true, accepts, violations, numOK, ← h1, ← h2, Bool.not_true, Bool.false_or]
    generalize (x.den == 1) = D
    rcases lo with _ | l <;> rcases hi with _ | hh <;> simp only []
    · cases D <;> simp [isEmpty_app, isEmpty_ite, ← any_decide]
    · by_cases hB : x.num ≤ hh * (x.den : Int) <;> cases D <;> simp [hB, isEmpty_app, isEmpty_ite, ← any_decide]
    · by_cases hA : l * (x.den : Int) ≤ x.num <;> cases D <;> simp [hA, isEmpty_app, isEmpty_ite, ← any_decide]
    · by_cases hA : l * (x.den : Int) ≤ x.num <;> by_cases hB : x.num ≤ hh * (x.den : Int) <;> cases D <;>
        simp [hA, hB, isEmpty_app, isEmpty_ite, ← any_decide]

/-- map keys: an unconstrained string key attribute against the key schema -/
theorem key_ok (n : Nat) (kr : Rules) (k : Val)
    (h : (!kr.hasEnum && !kr.format && !kr.pattern && kr.minLen.isNone && kr.maxLen.isNone) = true) :
    accepts n (.string false {}) k = (violations n (.prim .string kr) k).isEmpty := by
  simp only [Bool.and_eq_true, Bool.not_eq_true', Option.isNone_iff_eq_none] at h
  obtain ⟨⟨⟨⟨h1, h2⟩, h3⟩, h4⟩, h5⟩ := h
  cases n with
  | zero => simp [accepts, violations]
  | succ m => cases k <;> simp [accepts, violations, strOK, lengthViol, h1, h2, h3, h4, h5]

theorem schemaFields_eq (fields : List (String × Bool × Att)) :
    schemaOf.schemaFields fields = fields.map fun f => (f.1, schemaOf f.2.2) := by
  induction fields with
  | nil => rfl
  | cons f rest ih => obtain ⟨n, b, a⟩ := f; simp [schemaOf.schemaFields, ih]

theorem requiredOf_mem (fields : List (String × Bool × Att)) (name : String) :
    name ∈ schemaOf.requiredOf fields ↔ ∃ a, (name, true, a) ∈ fields := by
  induction fields with
  | nil => simp [schemaOf.requiredOf]
  | cons g rest ih =>
    obtain ⟨gn, gb, ga⟩ := g
    cases gb
    · simp only [schemaOf.requiredOf, ih, List.mem_cons, Prod.mk.injEq, Bool.true_eq_false, false_and, and_false, false_or]
    · simp only [schemaOf.requiredOf, List.mem_cons, ih, Prod.mk.injEq, true_and]
      constructor
      · rintro (rfl | ⟨a, ha⟩)
        · exact ⟨ga, Or.inl ⟨rfl, rfl⟩⟩
        · exact ⟨a, Or.inr ha⟩
      · rintro ⟨a, (⟨rfl, rfl⟩ | ha)⟩
        · exact Or.inl rfl
        · exact Or.inr ⟨a, ha⟩

theorem distinct_inj (fields : List (String × Bool × Att)) (hd : agree.distinctNames fields = true) :
    ∀ f ∈ fields, ∀ g ∈ fields, f.1 = g.1 → f = g := by
  induction fields with
  | nil => intro f hf; cases hf
  | cons x rest ih =>
    obtain ⟨xn, xb, xa⟩ := x
    simp only [agree.distinctNames, Bool.and_eq_true, Bool.not_eq_true'] at hd
    have hno : ∀ y ∈ rest, y.1 ≠ xn := fun y hy e => by
      have := List.any_eq_false.mp hd.1 y hy
      simp [e] at this
    intro f hf g hg hfg
    rcases List.mem_cons.mp hf with rfl | hf' <;> rcases List.mem_cons.mp hg with rfl | hg'
    · rfl
    · exact absurd hfg.symm (hno g hg')
    · exact absurd hfg (hno f hf')
    · exact ih hd.2 f hf' g hg' hfg

theorem requiredOf_contains (fields : List (String × Bool × Att)) (hd : agree.distinctNames fields = true)
    (f : String × Bool × Att) (hf : f ∈ fields) : (schemaOf.requiredOf fields).contains f.1 = f.2.1 := by
  obtain ⟨fn, fb, fa⟩ := f
  cases fb
  · have hn : ¬ fn ∈ schemaOf.requiredOf fields := by
      rw [requiredOf_mem]
      rintro ⟨a, ha⟩
      have := distinct_inj fields hd _ hf _ ha rfl
      simp at this
    simpa using hn
  · have hy : fn ∈ schemaOf.requiredOf fields := (requiredOf_mem fields fn).mpr ⟨fa, hf⟩
    simpa using hy

theorem agreeFields_mem (fields : List (String × Bool × Att)) (h : agree.agreeFields fields = true)
    (f : String × Bool × Att) (hf : f ∈ fields) : agree f.2.2 = true := by
  induction fields with
  | nil => cases hf
  | cons g rest ih =>
    obtain ⟨gn, gb, ga⟩ := g
    simp only [agree.agreeFields, Bool.and_eq_true] at h
    rcases List.mem_cons.mp hf with rfl | hin
    · exact h.1
    · exact ih h.2 hin

end GoaVerif.Schema
