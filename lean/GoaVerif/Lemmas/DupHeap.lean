import GoaVerif.Model.DupHeap
/-!
Lemmas for the heap model of `Dup` (C13): a copy only appends cells (and overwrites cells it
allocated itself), so the original region of the heap is untouched (frame); every pointer stored
in a cell of the copy leads to another cell of the copy or to a shared primitive (freshness).
`n0` is the size of the heap before the copy started.
-/
namespace GoaVerif.DupHeap

variable (n0 : Nat)

structure Ext (σ σ' : St) : Prop where
  len : σ.heap.length ≤ σ'.heap.length
  frame : ∀ i, i < n0 → σ'.heap[i]? = σ.heap[i]?

theorem Ext.refl (σ : St) : Ext n0 σ σ := ⟨Nat.le_refl _, fun _ _ => rfl⟩

theorem Ext.trans {a b c : St} (h1 : Ext n0 a b) (h2 : Ext n0 b c) : Ext n0 a c :=
  ⟨Nat.le_trans h1.len h2.len, fun i hi => (h2.frame i hi).trans (h1.frame i hi)⟩

def FreshOrPrim (σ : St) (r : Nat) : Prop := n0 ≤ r ∨ ∃ n, σ.heap[r]? = some (.prim n)

theorem FreshOrPrim.ext {σ σ' : St} {r : Nat} (h : FreshOrPrim n0 σ r) (e : Ext n0 σ σ') : FreshOrPrim n0 σ' r := by
  rcases h with h | ⟨n, h⟩
  · exact Or.inl h
  · by_cases hr : r < n0
    · exact Or.inr ⟨n, by rw [e.frame r hr]; exact h⟩
    · exact Or.inl (Nat.le_of_not_lt hr)

def MemoFresh (σ : St) : Prop := ∀ p ∈ σ.uts, n0 ≤ p.2

/-- every cell of the copy (address ≥ n0) is either still being built (`pending`) or stores only
    pointers to the copy or to primitives -/
def NewOK (pending : List Nat) (σ : St) : Prop :=
  ∀ j c, n0 ≤ j → σ.heap[j]? = some c → j ∈ pending ∨ ∀ p ∈ c.ptrs, FreshOrPrim n0 σ p

structure Good (pending : List Nat) (σ : St) : Prop where
  size : n0 ≤ σ.heap.length
  memo : MemoFresh n0 σ
  newok : NewOK n0 pending σ

theorem alloc_spec (pending : List Nat) (σ : St) (c : Cell) (hg : Good n0 pending σ)
    (hc : ∀ p ∈ c.ptrs, FreshOrPrim n0 σ p) :
    Good n0 pending (alloc σ c).2 ∧ Ext n0 σ (alloc σ c).2 ∧ n0 ≤ (alloc σ c).1 := by
  have hext : Ext n0 σ (alloc σ c).2 := by
    refine ⟨by simp [alloc], fun i hi => ?_⟩
    simp only [alloc]
    exact List.getElem?_append_left (Nat.lt_of_lt_of_le hi hg.size)
  refine ⟨⟨?_, hg.memo, ?_⟩, hext, hg.size⟩
  · simp only [alloc, List.length_append, List.length_singleton]; exact Nat.le_succ_of_le hg.size
  · intro j c' hj hget
    simp only [alloc] at hget
    by_cases hlt : j < σ.heap.length
    · rw [List.getElem?_append_left hlt] at hget
      rcases hg.newok j c' hj hget with h | h
      · exact Or.inl h
      · exact Or.inr fun p hp => (h p hp).ext n0 hext
    · have hge : σ.heap.length ≤ j := Nat.le_of_not_lt hlt
      rw [List.getElem?_append_right hge] at hget
      have : j - σ.heap.length = 0 := by
        by_cases h0 : j - σ.heap.length = 0
        · exact h0
        · have : ([c] : List Cell)[j - σ.heap.length]? = none := by
            apply List.getElem?_eq_none; simp; omega
          rw [this] at hget; simp at hget
      rw [this] at hget
      simp at hget
      subst hget
      exact Or.inr fun p hp => (hc p hp).ext n0 hext

theorem dupBlob_spec (pending : List Nat) (σ σ' : St) (b b' : Option Nat) (hg : Good n0 pending σ)
    (h : dupBlob σ b = some (b', σ')) :
    Good n0 pending σ' ∧ Ext n0 σ σ' ∧ ∀ q ∈ b'.toList, n0 ≤ q := by
  cases b with
  | none =>
    simp only [dupBlob, Option.some.injEq, Prod.mk.injEq] at h
    obtain ⟨rfl, rfl⟩ := h
    exact ⟨hg, Ext.refl n0 σ, by simp⟩
  | some a =>
    simp only [dupBlob] at h
    split at h
    · rename_i s _
      simp only [Option.some.injEq, Prod.mk.injEq] at h
      obtain ⟨rfl, rfl⟩ := h
      have := alloc_spec n0 pending σ (.blob s) hg (by simp [Cell.ptrs])
      exact ⟨this.1, this.2.1, by simpa using this.2.2⟩
    · simp at h

theorem dupList_spec (pending : List Nat) (f : Nat → St → Option (Nat × St))
    (hf : ∀ a σ r σ', Good n0 pending σ → f a σ = some (r, σ') → Good n0 pending σ' ∧ Ext n0 σ σ' ∧ n0 ≤ r) :
    ∀ (fs : List (String × Nat)) (σ : St) (fs' : List (String × Nat)) (σ' : St), Good n0 pending σ →
      dupList f fs σ = some (fs', σ') → Good n0 pending σ' ∧ Ext n0 σ σ' ∧ ∀ q ∈ fs'.map (·.2), n0 ≤ q := by
  intro fs
  induction fs with
  | nil =>
    intro σ fs' σ' hg h
    simp only [dupList, Option.some.injEq, Prod.mk.injEq] at h
    obtain ⟨rfl, rfl⟩ := h
    exact ⟨hg, Ext.refl n0 σ, by simp⟩
  | cons x fs ih =>
    intro σ fs' σ' hg h
    obtain ⟨n, a⟩ := x
    simp only [dupList] at h
    split at h
    · simp at h
    · rename_i a' σ1 h1
      split at h
      · simp at h
      · rename_i fs2 σ2 h2
        simp only [Option.some.injEq, Prod.mk.injEq] at h
        obtain ⟨rfl, rfl⟩ := h
        have s1 := hf a σ a' σ1 hg h1
        have s2 := ih σ1 fs2 σ2 s1.1 h2
        refine ⟨s2.1, s1.2.1.trans n0 s2.2.1, ?_⟩
        intro q hq
        simp only [List.map_cons, List.mem_cons] at hq
        rcases hq with rfl | hq
        · exact s1.2.2
        · exact s2.2.2 q hq

theorem good_weaken {pending : List Nat} {σ : St} (u : Nat) (h : Good n0 pending σ) : Good n0 (u :: pending) σ :=
  ⟨h.size, h.memo, fun j c hj hget => (h.newok j c hj hget).imp (List.mem_cons_of_mem _) id⟩

/-- specification of `DupType` / `DupAttribute` -/
theorem dup_spec : ∀ (fuel : Nat) (pending : List Nat) (mode : Mode) (x : Nat) (σ : St) (r : Nat) (σ' : St),
    Good n0 pending σ → dup fuel mode x σ = some (r, σ') →
      Good n0 pending σ' ∧ Ext n0 σ σ' ∧ FreshOrPrim n0 σ' r ∧ (mode = .att → n0 ≤ r) := by
  intro fuel
  induction fuel with
  | zero => intro _ _ _ _ _ _ _ h; simp [dup] at h
  | succ fuel ih =>
    intro pending mode x σ r σ' hg h
    have ihatt : ∀ (pending : List Nat) a σ r σ', Good n0 pending σ → dup fuel .att a σ = some (r, σ') →
        Good n0 pending σ' ∧ Ext n0 σ σ' ∧ n0 ≤ r :=
      fun pending a σ r σ' hg h => let s := ih pending .att a σ r σ' hg h; ⟨s.1, s.2.1, s.2.2.2 rfl⟩
    cases mode with
    | att =>
      simp only [dup] at h
      split at h
      · rename_i t m v hx
        split at h
        · simp at h
        · rename_i v' σ1 hv
          split at h
          · simp at h
          · rename_i m' σ2 hm
            split at h
            · simp at h
            · rename_i t' σ3 ht
              simp only [Option.some.injEq, Prod.mk.injEq] at h
              have sv := dupBlob_spec n0 pending σ σ1 v v' hg hv
              have sm := dupBlob_spec n0 pending σ1 σ2 m m' sv.1 hm
              have st := ih pending .typ t σ2 t' σ3 sm.1 ht
              have e23 := st.2.1
              have hptrs : ∀ p ∈ (Cell.att t' m' v').ptrs, FreshOrPrim n0 σ3 p := by
                intro p hp
                simp only [Cell.ptrs, List.mem_cons, List.mem_append] at hp
                rcases hp with rfl | hp | hp
                · exact st.2.2.1
                · exact Or.inl (sm.2.2 p hp)
                · exact Or.inl (sv.2.2 p hp)
              have sa := alloc_spec n0 pending σ3 (.att t' m' v') st.1 hptrs
              obtain ⟨rfl, rfl⟩ := h
              exact ⟨sa.1, ((sv.2.1.trans n0 sm.2.1).trans n0 e23).trans n0 sa.2.1, Or.inl sa.2.2, fun _ => sa.2.2⟩
      · simp at h
    | typ =>
      simp only [dup] at h
      split at h
      · -- primitive: shared
        rename_i n hx
        simp only [Option.some.injEq, Prod.mk.injEq] at h
        obtain ⟨rfl, rfl⟩ := h
        exact ⟨hg, Ext.refl n0 σ, Or.inr ⟨n, hx⟩, by simp⟩
      · -- array
        rename_i e hx
        split at h
        · simp at h
        · rename_i e' σ1 he
          simp only [Option.some.injEq, Prod.mk.injEq] at h
          have se := ihatt pending e σ e' σ1 hg he
          have sa := alloc_spec n0 pending σ1 (.arr e') se.1 (by simp [Cell.ptrs]; exact Or.inl se.2.2)
          obtain ⟨rfl, rfl⟩ := h
          exact ⟨sa.1, se.2.1.trans n0 sa.2.1, Or.inl sa.2.2, by simp⟩
      · -- map
        rename_i k e hx
        split at h
        · simp at h
        · rename_i k' σ1 hk
          split at h
          · simp at h
          · rename_i e' σ2 he
            simp only [Option.some.injEq, Prod.mk.injEq] at h
            have sk := ihatt pending k σ k' σ1 hg hk
            have se := ihatt pending e σ1 e' σ2 sk.1 he
            have sa := alloc_spec n0 pending σ2 (.map k' e') se.1 (by
              intro p hp
              simp only [Cell.ptrs, List.mem_cons, List.mem_singleton, List.not_mem_nil, or_false] at hp
              rcases hp with rfl | rfl
              · exact Or.inl sk.2.2
              · exact Or.inl se.2.2)
            obtain ⟨rfl, rfl⟩ := h
            exact ⟨sa.1, (sk.2.1.trans n0 se.2.1).trans n0 sa.2.1, Or.inl sa.2.2, by simp⟩
      · -- object
        rename_i fs hx
        split at h
        · simp at h
        · rename_i fs' σ1 hl
          simp only [Option.some.injEq, Prod.mk.injEq] at h
          have sl := dupList_spec n0 pending (dup fuel .att) (ihatt pending) fs σ fs' σ1 hg hl
          have sa := alloc_spec n0 pending σ1 (.obj fs') sl.1 (fun p hp => Or.inl (sl.2.2 p (by simpa [Cell.ptrs] using hp)))
          obtain ⟨rfl, rfl⟩ := h
          exact ⟨sa.1, sl.2.1.trans n0 sa.2.1, Or.inl sa.2.2, by simp⟩
      · -- union
        rename_i nm vs hx
        split at h
        · simp at h
        · rename_i vs' σ1 hl
          simp only [Option.some.injEq, Prod.mk.injEq] at h
          have sl := dupList_spec n0 pending (dup fuel .att) (ihatt pending) vs σ vs' σ1 hg hl
          have sa := alloc_spec n0 pending σ1 (.union nm vs') sl.1 (fun p hp => Or.inl (sl.2.2 p (by simpa [Cell.ptrs] using hp)))
          obtain ⟨rfl, rfl⟩ := h
          exact ⟨sa.1, sl.2.1.trans n0 sa.2.1, Or.inl sa.2.2, by simp⟩
      · -- user type
        rename_i id a views hx
        split at h
        · -- already copied in this Dup
          rename_i u hu
          simp only [Option.some.injEq, Prod.mk.injEq] at h
          obtain ⟨rfl, rfl⟩ := h
          have : n0 ≤ u := hg.memo (id, u) (by
            have := List.lookup_eq_some_iff.mp hu
            obtain ⟨l1, l2, e, _⟩ := this
            rw [e]; simp)
          exact ⟨hg, Ext.refl n0 σ, Or.inl this, by simp⟩
        · rename_i hu
          simp only [alloc] at h
          split at h
          · simp at h
          · rename_i a' σ2 ha
            simp only [Option.some.injEq, Prod.mk.injEq] at h
            obtain ⟨rfl, rfl⟩ := h
            -- the state the attribute is copied in: the shallow copy is allocated and memoised, pending
            let u := σ.heap.length
            let σ1 : St := { heap := σ.heap ++ [.user id a views], uts := (id, u) :: σ.uts }
            have hu0 : n0 ≤ u := hg.size
            have e01 : Ext n0 σ σ1 :=
              ⟨by simp [σ1], fun i hi => List.getElem?_append_left (Nat.lt_of_lt_of_le hi hg.size)⟩
            have hg1 : Good n0 (u :: pending) σ1 := by
              refine ⟨by simp [σ1]; exact Nat.le_succ_of_le hg.size, ?_, ?_⟩
              · intro p hp
                simp only [σ1, List.mem_cons] at hp
                rcases hp with rfl | hp
                · exact hu0
                · exact hg.memo p hp
              · intro j c hj hget
                by_cases hlt : j < σ.heap.length
                · simp only [σ1] at hget
                  rw [List.getElem?_append_left hlt] at hget
                  rcases hg.newok j c hj hget with h | h
                  · exact Or.inl (List.mem_cons_of_mem _ h)
                  · exact Or.inr fun p hp => (h p hp).ext n0 e01
                · have : j = u := by
                    by_cases hj2 : j = u
                    · exact hj2
                    · have : σ1.heap[j]? = none := by
                        apply List.getElem?_eq_none; simp [σ1]; show σ.heap.length + 1 ≤ j; omega
                      rw [this] at hget; simp at hget
                  exact Or.inl (by rw [this]; exact List.mem_cons_self ..)
            have sa := ih (u :: pending) .att a σ1 a' σ2 hg1 ha
            have hlen2 : u < σ2.heap.length := Nat.lt_of_lt_of_le (by simp [σ1, u]) sa.2.1.len
            have eset : Ext n0 σ2 { σ2 with heap := σ2.heap.set u (.user id a' views) } :=
              ⟨by simp, fun i hi => by
                simp only
                rw [List.getElem?_set_ne (by omega)]⟩
            refine ⟨⟨?_, sa.1.memo, ?_⟩, (e01.trans n0 sa.2.1).trans n0 eset, Or.inl hu0, by simp⟩
            · simp; exact sa.1.size
            · intro j c hj hget
              simp only at hget
              by_cases hju : j = u
              · subst hju
                rw [List.getElem?_set_self hlen2] at hget
                simp only [Option.some.injEq] at hget
                subst hget
                refine Or.inr fun p hp => ?_
                simp only [Cell.ptrs, List.mem_singleton] at hp
                subst hp
                exact Or.inl (sa.2.2.2 rfl)
              · rw [List.getElem?_set_ne (Ne.symm hju)] at hget
                rcases sa.1.newok j c hj hget with h | h
                · rcases List.mem_cons.mp h with h | h
                  · exact absurd h hju
                  · exact Or.inl h
                · exact Or.inr fun p hp => (h p hp).ext n0 eset
      · simp at h

end GoaVerif.DupHeap
