import GoaVerif.Lemmas.ValCode
/-!
The specification `violations` and the generator model `compile` recurse with a fuel argument (their
types are nested inductives). These lemmas show the fuel is only a device: above the depth of the value
(resp. of the attribute) the result does not depend on it — so the drivers' choice (token count + 2) is
immaterial.
-/
namespace GoaVerif.ValCode
open GoaVerif.Validation

mutual
/-- nesting depth of a value -/
def vdepth : Val → Nat
  | .arr vs => 1 + vdepthL vs
  | .map kvs => 1 + vdepthP kvs
  | .obj fs => 1 + vdepthF fs
  | _ => 0
def vdepthL : List Val → Nat
  | [] => 0
  | v :: vs => max (vdepth v) (vdepthL vs)
def vdepthP : List (Val × Val) → Nat
  | [] => 0
  | (k, v) :: r => max (max (vdepth k) (vdepth v)) (vdepthP r)
def vdepthF : List (String × Val) → Nat
  | [] => 0
  | (_, v) :: r => max (vdepth v) (vdepthF r)
end

theorem vdepthL_mem {v : Val} {vs : List Val} (h : v ∈ vs) : vdepth v ≤ vdepthL vs := by
  induction vs with
  | nil => simp at h
  | cons x xs ih =>
    simp only [vdepthL]
    rcases List.mem_cons.mp h with rfl | h
    · exact Nat.le_max_left _ _
    · exact Nat.le_trans (ih h) (Nat.le_max_right _ _)

theorem vdepthP_mem {kv : Val × Val} {kvs : List (Val × Val)} (h : kv ∈ kvs) :
    vdepth kv.1 ≤ vdepthP kvs ∧ vdepth kv.2 ≤ vdepthP kvs := by
  induction kvs with
  | nil => simp at h
  | cons x xs ih =>
    obtain ⟨k, v⟩ := x
    simp only [vdepthP]
    rcases List.mem_cons.mp h with rfl | h
    · exact ⟨Nat.le_trans (Nat.le_max_left _ _) (Nat.le_max_left _ _), Nat.le_trans (Nat.le_max_right _ _) (Nat.le_max_left _ _)⟩
    · exact ⟨Nat.le_trans (ih h).1 (Nat.le_max_right _ _), Nat.le_trans (ih h).2 (Nat.le_max_right _ _)⟩

theorem vdepthF_mem {nv : String × Val} {fs : List (String × Val)} (h : nv ∈ fs) : vdepth nv.2 ≤ vdepthF fs := by
  induction fs with
  | nil => simp at h
  | cons x xs ih =>
    obtain ⟨n, v⟩ := x
    simp only [vdepthF]
    rcases List.mem_cons.mp h with rfl | h
    · exact Nat.le_max_left _ _
    · exact Nat.le_trans (ih h) (Nat.le_max_right _ _)

theorem vdepth_fieldVal (n : String) (vals : List (String × Val)) : vdepth (fieldVal n vals) ≤ vdepthF vals := by
  unfold fieldVal
  cases h : vals.find? (fun p => p.1 == n) with
  | none => simp [vdepth]
  | some nv =>
    obtain ⟨m, v⟩ := nv
    exact vdepthF_mem (List.mem_of_find?_eq_some h)

theorem flatMap_congr' {α β} {l : List α} {f g : α → List β} (h : ∀ a ∈ l, f a = g a) : l.flatMap f = l.flatMap g := by
  induction l with
  | nil => rfl
  | cons x xs ih =>
    simp only [List.flatMap_cons]
    rw [h x (List.mem_cons_self ..), ih (fun a ha => h a (List.mem_cons_of_mem _ ha))]

/-- above the depth of the value, one more unit of fuel changes nothing -/
theorem violations_succ : ∀ (f : Nat) (a : Att) (v : Val), vdepth v < f → violations f a v = violations (f + 1) a v := by
  intro f
  induction f with
  | zero => intro a v h; omega
  | succ f ih =>
    intro a v h
    cases a with
    | prim k r => cases k <;> cases v <;> simp [violations]
    | arr r e =>
      cases v with
      | arr vs =>
        simp only [violations]
        congr 1
        apply flatMap_congr'
        intro e' he'
        apply ih
        have := vdepthL_mem he'
        simp only [vdepth] at h
        omega
      | _ => simp [violations]
    | map r k e =>
      cases v with
      | map kvs =>
        simp only [violations]
        congr 1
        apply flatMap_congr'
        intro kv hkv
        have := vdepthP_mem hkv
        simp only [vdepth] at h
        rw [ih k kv.1 (by omega), ih e kv.2 (by omega)]
      | _ => simp [violations]
    | obj fields =>
      cases v with
      | obj vals =>
        rw [violations_obj, violations_obj]
        apply flatMap_congr'
        intro fl _
        unfold specField
        have hd := vdepth_fieldVal fl.1 vals
        simp only [vdepth] at h
        cases hv : fieldVal fl.1 vals <;> simp only []
        all_goals (rw [hv] at hd; exact ih fl.2.2 _ (by omega))
      | _ => simp [violations]

/-- **the fuel is immaterial**: any two amounts of fuel above the depth of the value give the same verdict -/
theorem violations_fuel_indep (f g : Nat) (a : Att) (v : Val) (hf : vdepth v < f) (hg : vdepth v < g) :
    violations f a v = violations g a v := by
  have up : ∀ d f, vdepth v < f → violations f a v = violations (f + d) a v := by
    intro d
    induction d with
    | zero => intro f _; rfl
    | succ d ih => intro f hf; rw [ih f hf, violations_succ (f + d) a v (by omega)]; rfl
  rcases Nat.le_total f g with h | h
  · obtain ⟨d, rfl⟩ := Nat.exists_eq_add_of_le h
    exact up d f hf
  · obtain ⟨d, rfl⟩ := Nat.exists_eq_add_of_le h
    exact (up d g hg).symm

mutual
/-- nesting depth of an attribute -/
def adepth : Att → Nat
  | .prim _ _ => 0
  | .arr _ e => 1 + adepth e
  | .map _ k e => 1 + max (adepth k) (adepth e)
  | .obj fs => 1 + adepthF fs
def adepthF : List (String × Bool × Att) → Nat
  | [] => 0
  | (_, _, a) :: r => max (adepth a) (adepthF r)
end

theorem adepthF_mem {fl : String × Bool × Att} {fs : List (String × Bool × Att)} (h : fl ∈ fs) : adepth fl.2.2 ≤ adepthF fs := by
  induction fs with
  | nil => simp at h
  | cons x xs ih =>
    obtain ⟨n, r, a⟩ := x
    simp only [adepthF]
    rcases List.mem_cons.mp h with rfl | h
    · exact Nat.le_max_left _ _
    · exact Nat.le_trans (ih h) (Nat.le_max_right _ _)

/-- above the depth of the attribute the generator model emits the same code with one more unit of fuel -/
theorem compile_succ : ∀ (f : Nat) (p req : Bool) (a : Att), adepth a < f → compile f p req a = compile (f + 1) p req a := by
  intro f
  induction f with
  | zero => intro p req a h; omega
  | succ f ih =>
    intro p req a h
    cases a with
    | prim k r => simp [compile]
    | arr r e =>
      simp only [adepth] at h
      simp only [compile]
      rw [ih _ true e (by omega)]
    | map r k e =>
      simp only [adepth] at h
      simp only [compile]
      rw [ih false true k (by omega), ih false true e (by omega)]
    | obj fields =>
      simp only [adepth] at h
      simp only [compile]
      congr 1
      apply flatMap_congr'
      intro fl hfl
      have := adepthF_mem hfl
      rw [ih p fl.2.1 fl.2.2 (by omega)]

theorem compile_fuel_indep (f g : Nat) (p req : Bool) (a : Att) (hf : adepth a < f) (hg : adepth a < g) :
    compile f p req a = compile g p req a := by
  have up : ∀ d f, adepth a < f → compile f p req a = compile (f + d) p req a := by
    intro d
    induction d with
    | zero => intro f _; rfl
    | succ d ih => intro f hf; rw [ih f hf, compile_succ (f + d) p req a (by omega)]; rfl
  rcases Nat.le_total f g with h | h
  · obtain ⟨d, rfl⟩ := Nat.exists_eq_add_of_le h
    exact up d f hf
  · obtain ⟨d, rfl⟩ := Nat.exists_eq_add_of_le h
    exact (up d g hg).symm

end GoaVerif.ValCode
