import GoaVerif.Model.ValCode
/-!
Lemmas relating the emitted validation code (`ValCode.compile` read by `ValCode.run`) to the
specification (`Validation.violations`). The property theorems are in `Props/C04.lean`.
-/
namespace GoaVerif.ValCode
open GoaVerif.Validation

/-! ### the hypotheses of the theorems, as decidable predicates -/

/-- the decoder's part of the specification: the value has the shape of the attribute (what is
    not so is an `invalid_field_type` of the decoder, never seen by the validation code).
    Absent values occur as object fields only. -/
def numTypeOk (isInt : Bool) (lo hi : Option Int) (x : Rat') : Bool :=
  (!isInt || x.den == 1) &&
  (match lo with | some l => decide (l * x.den ≤ x.num) | none => true) &&
  (match hi with | some h => decide (x.num ≤ h * x.den) | none => true)

def typed : Nat → Att → Val → Bool
  | 0, _, _ => true
  | _ + 1, .prim .boolean _, .bool _ => true
  | _ + 1, .prim (.number i lo hi) _, .num x => numTypeOk i lo hi x
  | _ + 1, .prim .string _, .str _ _ _ => true
  | _ + 1, .prim .bytes _, .bytes _ => true
  | f + 1, .arr _ e, .arr vs => vs.all (typed f e)
  | f + 1, .map _ k e, .map kvs => kvs.all (fun kv => typed f k kv.1 && typed f e kv.2)
  | f + 1, .obj fields, .obj vals =>
    fields.all (fun fl => match fieldVal fl.1 vals with
      | .absent => true
      | v => typed f fl.2.2 v)
  | _, _, _ => false

/-- objects occur only where the generator works with `Pointer = true` (not below a map) -/
def okCtx : Nat → Bool → Att → Bool
  | 0, _, _ => true
  | _ + 1, _, .prim _ _ => true
  | f + 1, p, .arr _ e => okCtx f (if p && isPrim e then false else p) e
  | f + 1, _, .map _ k e => okCtx f false k && okCtx f false e
  | f + 1, p, .obj fields => p && fields.all (fun fl => okCtx f p fl.2.2)

def rulesOK (r : Rules) : Bool := !(r.exMin.isSome && r.exMax.isSome)

/-- no attribute carries both exclusive bounds (known finding: the second one is not checked) -/
def noBothEx : Nat → Att → Bool
  | 0, _ => true
  | _ + 1, .prim _ r => rulesOK r
  | f + 1, .arr _ e => noBothEx f e
  | f + 1, .map _ k e => noBothEx f k && noBothEx f e
  | f + 1, .obj fields => fields.all (fun fl => noBothEx f fl.2.2)

def minLenOf : Att → Option Nat
  | .arr r _ => r.minLen
  | .map r _ _ => r.minLen
  | _ => none

/-- no absent array or map field has a positive minimum length (known finding: `len(nil) < min`) -/
def collOK : Nat → Att → Val → Bool
  | 0, _, _ => true
  | f + 1, .arr _ e, .arr vs => vs.all (collOK f e)
  | f + 1, .map _ k e, .map kvs => kvs.all (fun kv => collOK f k kv.1 && collOK f e kv.2)
  | f + 1, .obj fields, .obj vals =>
    fields.all (fun fl => match fieldVal fl.1 vals with
      | .absent => (match minLenOf fl.2.2 with | some (_ + 1) => false | _ => true)
      | v => collOK f fl.2.2 v)
  | _, _, _ => true

/-! ### reading the code -/

@[simp] theorem runL_nil (v : Val) : runL [] v = [] := by simp [runL]
@[simp] theorem runL_cons (c : Code) (cs : List Code) (v : Val) : runL (c :: cs) v = run c v ++ runL cs v := by
  simp [runL]

theorem runL_append (a b : List Code) (v : Val) : runL (a ++ b) v = runL a v ++ runL b v := by
  induction a with
  | nil => simp
  | cons c cs ih => simp [ih]

theorem mem_runL {x : Viol} {cs : List Code} {v : Val} : x ∈ runL cs v ↔ ∃ c ∈ cs, x ∈ run c v := by
  induction cs with
  | nil => simp
  | cons c cs ih => simp [ih]

theorem runL_eq_nil {cs : List Code} {v : Val} : runL cs v = [] ↔ ∀ c ∈ cs, run c v = [] := by
  induction cs with
  | nil => simp
  | cons c cs ih => simp [ih]

theorem runL_flatMap {α} (l : List α) (g : α → List Code) (v : Val) :
    runL (l.flatMap g) v = l.flatMap (fun a => runL (g a) v) := by
  induction l with
  | nil => simp
  | cons a l ih => simp [runL_append, ih]

/-- a present value passes a nil guard -/
def present : Val → Bool
  | .absent => false
  | _ => true

theorem run_ifNonNil_present {b : List Code} {v : Val} (h : present v = true) : run (.ifNonNil b) v = runL b v := by
  cases v <;> simp_all [run, present]

@[simp] theorem run_ifNonNil_absent (b : List Code) : run (.ifNonNil b) .absent = [] := by simp [run]

theorem run_wrap_present (g : Bool) (c : Code) {v : Val} (h : present v = true) : run (wrap g c) v = run c v := by
  unfold wrap
  cases g
  · simp
  · simp [run_ifNonNil_present h]

@[simp] theorem run_wrap_true_absent (c : Code) : run (wrap true c) .absent = [] := by simp [wrap]

theorem runL_finishAttr_present (p req : Bool) (a : Att) (code : List Code) {v : Val} (h : present v = true) :
    runL (finishAttr p req a code) v = runL code v := by
  unfold finishAttr
  cases code with
  | nil => simp
  | cons c cs =>
    simp only [List.isEmpty_cons, Bool.false_eq_true, if_false]
    split
    · rfl
    · split
      · rfl
      · split
        · rfl
        · simp [run_ifNonNil_present h]

theorem typed_present {f : Nat} {a : Att} {v : Val} (h : typed (f + 1) a v = true) : present v = true := by
  cases v <;> cases a <;> simp_all [typed, present]

/-! ### primitives -/

theorem run_check (viol : Viol) (c : Cond) (v : Val) : run (.check viol c) v = if c.fires v then [viol] else [] := by
  simp [run]

theorem range_complete (r : Rules) (g : Bool) (x : Rat') (y : Viol) (hr : rulesOK r = true)
    (hy : y ∈ rangeViol r x) : y ∈ runL (rangeChecks r g) (.num x) := by
  have hp : present (.num x) = true := rfl
  unfold rulesOK at hr
  unfold rangeViol at hy
  unfold rangeChecks exMaxCond
  cases h1 : r.exMin <;> cases h2 : r.min <;> cases h3 : r.exMax <;> cases h4 : r.max <;>
    simp_all [run_wrap_present, run_check, Cond.fires] <;> grind

theorem range_sound (r : Rules) (g : Bool) (x : Rat') (hy : rangeViol r x = []) :
    runL (rangeChecks r g) (.num x) = [] := by
  have hp : present (.num x) = true := rfl
  unfold rangeViol at hy
  unfold rangeChecks exMaxCond
  cases h1 : r.exMin <;> cases h2 : r.min <;> cases h3 : r.exMax <;> cases h4 : r.max <;>
    simp_all [run_wrap_present, run_check, Cond.fires]

theorem len_complete (r : Rules) (v : Val) (y : Viol) (hy : y ∈ lengthViol r (goLen v)) :
    y ∈ runL (lenChecks r) v := by
  unfold lengthViol at hy
  unfold lenChecks
  cases h1 : r.minLen <;> cases h2 : r.maxLen <;> simp_all [run_check, Cond.fires]

theorem len_sound (r : Rules) (v : Val) (hy : lengthViol r (goLen v) = []) : runL (lenChecks r) v = [] := by
  unfold lengthViol at hy
  unfold lenChecks
  cases h1 : r.minLen <;> cases h2 : r.maxLen <;> simp_all [run_check, Cond.fires]

theorem rune_complete (r : Rules) (g : Bool) (s : String) (fo po : Bool) (y : Viol) (hy : y ∈ lengthViol r s.length) :
    y ∈ runL (runeChecks r g) (.str s fo po) := by
  have hp : present (.str s fo po) = true := rfl
  unfold lengthViol at hy
  unfold runeChecks
  cases h1 : r.minLen <;> cases h2 : r.maxLen <;> simp_all [run_wrap_present, run_check, Cond.fires]

theorem rune_sound (r : Rules) (g : Bool) (s : String) (fo po : Bool) (hy : lengthViol r s.length = []) :
    runL (runeChecks r g) (.str s fo po) = [] := by
  have hp : present (.str s fo po) = true := rfl
  unfold lengthViol at hy
  unfold runeChecks
  cases h1 : r.minLen <;> cases h2 : r.maxLen <;> simp_all [run_wrap_present, run_check, Cond.fires]

theorem violations_num (f : Nat) (i : Bool) (lo hi : Option Int) (r : Rules) (x : Rat') :
    violations (f + 1) (.prim (.number i lo hi) r) (.num x) =
      if (!numTypeOk i lo hi x) = true then [.invalidFieldType]
      else (if (r.hasEnum && !(r.enumNums.any (·.beq x))) = true then [.invalidEnumValue] else []) ++ rangeViol r x := by
  simp only [violations, numTypeOk]
  cases lo <;> cases hi <;> rfl

/-- every rule a well-typed present primitive breaks is reported by the emitted checks -/
theorem prim_complete (f : Nat) (k : Kind) (r : Rules) (g : Bool) (v : Val) (y : Viol)
    (ht : typed (f + 1) (.prim k r) v = true) (hr : rulesOK r = true)
    (hy : y ∈ violations (f + 1) (.prim k r) v) : y ∈ runL (primChecks k r g) v := by
  cases k with
  | boolean => cases v <;> simp_all [typed, violations]
  | number i lo hi =>
    cases v <;> simp [typed] at ht
    rename_i x
    have hp : present (.num x) = true := rfl
    rw [violations_num] at hy
    simp only [ht, Bool.not_true, Bool.false_eq_true, if_false, List.mem_append] at hy
    unfold primChecks
    simp only [runL_append, List.mem_append]
    rcases hy with hy | hy
    · left
      by_cases he : r.hasEnum = true
      · simp_all [run_wrap_present, run_check, Cond.fires]
      · simp_all
    · right; exact range_complete r g x y hr hy
  | string =>
    cases v <;> simp [typed] at ht
    rename_i s fo po
    have hp : present (.str s fo po) = true := rfl
    simp only [violations, List.mem_append] at hy
    unfold primChecks
    simp only [runL_append, List.mem_append]
    rcases hy with ((hy | hy) | hy) | hy
    · left; left; left
      by_cases he : r.hasEnum = true
      · simp_all [run_wrap_present, run_check, Cond.fires]
      · simp_all
    · left; left; right
      by_cases he : r.format = true
      · simp_all [run_wrap_present, run_check, Cond.fires]
      · simp_all
    · left; right
      by_cases he : r.pattern = true
      · simp_all [run_wrap_present, run_check, Cond.fires]
      · simp_all
    · right; exact rune_complete r g s fo po y hy
  | bytes =>
    cases v <;> simp [typed] at ht
    rename_i n
    simp only [violations] at hy
    exact len_complete r (.bytes n) y hy

/-- the emitted checks are silent on a well-typed present primitive that breaks no rule -/
theorem prim_sound (f : Nat) (k : Kind) (r : Rules) (g : Bool) (v : Val)
    (ht : typed (f + 1) (.prim k r) v = true)
    (hy : violations (f + 1) (.prim k r) v = []) : runL (primChecks k r g) v = [] := by
  cases k with
  | boolean => simp [primChecks]
  | number i lo hi =>
    cases v <;> simp [typed] at ht
    rename_i x
    have hp : present (.num x) = true := rfl
    rw [violations_num] at hy
    simp only [ht, Bool.not_true, Bool.false_eq_true, if_false, List.append_eq_nil_iff] at hy
    unfold primChecks
    simp only [runL_append, List.append_eq_nil_iff]
    refine ⟨?_, range_sound r g x hy.2⟩
    by_cases he : r.hasEnum = true
    · simp_all [run_wrap_present, run_check, Cond.fires]
    · simp_all
  | string =>
    cases v <;> simp [typed] at ht
    rename_i s fo po
    have hp : present (.str s fo po) = true := rfl
    simp only [violations, List.append_eq_nil_iff] at hy
    unfold primChecks
    simp only [runL_append, List.append_eq_nil_iff]
    refine ⟨⟨⟨?_, ?_⟩, ?_⟩, rune_sound r g s fo po hy.2⟩
    · by_cases he : r.hasEnum = true
      · simp_all [run_wrap_present, run_check, Cond.fires]
      · simp_all
    · by_cases he : r.format = true
      · simp_all [run_wrap_present, run_check, Cond.fires]
      · simp_all
    · by_cases he : r.pattern = true
      · simp_all [run_wrap_present, run_check, Cond.fires]
      · simp_all
  | bytes =>
    cases v <;> simp [typed] at ht
    rename_i n
    simp only [violations] at hy
    exact len_sound r (.bytes n) hy

/-! ### the recursion -/

theorem violations_absent (f : Nat) (a : Att) : violations f a .absent = [] := by
  cases f <;> cases a <;> simp [violations]

theorem mem_violations_present {f : Nat} {a : Att} {v : Val} {y : Viol} (h : y ∈ violations f a v) : present v = true := by
  cases v with
  | absent => simp [violations_absent] at h
  | _ => rfl

/-- the specification of an object, field by field, in terms of `fieldVal` -/
def specField (f : Nat) (vals : List (String × Val)) (fl : String × Bool × Att) : List Viol :=
  match fieldVal fl.1 vals with
  | .absent => if fl.2.1 then [.missingField] else []
  | v => violations f fl.2.2 v

theorem violations_obj (f : Nat) (fields : List (String × Bool × Att)) (vals : List (String × Val)) :
    violations (f + 1) (.obj fields) (.obj vals) = fields.flatMap (specField f vals) := by
  simp only [violations]
  congr 1
  funext fl
  unfold specField fieldVal
  cases h : vals.find? (fun p => p.1 == fl.1) with
  | none => simp
  | some nv =>
    obtain ⟨n, v⟩ := nv
    cases v <;> simp

theorem specField_absent {f : Nat} {vals : List (String × Val)} {fl : String × Bool × Att}
    (h : fieldVal fl.1 vals = .absent) : specField f vals fl = if fl.2.1 then [.missingField] else [] := by
  unfold specField; rw [h]

theorem specField_present {f : Nat} {vals : List (String × Val)} {fl : String × Bool × Att}
    (h : present (fieldVal fl.1 vals) = true) : specField f vals fl = violations f fl.2.2 (fieldVal fl.1 vals) := by
  unfold specField
  cases hv : fieldVal fl.1 vals <;> simp_all [present]

theorem typed_field {f : Nat} {fields : List (String × Bool × Att)} {vals : List (String × Val)}
    (ht : typed (f + 1) (.obj fields) (.obj vals) = true) {fl : String × Bool × Att} (hfl : fl ∈ fields)
    (hp : present (fieldVal fl.1 vals) = true) : typed f fl.2.2 (fieldVal fl.1 vals) = true := by
  simp only [typed, List.all_eq_true] at ht
  have := ht fl hfl
  cases hv : fieldVal fl.1 vals <;> simp_all [present]

theorem collOK_field {f : Nat} {fields : List (String × Bool × Att)} {vals : List (String × Val)}
    (ht : collOK (f + 1) (.obj fields) (.obj vals) = true) {fl : String × Bool × Att} (hfl : fl ∈ fields)
    (hp : present (fieldVal fl.1 vals) = true) : collOK f fl.2.2 (fieldVal fl.1 vals) = true := by
  simp only [collOK, List.all_eq_true] at ht
  have := ht fl hfl
  cases hv : fieldVal fl.1 vals <;> simp_all [present]

theorem nonempty_of_mem_runL {y : Viol} {c : List Code} {v : Val} (h : y ∈ runL c v) : c.isEmpty = false := by
  cases c with
  | nil => simp at h
  | cons _ _ => rfl

/-- **completeness of the emitted code**: every rule a well-typed value breaks is reported -/
theorem compile_complete : ∀ (f : Nat) (p req : Bool) (a : Att) (v : Val) (y : Viol),
    okCtx f p a = true → typed f a v = true → noBothEx f a = true →
    y ∈ violations f a v → y ∈ runL (compile f p req a) v := by
  intro f
  induction f with
  | zero => intro p req a v y _ _ _ hy; simp [violations] at hy
  | succ f ih =>
    intro p req a v y hok ht hex hy
    cases a with
    | prim k r =>
      simp only [compile]
      exact prim_complete f k r _ v y ht (by simpa [noBothEx] using hex) hy
    | arr r e =>
      cases v <;> simp [typed] at ht
      rename_i vs
      simp only [violations, List.mem_append, List.mem_flatMap] at hy
      simp only [compile, runL_append, List.mem_append]
      rcases hy with hy | ⟨e', he', hy⟩
      · left; exact len_complete r (.arr vs) y hy
      · right
        have hp := mem_violations_present hy
        have hin := ih (if p && isPrim e then false else p) true e e' y
          (by simpa [okCtx] using hok) (ht e' he') (by simpa [noBothEx] using hex) hy
        rw [← runL_finishAttr_present (if p && isPrim e then false else p) true e _ hp] at hin
        have hne := nonempty_of_mem_runL hin
        simp only [hne, Bool.false_eq_true, if_false, runL_cons, runL_nil, List.append_nil, run, List.mem_flatMap]
        exact ⟨e', he', hin⟩
    | map r k e =>
      cases v <;> simp [typed] at ht
      rename_i kvs
      simp only [violations, List.mem_append, List.mem_flatMap] at hy
      simp only [compile, runL_append, List.mem_append]
      simp only [okCtx, Bool.and_eq_true] at hok
      simp only [noBothEx, Bool.and_eq_true] at hex
      rcases hy with hy | ⟨kv, hkv, hy | hy⟩
      · left; exact len_complete r (.map kvs) y hy
      · right
        have hp := mem_violations_present hy
        have hin := ih false true k kv.1 y hok.1 (ht kv.1 kv.2 hkv).1 hex.1 hy
        rw [← runL_finishAttr_present false true k _ hp] at hin
        have hne := nonempty_of_mem_runL hin
        simp only [hne, Bool.false_and, Bool.false_eq_true, if_false, runL_cons, runL_nil, List.append_nil, run,
          List.mem_flatMap, List.mem_append]
        exact ⟨kv, hkv, Or.inl hin⟩
      · right
        have hp := mem_violations_present hy
        have hin := ih false true e kv.2 y hok.2 (ht kv.1 kv.2 hkv).2 hex.2 hy
        rw [← runL_finishAttr_present false true e _ hp] at hin
        have hne := nonempty_of_mem_runL hin
        simp only [hne, Bool.and_false, Bool.false_eq_true, if_false, runL_cons, runL_nil, List.append_nil, run,
          List.mem_flatMap, List.mem_append]
        exact ⟨kv, hkv, Or.inr hin⟩
    | obj fields =>
      cases v with
      | obj vals =>
        rw [violations_obj, List.mem_flatMap] at hy
        obtain ⟨fl, hfl, hy⟩ := hy
        simp only [okCtx, Bool.and_eq_true, List.all_eq_true] at hok
        simp only [noBothEx, List.all_eq_true] at hex
        obtain ⟨hp1, hok⟩ := hok
        subst hp1
        simp only [compile, runL_append, List.mem_append]
        cases hfv : present (fieldVal fl.1 vals) with
        | false =>
          have habs : fieldVal fl.1 vals = .absent := by
            cases h' : fieldVal fl.1 vals <;> simp_all [present]
          rw [specField_absent habs] at hy
          left
          rw [mem_runL]
          refine ⟨.missing fl.1, ?_, ?_⟩
          · simp only [List.mem_map, List.mem_filter]
            refine ⟨fl, ⟨hfl, ?_⟩, rfl⟩
            by_cases hr : fl.2.1 = true
            · simp [hr]
            · simp [hr] at hy
          · by_cases hr : fl.2.1 = true
            · simp [hr] at hy
              simp [run, habs, hy]
            · simp [hr] at hy
        | true =>
          rw [specField_present hfv] at hy
          right
          have hin := ih true fl.2.1 fl.2.2 (fieldVal fl.1 vals) y (hok fl hfl) (typed_field ht hfl hfv) (hex fl hfl) hy
          rw [← runL_finishAttr_present true fl.2.1 fl.2.2 _ hfv] at hin
          have hne := nonempty_of_mem_runL hin
          rw [runL_flatMap, List.mem_flatMap]
          refine ⟨fl, hfl, ?_⟩
          simp only [hne, Bool.false_eq_true, if_false, runL_cons, runL_nil, List.append_nil, run]
          exact hin
      | _ => simp [typed] at ht

/-! ### soundness of the gate -/

theorem runL_finishAttr_nil (p req : Bool) (a : Att) (code : List Code) (v : Val) (h : runL code v = []) :
    runL (finishAttr p req a code) v = [] := by
  unfold finishAttr
  split
  · simp
  · split
    · exact h
    · split
      · exact h
      · split
        · exact h
        · cases v <;> simp_all [run]

theorem range_absent (r : Rules) : runL (rangeChecks r true) .absent = [] := by
  unfold rangeChecks
  cases r.exMin <;> cases r.min <;> cases r.exMax <;> cases r.max <;> simp

theorem rune_absent (r : Rules) : runL (runeChecks r true) .absent = [] := by
  unfold runeChecks
  cases r.minLen <;> cases r.maxLen <;> simp

theorem each_part_nil (c : List Code) (v : Val) (h : run (.each c) v = []) :
    runL (if c.isEmpty then [] else [Code.each c]) v = [] := by
  split <;> simp [h]

theorem kv_part_nil (kc ec : List Code) (v : Val) (h : run (.eachKV kc ec) v = []) :
    runL (if kc.isEmpty && ec.isEmpty then [] else [Code.eachKV kc ec]) v = [] := by
  split <;> simp [h]

/-- the code of an absent (nil) field is silent, unless the field is an array or a map with a
    positive minimum length -/
theorem absent_silent (f : Nat) (req : Bool) (a : Att)
    (hm : (match minLenOf a with | some (_ + 1) => false | _ => true) = true) :
    runL (finishAttr true req a (compile f true req a)) .absent = [] := by
  cases f with
  | zero => simp [compile, finishAttr]
  | succ f =>
    cases a with
    | prim k r =>
      simp only [compile, Bool.true_or]
      cases k with
      | boolean => simp [primChecks, finishAttr]
      | number i lo hi =>
        apply runL_finishAttr_nil
        unfold primChecks
        cases r.hasEnum <;> simp [range_absent]
      | string =>
        apply runL_finishAttr_nil
        unfold primChecks
        cases r.hasEnum <;> cases r.format <;> cases r.pattern <;> simp [rune_absent]
      | bytes =>
        unfold primChecks lenChecks finishAttr
        cases r.minLen <;> cases r.maxLen <;> simp [isColl, startsWithGuard]
    | arr r e =>
      apply runL_finishAttr_nil
      simp only [minLenOf] at hm
      simp only [compile, runL_append]
      have h1 : runL (lenChecks r) .absent = [] := by
        unfold lenChecks
        cases h : r.minLen with
        | none => cases r.maxLen <;> simp [run_check, Cond.fires, goLen]
        | some m =>
          cases m with
          | zero => cases r.maxLen <;> simp [run_check, Cond.fires, goLen]
          | succ m => simp [h] at hm
      rw [h1, List.nil_append]
      exact each_part_nil _ _ (by simp [run])
    | map r k e =>
      apply runL_finishAttr_nil
      simp only [minLenOf] at hm
      simp only [compile, runL_append]
      have h1 : runL (lenChecks r) .absent = [] := by
        unfold lenChecks
        cases h : r.minLen with
        | none => cases r.maxLen <;> simp [run_check, Cond.fires, goLen]
        | some m =>
          cases m with
          | zero => cases r.maxLen <;> simp [run_check, Cond.fires, goLen]
          | succ m => simp [h] at hm
      rw [h1, List.nil_append]
      exact kv_part_nil _ _ _ (by simp [run])
    | obj fields =>
      apply runL_finishAttr_nil
      simp only [compile, runL_append, List.append_eq_nil_iff]
      constructor
      · rw [runL_eq_nil]
        intro c hc
        simp only [List.mem_map] at hc
        obtain ⟨fl, _, rfl⟩ := hc
        simp [run]
      · rw [runL_flatMap]
        simp only [List.flatMap_eq_nil_iff]
        intro fl _
        split <;> simp [run]

/-- **soundness of the gate**: on a well-typed value that breaks no rule the emitted code is silent
    (no absent array/map field with a positive minimum length: `collOK`) -/
theorem compile_sound : ∀ (f : Nat) (p req : Bool) (a : Att) (v : Val),
    okCtx f p a = true → typed f a v = true → collOK f a v = true →
    violations f a v = [] → runL (compile f p req a) v = [] := by
  intro f
  induction f with
  | zero => intro p req a v _ _ _ _; simp [compile]
  | succ f ih =>
    intro p req a v hok ht hc hv
    cases a with
    | prim k r =>
      simp only [compile]
      exact prim_sound f k r _ v ht hv
    | arr r e =>
      cases v <;> simp [typed] at ht
      rename_i vs
      simp only [violations, List.append_eq_nil_iff, List.flatMap_eq_nil_iff] at hv
      simp only [collOK, List.all_eq_true] at hc
      simp only [compile, runL_append, List.append_eq_nil_iff]
      refine ⟨len_sound r (.arr vs) hv.1, ?_⟩
      apply each_part_nil
      simp only [run, List.flatMap_eq_nil_iff]
      intro e' he'
      apply runL_finishAttr_nil
      exact ih _ true e e' (by simpa [okCtx] using hok) (ht e' he') (hc e' he') (hv.2 e' he')
    | map r k e =>
      cases v <;> simp [typed] at ht
      rename_i kvs
      simp only [violations, List.append_eq_nil_iff, List.flatMap_eq_nil_iff] at hv
      simp only [collOK, List.all_eq_true, Bool.and_eq_true] at hc
      simp only [okCtx, Bool.and_eq_true] at hok
      simp only [compile, runL_append, List.append_eq_nil_iff]
      refine ⟨len_sound r (.map kvs) hv.1, ?_⟩
      apply kv_part_nil
      simp only [run, List.flatMap_eq_nil_iff, List.append_eq_nil_iff]
      intro kv hkv
      exact ⟨runL_finishAttr_nil _ _ _ _ _ (ih false true k kv.1 hok.1 (ht kv.1 kv.2 hkv).1 (hc kv hkv).1 (hv.2 kv hkv).1),
               runL_finishAttr_nil _ _ _ _ _ (ih false true e kv.2 hok.2 (ht kv.1 kv.2 hkv).2 (hc kv hkv).2 (hv.2 kv hkv).2)⟩
    | obj fields =>
      cases v with
      | obj vals =>
        rw [violations_obj, List.flatMap_eq_nil_iff] at hv
        simp only [okCtx, Bool.and_eq_true, List.all_eq_true] at hok
        obtain ⟨hp1, hok⟩ := hok
        subst hp1
        simp only [compile, runL_append, List.append_eq_nil_iff]
        constructor
        · rw [runL_eq_nil]
          intro c hcm
          simp only [List.mem_map, List.mem_filter] at hcm
          obtain ⟨fl, ⟨hfl, hreq⟩, rfl⟩ := hcm
          have hs := hv fl hfl
          cases hfv : present (fieldVal fl.1 vals) with
          | false =>
            have habs : fieldVal fl.1 vals = .absent := by
              cases h' : fieldVal fl.1 vals <;> simp_all [present]
            rw [specField_absent habs] at hs
            simp at hreq
            simp [hreq] at hs
          | true =>
            cases h' : fieldVal fl.1 vals <;> simp_all [present, run]
        · rw [runL_flatMap, List.flatMap_eq_nil_iff]
          intro fl hfl
          split
          · simp
          · simp only [runL_cons, runL_nil, List.append_nil, run]
            have hs := hv fl hfl
            cases hfv : present (fieldVal fl.1 vals) with
            | false =>
              have habs : fieldVal fl.1 vals = .absent := by
                cases h' : fieldVal fl.1 vals <;> simp_all [present]
              rw [habs]
              apply absent_silent
              simp only [collOK, List.all_eq_true] at hc
              have := hc fl hfl
              rw [habs] at this
              exact this
            | true =>
              rw [specField_present hfv] at hs
              apply runL_finishAttr_nil
              exact ih true fl.2.1 fl.2.2 _ (hok fl hfl) (typed_field ht hfl hfv) (collOK_field hc hfl hfv) hs
      | _ => simp [typed] at ht

/-! ### pruning: `hasValidations` (with `Pointer = true`: some attribute reachable from the type carries a
validation) decides whether `Validate<Type>` is called at all -/

def rulesEmpty (r : Rules) : Bool :=
  !r.hasEnum && !r.format && !r.pattern && r.min.isNone && r.max.isNone && r.exMin.isNone && r.exMax.isNone &&
  r.minLen.isNone && r.maxLen.isNone

/-- no attribute down to depth `f` carries a validation (no keyword, no required attribute) -/
def noRules : Nat → Att → Bool
  | 0, _ => true
  | _ + 1, .prim _ r => rulesEmpty r
  | f + 1, .arr r e => rulesEmpty r && noRules f e
  | f + 1, .map r k e => rulesEmpty r && noRules f k && noRules f e
  | f + 1, .obj fields => fields.all (fun fl => !fl.2.1 && noRules f fl.2.2)

theorem lenChecks_empty {r : Rules} (h : rulesEmpty r = true) : lenChecks r = [] := by
  simp only [rulesEmpty, Bool.and_eq_true, Option.isNone_iff_eq_none] at h
  simp [lenChecks, h.1.2, h.2]

theorem primChecks_empty {r : Rules} (h : rulesEmpty r = true) (k : Kind) (g : Bool) : primChecks k r g = [] := by
  have hl := lenChecks_empty h
  simp only [rulesEmpty, Bool.and_eq_true, Option.isNone_iff_eq_none, Bool.not_eq_true'] at h
  obtain ⟨⟨⟨⟨⟨⟨⟨⟨h1, h2⟩, h3⟩, h4⟩, h5⟩, h6⟩, h7⟩, h8⟩, h9⟩ := h
  cases k <;> simp [primChecks, rangeChecks, runeChecks, hl, h1, h2, h3, h4, h5, h6, h7, h8, h9]

theorem finishAttr_nil (p req : Bool) (a : Att) : finishAttr p req a [] = [] := by simp [finishAttr]

/-- a type without validations needs no code: the generator emits nothing for it … -/
theorem no_rules_no_code : ∀ (f : Nat) (p req : Bool) (a : Att), noRules f a = true → compile f p req a = [] := by
  intro f
  induction f with
  | zero => intro p req a _; simp [compile]
  | succ f ih =>
    intro p req a h
    cases a with
    | prim k r => simp only [compile]; exact primChecks_empty (by simpa [noRules] using h) k _
    | arr r e =>
      simp only [noRules, Bool.and_eq_true] at h
      simp [compile, lenChecks_empty h.1, ih _ true e h.2, finishAttr_nil]
    | map r k e =>
      simp only [noRules, Bool.and_eq_true] at h
      simp [compile, lenChecks_empty h.1.1, ih false true k h.1.2, ih false true e h.2, finishAttr_nil]
    | obj fields =>
      simp only [noRules, List.all_eq_true, Bool.and_eq_true, Bool.not_eq_true'] at h
      simp only [compile, List.append_eq_nil_iff, List.map_eq_nil_iff, List.filter_eq_nil_iff, List.flatMap_eq_nil_iff]
      constructor
      · intro fl hfl; simp [(h fl hfl).1]
      · intro fl hfl; simp [ih p fl.2.1 fl.2.2 (h fl hfl).2, finishAttr_nil]

theorem lengthViol_empty {r : Rules} (h : rulesEmpty r = true) (n : Nat) : lengthViol r n = [] := by
  simp only [rulesEmpty, Bool.and_eq_true, Option.isNone_iff_eq_none] at h
  simp [lengthViol, h.1.2, h.2]

/-- … and nothing is lost: every well-typed value satisfies it. -/
theorem no_rules_no_violations : ∀ (f : Nat) (a : Att) (v : Val), noRules f a = true → typed f a v = true →
    violations f a v = [] := by
  intro f
  induction f with
  | zero => intro a v _ _; simp [violations]
  | succ f ih =>
    intro a v h ht
    cases a with
    | prim k r =>
      have hr : rulesEmpty r = true := by simpa [noRules] using h
      have hl := lengthViol_empty hr
      simp only [rulesEmpty, Bool.and_eq_true, Option.isNone_iff_eq_none, Bool.not_eq_true'] at hr
      obtain ⟨⟨⟨⟨⟨⟨⟨⟨h1, h2⟩, h3⟩, h4⟩, h5⟩, h6⟩, h7⟩, h8⟩, h9⟩ := hr
      cases k with
      | boolean => cases v <;> simp_all [typed, violations]
      | number i lo hi =>
        cases v <;> simp [typed] at ht
        rw [violations_num]; simp [ht, h1, rangeViol, h4, h5, h6, h7]
      | string =>
        cases v <;> simp [typed] at ht
        simp [violations, h1, h2, h3, hl]
      | bytes =>
        cases v <;> simp [typed] at ht
        simp [violations, hl]
    | arr r e =>
      cases v <;> simp [typed] at ht
      rename_i vs
      simp only [noRules, Bool.and_eq_true] at h
      simp only [violations, lengthViol_empty h.1, List.nil_append, List.flatMap_eq_nil_iff]
      intro e' he'; exact ih e e' h.2 (ht e' he')
    | map r k e =>
      cases v <;> simp [typed] at ht
      rename_i kvs
      simp only [noRules, Bool.and_eq_true] at h
      simp only [violations, lengthViol_empty h.1.1, List.nil_append, List.flatMap_eq_nil_iff, List.append_eq_nil_iff]
      intro kv hkv
      exact ⟨ih k kv.1 h.1.2 (ht kv.1 kv.2 hkv).1, ih e kv.2 h.2 (ht kv.1 kv.2 hkv).2⟩
    | obj fields =>
      cases v with
      | obj vals =>
        simp only [noRules, List.all_eq_true, Bool.and_eq_true, Bool.not_eq_true'] at h
        rw [violations_obj, List.flatMap_eq_nil_iff]
        intro fl hfl
        cases hfv : present (fieldVal fl.1 vals) with
        | false =>
          have habs : fieldVal fl.1 vals = .absent := by
            cases h' : fieldVal fl.1 vals <;> simp_all [present]
          rw [specField_absent habs]; simp [(h fl hfl).1]
        | true =>
          rw [specField_present hfv]
          exact ih fl.2.2 _ (h fl hfl).2 (typed_field ht hfl hfv)
      | _ => simp [typed] at ht

end GoaVerif.ValCode
